"""C20 — gRPC wire fidelity."""
from vlib import common


def key_fn(case, obs, verdict):
    # verdict = "BAD:<kind>:<component>@<index>" — the family is kind + component (no index)
    v = verdict[4:] if verdict.startswith("BAD:") else verdict
    v = v.split("@")[0]
    parts = v.split(":")
    if parts[0] == "scen" and len(parts) >= 3:
        return "scen:" + parts[2]
    return v


def run(ctx):
    common.standard(
        ctx, harness="hC20", extracted="C20_model", driver_dir="C20",
        rule=("non-trivial: grpc/json cases with >=2 entries or metadata on the first entry; scenario cases with >=2 shots "
              "and at least one call definition carrying metadata; any case with reflect_metadata, planned target answers, "
              "think time or latencies; overloaded engine cases (ov=) with at least one discarded token and two shot entries; "
              "distinct = distinct case lines"),
        key_fn=key_fn,
        translators=[("grpcstatus", "GrpcStatusGen.v"), ("grpcdial", "GrpcDialGen.v")],
        bridge_files=["Gen/GrpcStatus_bridge.v", "Gen/GrpcDial_bridge.v", "Properties/C20_wire.v", "Properties/C20_time.v", "Properties/C20_pool.v"],
        trusted=[
            "translator harness/cmd/translate grpcstatus (ConvertGrpcStatus switch -> Gen/GrpcStatusGen.v, used for the sample codes)",
            "translator harness/cmd/translate grpcdial (dial options of MakeGRPCConnect, dial sites, InvokeRpc call options, metadata expression of every "
            "outgoing context, (function, parent context, duration) of every context.WithTimeout/WithDeadline in components/guns/grpc/**.go, "
            "every provider.Release call of core/engine/instance.go "
            "-> Gen/GrpcDialGen.v, bridged by Gen/GrpcDial_bridge.v)",
            "extraction: ExtrOcamlBasic only; OCaml driver ocaml/C20/main.ml + ocaml/common/conv.ml",
            "correspondence harness harness/cmd/hC20 + harness/internal/a20 (in-process examples/grpc/server with reflection and a recording "
            "interceptor that can answer with a planned status instead of running the handler, after a planned latency; real grpc/json provider, grpc gun, grpc/scenario "
            "provider and gun, real engine in mode e)",
            "modelled, not verified: protobuf/JSON codec (oracle `fits`, instantiated for the example service by Model/GrpcExample.v: "
            "string/int64 fields only), text/template (oracles parse_t/exec_t), reflection client, HTTP/2 transport, the target's answers",
        ],
        assumptions=["grpc-go hands the remaining time of the context's deadline to the server (grpc-timeout) and fails a call whose context "
                     "has expired without sending it; transit time on loopback is below 500 ms (recorded deadlines are rounded to seconds)",
                     "grpc-go delivers outgoing-context metadata and the deadline unchanged (keys lower-cased)",
                     "a grpc-go connection dialled with credentials / user-agent / authority options only never re-sends an answered call (policy no_retry)",
                     "jhump/protoreflect dynamic.Message.UnmarshalJSON behaves as the interp function on string/int64 fields"],
    )
