"""C17 — config decoding: unknown keys rejected, defaults kept, values validated, placeholders."""
import binascii
from vlib import common


def _unhex(h):
    if h in ("-", ""):
        return ""
    try:
        return binascii.unhexlify(h).decode("utf-8", "replace")
    except Exception:
        return h


def _path(tok):
    if tok == "-":
        return []
    return [(x[1:] if x[0] == "i" else _unhex(x[1:])) for x in tok.split("/")]


def _type_at(tree_tok, path):
    """type= of the component holding the position (best effort, textual: the plugin type string
    of the pool slot the path goes through)."""
    return ""


def key_fn(case, obs, verdict):
    f = case.split(" ")
    if f[0] == "hdr":
        return "%s@hdr:util.DecodeHTTPConfigHeaders" % verdict.split(" ")[0].replace("BAD:", "")
    if f[0] == "prop":
        return "%s@prop:confutil.PropertyTagResolver" % verdict.split(" ")[0].replace("BAD:", "")
    if f[0] == "env":
        return "%s@env:confutil.EnvTagResolver" % verdict.split(" ")[0].replace("BAD:", "")
    if f[0] == "cast":
        return "%s@cast:confutil.castInt(%s)" % (verdict.split(" ")[0].replace("BAD:", ""), f[1])
    if f[0] == "app":
        return "%s:%s@app:%s(%s)" % (verdict.split(" ")[0].replace("BAD:", ""), f[3], _unhex(f[1]), _unhex(f[2]))
    off = 3 if f[0] == "comp" else (2 if f[0] == "typed" else 1)
    what = verdict.split(" ")[0].replace("BAD:", "")
    mut = f[off].split(":")[0]
    p = _path(f[off + 1])
    if f[0] == "typed":
        where = "generated-struct-type"
    elif f[0] == "comp":
        where = "%s(%s)" % (_unhex(f[1]), _unhex(f[2]))
    else:
        # pools/<i>/<slot>/... -> pool.<slot>; other paths: first key
        if len(p) >= 3 and p[0].lower() == "pools":
            where = "pool." + p[2].lower()
        elif len(p) >= 1:
            where = p[0].lower() if len(p) < 2 else "pool"
        else:
            where = "root"
    return "%s:%s@%s:%s" % (what, mut, f[0], where)


def what_fn(case, obs, verdict):
    f = case.split(" ")
    if f[0] == "hdr":
        return "%s (header list %s; the implementation answered %s)" % (
            verdict.replace("BAD:", ""), [_unhex(x) for x in f[2].split(",")] if f[1] != "0" else [], obs[-40:])
    if f[0] == "prop":
        return "%s (property file %r, key %r; the implementation answered %s)" % (
            verdict.replace("BAD:", ""), _unhex(f[1])[:80], _unhex(f[2]), obs[:60])
    if f[0] == "env":
        return "%s (environment %s, asked %r; the implementation answered %s)" % (
            verdict.replace("BAD:", ""), f[1][:120], _unhex(f[2]), obs[:60])
    if f[0] == "cast":
        return "%s (an option of type %s written ${env:VAR}, VAR=%r; the implementation answered %s)" % (
            verdict.replace("BAD:", ""), f[1], _unhex(f[2]), obs[:60])
    if f[0] == "app":
        return "%s (component %s %s, mutation %s at /%s; the implementation answered %s)" % (
            verdict.replace("BAD:", ""), _unhex(f[1]), _unhex(f[2]), f[3], "/".join(_path(f[4])), obs[:60])
    off = 3 if f[0] == "comp" else (2 if f[0] == "typed" else 1)
    return "%s (mutation %s at /%s; the implementation answered %s)" % (
        verdict.replace("BAD:", ""), f[off].split(":")[0], "/".join(_path(f[off + 1])), obs[:40])


def run(ctx):
    common.standard(
        ctx, harness="hC17", extracted="C17_model", driver_dir="C17",
        rule=("non-trivial: base cases (valid configuration decoded, defaults and discard_overflow checked), and every "
              "mutation case on which the specification constrains the outcome (unknown key at a strict path, wrongly "
              "typed value, value violating its validate tag, missing required value, placeholder, unresolved "
              "placeholder); direct cases of the header-list decoder, of the property-file reader, of the environment resolver and of a placeholder at an integer option of every width (cast); phc cases whose text neither the literal reader nor the text hook of the option takes; rel cases whose section violates a relation between options; ptype / pht cases; app cases on which at least one "
              "held option is judged against the written section and the registered default; distinct = distinct case lines"),
        key_fn=key_fn, what_fn=what_fn,
        translators=[("schema", "ConfigSchemaGen.v")],
        bridge_files=["Gen/ConfigSchema_bridge.v", "Gen/ConfigApplied_bridge.v", "Properties/C17_depth.v", "Properties/C17_ctor.v", "Properties/C17_applied.v", "Properties/C17_rel.v", "Properties/C17_cast.v"],
        trusted=[
            "translator harness/cmd/translate schema (reflection over the real plugin registry after the CLI's imports; package harness/internal/a16schema)",
            "verif hooks in /repo: core/plugin/verif_schema.go (read-only registry listing), cli/verif_export.go (exports readConfig)",
            "extraction: ExtrOcamlBasic only; OCaml driver ocaml/C17/main.ml + ocaml/common/conv.ml",
            "correspondence harness harness/cmd/hC17 (real config.DecodeAndValidate on cli.DefaultConfig() and on every registered default config; cli.readConfig in a subprocess; util.DecodeHeader / util.DecodeHTTPConfigHeaders and confutil.PropertyTagResolver / confutil.EnvTagResolver called directly; component sections through the pluginconfig hook + plugin.New + the registered constructor, products searched by reflection; config.DecodeAndValidate on reflect.StructOf types)",
            "the reflection search for held configurations and the table of constructor-derived options (harness/internal/a16schema/applied.go FindHeld / RulesFor / ctorDerived); tied by the `app` correspondence run",
            "the table of constructor-enforced constraints in harness/internal/a16schema/reflect.go ctorConstraint (which option of which Go config type a constructor checks: http provider Headers); tied by the correspondence run on every component carrying it",
            "the table of relations between options enforced by constructors in harness/internal/a16schema/reflect.go ctorRelations (per interface + registered name + Go config type: file / uris / decoder of the http providers); tied by the `rel` correspondence cases on all five providers and pinned by Gen/ConfigSchema_bridge.v",
            "oracles (Section variables; answered per case by the real libraries through the harness): the entries of the environment (the lookup itself is modelled: env_of_list), the bytes of the property files (the reader itself is modelled), time.ParseDuration, datasize, zapcore.Level.UnmarshalText, strconv.ParseFloat, endpoint/url-path validators; strconv.ParseInt(s, 0, bits) is no longer an oracle of the driver (modelled: Model/ConfigIntLiteral.v parse_int; the answers of the real strconv travel in the case line and are compared with the modelled reader on every text the decoder asks about)",
            "modelled, not verified: mapstructure's decoding rules, validator.v9's tag semantics, the regexp of confutil.findTags (hand-written scanner), viper/YAML reading; component constructors are not modelled (bases are calibrated to construct)",
        ],
        assumptions=["mapstructure v1.5.1, validator.v9 and viper behave as modelled (exercised by the correspondence run)",
                     "strings.EqualFold is modelled for ASCII keys only"],
    )
