"""C05 — run outcome and termination at every finish, failure and cancel point."""
from vlib import common


def key_fn(case, obs, verdict):
    v = verdict.split(" ")[0]
    v = v[4:] if v.startswith("BAD:") else v
    if v.startswith("outcome:warm-up"):
        return "Gun.WarmUp:" + v
    if v.startswith("outcome:shots-beyond"):
        return "ScanAmmoDecoder.Decode:" + v
    if v.startswith("outcome:aggregator-"):
        return "Aggregator.Run:" + v
    if v.startswith("outcome:factory-"):
        return "plugin.NewFactory:" + v
    if v.startswith("outcome") or v.startswith("run-hang"):
        return "Engine.Run:" + v
    if v.startswith("wait-hang") or v.startswith("wait-early") or v.startswith("goroutines"):
        return "Engine.Wait:" + v
    if v.startswith("guns"):
        return "Gun.Close:" + v
    return "C05:" + v


def what_fn(case, obs, verdict):
    return verdict[4:] if verdict.startswith("BAD:") else verdict


def run(ctx):
    common.standard(
        ctx, harness="hC05", extracted="C05_model", driver_dir="C05",
        rule=("non-trivial: a component failure occurred, or a cancel was planned/happened, or the engine had >= 2 pools; "
              "distinct = distinct case lines (fault plan x cancel plan x pools)"),
        key_fn=key_fn, what_fn=what_fn,
        translators=[("runasync", "RunAsyncGen.v"), ("grpcwarmup", "GrpcWarmUpGen.v"), ("gofn-runinst", "GoFnRunInstGen.v"),
                     ("encaggr", "EncAggrGen.v"), ("plugconv", "PlugConvGen.v"),
                     ("scandecode", "ScanDecodeGen.v"), ("jsondecode", "JsonDecodeGen.v")],
        bridge_files=["Gen/RunAsync_bridge.v", "Gen/GrpcWarmUp_bridge.v", "Gen/GoFnRunInst_bridge.v", "Gen/EncAggr_bridge.v",
                      "Gen/PlugConv_bridge.v", "Gen/ScanDecode_bridge.v", "Gen/JsonDecode_bridge.v"],
        trusted=[
            "extraction: ExtrOcamlBasic only; OCaml driver ocaml/C05/main.ml (history tokens -> model events) + ocaml/common/conv.ml",
            "correspondence harness harness/cmd/hC05: real engine.Engine with fault-plan mocks; the receive order of the await loop, "
            "the pool fronts and Engine.Run is read from the engine's own zap log (zaptest/observer), markers are logged before the effect they announce",
            "the real grpc gun's warm-up runs against a hand-written in-process reflection endpoint (harness/cmd/hC05/grpcwarm.go); what the "
            "client library (jhump/protoreflect grpcreflect) makes of the endpoint's answers is abstracted to 'descriptors / error of a status code'",
            "translators encaggr / plugconv / scandecode / jsondecode match the statements of dataSinkAggregator.Run, convertFactoryOutParams + "
            "pluginConstructor.NewFactory, ScanAmmoDecoder.Decode, and errTrackingReader + JSONAmmoDecoder.Decode + the guard statement of "
            "DecodeProvider.Run + passGuard.Seek as normalised source text against the grammar in their headers; the "
            "encoder aggregator's environment (select order, operation outcomes, dropped samples) and reflect values (implementation / "
            "plugin interface / error) are abstractions tied to the code by the recorded operation trace (V) and factory calls (F)",
            "modelled, not verified: instances/start loop/provider/aggregator are producers of one result each (their internals: C03, C06, C08, C12); "
            "liveness of the components (each delivers its result once its context is cancelled) is a hypothesis",
        ],
        assumptions=["Go channels, select, context cancellation and sync.WaitGroup behave as documented",
                     "every component returns from Run/Shoot/Acquire once its context is cancelled (mocks do)"],
        run_timeout=900,
    )
