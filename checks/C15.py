"""C15 — scenario execution: order, multiplicity, variable flow, stop on failure, weights, [next]."""
from vlib import common


def key_fn(case, obs, verdict):
    f = case.split(" ")
    why = verdict.split(":", 1)[1] if ":" in verdict else verdict
    return "%s:%s" % (f[0], why[:70])


def run(ctx):
    common.standard(
        ctx, harness="hC15", extracted="C15_model", driver_dir="C15",
        rule=("non-trivial: pp cases in a documented form with well-formed name and literals; gcd/gcdm cases with positive arguments; "
              "build cases with >=2 scenarios; shot cases with >=2 shots or a failing step; every inst case; iter cases with >=2 goroutines; csv cases judged by csv_spec with >=2 lines and a tab/blank delimiter, header-named fields or an ignored first line; "
              "distinct = distinct case lines"),
        key_fn=key_fn,
        translators=[("gofn-math", "GoFnMathGen.v")], bridge_files=["Gen/GoFnMath_bridge.v",
                      "Properties/C15_paths.v",   # which [next] counter a path uses (Model/MapPath.v, Proofs/MapPathProofs.v)
                      "Properties/C15_render.v",  # what the templaters render (Model/Templater.v, Proofs/TemplaterProofs.v)
                      "Properties/C15_sources.v"],  # what a file/csv source holds for any delimiter (Model/CsvSource.v); a client that
                                                    # does not follow redirects sends the listed requests only (Model/ScenarioClient.v)
        trusted=[
            "extraction: ExtrOcamlBasic only; OCaml driver ocaml/C15/main.ml (case grammar -> model datatypes, Go fmt map printing) + ocaml/common/conv.ml",
            "correspondence harness harness/cmd/hC15 + harness/internal/a15 (real scenario http.NewProvider, Provider.Run/Acquire, "
            "the http/scenario gun decoded from a pool config's gun section through the plugin registry (registered defaults) + Bind/Shoot, config.ParseShootName, math.GCD/GCDM, mp.NextIterator/GetMapValue; scripted httptest target)",
            "modelled, not verified: text/template, yaml.v2 + config decoding, JSONPath, net/http; strings.TrimSpace for ASCII blanks only; encoding/csv modelled for unquoted fields only",
        ],
        assumptions=["sync.Mutex critical sections of NextIterator.Next are atomic", "text/template renders a map with fmt (sorted keys)"],
    )
