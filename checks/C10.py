"""C10 — sample result coding."""
from vlib import common


def key_fn(case, obs, verdict):
    f = case.split(" ")
    if f[0] == "grpc":
        return "grpc-code-%s" % f[1]
    return "%s:%s" % (f[0], verdict.split(" ")[0])


def run(ctx):
    rule = ("non-trivial: every grpc code case; shoot cases with auto-tag enabled and a path of >=2 bytes; "
            "errno cases with at least one wrapper; ids cases with >=2 goroutines and >=2 ids; distinct = distinct case lines")
    cov = {"rule": rule, "evaluations": 0, "distinct_nontrivial": 0}
    ok_t = common.translate(ctx, "grpcstatus", "GrpcStatusGen.v") and common.translate(ctx, "consts", "ConstGen.v")
    model_ok = ok_t and ctx.coq(["Extract/ExtractC10.vo"], what="model+extraction")
    proofs_ok = model_ok and ctx.properties(extra_files=["Gen/GrpcStatus_bridge.v", "Gen/Const_bridge.v"])
    h = ctx.build_harness("hC10")
    m = ctx.ocaml_model("mC10", "C10_model", "C10") if model_ok else None
    if h and m:
        st = common.correspondence(ctx, h, m, key_fn=key_fn)
        if st:
            cov.update(st)
        # a broken proof/bridge/correspondence: widen the search for a concrete failing input
        if ctx.brokens and not ctx.violations and ctx.quick() and not ctx.replay:
            st2 = common.correspondence(ctx, h, m, key_fn=key_fn, tier="thorough", label="escalated")
            if st2:
                cov["escalated_evaluations"] = st2["evaluations"]
    cov["trusted_base_extra"] = [
        "translator harness/cmd/translate (grpcstatus: go/ast over ConvertGrpcStatus + markdown table; consts: values compiled from /repo)",
        "extraction: ExtrOcamlBasic only; OCaml driver ocaml/C10/main.ml + ocaml/common/conv.ml (zarith for decimal I/O)",
        "correspondence harness harness/cmd/hC10 (real ConvertGrpcStatus, BaseGun.Shoot with scripted client, Sample.SetErr, ProviderBase.NextID)",
        "modelled, not verified: which Go error values the network stack produces; errors.Cause/Underlying unwrapping is modelled by the EWrap constructor",
    ]
    ctx.finish(cov, assumptions=[
        "status.Convert/codes of grpc-go behave as documented",
        "sync/atomic Add is linearizable (ids)",
    ])
