"""C10 — sample result coding."""
from vlib import common


def key_fn(case, obs, verdict):
    f = case.split(" ")
    if f[0] == "grpc":
        return "grpc-code-%s" % f[1]
    return "%s:%s" % (f[0], verdict.split(" ")[0])


def run(ctx):
    common.standard(
        ctx, harness="hC10", extracted="C10_model", driver_dir="C10",
        rule=("non-trivial: every grpc code case; shoot cases with auto-tag enabled and a path of >=2 bytes; "
              "errno cases with at least one wrapper; ids cases with >=2 goroutines and >=2 ids; distinct = distinct case lines"),
        key_fn=key_fn,
        translators=[("grpcstatus", "GrpcStatusGen.v"), ("consts", "ConstGen.v")],
        bridge_files=["Gen/GrpcStatus_bridge.v", "Gen/Const_bridge.v"],
        trusted=[
            "translator harness/cmd/translate (grpcstatus: go/ast over ConvertGrpcStatus + markdown table; consts: values compiled from /repo)",
            "extraction: ExtrOcamlBasic only; OCaml driver ocaml/C10/main.ml + ocaml/common/conv.ml (zarith for decimal I/O)",
            "correspondence harness harness/cmd/hC10 (real ConvertGrpcStatus, BaseGun.Shoot with scripted client, Sample.SetErr, ProviderBase.NextID)",
            "modelled, not verified: which Go error values the network stack produces; errors.Cause/Underlying unwrapping is modelled by the EWrap constructor",
        ],
        assumptions=["status.Convert/codes of grpc-go behave as documented", "sync/atomic Add is linearizable (ids)"],
    )
