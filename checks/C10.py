"""C10 — sample result coding."""
from vlib import common


def key_fn(case, obs, verdict):
    f = case.split(" ")
    if f[0] == "grpc":
        return "grpc-code-%s" % f[1]
    if f[0] == "http":
        # gun + fault + what is wrong: number of samples Shoot reported, or the codes/tags of the one sample
        own = obs.split(" ")[0]
        want_own = "own=0" if f[2].startswith("hookfail") else "own=1"
        what = ("samples-%s" % own.replace("=", "-")) if own != want_own else "sample-fields"
        if "net code" in verdict or "saw no error" in verdict:
            what = "net-code"
        if " late=" in obs and " late=0" not in obs:
            what = "written-after-report"
        return "shoot:%s-gun:%s:%s" % ({"h": "http", "c": "connect"}.get(f[1], f[1]), f[2], what)
    if f[0] == "cfggun":
        return "configured-gun:%s:auto-tag-%s:sample-fields" % (f[1], f[2])
    if f[0] == "gjson":
        return "grpc-json-provider:sample-tag-of-other-ammo"
    if f[0] == "ammo":
        # which part of the samples differs from what the file says
        ot = [w.split(":")[0] for w in obs.split(" ") if w.count(":") == 2]
        wt = [w.split(":")[0] for w in verdict.replace("BAD:expected ", "").split(" ") if w.count(":") == 2]
        what = "ids" if "ids" in verdict and "expected" not in verdict else ("sample-tag" if ot != wt else "sample-fields")
        return "ammo-file:%s:%s" % (f[1], what)
    if f[0] == "phout":
        return "phout-aggregator:recycled-sample-codes"
    if f[0] == "phoutq":
        # fewer / more lines than fired requests, or lines that are not the requests' own
        import re
        m = re.search(r"\(n=(\d+) lines of (\d+)\)", verdict)
        lost = bool(m) and m.group(1) != m.group(2)
        return "phout-aggregator:small-queue:%s" % ("not-one-line-per-request" if lost else "line-fields")
    if f[0] == "engine":
        # the pool run through the real engine: lines lost / run not ending / lines of other requests
        if obs.startswith("err=crash"):
            return "engine-run:startup-%s:engine-crashes" % "+".join(w.split(":")[0] for w in f[2].split("+"))
        if obs.startswith("err=hang"):
            return "engine-run:startup-%s:run-does-not-end" % "+".join(w.split(":")[0] for w in f[2].split("+"))
        import re
        m = re.search(r"\(n=(\d+) lines of (\d+)\)", verdict)
        what = "not-one-line-per-fired-request" if m else ("ids" if "ids" in verdict else "line-fields")
        return "engine-run:startup-%s:%s" % ("+".join(w.split(":")[0] for w in f[2].split("+")), what)
    if f[0] == "scfile":
        if obs == "providererr" or "refuse" in verdict:
            return "scenario-file:%s:provider-acceptance" % f[1]
        n_obs = obs.split(" ")[0]
        n_want = verdict.replace("BAD:expected ", "").split(" ")[0]
        ot = [w.split(":")[0] for w in obs.split(" ") if w.count(":") == 2]
        wt = [w.split(":")[0] for w in verdict.replace("BAD:expected ", "").split(" ") if w.count(":") == 2]
        what = ("count-%s-want-%s" % (n_obs, n_want)) if n_obs != n_want else ("step-tag" if ot != wt else "sample-fields")
        if " late=" in obs and not obs.endswith(" late=0"):
            what = "written-after-report"
        return "scenario-file:%s:%s" % (f[1], what)
    if f[0] in ("hscen", "gscen", "gshoot"):
        n_obs = obs.split(" ")[0]
        n_want = verdict.replace("BAD:expected ", "").split(" ")[0]
        kinds = ",".join(sorted({st.split(":")[1].rstrip("0123456789") for st in f[2].split(",") if ":" in st})) if len(f) > 2 else ""
        what = ("count-%s-want-%s" % (n_obs, n_want)) if n_obs != n_want else "sample-fields"
        if " late=" in obs and not obs.endswith(" late=0"):
            what = "written-after-report"
        return "%s:%s:%s" % (f[0], kinds, what)
    return "%s:%s" % (f[0], verdict.split(" ")[0])


def run(ctx):
    common.standard(
        ctx, harness="hC10", extracted="C10_model", driver_dir="C10",
        rule=("non-trivial: every grpc code case; shoot cases with auto-tag enabled and a path of >=2 bytes; "
              "errno cases with at least one wrapper; ids cases with >=2 goroutines and >=2 ids; http cases through the connect gun, "
              "with a fault or invalid ammo, or with auto-tag on a path of >=2 bytes; scenario cases with >=2 steps; every gshoot case; "
              "distinct = distinct case lines"),
        key_fn=key_fn,
        translators=[("grpcstatus", "GrpcStatusGen.v"), ("consts", "ConstGen.v"), ("gofn-httpgun", "GoFnHttpgunGen.v"), ("pooldeps", "PoolDepsGen.v"), ("awaitrun", "AwaitRunGen.v"), ("jsontarget", "JsonLineTargetGen.v")],
        bridge_files=["Gen/GrpcStatus_bridge.v", "Gen/Const_bridge.v", "Gen/GoFnHttpgun_bridge.v", "Gen/PhoutReport_bridge.v", "Gen/EngineRun_bridge.v", "Gen/JsonLineTarget_bridge.v"],
        trusted=[
            "translator harness/cmd/translate (grpcstatus: go/ast over ConvertGrpcStatus + markdown table; consts: values compiled from /repo)",
            "extraction: ExtrOcamlBasic only; OCaml driver ocaml/C10/main.ml + ocaml/common/conv.ml (zarith for decimal I/O)",
            "correspondence harness harness/cmd/hC10 (real ConvertGrpcStatus, BaseGun.Shoot with scripted client, Sample.SetErr, ProviderBase.NextID; "
            "guns.go: real NewHTTP1Gun / NewConnectGun / http_scenario gun / grpc gun / grpc scenario gun against the in-process raw-TCP target+CONNECT proxy "
            "and gRPC target of harness/internal/a18, every status 200-599, refused / reset / stalled / truncated / reset-mid-body exchanges)",
            "every gun-level observation is taken INSIDE Aggregator.Report (the value of the sample at the hand-over: tags, proto code, net code, id) and compared with the "
            "sample after the shot returned (late=<samples written to after Report>); the code-shaped side is the trace of sample operations of Model/ShootEvents.v",
            "ammo cases: generated uri / uripost / raw / http-json files (multi-word tags, header lines choosing the answered status, layouts) -> real components/providers/http NewProvider "
            "-> Acquire -> real NewHTTP1Gun -> in-process target -> Release, k = passes*n+1 acquisitions; code-shaped side = the C07 decoder models composed with base_shoot (shoot_deliveries), "
            "verdict = ammo_spec over the entries the tokens mean; net/url is replaced by an identity oracle on the simple URIs the generator writes, encoding/json by the entity tokens",
            "cfggun / gjson cases: components imported into the default registry, a minimal YAML section decoded by the real config decoder and plugin hooks into a gun factory / provider "
            "(http, http2 against an in-process TLS h2 target, connect, http/scenario, http2/scenario, grpc, grpc/scenario; grpc/json provider over long heterogeneous files with Release); "
            "expected auto-tag settings = the documented defaults overlaid by the section",
            "engine cases: a whole pool section (gun http / connect with ammo: uri file, or gun grpc with ammo: grpc/json file; limit / passes, result: phout with ids and a queue size, rps shared / per instance, "
            "startup once / const / line / step / instance_step / composite) decoded by the real config decoder into engine.Config and run by the real engine against a target that answers "
            "after a delay and keeps the paths it received; lines of the results file vs requests received; code-shaped side = Model/ShootEngine.v (slow-target trace, out-of-ammo branch, check and contexts as translate awaitrun re-reads them"
            ")",
            "round 8: http/json lines are drawn member by member (tokens J:<member>,...: tag written / twice / empty / absent / null / near-miss key; headers object / {} / null / absent; unknown members; "
            "key spellings; shuffled) for the line-by-line and the array form (jsona) of the file; the JSON text is rendered by the harness and parsed by encoding/json (oracle), the code-shaped side decodes the "
            "members into the target translate jsontarget re-reads from jsonline.go Scan (Gen/JsonLineTargetGen.v), the verdict is ammo_spec over entries carrying line_tag of their own line",
            "modelled, not verified: which Go error values the network stack produces for a fault (the harness records the shape of the error value the gun got "
            "and the model's get_errno is applied to it); the errno Linux yields per fault (refused 111, stall 110, reset 104, short body / refused CONNECT 999) is a table in the OCaml driver; "
            "errors.Cause/Underlying unwrapping is modelled by the EWrap constructor",
        ],
        assumptions=["status.Convert/codes of grpc-go behave as documented", "sync/atomic Add is linearizable (ids)",
                     "no gun constructor of pandora sets BaseGun.Connect; a custom Connect hook reports its own failure (its documented contract)"],
    )
