"""C08 — limit/passes semantics and clean end-of-ammo on every provider."""
from vlib import common


def key_fn(case, obs, verdict):
    # cell <kind> <preload> <limit> <passes> <n> <consumers> <cancel> [<eof> [<fs>]]
    # sized <the same nine fields> <maxammosize> <pads> <sizes>
    f = case.split(" ")
    o = obs.split(" ")
    if f[0] in ("engine", "enginec", "enginef"):
        return "engine:%s%s%s:run=%s" % (f[1], "+preload" if f[2] == "1" else "", "+chosencases" if f[0] == "enginef" else "",
                                         o[2] if len(o) > 2 else "?")
    if f[0] == "nofile":
        return "%s:no-ammo-file:run=%s,sink-%s" % (f[1], o[3] if len(o) > 3 else "?", o[2] if len(o) > 2 else "?")
    if f[0] == "dec":
        return "decoder:%s:%s" % (f[1], o[2] if len(o) > 2 else "?")
    kind = f[1] + ("+preload" if f[2] == "1" else "") + ("+chosencases" if f[0] == "chosen" else "")
    after = o[2] if len(o) > 2 else "?"
    run = o[3] if len(o) > 3 else "?"
    sym = "run=%s,sink-%s" % (run, after)
    if run == "ok" and after == "closed":
        sym = "wrong-count"
    return "%s:%s" % (kind, sym)


def what_fn(case, obs, verdict):
    return "provider cell [%s] observed [%s]: %s" % (case, obs, verdict)


def run(ctx):
    common.standard(
        ctx, harness="hC08", extracted="C08_model", driver_dir="C08",
        rule=("non-trivial: every cell with a bound (limit>0 or passes>0); cells with limit=passes=0 only exercise "
              "cancellation; distinct = distinct case lines"),
        key_fn=key_fn, what_fn=what_fn,
        trusted=[
            "extraction: ExtrOcamlBasic only; OCaml driver ocaml/C08/main.ml + ocaml/common/conv.ml",
            "correspondence harness harness/cmd/hC08 + harness/internal/a08 (real providers via public constructors on afero mem files and on real files "
            "through afero.NewOsFs in a scratch directory, both behind a pass-through wrapper that counts opens / closes / operations on closed handles; "
            "bounded waits of 2 s map 'no progress' to blocked/hang)",
            "modelled, not verified: the providers at the level of the entry list (decoding of bytes into entries is C07's); "
            "the handle of the ammo file as open/closed with per-provider plans of operations (Model/ProviderFile.v: which phase opens, may read, closes, "
            "and what Run does with the error of Close), 'a loop iteration may read the handle' instead of the exact reads; "
            "Go channel hand-off (what is sent is what consumers acquire, in order) and context cancellation as an oracle on the number of items sent",
        ],
        assumptions=["Go channels deliver every sent item exactly once, in order; close wakes all receivers",
                     "a goroutine blocked in select on ctx.Done() and a send returns promptly after cancel"],
    )
