"""C19 — no response from the target can abort or crash the run."""
from vlib import common


def key_fn(case, obs, verdict):
    f = case.split(" ")
    what = verdict.split(":", 1)[-1]
    if f[0] == "vh":
        return "var/header:" + what
    if f[0] == "xp":
        return "var/xpath:" + what
    if f[0] == "jp":
        return "var/jsonpath:" + what
    if f[0] == "as":
        return "assert/response:" + what
    if f[0] == "ga":
        return "grpc-assert/response:" + what
    if f[0] == "grpc":
        return "engine-grpc:" + what
    if f[0] == "gcall":
        return ("engine-grpc-scenario-call:" if f[1] == "s" else "engine-grpc-call:") + what
    if f[0] == "gscn":
        return "engine-grpc-scenario:" + what
    if f[0] == "eng":
        return "engine-%s:%s" % (f[1], what)
    return "%s:%s" % (f[0], what)


def run(ctx):
    common.standard(
        ctx, harness="hC19", extracted="C19_model", driver_dir="C19",
        rule=("unit cases: one real postprocessor object, Process called under recover (var/header: once per listed header "
              "value; assert/response http+grpc; var/xpath; var/jsonpath); engine cases: real uri provider + http gun, real http/scenario provider + gun, real http2 gun (HTTP/2 TLS target), real connect gun (tunnel endpoint; "
              "each case in a child process), with generated gun options, under the real engine against a scripted misbehaving TCP target; "
              "responses announcing sizes they do not have (Content-Length / chunk sizes up to 2^63-1; 2^31 and more in a child process); "
              "targets given by host name that refuse connections while the config is decoded and accept from the start of the run "
              "(process-wide DNS-caching dialer, 2-16 instances dialling together; child process); targets answering with redirects "
              "(loops, cycles, chains ending in any other behaviour, missing / unparsable / dead Location; gun option redirect on and off; "
              "all four http-family guns and the scenario gun over the http2 client; POST ammo with a body; child process; the target counts the "
              "redirects followed per chain and never ends a chain itself); real grpc/scenario provider + gun under the real engine against a "
              "scripted grpc target (any status code per call, target going away mid-call, unknown method, unfit payload, failing template, "
              "assert/response); runs whose samples go through the real phout aggregator (recycled sample objects) and are read back from its file; "
              "tunnel endpoints rejecting the CONNECT with a body they never finish; real grpc/json provider + grpc gun with a configured timeout "
              "(300-1500 ms) under the real engine against a scripted grpc target that accepts calls and stays silent for ever / until after the timeout "
              "(must be given up within timeout + 3 s and reported as 504), mixed with any status at once or after a delay, unknown method, unfit payload, 1-3 instances. non-trivial: "
              "var/header chains containing substr with a non-empty value; assert cases with at least one condition; xpath "
              "cases whose expression is not a node set; every jsonpath case; engine cases with >1 step or a scenario; "
              "distinct = distinct case lines. Library outcomes (xpath value kind, json/jsonpath success) are inputs of the "
              "model and are taken from the observation; lower/upper/replace with an empty pattern are generated on ASCII only"),
        key_fn=key_fn,
        translators=[("gofn-mp", "GoFnMpGen.v"), ("lockflow", "LockFlowGen.v"), ("bodysinks", "BodySinksGen.v"),
                     ("redirclient", "RedirClientGen.v"), ("grpcstatus", "GrpcStatusGen.v"),
                     ("sampleacquire", "SampleAcquireGen.v"), ("grpcctx", "GrpcCtxGen.v")],
        # Properties/C19_wire.v: announced-versus-arriving body sizes and the lock-flow theorems (extra obligations);
        # Gen/LockFlow_bridge.v: the check evaluated on the skeletons re-read from lib/netutil/dial.go
        # Gen/BodySinks_bridge.v: every place of the http-family gun packages that consumes a body uses one of the two modelled sinks,
        # and none looks at the announced length
        # Properties/C19_grpctime.v: the grpc gun against a silent target; Gen/GrpcCtx_bridge.v: every InvokeRpc of the gRPC guns
        # is made with a context that has a WithTimeout(effective timeout) on its spine
        # Properties/C19_redirect.v: targets answering with redirects (any graph; the client's loop ends under the default policy);
        # Gen/RedirClient_bridge.v: every net/http Client literal of the gun packages leaves CheckRedirect to the default
        bridge_files=["Gen/GoFnMp_bridge.v", "Gen/LockFlow_bridge.v", "Gen/BodySinks_bridge.v", "Properties/C19_wire.v",
                      "Gen/RedirClient_bridge.v", "Properties/C19_redirect.v", "Properties/C19_grpcscn.v",
                      "Gen/SampleAcquire_bridge.v", "Properties/C19_recycle.v", "Properties/C19_grpctime.v",
                      "Gen/GrpcCtx_bridge.v"],
        trusted=[
            "extraction: ExtrOcamlBasic only; OCaml driver ocaml/C19/main.ml (incl. its copy of str.ParseStringFunc for modifier text) + ocaml/common/conv.ml",
            "correspondence harness harness/cmd/hC19 (real postprocessors under recover; scripted TCP target; real config decoder, "
            "uri and http/scenario providers, http and http/scenario guns, engine); the generator's table behaviour -> abstract response",
            "modelled, not verified: net/http client and transport (which Go error a misbehaviour produces), html.Parse, antchfx/xpath, "
            "encoding/json, PaesslerAG/jsonpath, strings.ToLower/ToUpper/ReplaceAll beyond ASCII, prototext rendering, text/template; "
            "they are exercised by the run (fuzz-like stream), their robustness against arbitrary bytes is not proved",
        ],
        assumptions=["the named libraries do not panic on any input (observed, not proved)",
                     "a shot's panic is recovered only by instance.Run (core/engine/instance.go)"],
    )
