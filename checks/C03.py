"""C03 — engine shot accounting."""
from vlib import common


def key_fn(case, obs, verdict):
    f = case.split(" ")
    mode = "per-instance" if len(f) > 1 and f[1] == "1" else "shared"
    if f[0] == "cfgpool":
        return "config-built-pool:%s-profile:rps-as-%s:%s" % (mode, f[5] if len(f) > 5 else "?", verdict.split(" ")[0])
    return "engine-pool:%s-profile:%s" % (mode, verdict.split(" ")[0])


def run(ctx):
    common.standard(
        ctx, harness="hC03", extracted="C03_model", driver_dir="C03",
        rule=("non-trivial: at least 2 instances started and min(tokens, ammo) >= 2; distinct = distinct case lines "
              "(pool configuration: shared/per-instance, discard_overflow, profile, ammo bound, startup profile incl. a first token later than t=0, "
              "shot duration, schedule start offset, provider Run blocking / returning at once / returning mid-run)"),
        key_fn=key_fn,
        translators=[("gofn-instance", "GoFnInstanceGen.v")],  # core/engine/instance.go instance.Run re-read as IMP syntax (traced)
        # composition theorems L1-L5 (proofs in Proofs/Link*.v) and the bridge instance.Run = model sections
        # (proofs in Proofs/InstanceRunProofs.v, re-checked by make whenever the generated syntax changes), counted as extra obligations
        # + the pool level (start loop over the startup schedule + await loop of Model/Pool.v; proofs in Proofs/InstancePoolProofs.v)
        bridge_files=["Properties/C03_pool.v", "Properties/Links.v", "Properties/Links_conc.v", "Gen/GoFnInstance_bridge.v"],
        trusted=[
            "translator harness/cmd/translate gofn-instance (go/ast -> Lib/Imp.v syntax, traced: every collaborator call recorded in order; closure inlined, "
            "deferred calls placed before the returns, logging dropped, recover() = nil) and the IMP semantics of Lib/Imp.v (Go ints unbounded)",
            "extraction: ExtrOcamlBasic only; OCaml driver ocaml/C03/main.ml + ocaml/common/conv.ml",
            "correspondence harness harness/cmd/hC03: real engine.Engine, real schedules behind a recording wrapper, counting provider, recording gun/aggregator; "
            "one mutex serialises each wrapped operation with its log entry; goroutine ids from runtime.Stack",
            "modelled, not verified: the schedule is an abstract token counter with Left()=0 <-> no token remains (C02); the waiter's overdue decision is an oracle bit (C04); "
            "no cancellation / panic (C05)",
        ],
        assumptions=["sync/atomic counters, channels and mutexes of the Go runtime are linearizable",
                     "finite RPS profile: Left() = 0 exactly when no token remains"],
        run_timeout=900,
    )
