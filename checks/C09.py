"""C09 — HTTP wire fidelity."""
from vlib import common


def key_fn(case, obs, verdict):
    f = case.split(" ")
    if f[0] == "tr":
        return "transport:" + verdict.split(":", 1)[-1]
    if f[0] == "hist":
        return "hist:" + verdict.split(":", 1)[-1]
    # format + what differs from the specified request (verdict names the field)
    return "%s:%s" % (f[1] if len(f) > 1 else "?", verdict.split(":", 1)[-1])


def what_fn(case, obs, verdict):
    f = case.split(" ")
    if f[0] == "tr":
        return "http.Transport built by NewTransport does not carry the TransportConfig fields under the same names"
    why = verdict.split(":", 1)[-1]
    if f[0] == "hist":
        return ("scripted history of request starts/ends on the real guns (warm-up + Bind as the engine does): clients / connections at the "
                "target do not satisfy clients_ok / hist_ok (%s)" % why)
    if why == "client-sharing":
        return ("http clients of the guns the engine bound do not satisfy clients_ok: instances share a client although the shared client "
                "is not enabled (or more pool clients than client-number), format %s" % (f[1] if len(f) > 1 else "?"))
    if why == "redirect-followups":
        return ("the gun's client followed the target's redirects although `redirect` is off, or did not follow each 301 answer once "
                "although it is on (format %s)" % (f[1] if len(f) > 1 else "?"))
    if why == "tunnel":
        return ("connect gun: the connections its target (the tunnel front) accepted do not each start with ONE CONNECT whose authority "
                "and Host are the target, or the tunnels do not each arrive as one connection at the server behind (format %s)"
                % (f[1] if len(f) > 1 else "?"))
    if why == "connection-count":
        return ("connections seen by the target do not satisfy conn_ok (keep-alive + per-instance clients: <= instances; keep-alive off: "
                "== requests), format %s" % (f[1] if len(f) > 1 else "?"))
    return "request recorded by the target differs from the ammo entry + gun config (%s, format %s)" % (
        verdict.split(":", 1)[-1], f[1] if len(f) > 1 else "?")


def run(ctx):
    common.standard(
        ctx, harness="hC09", extracted="C09_model", driver_dir="C09",
        rule=("one case = one engine run (real provider of one format with a `headers` option list, preload on/off + real http gun, "
              "1-3 pools in the run each with its own target on another port of the same host (127.0.0.1 or localhost), targets up or down "
              "while the configuration is decoded, 1% of the cases with a 1.3-1.6 s pause between the requests (const schedule, run concurrently), "
              "1-4 instances per pool, gun shared-client block absent / disabled with client-number -1..8 / enabled, target answering at once or only when all instances of the pool are in flight (rendezvous), plain or TLS target answering with a generated status and body size 0 B..1.2 MB, keep-alive on/off); `tr` cases: every field of TransportConfig / DialerConfig (reflection) read back from the built http.Transport / net.Dialer; files are delivered 1-3 times (passes), format jsonarr = jsonline entries as one JSON array, target answers after 0 or 15 ms; "
              "`hist` cases: scripted histories of request starts / ends (1-5 instances, random walks and in-step rounds, keep-alive on/off, shared-client block, max-idle-conns-per-host 0..3) on the real guns warmed up and bound as the engine does, compared exactly with the extracted transport model; "
              "round 6: gun options under which Shoot touches the request / answer as a dimension of wire and hist cases (answlog all/warning/error, "
              "httptrace dump / trace, auto-tag, a logger accepting debug messages, redirect: true with 301 answers pointing at a follow-up path "
              "whose requests are counted, not compared); files delivered through the provider option `passes` (limit 0) instead of `limit` in a "
              "quarter of the cases; raw entries with a Transfer-Encoding: chunked body; dial.dns-cache off; the http2 gun against an h2 target (TLS + keep-alive cases; "
              "Cookie values compared joined by '; ' as HTTP/2 carries them); header lines (in-file and configured) written '[k: v]' / '[k:v]' / '[  k \\t:   v ]' and decoded on the "
              "model side by the extracted decode_header, blank lines around the items, no final newline; raw + redirect: true cases: connection count judged with the "
              "loose bound (net/http's Client.Do does not always reuse the connection of a ReadRequest-built request, design/C09.md); "
              "round 7: the gun kind connect (plain and connect-ssl) as a dimension of wire and hist cases: the gun's target is a tunnel front that answers the CONNECT "
              "and pipes to the recording server (tun = CONNECTs / connections behind / foreign authorities / non-CONNECT, judged c/<=c/0/0 with c = accepted - probes); "
              "dial.timeout as a dimension (1 s / 2 s on any case; 1 s — the documented example — on the 3% of wire cases whose instances pause 1.3-1.6 s between their requests, so that "
              "every instance outlives it); hist cases with W<ms> events (dial.timeout 1 s, waits of 1.2-1.3 s with requests in flight or not) compared exactly with the "
              "extracted TIMED transport model tt_run under the extracted gun_arm (Model/HttpTunnel.v); "
              "non-trivial: every tr and hist case; wire cases where the configuration defines headers and either some key "
              "(canonical form) is defined both by the configuration and by an entry/in-file header, or the file has more "
              "than one item; distinct = distinct case lines. Header comparison: map sorted by canonical key, value lists in "
              "order; dropped from the recorded request because net/http writes them on its own account: Content-Length "
              "(body is compared byte for byte), the default 'User-Agent: Go-http-client/1.1', and 'Connection: close' when "
              "keep-alives are disabled; the generator never produces those values nor Connection/Content-Length/"
              "Transfer-Encoding/Expect/Trailer/Pragma headers, nor invalid header names, nor an empty User-Agent "
              "(net/http drops it); jsonline entries have distinct canonical keys (Go map iteration order otherwise decides)"),
        key_fn=key_fn, what_fn=what_fn,
        # keep-alive / connection sentence (Model/HttpConns.v, Proofs/HttpConnsProofs.v); request body / answer under the gun
        # options that make Shoot read them (Model/HttpShoot.v, Proofs/HttpShootProofs.v)
        # the "[key: value]" line syntax (Model/HdrLine.v, Proofs/HdrLineProofs.v)
        # round 7: the connect gun's dial function, deadlines and timed histories (Model/HttpTunnel.v, Proofs/HttpTunnelProofs.v)
        bridge_files=["Properties/C09_conns.v", "Properties/C09_shoot.v", "Properties/C09_hdrline.v", "Properties/C09_tunnel.v"],
        trusted=[
            "extraction: ExtrOcamlBasic only; OCaml driver ocaml/C09/main.ml + ocaml/common/conv.ml",
            "correspondence harness harness/cmd/hC09 (config decoder, http providers uri/uripost/http-json/raw, http gun, engine: all real; "
            "httptest plain/TLS target + decoy server recording method, RequestURI, Host, headers, body, connections; tunnel front for the connect gun, "
            "harness/cmd/hC09/tunnel.go)",
            "modelled, not verified: net/url.Parse, http.NewRequest, http.ReadRequest (entry tokenisation; model takes method/uri/host/"
            "header lines/body as given), textproto.CanonicalMIMEHeaderKey (concrete Gallina copy canon_mime, compared on every case), "
            "net/http client serialisation, TLS; connection pooling of net/http's Transport is modelled by Model/HttpConns.v (idle parking per client) and compared on every case "
            "through the extracted conn_ok; client assignment (prepareClientPool/Bind/clientpool.Next) modelled by hand and compared through BaseGun.Client of every engine-bound gun; "
            "deadlines of net.Conn and what net/http does with a connection whose read fails are modelled by Model/HttpTunnel.v (tt_step) and compared exactly on timed hist cases",
        ],
        assumptions=["net/http Transport writes Request.Method, URL.RequestURI(), Host, Header and Body as given",
                     "Go map iteration order does not matter where keys are distinct"],
    )
