"""C11 — instance isolation and data-race freedom."""
import os
import re
import shutil

from vlib import common


def key_fn(case, obs, verdict):
    v = verdict[4:] if verdict.startswith("BAD:") else verdict
    v = re.sub(r"instance_'[^']*'", "instance", v)   # which instance hit a runtime fault is schedule dependent
    f = case.split(" ")
    if f[0] == "race" or v.startswith("race:") or v.startswith("fatal:"):
        # race:<function pairs> — the family is the set of racing functions (pool/variant left out)
        return v.split("@")[0][:200]
    parts = v.split(":")
    return ":".join(parts[:2])


RULE = ("non-trivial: hshare cases with >=2 Acquires and a clock step; own cases with >=2 instances and >6 events; sched / shse cases with >=2 instances; shs cases with >=2 trials; ammo cases with >=2 instances and >8 events; alias cases with >=2 shots and at least one definition "
        "carrying metadata/headers; race cases with >=2 instances; distinct = distinct case lines")


def translate_shared(ctx):
    """harness/cmd/trC11: synchronisation skeleton of unlilmited.go / start_sync.go -> coq/Gen/SharedSchedGen.v
    (own translator binary: nothing shared is edited)."""
    tr = ctx.build_harness("trC11")
    if tr is None:
        return False
    tmp = os.path.join(ctx.work, "SharedSchedGen.v")
    rc, out = common.sh([tr, "sharedsched", common.REPO, tmp], timeout=300, env=common.goenv())
    if rc != 0:
        ctx.broken("translator 'trC11 sharedsched' could not re-read unlilmited.go / start_sync.go "
                   "(a construct outside the grammar of the shared schedule's synchronisation skeleton)", out)
        return False
    if common.write_if_changed(os.path.join(common.COQ, "Gen", "SharedSchedGen.v"), open(tmp).read()):
        ctx.log("regenerated Gen/SharedSchedGen.v (changed)")
    return True


def translate_headershare(ctx):
    """trC11 headershare: EnrichRequestWithHeaders / header/date UpdateRequest / middleware registry / Provider.Acquire
    -> coq/Gen/HeaderShareGen.v (part (d): requests held by several instances of one http provider)."""
    tr = ctx.build_harness("trC11")
    if tr is None:
        return False
    tmp = os.path.join(ctx.work, "HeaderShareGen.v")
    rc, out = common.sh([tr, "headershare", common.REPO, tmp], timeout=300, env=common.goenv())
    if rc != 0:
        ctx.broken("translator 'trC11 headershare' could not re-read EnrichRequestWithHeaders / header/date UpdateRequest "
                   "(a store through the shared header values, or a middleware statement outside Add / Set)", out)
        return False
    if common.write_if_changed(os.path.join(common.COQ, "Gen", "HeaderShareGen.v"), open(tmp).read()):
        ctx.log("regenerated Gen/HeaderShareGen.v (changed)")
    return True


def run(ctx):
    cov = {"rule": RULE, "evaluations": 0, "distinct_nontrivial": 0}
    ok_t = common.translate(ctx, "grpcstatus", "GrpcStatusGen.v")
    translate_shared(ctx)
    translate_headershare(ctx)
    model_ok = ok_t and ctx.coq(["Extract/ExtractC11.vo"], what="model+extraction")
    if model_ok:
        ctx.properties(extra_files=["Properties/C11_sched.v", "Properties/C11_share.v", "Gen/SharedSched_bridge.v", "Gen/HeaderShare_bridge.v"])
    m = ctx.ocaml_model("mC11", "C11_model", "C11") if model_ok else None
    replay_kind = None
    if ctx.replay:
        for l in common.read_lines(ctx.replay):
            if l.strip() and not l.startswith("#"):
                replay_kind = l.split(" ")[0]
                break
    # pass 1: ownership traces + sequential aliasing differential (plain build)
    if replay_kind != "race":
        h = ctx.build_harness("hC11")
        if h and m:
            st = common.correspondence(ctx, h, m, key_fn=key_fn)
            if st:
                cov.update(st)
            if ctx.brokens and not ctx.violations and ctx.quick() and not ctx.replay:
                st2 = common.correspondence(ctx, h, m, key_fn=key_fn, tier="thorough", label="escalated")
                if st2:
                    cov["escalated_evaluations"] = st2["evaluations"]
    # pass 2: the race detector as failing-schedule search (-race build of the same harness)
    if replay_kind in (None, "race"):
        if shutil.which("gcc") is None and shutil.which("cc") is None:
            cov["race_detector"] = "unavailable: no C compiler, `go build -race` needs cgo"
        else:
            hr = ctx.build_harness("hC11", race=True)
            # the detector's own report of the last racing case is kept next to the run (work/ is kept on failure)
            os.environ["HC11_KEEP_STDERR"] = os.path.join(ctx.work, "race-detector-report.txt")
            if hr and m:
                st = common.correspondence(ctx, hr, m, key_fn=key_fn,
                                           tier="race-quick" if ctx.quick() else "race-thorough", label="race")
                if st:
                    cov["race_evaluations"] = st["evaluations"]
                    cov["race_case_kinds"] = st["case_kinds"]
                    cov["race_samples"] = st["samples"][:4]
                    cov["evaluations"] = cov.get("evaluations", 0) + st["evaluations"]
                    cov["distinct_nontrivial"] = cov.get("distinct_nontrivial", 0) + st["distinct_nontrivial"]
                    cov["traces_validated_against_impl"] = cov.get("traces_validated_against_impl", 0) + st["traces_validated_against_impl"]
                    cov["race_detector"] = "go build -race (cgo) of harness/cmd/hC11; every race case runs in its own subprocess"
    if not ctx.quick() and not ctx.replay and model_ok and not ctx.brokens:
        ck = ctx.coqchk()
        if ck:
            cov.update(ck)
    cov["trusted_base_extra"] = [
        "extraction: ExtrOcamlBasic only; OCaml driver ocaml/C11/main.ml + ocaml/common/conv.ml",
        "correspondence harness harness/cmd/hC11 + harness/internal/a20 (recording gun factory under the real engine; real scenario "
        "providers/guns/templaters/preprocessors against in-process gRPC and HTTP targets; -race build run per case in a subprocess)",
        "the Go race detector (ThreadSanitizer runtime): reports are taken as concrete failing schedules; absence of a report is NOT a proof",
        "modelled, not verified: the footprint table of Model/ScenarioHeap.v (which cells each operation reads/writes and through which "
        "synchronised object) is hand-written from the source; Go memory model, sync, sync/atomic, sync.Map, sync.Pool, math/rand locking",
        "translator grpcstatus (sample codes of the gRPC alias cases)",
    ]
    ctx.finish(cov, assumptions=[
        "sync.Mutex / sync.Map / sync.Pool / sync/atomic / math/rand top-level functions are safe for concurrent use as documented",
        "every operation respects its footprint in Model/ScenarioHeap.v (hypothesis `respects` of C11_noninterference)",
    ])
