"""C02 — schedule token contract (exactly-once tokens, order, Left, composites)."""
import os
import re
from vlib import common


def key_fn(case, obs, verdict):
    f = case.split(" ")
    v = verdict[4:] if verdict.startswith("BAD:") else verdict
    if v.startswith("iterations-differ-in-") or v.startswith("open-window-"):
        # contended drains: which observable deviated in some iteration (the values are timing dependent)
        return "%s:%s" % (f[0], v.split(" ")[0])
    # family = case kind + what fails, with the concrete numbers removed
    v = re.sub(r"-?\d+", "#", v)
    v = re.sub(r"\{[^}]*\}", "{..}", v)
    v = re.sub(r"\s+", "_", v.strip())
    return "%s:%s" % (f[0], v[:80])


def what_fn(case, obs, verdict):
    return "schedule %s: %s" % (case.split(" ")[1][:120], verdict)


RULE = ("non-trivial: seq cases on a schedule of >=2 parts with at least one Next; conc cases on a schedule of >=2 parts "
        "with >=2 goroutines and >=2 Next calls; race / srace cases (bare leaves, repeated contended drains; srace = not started, "
        "the first Next calls race to start it) on a schedule with >=1 token; urace cases (live unlimited part, lazy start, Left poller) with >=2 Next calls; fact cases (K >= 2 schedules of one factory decoded "
        "from a configuration) on a schedule of >=2 parts with at least one Next; distinct = distinct case lines")

TRUSTED = [
    "extraction: ExtrOcamlBasic only; OCaml driver ocaml/C02/*.ml + ocaml/common/conv.ml",
    "correspondence harness harness/cmd/hC02 (real NewOnce/NewConst/NewLine/NewStep/NewUnlimited/NewComposite/NewInstanceStep/"
    "NewCallbackOnFinishSchedule; leaves wrapped in recording wrappers holding one log mutex across inner call + append; "
    "goroutine identity from runtime.Stack)",
    "modelled, not verified: leaf token offsets (given as tables drained from fresh real leaves; property C01), "
    "sync.RWMutex / sync.Once / go.uber.org/atomic atomicity, the wall clock (oracle input); the merge of started.Store / "
    "started.Load into the adjacent lock sections (design/C02.md)",
    "doAtSchedule and unlimitedSchedule below the atomic-leaf level (Properties/C02_leaf.v, Model/SchedLeafConc.v): one step per shared access, sync.Once as "
    "skip-when-done / wait-while-busy / done+release at the end of the body; the method bodies are re-read from do_at.go / unlilmited.go / start_sync.go "
    "by harness/cmd/trC02 (go/ast -> Gen/SchedSyncGen.v, bridge_doat_sync, bridge_unl_sync); composition with the composite theorems is argued, not proved",
    "factory-made schedules (Properties/C02_factory.v, Model/SchedFactory.v): store-free model, a factory call runs the constructors again; "
    "that the real registry hands out schedules sharing no part is observed by the fact cases only",
    "configuration trees (Properties/C02_profile.v, Model/SchedProfileTree.v): counts and offsets of const / line / once / step parts are the "
    "exact-arithmetic formulas of Model/Sched.v, re-read from const.go / line.go / once.go / step.go by harness/cmd/translate sched "
    "(Gen/Sched_bridge.v); the float64 evaluation by the real code is judged on the drained tables only",
    "nested composites under concurrency (Properties/C02_nested.v, Model/SchedNested.v): child operations under a read lock are interleaved "
    "sequences of the child's own sections (proved for every depth); write sections are atomic steps enabled only while no other thread "
    "holds the composite's read lock (sync.RWMutex), their child calls are the sequential s_next (= a solo run of the nested steps, proved); "
    "the rest of a read section runs in the step in which the child call returns",
]
ASSUMPTIONS = ["sync.RWMutex, sync.Once and go.uber.org/atomic behave as documented",
               "time.Now is monotone; unlimited parts in the correspondence run are either closed long before or open long after the run"]


def log_stats(path):
    """How often the interesting branches of composite.go were exercised (from the recorded logs)."""
    st = {"conc_cases": 0, "conformance_replays": 0, "shifts_by_callers": 0, "left_shift_probes": 0,
          "next_after_somebody_shifted": 0, "left_minus_one": 0, "finish_results": 0}
    if not os.path.exists(path):
        return st
    for line in open(path):
        if " | " not in line:
            continue
        st["conc_cases"] += 1
        summary, log = line.rstrip("\n").split(" | ", 1)
        ev = log.split(" ")
        pend = {}
        last = {}
        for e in ev:
            f = e.split(".")
            if len(f) < 3:
                continue
            g = f[0]
            if f[1] == "c":
                pend[g] = f[2]
                last[g] = None
            elif f[1] == "r":
                if f[2] == "L" and f[3] == "-1":
                    st["left_minus_one"] += 1
                if f[2] == "N" and f[3].endswith(":0"):
                    st["finish_results"] += 1
            elif f[2] == "S" and g in pend:
                st["shifts_by_callers"] += 1
                if pend[g] == "L":
                    st["left_shift_probes"] += 1
                last[g] = "S"
            elif f[2] == "N" and g in pend:
                # a second leaf-level Next of the same call without a Start in between
                if last.get(g) == "N0" and pend[g] == "N":
                    st["next_after_somebody_shifted"] += 1
                last[g] = "N0" if f[3].endswith(":0") else "N1"
    return st


def translate_sync(ctx):
    """harness/cmd/trC02: synchronisation skeleton of do_at.go / start_sync.go -> coq/Gen/SchedSyncGen.v
    (own translator binary: nothing shared is edited)."""
    tr = ctx.build_harness("trC02")
    if tr is None:
        return False
    tmp = os.path.join(ctx.work, "SchedSyncGen.v")
    rc, out = common.sh([tr, "schedsync", common.REPO, tmp], timeout=300, env=common.goenv())
    if rc != 0:
        ctx.broken("translator 'trC02 schedsync' could not re-read do_at.go / start_sync.go "
                   "(a construct outside the grammar of the leaf's synchronisation skeleton)", out)
        return False
    if common.write_if_changed(os.path.join(common.COQ, "Gen", "SchedSyncGen.v"), open(tmp).read()):
        ctx.log("regenerated Gen/SchedSyncGen.v (changed)")
    return True


def run(ctx):
    cov = {"rule": RULE, "evaluations": 0, "distinct_nontrivial": 0}
    translate_sync(ctx)
    # the formulas of const.go / line.go / once.go / step.go (count AND offsets of a part): the leaves of
    # Model/SchedProfileTree.v are Model/Sched.v's, which Gen/Sched_bridge.v ties to the source as it is now
    common.translate(ctx, "sched", "SchedGen.v")
    model_ok = ctx.coq(["Extract/Extract%s.vo" % ctx.prop], what="model+extraction")
    if model_ok:
        ctx.properties(extra_files=["Properties/C02_nested.v", "Properties/C02_leaf.v", "Properties/C02_factory.v",
                                    "Properties/C02_profile.v", "Gen/SchedSync_bridge.v", "Gen/Sched_bridge.v"])
    h = ctx.build_harness("hC02")
    m = ctx.ocaml_model("mC02", "C02_model", "C02") if model_ok else None
    if h and m:
        st = common.correspondence(ctx, h, m, key_fn=key_fn, what_fn=what_fn)
        if st:
            cov.update(st)
        cov["branch_counts"] = log_stats(os.path.join(ctx.work, "obs-%s.txt" % ctx.tier))
        cases_p = os.path.join(ctx.work, "cases-%s.txt" % ctx.tier)
        if os.path.exists(cases_p):
            n = 0
            for line in open(cases_p):
                f = line.split(" ")
                if f[0] == "conc" and f[2] == "S" and f[1].startswith("comp(") and f[1] != "comp()":
                    inner = f[1][5:].replace("comp()", "")
                    if "comp(" not in inner and ";" in f[1]:
                        n += 1
            cov["branch_counts"]["conformance_replays"] = n
        if ctx.brokens and not ctx.violations and ctx.quick() and not ctx.replay:
            st2 = common.correspondence(ctx, h, m, key_fn=key_fn, what_fn=what_fn, tier="thorough", label="escalated")
            if st2:
                cov["escalated_evaluations"] = st2["evaluations"]
    if not ctx.quick() and not ctx.replay and model_ok and not ctx.brokens and hasattr(ctx, "coqchk"):
        ck = ctx.coqchk()
        if ck:
            cov.update(ck)
    cov["trusted_base_extra"] = list(TRUSTED)
    ctx.finish(cov, assumptions=list(ASSUMPTIONS))
