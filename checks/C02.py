"""C02 — schedule token contract (exactly-once tokens, order, Left, composites)."""
import re
from vlib import common


def key_fn(case, obs, verdict):
    f = case.split(" ")
    v = verdict[4:] if verdict.startswith("BAD:") else verdict
    # family = case kind + what fails, with the concrete numbers removed
    v = re.sub(r"-?\d+", "#", v)
    v = re.sub(r"\{[^}]*\}", "{..}", v)
    v = re.sub(r"\s+", "_", v.strip())
    return "%s:%s" % (f[0], v[:80])


def what_fn(case, obs, verdict):
    return "schedule %s: %s" % (case.split(" ")[1][:120], verdict)


def run(ctx):
    common.standard(
        ctx, harness="hC02", extracted="C02_model", driver_dir="C02",
        rule=("non-trivial: seq cases on a schedule of >=2 parts with at least one Next; conc cases on a schedule of >=2 parts "
              "with >=2 goroutines and >=2 Next calls; distinct = distinct case lines"),
        key_fn=key_fn, what_fn=what_fn,
        trusted=[
            "extraction: ExtrOcamlBasic only; OCaml driver ocaml/C02/*.ml + ocaml/common/conv.ml",
            "correspondence harness harness/cmd/hC02 (real NewOnce/NewConst/NewLine/NewStep/NewUnlimited/NewComposite/NewInstanceStep/"
            "NewCallbackOnFinishSchedule; leaves wrapped in recording wrappers holding one log mutex across inner call + append)",
            "modelled, not verified: leaf token offsets (given as tables drained from fresh real leaves; property C01), "
            "sync.RWMutex / sync.Once / go.uber.org/atomic atomicity, the wall clock (oracle input)",
        ],
        assumptions=["sync.RWMutex, sync.Once and go.uber.org/atomic behave as documented",
                     "time.Now is monotone; unlimited parts in the correspondence run are either closed long before or open long after the run"],
    )
