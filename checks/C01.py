"""C01 — RPS schedules realise the configured load profile."""
from vlib import common


def key_fn(case, obs, verdict):
    f = case.split(" ")
    why = verdict.split(":", 1)[1] if ":" in verdict else verdict
    if f[0] == "fact":
        return "fact-" + key_fn(" ".join(f[3:]), obs, verdict.split(" (product ")[0])
    if f[0] == "conc":
        if f[3] == "meet":
            f = f[:3] + f[4:]
        if why.startswith("shared profile"):
            return "conc-%s:shared-profile:exhausted-early" % f[3]
        if why.startswith("concurrent first Next"):
            what = "before-start" if "before the schedule" in why else "not-one-start" if "one start" in why else \
                "finish-disagrees" if "finish" in why else "start-after-first-return"
            return "conc-%s:unstarted-shared-schedule:%s" % (f[3], what)
        return "conc-" + key_fn(" ".join(f[3:]), obs, verdict)
    kind = f[0]
    if kind == "list":
        what = "finish" if why.startswith("finish") else "left" if why.startswith("Left") else \
            "post-exhaustion" if why.startswith("exhausted") else "tokens-vs-parts" if why.startswith("tokens") else why[:40]
        return "list:%s" % what
    if kind in ("const", "line", "step"):
        d = int(f[-1])
        dk = "whole-second" if d % 1000000000 == 0 else ("sub-second" if d < 1000000000 else "fractional-second")
        if kind == "line":
            fn, tn = int(f[1]), int(f[2])
            kind = "line-%s" % ("flat" if fn == tn else "increasing" if fn < tn else "decreasing")
        what = "finish" if why.startswith("finish") else "left" if why.startswith("Left") else \
            "post-exhaustion" if why.startswith("exhausted") else "tokens-vs-integral" if (why.startswith("tokens") or why.startswith("operation")) else why[:40]
        return "%s:%s-duration:%s" % (kind, dk, what)
    return "%s:%s" % (kind, why[:40])


RULE = ("non-trivial: the implementation released at least 2 tokens and the profile is not a flat rate over a whole "
        "number of seconds (steps always count; conc cases additionally need >= 2 goroutines, list cases >= 2 parts, fact cases >= 2 products each non-trivial); distinct = distinct case lines")
BRIDGES = ["Gen/Sched_bridge.v"]
# float rounding bound (Flocq): statements only, proofs in Proofs/SchedFloat*.v (built once, cached)
FLOAT = ["Properties/C01_float.v"]
# list profiles; step / list profiles shared by several consumers (through property C02's concurrent model of composite.go)
SHARED = ["Properties/C01_shared.v"]
# products of the pool's rps factory (rps-per-instance): each realises the profile (over property C02's factory model)
FACTORY = ["Properties/C01_factory.v"]
TRUSTED = [
    "translator harness/cmd/translate sched (go/ast over NewConst, constDoAt, NewLine, lineDoAt, NewOnce, NewStep -> arithmetic AST of "
    "Model/SchedExpr.v; local definitions inlined, integer vs float division decided from the declared parameter types)",
    "extraction: ExtrOcamlBasic only; OCaml driver ocaml/C01/main.ml + ocaml/common/conv.ml (zarith for decimal I/O); the driver applies the "
    "float64 tolerance of DESIGN.md section 3 (1 ns + D*2^-40 on instants, relative 2^-40 on the integral before rounding down)",
    "correspondence harness harness/cmd/hC01 (real schedule.NewConstConf/NewLineConf/NewStepConf/NewOnceConf, Start, Next, Left; conc cases: G goroutines released by a spinning barrier drain a fresh un-Started schedule, many rounds, wall-clock comparisons reduced to 0/1 flags; list profiles = schedule.NewCompositeConf of real parts; meet mode wraps the first part so that its first G Next calls wait for each other; fact cases: the rps section (single profile / list form) rendered as a generic config value, "
    "decoded with rps-per-instance by the real core/config + plugin registry (coreimport.Import) into engine.InstancePoolConfig, NewRPSSchedule called K >= 2 times, the products "
    "drained alternately / one after the other / in reverse order, each judged by spec_b / list_spec_b on its own)",
    "float64 rounding: PROVED within the driver's tolerance (Properties/C01_float.v, Flocq binary64 = FLT(-1074,53), round to nearest even) for "
    "const profiles (instants and count, rate = configured rational rounded once to float64, guard 2^-20 <= ops <= 2^40, D <= 2^62, k < 2^53), for "
    "the count of every non-flat line with binary64 rates, for the instants of increasing lines (incl. the cancellation term D*kappa*2^-48; slope guard "
    "2^-40 <= |a| <= 2^50) and for the instants of decreasing lines while (from/rate(x))*from/(from-to) <= c, 3c <= 1020 + 4*kappa; the late operations "
    "of steep decreasing lines, lines whose rates are not binary64 numbers, and step levels accumulated by float additions stay modelled in exact "
    "arithmetic with the tolerance measured by the correspondence run only",
    "modelled, not verified: int64 overflow of token counts beyond 2^63 (C01_float bounds the converted values inside int64 under I <= 2^62); "
    "do_at.go / step.go loop / composite sequencing and the concurrent sections of composite.go (Model/SchedConc.v, shared with C02; used by C01_shared*) "
    "are hand-modelled (tied by the correspondence run, the step loop header also by the translator)",
    "C01_factory_*: the factory model (Model/SchedFactory.v, shared with C02) is store-free: a factory call = the constructors run again; that the real registry hands out "
    "products sharing no nested schedule is object identity, tied by the fact cases of the correspondence run only",
    "C01_closed_form: Coq Reals axioms ClassicalDedekindReals.sig_forall_dec, sig_not_dec, FunctionalExtensionality.functional_extensionality_dep; "
    "C01_float_*: the same three plus Classical_Prop.classic (through Flocq)",
]
ASSUMPTIONS = [
    "go_float64_correctly_rounded: every Go float64 operation of const.go/line.go (* / + - math.Sqrt, int64->float64) is the real operation rounded "
    "to the nearest binary64 number, ties to even, one rounding per source operation (no fused multiply-add: amd64 at the default GOAMD64 level); "
    "float64->int64/Duration truncates toward zero. Under it the float64 evaluation is proved to stay within 1 ns + D*2^-40 (+ D*kappa*2^-48 for "
    "lines) of the exact value and the count within relative 2^-40 of the integral (Properties/C01_float.v: const, line counts, increasing-line instants, "
    "decreasing-line instants under the stated conditioning); for the late operations of steep decreasing lines the same tolerance is measured on every "
    "run, not proved",
    "sync/atomic counter of doAtSchedule is linearizable: one leaf operation = one atomic step of the concurrent model behind C01_shared* "
    "(the leaf's own interleavings are property C02's C02_leaf); sync.RWMutex gives the sections of composite.go mutual exclusion as modelled",
]


def coqchk_extra(ctx, name):
    """ctx.coqchk() re-checks Properties/C01.vo only; the same for a second Properties file."""
    prop = ctx.prop
    ctx.prop = name
    try:
        return ctx.coqchk()
    finally:
        ctx.prop = prop


def run(ctx):
    """Like common.standard, except that a source the translator cannot re-read does not stop the
    correspondence run: the executable model does not depend on Gen/, so a concrete failing input is
    still searched for (the broken tie is reported next to it)."""
    cov = {"rule": RULE, "evaluations": 0, "distinct_nontrivial": 0}
    ok_t = common.translate(ctx, "sched", "SchedGen.v")
    model_ok = ctx.coq(["Extract/Extract%s.vo" % ctx.prop], what="model+extraction")
    if model_ok and ok_t:
        ctx.properties(extra_files=BRIDGES + FLOAT + SHARED + FACTORY)
    elif model_ok:
        # Gen/SchedGen.v is stale: nothing about the current source can be discharged
        import os
        files = [os.path.join(common.COQ, "Properties", "C01.v")] + [os.path.join(common.COQ, f) for f in BRIDGES + FLOAT + SHARED + FACTORY]
        ctx.statements = [(k, n, os.path.relpath(f, common.COQ)) for f in files for (k, n) in common.count_statements(f)]
        ctx.obligations = len(ctx.statements)
        ctx.discharged = 0
    h = ctx.build_harness("hC01")
    m = ctx.ocaml_model("mC01", "C01_model", "C01") if model_ok else None
    if h and m:
        st = common.correspondence(ctx, h, m, key_fn=key_fn)
        if st:
            cov.update(st)
        if ctx.brokens and not ctx.violations and ctx.quick() and not ctx.replay:
            st2 = common.correspondence(ctx, h, m, key_fn=key_fn, tier="thorough", label="escalated")
            if st2:
                cov["escalated_evaluations"] = st2["evaluations"]
    if not ctx.quick() and not ctx.replay and model_ok and not ctx.brokens:
        # thorough tier: independent re-check of the compiled proofs (Properties/C01.vo, then Properties/C01_float.vo with Flocq)
        ck = ctx.coqchk()
        if ck:
            cov.update(ck)
            for extra in ("C01_float", "C01_shared", "C01_factory"):
                ck2 = coqchk_extra(ctx, extra)
                if ck2:
                    cov["coqchk_axioms"] = sorted(set(cov.get("coqchk_axioms", [])) | set(ck2["coqchk_axioms"]))
                    cov["coqchk_wall_s"] = round(cov.get("coqchk_wall_s", 0) + ck2["coqchk_wall_s"], 1)
    cov["trusted_base_extra"] = TRUSTED
    ctx.finish(cov, assumptions=ASSUMPTIONS)
