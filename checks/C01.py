"""C01 — RPS schedules realise the configured load profile."""
from vlib import common


def key_fn(case, obs, verdict):
    f = case.split(" ")
    kind = f[0]
    why = verdict.split(":", 1)[1] if ":" in verdict else verdict
    if kind in ("const", "line", "step"):
        d = int(f[-1])
        dk = "whole-second" if d % 1000000000 == 0 else ("sub-second" if d < 1000000000 else "fractional-second")
        if kind == "line":
            fn, tn = int(f[1]), int(f[2])
            kind = "line-%s" % ("flat" if fn == tn else "increasing" if fn < tn else "decreasing")
        what = "finish" if why.startswith("finish") else "left" if why.startswith("Left") else \
            "post-exhaustion" if why.startswith("exhausted") else "tokens-vs-integral" if why.startswith("tokens") else why[:40]
        return "%s:%s-duration:%s" % (kind, dk, what)
    return "%s:%s" % (kind, why[:40])


def run(ctx):
    common.standard(
        ctx, harness="hC01", extracted="C01_model", driver_dir="C01",
        rule=("non-trivial: the implementation released at least 2 tokens and the profile is not a flat rate over a whole "
              "number of seconds (steps always count); distinct = distinct case lines"),
        key_fn=key_fn,
        translators=[("sched", "SchedGen.v")],
        bridge_files=["Gen/Sched_bridge.v"],
        trusted=[
            "translator harness/cmd/translate sched (go/ast over NewConst, constDoAt, NewLine, lineDoAt, NewOnce, NewStep -> arithmetic AST of Model/SchedExpr.v; "
            "local definitions inlined, integer vs float division decided from the declared parameter types)",
            "extraction: ExtrOcamlBasic only; OCaml driver ocaml/C01/main.ml + ocaml/common/conv.ml (zarith for decimal I/O)",
            "correspondence harness harness/cmd/hC01 (real schedule.NewConstConf/NewLineConf/NewStepConf/NewOnceConf, Start, Next, Left)",
        ],
        assumptions=[],
    )
