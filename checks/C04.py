"""C04 — timing: no early shots; discard_overflow bounds lateness to the 2 s window."""
import os

from vlib import common


def key_fn(case, obs, verdict):
    v = verdict.split(" ")[0]
    v = v[4:] if v.startswith("BAD:") else v
    if v.startswith("w:"):
        return "coreutil.Waiter:" + v[2:]
    if v.startswith("eng:"):
        return "engine.instance.Run:" + v[4:]
    if v.startswith("cfg:"):
        return "cli.readConfig:" + v[4:]
    if v.startswith("ph:"):
        return "engine+phout:" + v[3:]
    if v.startswith("first:"):
        return "schedule(self-starting)+coreutil.Waiter:simultaneous-first-tokens:" + v[6:]
    if v.startswith("comp:"):
        return "schedule.composite+coreutil.Waiter:" + v[5:]
    if v.startswith("pool:"):
        return "engine.instancePool:" + v[5:]
    if v.startswith("prof:"):
        return "engine+composite-profile:" + v[5:]
    return "C04:" + v


def translate_sync(ctx):
    """harness/cmd/trC02 schedsync (C02's translator binary, used read-only): the synchronisation skeleton of
    core/schedule/do_at.go / start_sync.go -> coq/Gen/SchedSyncGen.v, the programs Properties/C04_leaf.v is about
    (bridge Gen/WaiterLeaf_bridge.v)."""
    tr = ctx.build_harness("trC02")
    if tr is None:
        return False
    tmp = os.path.join(ctx.work, "SchedSyncGen.v")
    rc, out = common.sh([tr, "schedsync", common.REPO, tmp], timeout=300, env=common.goenv())
    if rc != 0:
        ctx.broken("translator 'trC02 schedsync' could not re-read do_at.go / start_sync.go "
                   "(a construct outside the grammar of the leaf's synchronisation skeleton)", out)
        return False
    if common.write_if_changed(os.path.join(common.COQ, "Gen", "SchedSyncGen.v"), open(tmp).read()):
        ctx.log("regenerated Gen/SchedSyncGen.v (changed)")
    return True


def run(ctx):
    translate_sync(ctx)
    common.standard(
        ctx, harness="hC04", extracted="C04_model", driver_dir="C04",
        rule=("non-trivial: w cases with >= 2 Wait calls or a token that is >= 2 s late / judged slow; "
              "eng cases in which some token is >= 2 s late at Shoot entry or discard report; prof cases with an unlimited tail or a token >= 2 s late; "
              "pool cases with more than one instance or a token >= 2 s late / discarded; "
              "comp and first cases always; st and near cases always; distinct = distinct case lines"),
        key_fn=key_fn,
        translators=[("consts", "ConstGen.v"), ("gofn-waiter", "GoFnWaiterGen.v"), ("pooldeps", "PoolDepsGen.v"),
                     ("sched", "SchedGen.v"), ("gofn-istep", "GoFnIstepGen.v")],
        bridge_files=["Gen/Waiter_bridge.v", "Gen/GoFnWaiter_bridge.v", "Gen/PoolDeps_bridge.v",
                      "Properties/C04_leaf.v", "Gen/WaiterLeaf_bridge.v",
                      "Properties/C04_profile.v", "Gen/WaiterStep_bridge.v", "Gen/WaiterIstep_bridge.v"],
        trusted=[
            "translator harness/cmd/translate consts (MaxOverdueDuration, DiscardedShootCodeError, DiscardedShootTag compiled from /repo)",
            "translator harness/cmd/translate pooldeps (the boolean expressions carrying discard_overflow: startInstances' instanceSharedDeps literal, "
            "buildNewInstanceSchedule's own-schedule condition, instance.Run's fire condition and discard report, re-read from core/engine; phoutAggregator.Report being exactly a plain send and Run draining the channel, re-read from core/aggregator/netsample/phout.go)",
            "translator harness/cmd/trC02 schedsync (C02's; the synchronisation skeleton of core/schedule/do_at.go Next/Start/Left and start_sync.go, "
            "re-read into Gen/SchedSyncGen.v; Gen/WaiterLeaf_bridge.v); Proofs/SchedLeafConcProofs.v leaf_one_start (C02's lemma) is used by C04_first_tokens_configured",
            "translator harness/cmd/translate sched (C01's, read-only here: NewStep's loop - init, condition, increment, body exactly one unconditional "
            "append of NewConst(i, duration) - and NewConst's token count / token time, re-read from core/schedule/{step,const}.go into Gen/SchedGen.v; Gen/WaiterStep_bridge.v)",
            "translator harness/cmd/translate gofn-istep (C12's, read-only here: schedule.NewInstanceStep as abstract syntax of Lib/Imp.v, Gen/GoFnIstepGen.v; "
            "C12's Gen/GoFnIstep_bridge.v + Gen/WaiterIstep_bridge.v: it returns the segments of a configured instance_step entry)",
            "extraction: ExtrOcamlBasic only; OCaml driver ocaml/C04/main.ml + ocaml/common/conv.ml",
            "correspondence harness harness/cmd/hC04: real coreutil.Waiter on a mock schedule and real engine with a slow mock gun; "
            "booleans/inequalities only, planned margins >= 250 ms; an attempt during which a canary goroutine saw the machine unable to keep time (5 ms sleep overshooting by > 50 ms) is repeated",
            "modelled, not verified: timer accuracy and goroutine wake-up latency (only 'a timer never fires early' and 'the clock is monotone' are used)",
        ],
        assumptions=["Go timers never fire early", "time.Now is monotone (readings never decrease)"],
        run_timeout=900,
    )
