"""C12 — instance startup profile."""
from vlib import common


def key_fn(case, obs, verdict):
    f = case.split(" ")
    v = verdict.split(" ")[0]
    if f[0] == "istep":
        return "instance_step:%s" % v
    if f[0] == "wait":
        return "waiter-over-startup-profile:%s" % v
    if f[0] == "drain":
        return "startup-profile-self-started:%s" % v
    if f[0] == "count":
        return "startup-profile-token-count:%s" % v
    if f[0] == "cfg":
        return "pool-from-config:%s" % v
    if f[0] == "cleft":
        return "composite-profile-tokens-left:%s" % v
    if f[0] == "fincb":
        kind = "unlimited" if "unl:" in f[1] else "finite"
        return "rps-finish-callback:%s-schedule:fired-before-end-or-not-once" % kind
    return "engine-start-loop:%s" % v


def run(ctx):
    common.standard(
        ctx, harness="hC12", extracted="C12_model", driver_dir="C12",
        rule=("non-trivial: instance_step cases with to > from; engine cases whose startup profile has at least 2 tokens; wait cases with at least 2 tokens and a busy caller; cfg cases whose startup profile has at least 2 tokens; count cases with at least 1 token; cleft cases with at least 2 parts; "
              "distinct = distinct case lines"),
        key_fn=key_fn,
        translators=[("gofn-istep", "GoFnIstepGen.v"), ("sched", "SchedGen.v")], bridge_files=["Gen/GoFnIstep_bridge.v", "Gen/StartProfile_bridge.v"],
        trusted=[
            "extraction: ExtrOcamlBasic only; OCaml driver ocaml/C12/main.ml + ocaml/common/conv.ml",
            "correspondence harness harness/cmd/hC12: real engine.Engine with a gun factory recording (InstanceID, bind instant), "
            "recording wrapper around the real startup schedule (token instants), cause flags (provider !ok, shared rps schedule end, "
            "external cancel, injected creation failure: NewGun / gun.Bind / rps schedule factory); ammo items with nil / non-nil values or the real provider.Dummy; a first instance that is slow to create); real coreutil.Waiter under a busy caller (wait cases); real schedule.NewInstanceStep drained from a known start instant; cfg cases: pool decoded by config.DecodeAndValidate through the real plugin registry (coreimport.Import), gun plugin of the harness attributing shots to InstanceIDs",
            "modelled, not verified: startup schedule = abstract token stream (C02); timers never fire early and the clock is monotone "
            "(Go runtime); which engine events cancel the start context (awaitRun, C05) is modelled by labelled cancel sources and "
            "observed by the harness; that a received creation failure of a later instance cancels the start context is the AAwait "
            "step of Model/StartAsync.v, observed as run outcome != ok and no gun bound 100 ms after the failure; that instance.Run reports out-of-ammo exactly on !ok "
            "(is_out OnlyNotOk of Model/StartFire.v) is observed through nil-valued items / the dummy provider, re-read from source only by C03's bridge; "
            "round 7: const_count / const_offset are exact rational formulas tied to const.go by the sched translator + Gen/StartProfile_bridge.v over C01's Gen/Sched_bridge.v; their float64 evaluation is C01's subject; "
            "that the registry-made rps factory returns fresh schedule objects (Model/StartPerInst.v Fresh) is observed by the cfg cases, not re-read from registry.go (C18); "
            "the loop's Wait section is proved equal to Model/Waiter.v wait wfixed, whose equality with waiter.go is C04's bridge",
        ],
        assumptions=["Go timers never fire before their deadline; time.Now is monotone",
                     "the startup schedule hands out its tokens in order (Next contract, C02)"],
        run_timeout=900,
    )
