"""C14 — preload is behaviour-preserving; chosencases selects exactly the listed tags."""
from vlib import common


def _matches(tags, chosen):
    if chosen == "-":
        return 0 if tags == "-" else len(tags.split(","))
    if tags == "-":
        return 0
    ch = set(chosen.split(","))
    return sum(1 for t in tags.split(",") if t in ch)


def _cpair_as_pair(f):
    # cpair <kind> <limit> <passes> <cfg> <items> <chosen> <cancel> <eof>: tags/chosen as comparable tokens
    tags = ",".join(i[1:] or "_" for i in f[5].split(",") if i.startswith("e")) or "-"
    chosen = "-" if f[6] == "-" else ",".join(t[1:] or "_" for t in f[6].split(","))
    return [f[0], ("mw-" if f[0] == "mpair" else "content-") + f[1], f[2], f[3], tags, chosen] + f[7:]


def key_fn(case, obs, verdict):
    # pair <kind> <limit> <passes> <tags> <chosen> <cancel>
    f = case.split(" ")
    if f[0] in ("cpair", "mpair") and len(f) >= 9:
        f = _cpair_as_pair(f)
    o = obs.split(" ")
    kind = f[1]
    filt = "no-entries" if f[4] == "-" else "nofilter" if f[5] == "-" else ("filter-matches-nothing" if _matches(f[4], f[5]) == 0 else "filter")
    bounds = ("limit" if f[2] != "0" else "") + ("passes" if f[3] != "0" else "") or "unbounded"
    s, p = " ".join(o[1:5]), " ".join(o[6:10])
    if s != p:
        if len(o) >= 10 and o[1] != o[6]:
            sym = "preload-differs:count"
        elif len(o) >= 10 and o[2] != o[7]:
            sym = "preload-differs:sequence"
        else:
            sym = "preload-differs:outcome(S=%s,%s;P=%s,%s)" % (o[4] if len(o) > 4 else "?", o[3] if len(o) > 3 else "?",
                                                              o[9] if len(o) > 9 else "?", o[8] if len(o) > 8 else "?")
    else:
        sym = "both:%s,%s" % (o[4] if len(o) > 4 else "?", o[3] if len(o) > 3 else "?")
        if len(o) > 4 and o[4] == "ok" and o[3] == "closed":
            sym = "both:wrong-sequence"
    return "%s:%s:%s:%s" % (kind, filt, bounds, sym)


def what_fn(case, obs, verdict):
    return "providers [%s] observed [%s]: %s" % (case, obs, verdict)


def run(ctx):
    common.standard(
        ctx, harness="hC14", extracted="C14_model", driver_dir="C14",
        rule=("non-trivial: a chosencases filter is set or a bound (limit>0 or passes>0) exists, every content cell; "
              "distinct = distinct case lines"),
        key_fn=key_fn, what_fn=what_fn,
        translators=[("gofn-fullscan", "GoFnFullScanGen.v")],  # provider.go runFullScan re-read as traced IMP syntax (design/GOFN.md)
        # Gen/GoFnFullScan_bridge.v: runFullScan = the HStream decisions of Model/Provider.v, call by call (proofs Proofs/FullScanProofs.v)
        bridge_files=["Properties/C14_content.v", "Properties/C14_mw.v", "Gen/GoFnFullScan_bridge.v"],
        trusted=[
            "translator harness/cmd/translate gofn-fullscan (runFullScan as traced IMP syntax: collaborator calls answered per call by an oracle, errors.Is = equality of error codes, select as an oracle call) + IMP semantics of Lib/Imp.v",
            "extraction: ExtrOcamlBasic only; OCaml driver ocaml/C14/main.ml + ocaml/common/conv.ml",
            "correspondence harness harness/cmd/hC14 + harness/internal/a08 (both real providers, preload off and on, built by "
            "components/providers/http.NewProvider from the same afero mem file; one consumer reading every request body; bounded waits of 2 s; "
            "content cells `cpair`: tag, Host and header set of every acquired ammo rendered by harness/cmd/hC14/content.go; "
            "middleware cells `mpair` (harness/cmd/hC14/mw.go): the real header/date middleware and user middlewares, time stamps rendered as a marker)",
            "modelled, not verified: the decoders at the level of the item list (header lines / entries with byte-string tags; bytes -> items is C07's, linked for uri and the raw header line by C14_uri_bytes_link / C14_raw_header_whole_tag); "
            "the decoder's live header map as a heap of maps (Model/PreloadContent.v); the header maps of ammo objects and requests and the middlewares as operations on them (Model/PreloadMw.v); Go channel hand-off and context cancellation as in C08",
        ],
        assumptions=["Go channels deliver every sent item exactly once, in order; close wakes all receivers"],
    )
