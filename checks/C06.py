"""C06 — result completeness."""
import glob
import hashlib
import os
import shutil

from vlib import common


def key_fn(case, obs, verdict):
    f = case.split(" ")
    return "%s:%s" % (f[0], verdict.split(" ")[0])


def ocaml_model(ctx):
    """Like ctx.ocaml_model, but the extraction is compiled as module C06_model and module Model is the
    shim ocaml/C06/shim/model.ml (the extraction contains Coq's module Z, which would hide zarith's Z
    from ocaml/common/conv.ml after `open Model`)."""
    src = os.path.join(common.COQ, "extracted")
    bdir = os.path.join(common.BUILD, "ocaml", "mC06")
    os.makedirs(bdir, exist_ok=True)
    for stale in ("model.mli", "model.cmi"):
        if os.path.exists(os.path.join(bdir, stale)):
            os.remove(os.path.join(bdir, stale))
    files = []
    for ext in (".mli", ".ml"):
        p = os.path.join(src, "C06_model" + ext)
        if not os.path.exists(p):
            ctx.brokens.append(("extracted model %s missing" % p, ctx.write_replay("extract", "missing " + p)))
            return None
        shutil.copyfile(p, os.path.join(bdir, "c06_model" + ext))
        files.append("c06_model" + ext)
    extra = [os.path.join(common.VERIF, "ocaml", "C06", "shim", "model.ml")]
    extra += sorted(glob.glob(os.path.join(common.VERIF, "ocaml", "common", "*.ml")))
    extra += [p for p in sorted(glob.glob(os.path.join(common.VERIF, "ocaml", "C06", "*.ml"))) if os.path.basename(p) != "main.ml"]
    extra += [os.path.join(common.VERIF, "ocaml", "C06", "main.ml")]
    for p in extra:
        shutil.copyfile(p, os.path.join(bdir, os.path.basename(p)))
        files.append(os.path.basename(p))
    out = os.path.join(common.BIN, "mC06")
    h = hashlib.sha256()
    for f in files:
        h.update(open(os.path.join(bdir, f), "rb").read())
    stamp = os.path.join(bdir, "stamp")
    if os.path.exists(out) and os.path.exists(stamp) and open(stamp).read() == h.hexdigest():
        return out
    rc, txt = common.sh(["ocamlfind", "ocamlopt", "-w", "-a", "-inline", "50", "-package", "zarith,str", "-linkpkg", "-o", out] + files,
                        cwd=bdir, timeout=600)
    ctx.log("ocaml build mC06: rc=%d" % rc)
    if rc != 0:
        p = ctx.write_replay("ocaml", "ocaml build of the extracted model failed\n" + txt)
        ctx.brokens.append(("extracted model does not build", p))
        return None
    open(stamp, "w").write(h.hexdigest())
    return out


RULE = "non-trivial: line/setters cases inside the guard of C06_line_roundtrip; distinct = distinct case lines"
TRUSTED = []
ASSUME = []


def run(ctx):
    cov = {"rule": RULE, "evaluations": 0, "distinct_nontrivial": 0}
    ok_t = common.translate(ctx, "phout", "PhoutGen.v")
    model_ok = ok_t and ctx.coq(["Extract/ExtractC06.vo"], what="model+extraction")
    if model_ok:
        ctx.properties(extra_files=[])
    h = ctx.build_harness("hC06")
    m = ocaml_model(ctx) if model_ok else None
    if h and m:
        st = common.correspondence(ctx, h, m, key_fn=key_fn)
        if st:
            cov.update(st)
        if ctx.brokens and not ctx.violations and ctx.quick() and not ctx.replay:
            st2 = common.correspondence(ctx, h, m, key_fn=key_fn, tier="thorough", label="escalated")
            if st2:
                cov["escalated_evaluations"] = st2["evaluations"]
    cov["trusted_base_extra"] = list(TRUSTED)
    ctx.finish(cov, assumptions=list(ASSUME))
