"""C06 — result completeness."""
import os

from vlib import common


def key_fn(case, obs, verdict):
    f = case.split(" ")
    return "%s:%s" % (f[0], verdict.split(" ")[0])


RULE = "non-trivial: line/setters cases inside the guard of C06_line_roundtrip; distinct = distinct case lines"
TRUSTED = []
ASSUME = []


def run(ctx):
    cov = {"rule": RULE, "evaluations": 0, "distinct_nontrivial": 0}
    ok_t = common.translate(ctx, "phout", "PhoutGen.v")
    model_ok = ok_t and ctx.coq(["Extract/ExtractC06.vo"], what="model+extraction")
    if model_ok:
        ctx.properties(extra_files=[])
    h = ctx.build_harness("hC06")
    m = ctx.ocaml_model("mC06", "C06_model", "C06") if model_ok else None
    if h and m:
        st = common.correspondence(ctx, h, m, key_fn=key_fn)
        if st:
            cov.update(st)
        if ctx.brokens and not ctx.violations and ctx.quick() and not ctx.replay:
            st2 = common.correspondence(ctx, h, m, key_fn=key_fn, tier="thorough", label="escalated")
            if st2:
                cov["escalated_evaluations"] = st2["evaluations"]
    cov["trusted_base_extra"] = list(TRUSTED)
    ctx.finish(cov, assumptions=list(ASSUME))
