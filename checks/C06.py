"""C06 — result completeness."""
import os
import resource
import shutil
import time

from vlib import common


def key_fn(case, obs, verdict):
    f = case.split(" ")
    why = verdict.split(":", 1)[1] if ":" in verdict else verdict
    why = why.split(" ")[0]
    # results on a shared stream (phout without a destination, sink: stdout / stderr): named in the key
    stream = ("@" + f[-1]) if f[-1] in ("stdout", "stderr") else ""
    if f[0] == "aggr":
        return "aggr:%s%s:%s" % (f[1], stream, why)  # format (+ stream) + what fails
    if f[0] == "engine":
        return "engine:%s:%s" % (f[1], why)
    if f[0] == "signal":
        return "signal%s:%s" % (stream, why)         # e.g. signal:exit-before-aggregator-close
    if f[0] == "fail":
        return "failed-run%s:%s" % (stream, why)     # the cli's "engine returned an error" exit path
    if f[0] == "end":
        return "normal-end%s:%s" % (stream, why)     # the run ends by itself, the process exits with status 0
    if f[0] == "line":
        return "line:ids-%s:%s" % ("on" if f[1] == "1" else "off", why)
    return "%s:%s" % (f[0], why)


def what_fn(case, obs, verdict):
    f = case.split(" ")
    if f[0] == "signal":
        info = obs.split("info:", 1)[1] if "info:" in obs else ""
        return "pandora stopped with SIG%s after %s ms: %s (%s)" % (f[1], f[2], verdict, info)
    if f[0] == "end":
        info = obs.split("info:", 1)[1] if "info:" in obs else ""
        return "pandora run of %s shots ending normally, results on %s: %s (%s)" % (f[1], f[-1], verdict, info)
    if f[0] == "fail":
        info = obs.split("info:", 1)[1] if "info:" in obs else ""
        return "pandora run failing at shot %s (gun fault): %s (%s)" % (f[1], verdict, info)
    return verdict


def build_pandora_verif(ctx):
    """go build of harness/cmd/pandora-verif (cli.Run + test gun) into /var/tmp/pandora-verif-<pid>/."""
    d = "/var/tmp/pandora-verif-%d" % os.getpid()
    os.makedirs(d, exist_ok=True)
    out = os.path.join(d, "pandora-verif")
    t = time.time()
    with common.Lock("gomod"):
        common.sync_gomod()
        rc, txt = common.sh(["go", "build", "-tags", "verif", "-o", out, "./cmd/pandora-verif"],
                            cwd=common.HARNESS, env=common.goenv(), timeout=1200)
    ctx.log("go build pandora-verif: rc=%d %.1fs" % (rc, time.time() - t))
    if rc != 0:
        p = ctx.write_replay("harness-build", "go build of cmd/pandora-verif (cli.Run + test gun) failed against the current tree\n\n" + txt)
        ctx.brokens.append(("pandora-verif no longer builds against /repo", p))
        shutil.rmtree(d, ignore_errors=True)
        return None, None
    return d, out


RULE = ("non-trivial: line/setters cases inside the guard of C06_line_roundtrip; aggr/engine cases with at least 2 reports; "
        "signal / failed-run / normal-end shots in which at least one report was complete before the cancel; distinct = distinct case lines")
TRUSTED = [
    "translator harness/cmd/translate gofn-phoutrun (phoutAggregator.Run as traced IMP syntax: selects answered by the oracle, deferred block before every return, labelled break as a flag) + IMP semantics of Lib/Imp.v",
    "translator harness/cmd/translate phout (field keys compiled from /repo through the verif hook; go/ast pattern over cli.awaitPandoraTermination for gen_cli_signal_waits)",
    "extraction: ExtrOcamlBasic only; OCaml driver ocaml/C06/main.ml + ocaml/common/conv.ml (zarith for decimal I/O; sample-of-id function duplicated from the Go harness; lazy-receive schedule reconstruction for trace acceptance)",
    "correspondence harness harness/cmd/hC06: verif hook netsample.VerifAppendPhout/VerifNewSample, real netsample.NewPhout / aggregator.NewJSONLinesAggregator / NewEncoderAggregator on afero MemMapFs, real engine.Engine, pandora-verif subprocess (cli.Run + test gun with unbuffered side log); for results on a shared stream os.Stdout / os.Stderr are pointed at a scratch file while the aggregator is built; fault-injecting file systems (stalling, failing after n bytes, read-only)",
    "modelled, not verified: Go channel/select/context semantics as atomic events; bufio, jsoniter, afero, the kernel's file semantics and signal delivery; I/O errors of the destination are outside the model",
]
ASSUME = [
    "Go channels are linearizable FIFO queues; a non-blocking receive fails only on an empty buffer",
    "context cancellation happens-before any later observation of ctx.Err()/ctx.Done()",
    "bufio.Writer and the jsoniter stream deliver bytes in order; writes to the destination do not fail",
    "encoding/json decides what a valid JSON value is (jsonlines)",
]


def run(ctx):
    cov = {"rule": RULE, "evaluations": 0, "distinct_nontrivial": 0}
    ok_t = common.translate(ctx, "phout", "PhoutGen.v")
    # phoutAggregator.Run re-read as traced IMP syntax (design/GOFN.md); a failing translator is recorded as broken
    common.translate(ctx, "gofn-phoutrun", "GoFnPhoutRunGen.v")
    model_ok = ok_t and ctx.coq(["Extract/ExtractC06.vo"], what="model+extraction")
    if model_ok:
        # Gen/GoFnPhoutRun_bridge.v: Run = the phases of Model/Aggregator.v call by call (proofs Proofs/PhoutRunProofs.v)
        ctx.properties(extra_files=["Gen/Phout_bridge.v", "Gen/GoFnPhoutRun_bridge.v"])
    h = ctx.build_harness("hC06")
    m = ctx.ocaml_model("mC06", "C06_model", "C06") if model_ok else None
    pdir, pbin = build_pandora_verif(ctx)
    # the extracted list functions are not tail recursive: files of some 100 kB need a deep stack
    try:
        soft, hard = resource.getrlimit(resource.RLIMIT_STACK)
        want = 2 << 30
        resource.setrlimit(resource.RLIMIT_STACK, (want if hard == resource.RLIM_INFINITY else min(want, hard), hard))
    except (ValueError, OSError):
        pass
    try:
        if pbin:
            os.environ["PANDORA_VERIF_BIN"] = pbin
        else:
            os.environ.pop("PANDORA_VERIF_BIN", None)
        if h and m:
            st = common.correspondence(ctx, h, m, key_fn=key_fn, what_fn=what_fn)
            if st:
                cov.update(st)
            if ctx.brokens and not ctx.violations and not ctx.known_hits and ctx.quick() and not ctx.replay:
                # a proof, bridge or the correspondence no longer checks: widen the search for a concrete failing input
                os.environ["C06_SIGNAL_SHOTS"] = "12"
                os.environ["C06_FAIL_SHOTS"] = "6"
                os.environ["C06_END_SHOTS"] = "8"
                st2 = common.correspondence(ctx, h, m, key_fn=key_fn, what_fn=what_fn, tier="thorough", label="escalated")
                if st2:
                    cov["escalated_evaluations"] = st2["evaluations"]
    finally:
        if pdir:
            shutil.rmtree(pdir, ignore_errors=True)
    if not ctx.quick() and not ctx.replay and model_ok and not ctx.brokens:
        ck = ctx.coqchk()
        if ck:
            cov.update(ck)
    cov["trusted_base_extra"] = list(TRUSTED)
    ctx.finish(cov, assumptions=list(ASSUME))
