package main

import (
	"fmt"
	"net/textproto"
	"strings"

	"verifharness/internal/vh"
)

// Generator. Keys are valid header tokens in random letter case (so that canonicalisation collisions between
// in-file, entry and configured headers happen often); values have no leading/trailing blanks and no CR/LF
// (DecodeHeader trims, net/http refuses CR/LF). `Connection`, `Content-Length`, `Transfer-Encoding`, `Expect`,
// `Trailer`, `Pragma` are never generated (they change what net/http itself does with the connection/body).

var keyPool = []string{"X-A", "X-B", "X-Trace-Id", "Accept", "Cookie", "User-Agent", "Accept-Encoding", "Authorization", "X-A", "Host", "X_u.1"}
var valPool = []string{"1", "2", "conf", "file", "entry", "a b", "a:b", "x]y", "", "gzip", "\xc3\xbc", "v; q=0.5, w", "[z]"}
var hostValPool = []string{"example.org", "h.example:8080", "EXAMPLE.org", "10.1.2.3:81", "xn--e1afmkfd.example"} // Host header values
var hostPool = []string{"example.org", "h.example:8080", decoyToken, "EXAMPLE.org", "10.1.2.3:81"}

func recase(r *vh.Rand, k string) string {
	switch r.Intn(5) {
	case 0:
		return strings.ToLower(k)
	case 1:
		return strings.ToUpper(k)
	case 2:
		b := []byte(k)
		for i := range b {
			if r.Bool() {
				b[i] = strings.ToUpper(string(b[i]))[0]
			} else {
				b[i] = strings.ToLower(string(b[i]))[0]
			}
		}
		return string(b)
	}
	return k
}

func genKV(r *vh.Rand, prefer []string) kv {
	var k string
	if len(prefer) > 0 && r.Chance(3, 5) {
		k = r.Pick(prefer)
	} else {
		k = r.Pick(keyPool)
	}
	k = recase(r, k)
	if textproto.CanonicalMIMEHeaderKey(k) == "Host" {
		return kv{k, r.Pick(hostValPool)}
	}
	v := r.Pick(valPool)
	if textproto.CanonicalMIMEHeaderKey(k) == "User-Agent" && v == "" {
		v = "ua/1" // net/http omits an empty User-Agent altogether (its documented way to suppress the default)
	}
	return kv{k, v}
}

func encKV(h kv) string { return vh.HexS(h.k) + " " + vh.HexS(h.v) }

func genBody(r *vh.Rand, text bool) []byte {
	switch r.Intn(6) {
	case 0:
		return nil
	case 1:
		return []byte("a=1&b=2")
	case 2:
		return []byte("{\"k\": \"v\", \"n\": [1,2]}")
	case 3:
		if text {
			return []byte("line1\nline2\r\n\tend \xd0\xb6")
		}
		return []byte{0, 1, 2, 0xff, 0xfe, '\n', '\r', '\n', 'x', 0x80}
	case 4:
		n := r.Range(1, 3000)
		b := make([]byte, n)
		for i := range b {
			if text {
				b[i] = byte('a' + r.Intn(26))
			} else {
				b[i] = byte(r.Intn(256))
			}
		}
		return b
	}
	return []byte("x")
}

var uriPool = []string{"/", "/a", "/a/b/c", "/a?x=1&y=2", "/p%20q", "/a%2Fb?z=%26", "/buy/?rt=0&station_to=7", "/~u/index.html", "/a;p=1", "/%D0%B6", "/a/../b", "/a//b", "/?"}
var methodPool = []string{"GET", "POST", "PUT", "DELETE", "PATCH", "HEAD", "OPTIONS", "FOO", "get"}

// genCase: mode 0 = requests back to back; 1 = 1.3-1.6 s between the requests of an instance; 2 = the same pauses with the
// configured dial timeout of the documented example (1 s), so that every instance outlives its dial timeout (round 7: the
// timeout bounds the dial, an established connection / tunnel must survive it)
func genCase(r *vh.Rand, mode int) string {
	paused := mode != 0
	format := r.Pick([]string{"uri", "uripost", "jsonline", "raw", "uripost", "jsonarr"})
	ssl := r.Chance(1, 3)
	ka := r.Chance(2, 3)
	inst := r.Range(1, 4)
	if paused { // an instance idling between its requests must still keep its one connection
		ka, inst = true, r.Range(1, 2)
		if mode == 2 { // mostly ONE instance: it then shoots every request of the file, each 1.3-1.6 s after the other
			inst = r.PickInt([]int{1, 1, 1, 2})
		}
	}
	tgt := "ip"
	if r.Chance(1, 3) {
		tgt = "name"
	}
	// keys the entries / file are going to use, so that the configured list can collide with them
	var used []string
	nItems := r.Range(1, 6)
	if paused {
		nItems = r.Range(2, 3)
	}
	var items []string
	nEntries := 0
	fileHdr := format == "uri" || format == "uripost"
	for i := 0; i < nItems || nEntries == 0; i++ {
		if fileHdr && r.Chance(2, 5) {
			h := genKV(r, used)
			used = append(used, textproto.CanonicalMIMEHeaderKey(h.k))
			items = append(items, "H "+encKV(h))
			continue
		}
		nEntries++
		method := "GET"
		if format == "uripost" {
			method = "POST"
		}
		if format == "jsonline" || format == "jsonarr" || format == "raw" {
			method = r.Pick(methodPool)
		}
		uri := r.Pick(uriPool)
		if r.Chance(1, 2) {
			uri = fmt.Sprintf("%s%sid=%d", uri, map[bool]string{true: "&", false: "?"}[strings.Contains(uri, "?")], i)
			uri = strings.Replace(uri, "?&", "?", 1)
		}
		scheme, host := "-", ""
		if r.Chance(1, 4) {
			host = r.Pick(hostPool)
			if paused && host == decoyToken {
				host = "example.org" // the shared decoy server belongs to the sequential cases
			}
			scheme = "h"
			if format != "jsonline" && format != "jsonarr" && r.Chance(1, 3) {
				scheme = "s"
			}
		}
		tag := ""
		if r.Chance(1, 2) {
			tag = r.Pick([]string{"t1", "tag2"})
		}
		var body []byte
		if format != "uri" && method != "HEAD" {
			body = genBody(r, format == "jsonline" || format == "jsonarr")
		}
		var hs []kv
		if !fileHdr {
			seen := map[string]bool{}
			for n := r.Intn(5); n > 0; n-- {
				h := genKV(r, used)
				ck := textproto.CanonicalMIMEHeaderKey(h.k)
				if seen[ck] && (format == "jsonline" || format == "jsonarr" || ck == "Host" || ck == "User-Agent") {
					// a JSON object has one value per (canonical) key; a request has one Host; net/http sends
					// only the first User-Agent value
					continue
				}
				seen[ck] = true
				used = append(used, ck)
				hs = append(hs, h)
			}
		}
		if format == "raw" && len(body) > 0 && r.Chance(1, 3) {
			scheme += "c" // the raw entry carries its body with Transfer-Encoding: chunked
		}
		e := fmt.Sprintf("E %s %s %s %s %s %s %d", vh.HexS(method), vh.HexS(uri), scheme, vh.HexS(host), vh.HexS(tag), vh.Hex(body), len(hs))
		for _, h := range hs {
			e += " " + encKV(h)
		}
		items = append(items, e)
	}
	var cfg []string
	cfgUA := false
	for n := r.Intn(5); n > 0; n-- {
		h := genKV(r, used)
		if textproto.CanonicalMIMEHeaderKey(h.k) == "User-Agent" {
			if cfgUA {
				continue
			}
			cfgUA = true
		}
		cfg = append(cfg, encKV(h))
	}
	// what the target answers (the property speaks of the request; the answer must not matter, incl. for connection reuse)
	// passes > 1 with preload / an array file hands the SAME decoded entries out again, with several instances and a slow
	// target to more than one instance at once
	passes := r.PickInt([]int{1, 1, 2, 3})
	delay := r.PickInt([]int{0, 0, 0, 15})
	if paused {
		passes, delay = 1, 0
	}
	// rdv: the target answers only when all instances of the pool have a request in flight, so that they shoot in step
	rdv := r.Chance(1, 3) && !paused
	if rdv && inst >= 3 && r.Chance(1, 2) {
		passes *= 3 // several rounds of all instances shooting in step
	}
	// gun options under which Shoot reads the request body / the answer, or follows redirects (opts.go)
	opts := genOptTokens(r, true)
	if ssl && ka && r.Chance(1, 4) {
		// the http2 gun (TLS only) against a target speaking h2.  Only with keep-alives on: the property's "one connection per
		// request when keep-alives are disabled" is about HTTP/1; golang.org/x/net/http2 under DisableKeepAlives was seen to
		// open a few connections more than there are requests when instances share a client (its own pool logic)
		if opts != "" {
			opts += "."
		}
		opts += "2"
	}
	// gun kind connect (plain or connect-ssl) instead of http: the requests go through a CONNECT tunnel to the target
	addOpt := func(t string) {
		if opts != "" {
			opts += "."
		}
		opts += t
	}
	if !strings.HasSuffix(opts, "2") && r.Chance(1, 3) {
		addOpt(r.Pick([]string{"k", "k", "K"}))
	}
	// dial.timeout: in mode 2 the 1 s of the documented example configuration (docs/eng/http-generator.md), outlived by every
	// instance; otherwise sometimes 1 s / 2 s.  Nothing shorter: under load a loop-back dial may take a few hundred ms.
	if mode == 2 {
		addOpt("T1000")
	} else if r.Chance(1, 6) {
		addOpt(fmt.Sprintf("T%d", r.PickInt([]int{1000, 2000})))
	}
	status, size := r.PickInt([]int{200, 200, 200, 204, 301, 404, 500}), r.PickInt([]int{0, 2, 2, 1000, 70000, 300000, 1200000})
	if status == 301 && size > 2048 && strings.Contains("."+opts+".", ".r.") {
		// net/http's redirect-following client reads at most 2 KB of a redirect answer and closes the connection otherwise
		// (http.Client, maxBodySlurpSize): not the gun's doing, so such answers stay small when redirects are followed
		size = 1000
	}
	resp := fmt.Sprintf("%d:%d:%d:%s", status, size, delay, vh.B(rdv))
	// the gun's shared-client block: absent (the default), present but disabled (per-instance clients, whatever client-number
	// says: 0, the documented default 1, more than / fewer than the instances, negative), or enabled
	sc := "n"
	switch r.Intn(4) {
	case 0:
		sc = fmt.Sprintf("d%d", r.PickInt([]int{0, 1, 1, 1, 2, 3, 8, -1}))
	case 1:
		sc = fmt.Sprintf("e%d", r.PickInt([]int{0, 1, 1, 2, 3, 8, -1}))
	}
	pools := r.PickInt([]int{1, 1, 1, 2, 3})
	late := r.Chance(1, 3) && !paused
	pause := 0
	if mode == 1 {
		pause = r.PickInt([]int{1300, 1300, 1600})
	} else if mode == 2 {
		pause = r.PickInt([]int{1300, 1600})
	}
	kaf := vh.B(ka)
	if opts != "" {
		kaf += ":" + opts
	}
	// the file is delivered `passes` times either through `limit` = entries * passes or through the provider option `passes`
	pf := fmt.Sprint(passes)
	if r.Chance(1, 4) {
		pf += "p"
	}
	// file syntax variants: how header lines are written, blank lines around the items, no newline at the end
	plf := vh.B(r.Chance(1, 3))
	if r.Chance(1, 2) {
		syn := r.Pick([]string{"", "s", "S"})
		if r.Chance(1, 2) && format != "jsonarr" {
			syn += "b"
		}
		if r.Chance(1, 3) {
			syn += "n"
		}
		if syn != "" {
			plf += ":" + syn
		}
	}
	line := fmt.Sprintf("wire %s %s %s %d:%s %s %s %s %d %s %d %s %d", format, vh.B(ssl), kaf, inst, sc, tgt, plf, resp, pools, vh.B(late), pause, pf, len(cfg))
	if len(cfg) > 0 {
		line += " " + strings.Join(cfg, " ")
	}
	line += fmt.Sprintf(" %d %s", len(items), strings.Join(items, " "))
	return line
}

func gen(r *vh.Rand, tier string) []string {
	n := 600
	if tier == "thorough" {
		n = 12000
	}
	out := make([]string, 0, n)
	for i := 0; i < n; i++ {
		mode := 0
		if i%100 == 50 { // 1% of the cases pause 1.3-1.6 s between the requests
			mode = 1
		} else if i%33 == 16 { // 3%: dial timeout 1 s, outlived by every instance
			mode = 2
		}
		out = append(out, genCase(r, mode))
	}
	// scripted histories on the real guns / clients / transports, compared exactly with the transport model
	nh := 200
	if tier == "thorough" {
		nh = 4000
	}
	for i := 0; i < nh; i++ {
		out = append(out, genHist(r))
	}
	// transport / dialer construction: every config field must land in the same-named field of the built object
	for i := 0; i < 6; i++ {
		out = append(out, fmt.Sprintf("tr %d", r.Intn(4096)))
	}
	return out
}
