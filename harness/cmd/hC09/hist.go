package main

// Case kind `hist`: a scripted history of request starts / ends, executed event by event on the REAL guns.
//
//	hist <keepalive>[:<gun options>] <sc> <max-idle-conns-per-host> <answer-bytes> <instances> <nev> {B<k>|E<k>|W<ms>}*nev
//
// W<ms> (round 7): nothing happens for <ms> milliseconds — between two requests of an instance or while requests are in flight.
// With the gun option T<ms> (dial.timeout, 1 s) shorter than the waits, and the gun types http / connect (option k / K: through a
// tunnel front), this is the timed history of Model/HttpTunnel.v: a connection must outlive the dial timeout.
//
// The gun configuration (disable-keep-alives, max-idle-conns-per-host, shared-client block sc = n | d<N> | e<N>) goes through
// the real config decoder and the registered `http` gun factory; as the engine does, ONE extra gun runs WarmUp and its result
// is handed to the Bind of every instance's gun (instances are bound in the order 0,1,..).  B<k>: instance k's gun Shoots in a
// goroutine and the event is over when the request has ARRIVED at the target (the handler then blocks); E<k>: the handler of
// k's request answers and the event is over when Shoot has returned (net/http parks a connection before the body reader
// sees EOF, so the connection is parked — or closed — by then).  No two events overlap, so the run is deterministic.
//
// Observation:  run=<ok|..> dials=<connections the target accepted> log=<k>:<c>,..  (one entry per request in arrival order,
// c = connection number by first appearance) cl=<distinct clients>/<bound guns>
// compared EXACTLY with the extracted transport model t_run (Model/HttpConns.v) and judged by the extracted hist_ok.

import (
	"bytes"
	"context"
	"fmt"
	"io"
	"log"
	"net"
	"net/http"
	"net/http/httptest"
	"strconv"
	"strings"
	"sync"
	"sync/atomic"
	"time"

	"github.com/spf13/afero"
	"github.com/yandex/pandora/cli"
	httpammo "github.com/yandex/pandora/components/providers/http/ammo"
	"github.com/yandex/pandora/core"
	"github.com/yandex/pandora/core/config"
	"github.com/yandex/pandora/core/warmup"

	"verifharness/internal/vh"
)

const histWait = 10 * time.Second

func runHist(line string) string {
	f := strings.Split(line, " ")
	if len(f) < 7 {
		return "badcase"
	}
	ka, opts, kaOK := parseKA(f[1])
	if !kaOK {
		return "badcase"
	}
	sc := f[2]
	maxIdle, e1 := strconv.Atoi(f[3])
	size, e2 := strconv.Atoi(f[4])
	n, e3 := strconv.Atoi(f[5])
	nev, e4 := strconv.Atoi(f[6])
	if e1 != nil || e2 != nil || e3 != nil || e4 != nil || n < 1 || n > 64 || len(f) != 7+nev {
		return "badcase"
	}
	type event struct {
		begin bool
		k     int
		wait  int // W<ms>: nothing happens for that long (round 7)
	}
	var evs []event
	for _, t := range f[7:] {
		k, err := strconv.Atoi(t[1:])
		if t[0] == 'W' && err == nil && k >= 0 && k <= 5000 {
			evs = append(evs, event{wait: k})
			continue
		}
		if err != nil || k < 0 || k >= n || (t[0] != 'B' && t[0] != 'E') {
			return "badcase"
		}
		evs = append(evs, event{t[0] == 'B', k, 0})
	}

	// target
	var mu sync.Mutex
	var order []string // k:remote-address per request, in arrival order
	var newc int64
	arrived := make([]chan struct{}, n)
	release := make([]chan struct{}, n)
	for k := range arrived {
		arrived[k] = make(chan struct{}, 4)
		release[k] = make(chan struct{}, 4)
	}
	srv := httptest.NewUnstartedServer(http.HandlerFunc(func(w http.ResponseWriter, r *http.Request) {
		_, _ = io.ReadAll(r.Body)
		k, err := strconv.Atoi(strings.TrimPrefix(r.URL.Path, "/i"))
		if err != nil || k < 0 || k >= n {
			w.WriteHeader(400)
			return
		}
		mu.Lock()
		order = append(order, fmt.Sprintf("%d %s", k, r.RemoteAddr))
		mu.Unlock()
		arrived[k] <- struct{}{}
		select {
		case <-release[k]:
		case <-time.After(3 * histWait):
		}
		w.Header().Set("Content-Type", "text/plain")
		w.WriteHeader(200)
		if size > 0 {
			_, _ = w.Write(bytes.Repeat([]byte("r"), size))
		}
	}))
	srv.Config.ConnState = func(cn net.Conn, st http.ConnState) {
		if st == http.StateNew {
			atomic.AddInt64(&newc, 1)
		}
	}
	srv.Config.ErrorLog = log.New(io.Discard, "", 0)
	srv.Start()
	defer srv.Close()

	// guns: real decoder + registered factory
	path := fmt.Sprintf("/ammo-%d", atomic.AddInt64(&caseNo, 1))
	_ = afero.WriteFile(fs, path, []byte("/\n"), 0o644)
	defer fs.Remove(path)
	target := srv.Listener.Addr().String()
	if opts.connect { // the connect gun shoots through a tunnel front before the target (tunnel.go)
		front, err := newTunnelFront(target, opts.connectSSL)
		if err != nil || !front.start() {
			return "run=harness-port-lost"
		}
		defer front.close()
		target = "127.0.0.1:" + front.port
	}
	gun := map[string]any{
		"type": "http", "target": target,
		"disable-keep-alives": !ka, "max-idle-conns-per-host": maxIdle,
	}
	opts.apply(gun)
	if sc != "n" && len(sc) > 1 {
		num, err := strconv.Atoi(sc[1:])
		if err != nil {
			return "badcase"
		}
		gun["shared-client"] = map[string]any{"enabled": sc[0] == 'e', "client-number": num}
	}
	conf := cli.DefaultConfig()
	if err := config.DecodeAndValidate(map[string]any{"pools": []any{map[string]any{
		"id": "h", "ammo": map[string]any{"type": "uri", "file": path, "limit": 1},
		"result": map[string]any{"type": "discard"}, "gun": gun,
		"rps":     []any{map[string]any{"type": "once", "times": 1}},
		"startup": []any{map[string]any{"type": "once", "times": 1}},
	}}}, conf); err != nil {
		return "run=conferr:" + vh.HexS(err.Error())
	}
	newGun := conf.Engine.Pools[0].NewGun
	ctx, cancel := context.WithCancel(context.Background())
	defer cancel()
	logger := opts.logger()
	var shared any
	wgun, err := newGun()
	if err != nil {
		return "run=gunerr"
	}
	if wu, ok := wgun.(warmup.WarmedUp); ok { // engine: instancePool.warmUpGun
		if shared, err = wu.WarmUp(&warmup.Options{Log: logger, Ctx: ctx}); err != nil {
			return "run=warmuperr"
		}
	}
	guns := make([]core.Gun, n)
	ag := &aggr{}
	for k := 0; k < n; k++ { // engine: newInstance
		g, err := newGun()
		if err != nil {
			return "run=gunerr"
		}
		if err := g.Bind(ag, core.GunDeps{Ctx: ctx, Log: logger, PoolID: "h", InstanceID: k, Shared: shared}); err != nil {
			return "run=binderr"
		}
		guns[k] = g
	}
	defer func() {
		for _, g := range append(guns, wgun) {
			if c, ok := g.(io.Closer); ok {
				_ = c.Close()
			}
			if b := baseGunOf(g); b != nil && b.Client != nil {
				b.Client.CloseIdleConnections()
			}
		}
	}()

	done := make([]chan struct{}, n)
	for k := range done {
		done[k] = make(chan struct{}, 4)
	}
	inflight := make([]bool, n)
	run := "ok"
	for _, ev := range evs {
		k := ev.k
		if ev.wait > 0 {
			time.Sleep(time.Duration(ev.wait) * time.Millisecond)
			continue
		}
		if ev.begin {
			if inflight[k] {
				run = "not-a-history"
				break
			}
			inflight[k] = true
			req, _ := http.NewRequest("GET", fmt.Sprintf("/i%d", k), nil)
			am := httpammo.NewGunAmmo(req, "t", uint64(k))
			go func() {
				defer func() { _ = recover(); done[k] <- struct{}{} }()
				guns[k].Shoot(am)
			}()
			select {
			case <-arrived[k]:
			case <-done[k]:
				run = "request-lost"
			case <-time.After(histWait):
				run = "hang-begin"
			}
		} else {
			if !inflight[k] {
				run = "not-a-history"
				break
			}
			inflight[k] = false
			release[k] <- struct{}{}
			select {
			case <-done[k]:
			case <-time.After(histWait):
				run = "hang-end"
			}
		}
		if run != "ok" {
			break
		}
	}
	// let whatever is still blocked go
	for k := range release {
		if inflight[k] {
			release[k] <- struct{}{}
		}
	}
	mu.Lock()
	ids := map[string]int{}
	var lg []string
	for _, o := range order {
		p := strings.SplitN(o, " ", 2)
		if _, ok := ids[p[1]]; !ok {
			ids[p[1]] = len(ids)
		}
		lg = append(lg, fmt.Sprintf("%s:%d", p[0], ids[p[1]]))
	}
	mu.Unlock()
	d, b := boundClients(guns)
	logs := "-"
	if len(lg) > 0 {
		logs = strings.Join(lg, ",")
	}
	return fmt.Sprintf("run=%s dials=%d log=%s cl=%d/%d", run, atomic.LoadInt64(&newc), logs, d, b)
}

// genHist: well-formed histories — a random walk over the instances (start a request / finish the one in flight) or rounds
// in which a subset of the instances start in a random order and then finish in a random order; whatever is in flight at
// the end is finished.
func genHist(r *vh.Rand) string {
	n := r.Range(1, 5)
	ka := r.Chance(4, 5)
	sc := "n"
	switch r.Intn(3) {
	case 0:
		sc = fmt.Sprintf("d%d", r.PickInt([]int{0, 1, 1, 1, 2, 3, 8, -1}))
	case 1:
		sc = fmt.Sprintf("e%d", r.PickInt([]int{0, 1, 1, 2, 3, 8, -1}))
	}
	maxIdle := r.PickInt([]int{0, 0, 0, 1, 2, 3})
	size := r.PickInt([]int{0, 2, 2, 1000, 70000})
	inflight := make([]bool, n)
	var evs []string
	toggle := func(k int) {
		if inflight[k] {
			evs = append(evs, fmt.Sprintf("E%d", k))
		} else {
			evs = append(evs, fmt.Sprintf("B%d", k))
		}
		inflight[k] = !inflight[k]
	}
	perm := func(ks []int) []int {
		out := append([]int(nil), ks...)
		for i := len(out) - 1; i > 0; i-- {
			j := r.Intn(i + 1)
			out[i], out[j] = out[j], out[i]
		}
		return out
	}
	if r.Bool() {
		for steps := r.Range(2, 24); steps > 0; steps-- {
			toggle(r.Intn(n))
		}
	} else {
		for rounds := r.Range(1, 4); rounds > 0; rounds-- {
			var ks []int
			for k := 0; k < n; k++ {
				if r.Chance(4, 5) {
					ks = append(ks, k)
				}
			}
			if len(ks) == 0 {
				ks = []int{r.Intn(n)}
			}
			for _, k := range perm(ks) {
				toggle(k)
			}
			for _, k := range perm(ks) {
				toggle(k)
			}
		}
	}
	for k := 0; k < n; k++ {
		if inflight[k] {
			toggle(k)
		}
	}
	kaf := vh.B(ka)
	o := genOptTokens(r, false) // what Shoot does with the answer under these options must not cost the connection
	addOpt := func(t string) {
		if o != "" {
			o += "."
		}
		o += t
	}
	if r.Chance(1, 3) { // the connect gun: every connection of the transport model is a tunnel through the front
		addOpt(r.Pick([]string{"k", "k", "K"}))
	}
	if r.Chance(1, 8) {
		// timed history: dial timeout 1 s (nothing shorter: under load a loop-back dial may take a few hundred ms) and 1-2
		// waits longer than it, anywhere in the history but after the first event (requests in flight or not)
		t := 1000
		addOpt(fmt.Sprintf("T%d", t))
		for w := r.Range(1, 2); w > 0; w-- {
			at := r.Range(1, len(evs)-1)
			evs = append(evs[:at], append([]string{fmt.Sprintf("W%d", t+r.PickInt([]int{200, 300}))}, evs[at:]...)...)
		}
	} else if r.Chance(1, 6) {
		addOpt(fmt.Sprintf("T%d", r.PickInt([]int{1000, 2000})))
	}
	if o != "" {
		kaf += ":" + o
	}
	return fmt.Sprintf("hist %s %s %d %d %d %d %s", kaf, sc, maxIdle, size, n, len(evs), strings.Join(evs, " "))
}
