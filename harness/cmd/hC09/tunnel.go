package main

// Tunnel front for the `connect` gun (round 7).  The connect gun dials its `target`, asks it with an HTTP CONNECT for a tunnel
// to the address the request goes to (Shoot rewrites URL.Host to TargetResolved, which the connect factory sets to the
// target itself) and then speaks HTTP(S) through the tunnel.  The front is that target: it accepts connections (plain, or
// TLS when the gun has `connect-ssl: true`), expects ONE CONNECT request per connection, records its authority, answers
// "200 Connection established" and pipes the bytes to the recording target server behind it, which therefore sees exactly
// one connection per tunnel.  A connection that closes without sending anything is the reachability probe of
// PreResolveTargetAddr.

import (
	"bufio"
	"crypto/ecdsa"
	"crypto/elliptic"
	"crypto/rand"
	"crypto/tls"
	"crypto/x509"
	"crypto/x509/pkix"
	"io"
	"math/big"
	"net"
	"net/http"
	"sync"
	"time"
)

type tunnelFront struct {
	backend string // address of the recording target behind the front
	tlsConf *tls.Config
	port    string
	hosts   map[string]bool // host parts that denote the front itself
	ln      net.Listener

	mu         sync.Mutex
	conns      map[net.Conn]struct{}
	accepted   int // connections accepted by the front
	connects   int // CONNECT requests (= tunnels asked for)
	badAuth    int // CONNECT requests whose authority is not the front's own address (the gun's target)
	nonConnect int // connections whose first request was not a CONNECT
	closed     bool
}

var (
	frontCertOnce sync.Once
	frontCert     tls.Certificate
)

// selfSigned: a throw-away certificate for the TLS side of the front (the gun does not verify it: InsecureSkipVerify)
func selfSigned() tls.Certificate {
	frontCertOnce.Do(func() {
		key, err := ecdsa.GenerateKey(elliptic.P256(), rand.Reader)
		if err != nil {
			panic(err)
		}
		tmpl := &x509.Certificate{
			SerialNumber: big.NewInt(9), Subject: pkix.Name{CommonName: "hC09 tunnel front"},
			NotBefore: time.Now().Add(-time.Hour), NotAfter: time.Now().Add(24 * time.Hour),
			KeyUsage: x509.KeyUsageDigitalSignature, ExtKeyUsage: []x509.ExtKeyUsage{x509.ExtKeyUsageServerAuth},
			DNSNames: []string{"localhost"}, IPAddresses: []net.IP{net.ParseIP("127.0.0.1")},
		}
		der, err := x509.CreateCertificate(rand.Reader, tmpl, tmpl, &key.PublicKey, key)
		if err != nil {
			panic(err)
		}
		frontCert = tls.Certificate{Certificate: [][]byte{der}, PrivateKey: key}
	})
	return frontCert
}

// newTunnelFront reserves a port on 127.0.0.1 (the listener is open, nothing is accepted until start)
func newTunnelFront(backend string, withTLS bool) (*tunnelFront, error) {
	l, err := net.Listen("tcp", "127.0.0.1:0")
	if err != nil {
		return nil, err
	}
	f := &tunnelFront{backend: backend, ln: l, conns: map[net.Conn]struct{}{}, hosts: map[string]bool{"127.0.0.1": true, "localhost": true}}
	_, f.port, _ = net.SplitHostPort(l.Addr().String())
	if withTLS {
		f.tlsConf = &tls.Config{Certificates: []tls.Certificate{selfSigned()}}
	}
	return f, nil
}

// down: the front is not reachable (its port stays reserved for start)
func (f *tunnelFront) down() {
	if f.ln != nil {
		_ = f.ln.Close()
		f.ln = nil
	}
}

func (f *tunnelFront) start() bool {
	if f.ln == nil {
		var err error
		for i := 0; i < 50; i++ {
			if f.ln, err = net.Listen("tcp", "127.0.0.1:"+f.port); err == nil {
				break
			}
			time.Sleep(20 * time.Millisecond)
		}
		if err != nil {
			f.ln = nil
			return false
		}
	}
	go f.acceptLoop(f.ln)
	return true
}

func (f *tunnelFront) acceptLoop(l net.Listener) {
	for {
		c, err := l.Accept()
		if err != nil {
			return
		}
		f.mu.Lock()
		if f.closed {
			f.mu.Unlock()
			_ = c.Close()
			return
		}
		f.accepted++
		f.conns[c] = struct{}{}
		f.mu.Unlock()
		go f.serve(c)
	}
}

func (f *tunnelFront) track(c net.Conn) bool {
	f.mu.Lock()
	defer f.mu.Unlock()
	if f.closed {
		_ = c.Close()
		return false
	}
	f.conns[c] = struct{}{}
	return true
}

func (f *tunnelFront) serve(raw net.Conn) {
	defer raw.Close()
	c := raw
	if f.tlsConf != nil {
		c = tls.Server(raw, f.tlsConf)
	}
	br := bufio.NewReader(c)
	req, err := http.ReadRequest(br)
	if err != nil {
		return // closed without a request: the reachability probe of PreResolveTargetAddr
	}
	if req.Method != http.MethodConnect {
		f.mu.Lock()
		f.nonConnect++
		f.mu.Unlock()
		_, _ = io.WriteString(c, "HTTP/1.1 405 Method Not Allowed\r\nContent-Length: 0\r\nConnection: close\r\n\r\n")
		return
	}
	host, port, aerr := net.SplitHostPort(req.RequestURI)
	f.mu.Lock()
	f.connects++
	if aerr != nil || port != f.port || !f.hosts[host] || req.Host != req.RequestURI {
		f.badAuth++
	}
	f.mu.Unlock()
	up, err := net.Dial("tcp", f.backend)
	if err != nil {
		_, _ = io.WriteString(c, "HTTP/1.1 502 Bad Gateway\r\nContent-Length: 0\r\nConnection: close\r\n\r\n")
		return
	}
	defer up.Close()
	if !f.track(up) {
		return
	}
	if _, err := io.WriteString(c, "HTTP/1.1 200 Connection established\r\n\r\n"); err != nil {
		return
	}
	go func() {
		_, _ = io.Copy(up, br) // what the gun sends (br may hold bytes read ahead)
		if t, ok := up.(*net.TCPConn); ok {
			_ = t.CloseWrite()
		}
	}()
	_, _ = io.Copy(c, up) // what the target answers; ends when the target or the gun closes
}

func (f *tunnelFront) close() {
	f.mu.Lock()
	f.closed = true
	for c := range f.conns {
		_ = c.Close()
	}
	f.mu.Unlock()
	f.down()
}

func (f *tunnelFront) counts() (accepted, connects, badAuth, nonConnect int) {
	f.mu.Lock()
	defer f.mu.Unlock()
	return f.accepted, f.connects, f.badAuth, f.nonConnect
}
