package main

// Gun options under which BaseGun.Shoot touches the request or the response (round 6).  They travel as a suffix of the
// keep-alive field of a `wire` / `hist` case:  <0|1>[:<tok>.<tok>...]
//
//	a<f>   answlog: {enabled: true, filter: all|warning|error (f = a|w|e), path: /dev/null}
//	d      httptrace: {dump: true}
//	t      httptrace: {trace: true}
//	g<N>[n] auto-tag: {enabled: true, uri-elements: N, no-tag-only: n present}
//	v      the engine's logger accepts debug messages (BaseGun.DebugLog -> verboseLogging), written to io.Discard
//	r      redirect: true (the gun's client follows redirects; the target's 301 answers point at followPath)
//	c      dial: {dns-cache: false}: no pre-resolve of a host-name target, no DNS cache; the dialer resolves on every dial
//	2      gun type http2 instead of http (TLS targets only; the target then speaks h2)
//	k / K  gun type connect instead of http (round 7): the gun's target is a tunnel front (tunnel.go) that answers the CONNECT and
//	       pipes to the recording target; K = with `connect-ssl: true` (TLS between the gun and the front)
//	T<ms>  dial: {timeout: <ms>ms} (round 7): bounds the dial only; an established connection must outlive it
//
// None of them may change what reaches the target (theorems C09_gun_options_invisible, C09_body_any_gun_options) nor the
// connection count.

import (
	"io"
	"strconv"
	"strings"

	"go.uber.org/zap"
	"go.uber.org/zap/zapcore"

	"verifharness/internal/vh"
)

const followPath = "/__hC09_followed"

type gunOpts struct {
	answlog    string // "", all, warning, error
	dump       bool
	trace      bool
	autotag    int // 0 = off, else uri-elements
	noTagOnly  bool
	debug      bool
	redirect   bool
	h2         bool
	noDNSCache bool
	connect    bool // gun type connect
	connectSSL bool // connect-ssl: true
	dialMs     int  // dial.timeout in ms, 0 = not configured (default 3 s)
}

// parseKA: the keep-alive field with its option suffix
func parseKA(field string) (ka bool, o gunOpts, ok bool) {
	p := strings.SplitN(field, ":", 2)
	if p[0] != "0" && p[0] != "1" {
		return false, o, false
	}
	ka = p[0] == "1"
	if len(p) == 1 || p[1] == "" {
		return ka, o, true
	}
	for _, t := range strings.Split(p[1], ".") {
		switch {
		case t == "aa":
			o.answlog = "all"
		case t == "aw":
			o.answlog = "warning"
		case t == "ae":
			o.answlog = "error"
		case t == "d":
			o.dump = true
		case t == "t":
			o.trace = true
		case t == "v":
			o.debug = true
		case t == "r":
			o.redirect = true
		case t == "c":
			o.noDNSCache = true
		case t == "2":
			o.h2 = true
		case t == "k":
			o.connect = true
		case t == "K":
			o.connect, o.connectSSL = true, true
		case strings.HasPrefix(t, "T"):
			n, err := strconv.Atoi(strings.TrimPrefix(t, "T"))
			if err != nil || n < 1 {
				return false, o, false
			}
			o.dialMs = n
		case strings.HasPrefix(t, "g"):
			s := strings.TrimPrefix(t, "g")
			if strings.HasSuffix(s, "n") {
				o.noTagOnly = true
				s = strings.TrimSuffix(s, "n")
			}
			n, err := strconv.Atoi(s)
			if err != nil || n < 1 {
				return false, o, false
			}
			o.autotag = n
		default:
			return false, o, false
		}
	}
	return ka, o, true
}

func (o gunOpts) apply(gun map[string]any) {
	if o.answlog != "" {
		gun["answlog"] = map[string]any{"enabled": true, "filter": o.answlog, "path": "/dev/null"}
	}
	if o.dump || o.trace {
		gun["httptrace"] = map[string]any{"dump": o.dump, "trace": o.trace}
	}
	if o.autotag > 0 {
		gun["auto-tag"] = map[string]any{"enabled": true, "uri-elements": o.autotag, "no-tag-only": o.noTagOnly}
	}
	if o.redirect {
		gun["redirect"] = true
	}
	dial := map[string]any{}
	if o.noDNSCache {
		dial["dns-cache"] = false
	}
	if o.dialMs > 0 {
		dial["timeout"] = strconv.Itoa(o.dialMs) + "ms"
	}
	if len(dial) > 0 {
		gun["dial"] = dial
	}
	if o.h2 {
		gun["type"] = "http2"
	}
	if o.connect {
		gun["type"] = "connect"
		if o.connectSSL {
			gun["connect-ssl"] = true
		}
	}
}

var debugLogger = zap.New(zapcore.NewCore(zapcore.NewJSONEncoder(zap.NewProductionEncoderConfig()), zapcore.AddSync(io.Discard), zapcore.DebugLevel))

func (o gunOpts) logger() *zap.Logger {
	if o.debug {
		return debugLogger
	}
	return zap.NewNop()
}

// genOptTokens: half of the cases none (the default configuration), otherwise a random subset
func genOptTokens(r *vh.Rand, allowRedirect bool) string {
	if !r.Chance(1, 2) {
		return ""
	}
	var ts []string
	if r.Chance(1, 2) {
		ts = append(ts, []string{"aa", "aa", "aw", "ae"}[r.Intn(4)])
	}
	if r.Chance(1, 3) {
		ts = append(ts, "d")
	}
	if r.Chance(1, 3) {
		ts = append(ts, "t")
	}
	if r.Chance(1, 4) {
		g := "g" + strconv.Itoa(1+r.Intn(3))
		if r.Chance(1, 2) {
			g += "n"
		}
		ts = append(ts, g)
	}
	if r.Chance(1, 4) {
		ts = append(ts, "v")
	}
	if allowRedirect && r.Chance(1, 4) {
		ts = append(ts, "r")
	}
	if r.Chance(1, 5) {
		ts = append(ts, "c")
	}
	return strings.Join(ts, ".")
}
