// hC09: correspondence harness for property C09 (HTTP wire fidelity).
//
// One case = one run of the REAL http provider (uri | uripost | jsonline | raw, configured through the
// real config decoder incl. the `headers` option) and the REAL `http` gun under the real engine
// (1..4 instances) against an in-process httptest target (plain or TLS) that records every request.
//
// Case line (blank separated, strings lower-case hex, "-" = empty):
//
//	wire <fmt> <ssl> <keepalive> <instances> <tgt> <preload> <resp> <pools> <late> <pause> <passes> <ncfg> {k v}*ncfg <nitems> {item}*nitems
//	  fmt  = uri | uripost | jsonline | jsonarr (the jsonline entries as ONE JSON array) | raw         tgt = ip (127.0.0.1:PORT) | name (localhost:PORT)
//	  preload = provider option `preload` 0|1        resp = <status>:<bytes>:<delay-ms> what the target answers to every request, and how slowly
//	  passes  = how many times the file is delivered (limit = entries*passes): with preload or an array file the SAME decoded
//	            entries are handed out again, possibly to several instances at once
//	  pools = number of pools in the one engine run, each with its own target server on another port of the same
//	          host (127.0.0.1 / localhost) and the same ammo;  late = 1: the targets are down while the configuration
//	          is decoded (the gun factories' PreResolveTargetAddr fails, the DNS-caching dialer stays on) and are
//	          started before Engine.Run
//	  pause = milliseconds between the requests (rps schedule const 1000/pause per second instead of once(n)); cases with a
//	          pause run concurrently with the others (own servers and recorder, no decoy hosts)
//
//	  instances = <n>[:<sc>]   sc = shared-client block of the gun config: n (no block, the default) | d<N> (enabled: false,
//	          client-number: N) | e<N> (enabled: true, client-number: N)
//	  resp    = <status>:<bytes>:<delay-ms>[:<rdv>]   rdv = 1: the target answers a request only when as many requests are in
//	          flight at it as the pool has instances (or as are still to come), so the instances shoot in step, round by round
//
//	keepalive = <0|1>[:<gun options>]   gun options under which Shoot touches the request / response, see opts.go (answlog,
//	          httptrace dump / trace, auto-tag, debug logger, redirect); passes = <n>[p]  p: delivered through the provider option
//	          `passes: n` with `limit: 0`;  an E item's scheme field may carry the suffix c (raw only): the body is written with
//	          Transfer-Encoding: chunked instead of a Content-Length
//
//	preload = <0|1>[:<file syntax flags>]  s / S: "[k:v]" / "[  k :   v ]" instead of "[k: v]" (in-file and configured header lines),
//	          b: blank and whitespace-only lines around the items, n: no newline at the end of the file
//
//	tr <salt>   -> one token <Struct>.<Field>:<configured>:<built> per field of phttp.TransportConfig and phttp.DialerConfig (see runTransport)
//	  item = H k v                                   an in-file "[k: v]" line (uri, uripost only)
//	       | E method uri scheme urlhost tag body nh {k v}*nh
//	         scheme = - (request-URI only) | h | s (absolute URL http://urlhost<uri> / https://…)
//	         urlhost "@decoy" is replaced at run time by the address of a second (decoy) server.
//
// Observation (one line):
//
//	run=<ok|err|followups-<got>-of-<want>> conn=<carrying>/<accepted>/<probes>[/<follow-ups of redirects>] cl=<d0>/<b0>,<d1>/<b1>,.. [tun=<CONNECTs>/<connections at the recording servers>/<CONNECTs with a foreign authority>/<non-CONNECT>] n=<records> {| <srv> <tls> method uri host body nh {k nv {v}*nv}*nh}*   (records sorted)
//	  srv  = T<k> (arrived at the target of pool k) | D (arrived at the decoy)
//	  conn = connections that carried requests to the targets / connections the targets accepted / reachability probes of
//	         PreResolveTargetAddr among the accepted ones (one per pool with a host-name target that is up at configuration time).
//	         Judged by the extracted conn_ok: keep-alive on and per-instance clients: <= instances; keep-alive on and shared
//	         client enabled: <= requests; keep-alive off: == requests.
//	  cl   = per pool: distinct http clients among the guns the engine bound / number of guns it bound (BaseGun.Client of every
//	         gun the pool's NewGun handed to the engine, read after the run; the warm-up gun is never bound)
//
// Header canonicalisation rule (stated in the evidence): headers are compared as a map sorted by
// canonical key with their value lists in order; see dropAuto for the three headers net/http writes itself.
package main

import (
	"bytes"
	"context"
	"crypto/tls"
	"encoding/json"
	"fmt"
	"io"
	"log"
	"net"
	"net/http"
	"net/http/httptest"
	"reflect"
	"sort"
	"strconv"
	"strings"
	"sync"
	"sync/atomic"
	"time"

	"github.com/spf13/afero"
	"github.com/yandex/pandora/cli"
	phttp "github.com/yandex/pandora/components/guns/http"
	phttpimport "github.com/yandex/pandora/components/phttp/import"
	"github.com/yandex/pandora/core"
	"github.com/yandex/pandora/core/config"
	"github.com/yandex/pandora/core/engine"
	coreimport "github.com/yandex/pandora/core/import"
	"github.com/yandex/pandora/lib/monitoring"

	"verifharness/internal/vh"
)

const decoyToken = "@decoy"

type kv struct{ k, v string }

type item struct {
	isHdr   bool
	k, v    string // header item
	method  string
	uri     string
	scheme  string // "-", "h", "s"
	host    string
	tag     string
	body    []byte
	hdrs    []kv
	chunked bool // raw only: the entry's body is written with Transfer-Encoding: chunked instead of a Content-Length
}

type wcase struct {
	format   string
	ssl      bool
	ka       bool
	inst     int
	tgt      string
	pools    int
	late     bool
	pause    int
	passes   int
	rdelay   int
	rdv      bool
	scBlock  bool // the gun config has a shared-client block
	scOn     bool
	scNum    int
	preload  bool
	rstatus  int
	rsize    int
	cfg      []kv
	items    []item
	hstyle   int     // how "[k: v]" lines (in-file and configured) are written: 0 "[k: v]", 1 "[k:v]", 2 "[  k  :   v ]"
	blanks   bool    // blank and whitespace-only lines before, between and after the items of the file
	noEOL    bool    // the file does not end with a newline
	opts     gunOpts // gun options under which Shoot touches the request / response (opts.go)
	byPasses bool    // the file is delivered `passes` times through the provider option `passes` (limit 0) instead of `limit`
}

func parseCase(line string) (*wcase, error) {
	f := strings.Split(line, " ")
	p := 0
	next := func() string {
		if p >= len(f) {
			panic("short case line")
		}
		s := f[p]
		p++
		return s
	}
	str := func() string { return string(vh.UnHex(next())) }
	num := func() int {
		n, err := strconv.Atoi(next())
		if err != nil {
			panic(err)
		}
		return n
	}
	c := &wcase{}
	var perr error
	func() {
		defer func() {
			if r := recover(); r != nil {
				perr = fmt.Errorf("bad case line: %v", r)
			}
		}()
		if next() != "wire" {
			panic("unknown kind")
		}
		c.format = next()
		c.ssl = next() == "1"
		var kaOK bool
		if c.ka, c.opts, kaOK = parseKA(next()); !kaOK {
			panic("bad keep-alive / gun options field")
		}
		instf := strings.SplitN(next(), ":", 2)
		var ierr error
		if c.inst, ierr = strconv.Atoi(instf[0]); ierr != nil {
			panic(ierr)
		}
		if len(instf) > 1 && len(instf[1]) > 0 && instf[1] != "n" {
			c.scBlock = true
			c.scOn = instf[1][0] == 'e'
			if c.scNum, ierr = strconv.Atoi(instf[1][1:]); ierr != nil || (instf[1][0] != 'e' && instf[1][0] != 'd') {
				panic("bad shared-client field")
			}
		}
		c.tgt = next()
		plf := strings.SplitN(next(), ":", 2)
		c.preload = plf[0] == "1"
		if len(plf) > 1 { // file syntax variants
			for _, ch := range plf[1] {
				switch ch {
				case 's':
					c.hstyle = 1
				case 'S':
					c.hstyle = 2
				case 'b':
					c.blanks = true
				case 'n':
					c.noEOL = true
				default:
					panic("bad file syntax flag")
				}
			}
		}
		rf := strings.Split(next(), ":")
		c.rstatus, _ = strconv.Atoi(rf[0])
		if len(rf) > 1 {
			c.rsize, _ = strconv.Atoi(rf[1])
		}
		if len(rf) > 2 {
			c.rdelay, _ = strconv.Atoi(rf[2])
		}
		c.rdv = len(rf) > 3 && rf[3] == "1"
		c.pools = num()
		c.late = next() == "1"
		c.pause = num()
		pf := next()
		if strings.HasSuffix(pf, "p") {
			c.byPasses = true
			pf = strings.TrimSuffix(pf, "p")
		}
		var perr2 error
		if c.passes, perr2 = strconv.Atoi(pf); perr2 != nil {
			panic(perr2)
		}
		if c.passes < 1 {
			c.passes = 1
		}
		if c.pause > 0 {
			// paused cases run concurrently with the others: they must not release and re-take ports (a port released
			// by a late-start case could be handed to another case's server in between)
			c.late = false
		}
		for n := num(); n > 0; n-- {
			k := str()
			v := str()
			c.cfg = append(c.cfg, kv{k, v})
		}
		for n := num(); n > 0; n-- {
			switch next() {
			case "H":
				k := str()
				v := str()
				c.items = append(c.items, item{isHdr: true, k: k, v: v})
			case "E":
				it := item{}
				it.method = str()
				it.uri = str()
				it.scheme = next()
				if strings.HasSuffix(it.scheme, "c") {
					it.chunked = true
					it.scheme = strings.TrimSuffix(it.scheme, "c")
				}
				it.host = str()
				it.tag = str()
				it.body = vh.UnHex(next())
				for m := num(); m > 0; m-- {
					k := str()
					v := str()
					it.hdrs = append(it.hdrs, kv{k, v})
				}
				c.items = append(c.items, it)
			default:
				panic("bad item")
			}
		}
	}()
	return c, perr
}

// ---------------------------------------------------------------------------------------
// rendering of the ammo file in the four formats

func (it *item) url(decoy string) string {
	h := strings.ReplaceAll(it.host, decoyToken, decoy)
	switch it.scheme {
	case "h":
		return "http://" + h + it.uri
	case "s":
		return "https://" + h + it.uri
	}
	return it.uri
}

// hdrLine: one "[key: value]" line in the case's style (DecodeHeader trims blanks around the key and around the value)
func hdrLine(style int, k, v string) string {
	switch style {
	case 1:
		return "[" + k + ":" + v + "]"
	case 2:
		return "[  " + k + " \t:   " + v + " ]"
	}
	return "[" + k + ": " + v + "]"
}

func renderFile(c *wcase, decoy string) []byte {
	out := renderItems(c, decoy)
	if c.noEOL {
		out = bytes.TrimSuffix(out, []byte("\n"))
	}
	return out
}

func renderItems(c *wcase, decoy string) []byte {
	if c.format == "jsonarr" {
		c2 := *c
		c2.format = "jsonline"
		c2.blanks = false
		lines := strings.Split(strings.TrimRight(string(renderItems(&c2, decoy)), "\n"), "\n")
		return []byte("[" + strings.Join(lines, ",\n") + "]\n")
	}
	var b strings.Builder
	if c.blanks {
		b.WriteString("\n")
	}
	for i := range c.items {
		it := &c.items[i]
		if c.blanks && i > 0 {
			b.WriteString([]string{"\n", "  \t\n", "\n\n"}[i%3])
		}
		if it.isHdr {
			b.WriteString(hdrLine(c.hstyle, it.k, it.v) + "\n")
			continue
		}
		switch c.format {
		case "uri":
			b.WriteString(it.url(decoy))
			if it.tag != "" {
				b.WriteString(" " + it.tag)
			}
			b.WriteString("\n")
		case "uripost":
			fmt.Fprintf(&b, "%d %s", len(it.body), it.url(decoy))
			if it.tag != "" {
				b.WriteString(" " + it.tag)
			}
			b.WriteString("\n")
			b.Write(it.body)
			b.WriteString("\n")
		case "jsonline":
			hm := map[string]string{}
			for _, h := range it.hdrs {
				hm[h.k] = h.v
			}
			m := map[string]any{"method": it.method, "uri": it.uri, "tag": it.tag}
			if it.host != "" {
				m["host"] = strings.ReplaceAll(it.host, decoyToken, decoy)
			}
			if len(hm) > 0 {
				m["headers"] = hm
			}
			if len(it.body) > 0 {
				m["body"] = string(it.body)
			}
			js, _ := json.Marshal(m)
			b.Write(js)
			b.WriteString("\n")
		case "raw":
			var r strings.Builder
			fmt.Fprintf(&r, "%s %s HTTP/1.1\r\n", it.method, it.url(decoy))
			for _, h := range it.hdrs {
				fmt.Fprintf(&r, "%s: %s\r\n", h.k, strings.ReplaceAll(h.v, decoyToken, decoy))
			}
			switch {
			case len(it.body) > 0 && it.chunked:
				// two chunks (when there are two bytes) and the terminating one
				r.WriteString("Transfer-Encoding: chunked\r\n\r\n")
				h := (len(it.body) + 1) / 2
				fmt.Fprintf(&r, "%x\r\n%s\r\n", h, it.body[:h])
				if len(it.body) > h {
					fmt.Fprintf(&r, "%x\r\n%s\r\n", len(it.body)-h, it.body[h:])
				}
				r.WriteString("0\r\n\r\n")
			case len(it.body) > 0:
				fmt.Fprintf(&r, "Content-Length: %d\r\n\r\n", len(it.body))
				r.Write(it.body)
			default:
				r.WriteString("\r\n")
			}
			fmt.Fprintf(&b, "%d %s\n%s\n", r.Len(), it.tag, r.String())
		}
	}
	return []byte(b.String())
}

// ---------------------------------------------------------------------------------------
// recording servers

type record struct {
	srv    string
	tls    bool
	method string
	uri    string
	host   string
	hdr    http.Header
	body   []byte
}

// rendezvous: a request is answered only when `width` requests (or all that are still to come) are waiting at this
// server, so that the instances of a pool shoot in step.  A request that waits longer than 2 s goes on alone (nothing
// the property says depends on the rendezvous taking place; it only makes overlapping requests certain).
type rendezvous struct {
	mu      sync.Mutex
	width   int
	total   int
	done    int
	waiting int
	gate    chan struct{}
}

func (r *rendezvous) wait() {
	r.mu.Lock()
	r.waiting++
	need := r.total - r.done
	if need > r.width {
		need = r.width
	}
	if r.waiting >= need {
		r.done += r.waiting
		r.waiting = 0
		close(r.gate)
		r.gate = make(chan struct{})
		r.mu.Unlock()
		return
	}
	g := r.gate
	r.mu.Unlock()
	select {
	case <-g:
	case <-time.After(2 * time.Second):
		r.mu.Lock()
		if g == r.gate {
			r.waiting--
			r.done++
		}
		r.mu.Unlock()
	}
}

type recorder struct {
	status int
	size   int
	delay  int
	rdv    map[string]*rendezvous // per target server, nil entries: no rendezvous
	mu     sync.Mutex
	recs   []record
	conns  map[string]bool // connections seen by the target (remote addresses)
	follow int             // requests for followPath: the gun's client followed a redirect of the target
	newc   int             // ConnState(StateNew) events at the target
}

var (
	curMu sync.Mutex
	cur   *recorder
)

func handler(srv string, own *recorder) http.Handler {
	return http.HandlerFunc(func(w http.ResponseWriter, r *http.Request) {
		body, _ := io.ReadAll(r.Body)
		if r.URL.Path == followPath && own != nil {
			// the follow-up of a redirect (gun option redirect: true): not an ammo entry; counted, answered at once
			own.mu.Lock()
			own.follow++
			own.mu.Unlock()
			w.WriteHeader(200)
			_, _ = w.Write([]byte("ok"))
			return
		}
		rec := own
		if rec == nil { // the shared decoy: whoever is the current sequential case
			curMu.Lock()
			rec = cur
			curMu.Unlock()
		}
		if rec != nil {
			rec.mu.Lock()
			rec.recs = append(rec.recs, record{srv: srv, tls: r.TLS != nil, method: r.Method, uri: r.RequestURI, host: r.Host, hdr: r.Header.Clone(), body: body})
			if strings.HasPrefix(srv, "T") {
				rec.conns[srv+" "+r.RemoteAddr] = true // per server: a source port may be reused towards another port
			}
			rec.mu.Unlock()
		}
		status, size := 200, 2
		if rec != nil && strings.HasPrefix(srv, "T") {
			status, size = rec.status, rec.size
			if rec.delay > 0 {
				time.Sleep(time.Duration(rec.delay) * time.Millisecond)
			}
			if rv := rec.rdv[srv]; rv != nil {
				rv.wait()
			}
		}
		w.Header().Set("Content-Type", "text/plain")
		if status == 301 {
			w.Header().Set("Location", followPath)
		}
		w.WriteHeader(status)
		if r.Method != "HEAD" && status != 204 && status != 304 && size > 0 {
			_, _ = w.Write(bytes.Repeat([]byte("r"), size))
		}
	})
}

// dropAuto: the headers net/http writes on its own account are not part of the comparison:
// Content-Length (derived from the body, which is compared byte for byte), the default
// "User-Agent: Go-http-client/1.1" (sent only when the request has no User-Agent), and the
// "Connection: close" it adds when keep-alives are disabled. The generator never produces these values.
func dropAuto(k string, vals []string, keepAlive bool) bool {
	switch k {
	case "Content-Length":
		return true
	case "User-Agent":
		return len(vals) == 1 && (vals[0] == "Go-http-client/1.1" || vals[0] == "Go-http-client/2.0")
	case "Connection":
		return !keepAlive && len(vals) == 1 && vals[0] == "close"
	}
	return false
}

type aggr struct {
	mu sync.Mutex
	n  int
}

func (a *aggr) Run(ctx context.Context, deps core.AggregatorDeps) error { <-ctx.Done(); return nil }
func (a *aggr) Report(s core.Sample) {
	a.mu.Lock()
	a.n++
	a.mu.Unlock()
}

var (
	fs       = afero.NewMemMapFs()
	metrics  engine.Metrics
	decoySrv *httptest.Server
	caseNo   int64
)

func setup() {
	coreimport.Import(fs)
	phttpimport.Import(fs)
	metrics = engine.Metrics{
		Request:        monitoring.NewCounter("hC09_Requests"),
		Response:       monitoring.NewCounter("hC09_Responses"),
		InstanceStart:  monitoring.NewCounter("hC09_UsersStarted"),
		InstanceFinish: monitoring.NewCounter("hC09_UsersFinished"),
	}
	decoySrv = httptest.NewServer(handler("D", nil))
}

// runTransport: fill EVERY field of phttp.TransportConfig and phttp.DialerConfig (found by reflection, so a new field is
// covered and a dropped one is noticed) with a distinct value derived from the salt, build the transport / dialer with the
// real constructors and read the same-named fields back.  One token per config field:  <Struct>.<Field>:<configured>:<built>
// ("?" when the built object has no field of that name, "-" for fields that deliberately have no counterpart).
func runTransport(line string) string {
	f := strings.Split(line, " ")
	if len(f) != 2 {
		return "badcase"
	}
	salt, _ := strconv.Atoi(f[1])
	fill := func(v reflect.Value) map[string]string {
		want := map[string]string{}
		for i := 0; i < v.NumField(); i++ {
			fld := v.Field(i)
			name := v.Type().Field(i).Name
			switch fld.Interface().(type) {
			case time.Duration:
				d := time.Duration(salt*7+i*13+1) * time.Millisecond
				fld.Set(reflect.ValueOf(d))
				want[name] = fmt.Sprint(d.Milliseconds())
			case bool:
				bv := (salt>>uint(i))&1 == 1
				fld.SetBool(bv)
				want[name] = vh.B(bv)
			case int:
				fld.SetInt(int64(salt + i + 2))
				want[name] = fmt.Sprint(salt + i + 2)
			default:
				want[name] = "unsupported-type"
			}
		}
		return want
	}
	read := func(built reflect.Value, name string) string {
		fv := built.FieldByName(name)
		if !fv.IsValid() {
			return "?"
		}
		switch x := fv.Interface().(type) {
		case time.Duration:
			return fmt.Sprint(x.Milliseconds())
		case bool:
			return vh.B(x)
		case int:
			return fmt.Sprint(x)
		}
		return "?"
	}
	var out []string
	tc := phttp.TransportConfig{}
	wantT := fill(reflect.ValueOf(&tc).Elem())
	tr := phttp.NewTransport(tc, (&net.Dialer{}).DialContext, "127.0.0.1:80")
	for i := 0; i < reflect.TypeOf(tc).NumField(); i++ {
		name := reflect.TypeOf(tc).Field(i).Name
		out = append(out, fmt.Sprintf("TransportConfig.%s:%s:%s", name, wantT[name], read(reflect.ValueOf(tr).Elem(), name)))
	}
	dc := phttp.DialerConfig{}
	wantD := fill(reflect.ValueOf(&dc).Elem())
	dc.DNSCache = false // with the cache on NewDialer wraps the net.Dialer; DNSCache itself is not a net.Dialer field
	if d, ok := phttp.NewDialer(dc).(*net.Dialer); ok {
		for i := 0; i < reflect.TypeOf(dc).NumField(); i++ {
			name := reflect.TypeOf(dc).Field(i).Name
			if name == "DNSCache" {
				out = append(out, "DialerConfig.DNSCache:-:-")
				continue
			}
			out = append(out, fmt.Sprintf("DialerConfig.%s:%s:%s", name, wantD[name], read(reflect.ValueOf(d).Elem(), name)))
		}
	} else {
		out = append(out, "DialerConfig.*:net.Dialer:other")
	}
	return strings.Join(out, " ")
}

// runCase: a late-start case whose reserved port was taken by another process in between is repeated on fresh ports.
func runCase(line string) string {
	if strings.HasPrefix(line, "tr ") {
		return runTransport(line)
	}
	if strings.HasPrefix(line, "hist ") {
		return runHist(line)
	}
	out := runCaseOnce(line)
	for i := 0; i < 5 && out == "run=harness-port-lost"; i++ {
		out = runCaseOnce(line)
	}
	return out
}

func runCaseOnce(line string) string {
	c, err := parseCase(line)
	if err != nil {
		return "badcase"
	}
	rec := &recorder{conns: map[string]bool{}, status: c.rstatus, size: c.rsize, delay: c.rdelay, rdv: map[string]*rendezvous{}}
	if c.pause == 0 {
		curMu.Lock()
		cur = rec
		curMu.Unlock()
		defer func() {
			curMu.Lock()
			cur = nil
			curMu.Unlock()
		}()
	}
	decoyAddr := decoySrv.Listener.Addr().String()
	path := fmt.Sprintf("/ammo-%d", atomic.AddInt64(&caseNo, 1))
	_ = afero.WriteFile(fs, path, renderFile(c, decoyAddr), 0o644)
	defer fs.Remove(path)
	nEntries := 0
	for _, it := range c.items {
		if !it.isHdr {
			nEntries++
		}
	}
	typ := map[string]string{"uri": "uri", "uripost": "uripost", "jsonline": "http/json", "jsonarr": "http/json", "raw": "raw"}[c.format]
	total := nEntries * c.passes
	var hdrs []any
	for _, h := range c.cfg {
		hdrs = append(hdrs, hdrLine(c.hstyle, h.k, h.v))
	}

	if c.rdv {
		for k := 0; k < c.pools; k++ {
			rec.rdv[fmt.Sprintf("T%d", k)] = &rendezvous{width: c.inst, total: total, gate: make(chan struct{})}
		}
	}
	// one target server per pool, all on 127.0.0.1 (host-name targets: different ports of "localhost")
	servers := make([]*httptest.Server, c.pools)
	ports := make([]string, c.pools)
	for k := 0; k < c.pools; k++ {
		srv := httptest.NewUnstartedServer(handler(fmt.Sprintf("T%d", k), rec))
		srv.Config.ConnState = func(cn net.Conn, st http.ConnState) {
			if st == http.StateNew {
				rec.mu.Lock()
				rec.newc++
				rec.mu.Unlock()
			}
		}
		srv.Config.ErrorLog = log.New(io.Discard, "", 0)
		if c.ssl && c.opts.h2 {
			srv.EnableHTTP2 = true // the http2 gun panics on a target that does not speak h2
		} else if c.ssl {
			srv.TLS = &tls.Config{NextProtos: []string{"http/1.1"}}
		}
		_, ports[k], _ = net.SplitHostPort(srv.Listener.Addr().String())
		servers[k] = srv
	}
	// connect gun: the gun's target is a tunnel front before each recording server (tunnel.go); the recording servers are
	// then always up and it is the front that is down while the configuration is read
	lateT := c.late && !c.opts.connect
	if lateT {
		// the targets are DOWN while the configuration is read (pre-resolve fails) and come up before the run;
		// all ports are reserved first so that no two pools get the same one
		for _, srv := range servers {
			_ = srv.Listener.Close()
		}
	}
	start := func(k int) bool {
		srv := servers[k]
		if lateT {
			var l net.Listener
			var err error
			for i := 0; i < 50; i++ {
				if l, err = net.Listen("tcp", "127.0.0.1:"+ports[k]); err == nil {
					break
				}
				time.Sleep(20 * time.Millisecond)
			}
			if err != nil {
				return false
			}
			srv.Listener = l
		}
		if c.ssl {
			srv.StartTLS()
		} else {
			srv.Start()
		}
		return true
	}
	if !lateT {
		for k := range servers {
			start(k)
		}
	}
	var fronts []*tunnelFront
	defer func() {
		for _, f := range fronts {
			f.close()
		}
	}()
	if c.opts.connect {
		for k := range servers {
			f, err := newTunnelFront(servers[k].Listener.Addr().String(), c.opts.connectSSL)
			if err != nil {
				return "run=harness-port-lost"
			}
			fronts = append(fronts, f)
			ports[k] = f.port // what the gun is pointed at
			if c.late {
				f.down()
			} else {
				f.start()
			}
		}
	}
	rps := []any{map[string]any{"type": "once", "times": total}}
	if c.pause > 0 {
		rps = []any{map[string]any{"type": "const", "ops": 1000.0 / float64(c.pause),
			"duration": fmt.Sprintf("%dms", (total+1)*c.pause)}}
	}
	var pools []any
	for k := 0; k < c.pools; k++ {
		target := "127.0.0.1:" + ports[k]
		if c.tgt == "name" {
			target = "localhost:" + ports[k]
		}
		ammo := map[string]any{"type": typ, "file": path, "limit": total, "preload": c.preload}
		if c.byPasses {
			ammo["limit"], ammo["passes"] = 0, c.passes
		}
		if len(hdrs) > 0 {
			ammo["headers"] = hdrs
		}
		gun := map[string]any{
			"type": "http", "target": target, "ssl": c.ssl,
			"disable-keep-alives": !c.ka,
		}
		if c.scBlock {
			gun["shared-client"] = map[string]any{"enabled": c.scOn, "client-number": c.scNum}
		}
		c.opts.apply(gun)
		pools = append(pools, map[string]any{
			"id":               fmt.Sprintf("p%d", k),
			"ammo":             ammo,
			"result":           map[string]any{"type": "discard"},
			"gun":              gun,
			"rps-per-instance": false,
			"rps":              rps,
			"startup":          []any{map[string]any{"type": "once", "times": c.inst}},
		})
	}
	// the gun factories run here (PreResolveTargetAddr, dialer / DNS cache choice), exactly as components/phttp/import does
	conf := cli.DefaultConfig()
	if err := config.DecodeAndValidate(map[string]any{"pools": pools}, conf); err != nil {
		return "run=conferr:" + vh.HexS(err.Error())
	}
	if lateT {
		for k := range servers {
			if !start(k) {
				return "run=harness-port-lost"
			}
		}
	}
	if c.late && c.opts.connect {
		for _, f := range fronts {
			if !f.start() {
				return "run=harness-port-lost"
			}
		}
	}
	defer func() {
		for _, srv := range servers {
			srv.Close()
		}
	}()
	// every gun the engine asks a pool for is remembered (the warm-up gun and one per instance), to read its client afterwards
	var gunsMu sync.Mutex
	guns := make([][]core.Gun, len(conf.Engine.Pools))
	for k := range conf.Engine.Pools {
		conf.Engine.Pools[k].Aggregator = &aggr{}
		k, orig := k, conf.Engine.Pools[k].NewGun
		conf.Engine.Pools[k].NewGun = func() (core.Gun, error) {
			g, err := orig()
			gunsMu.Lock()
			guns[k] = append(guns[k], g)
			gunsMu.Unlock()
			return g, err
		}
	}
	eng := engine.New(c.opts.logger(), metrics, conf.Engine)
	ctx, cancel := context.WithTimeout(context.Background(), 20*time.Second+time.Duration(total*c.pause)*time.Millisecond)
	runErr := eng.Run(ctx)
	cancel()
	eng.Wait()

	if c.opts.connect {
		// quiescence: a connection the transport dialled on speculation (shared clients) may still be in its CONNECT handshake,
		// or on its way from the front to the recording server, when the run ends; wait (bounded) until every accepted
		// connection beyond the probes has sent its CONNECT and every tunnel has arrived behind
		wantProbe := 0
		if c.tgt == "name" && !c.late && !c.opts.noDNSCache {
			wantProbe = c.pools
		}
		for i := 0; i < 100; i++ {
			acc, cn := 0, 0
			for _, f := range fronts {
				a, c2, _, _ := f.counts()
				acc, cn = acc+a, cn+c2
			}
			rec.mu.Lock()
			behind := rec.newc
			rec.mu.Unlock()
			if acc-wantProbe == cn && cn == behind {
				break
			}
			time.Sleep(20 * time.Millisecond)
		}
	}
	rec.mu.Lock()
	defer rec.mu.Unlock()
	var lines []string
	nT := 0
	for _, r := range rec.recs {
		if strings.HasPrefix(r.srv, "T") {
			nT++
		}
		var keys []string
		for k := range r.hdr {
			if dropAuto(k, r.hdr[k], c.ka) {
				continue
			}
			keys = append(keys, k)
		}
		sort.Strings(keys)
		var sb strings.Builder
		fmt.Fprintf(&sb, "%s %s %s %s %s %s %d", r.srv, vh.B(r.tls), vh.HexS(r.method), vh.HexS(r.uri),
			vh.HexS(strings.ReplaceAll(r.host, decoyAddr, decoyToken)), vh.Hex(r.body), len(keys))
		for _, k := range keys {
			fmt.Fprintf(&sb, " %s %d", vh.HexS(k), len(r.hdr[k]))
			for _, v := range r.hdr[k] {
				sb.WriteString(" " + vh.HexS(strings.ReplaceAll(v, decoyAddr, decoyToken)))
			}
		}
		lines = append(lines, sb.String())
	}
	sort.Strings(lines)
	// connections: rec.conns = connections that carried at least one request; rec.newc = every accepted
	// connection, which for a host-name target includes the one reachability probe of PreResolveTargetAddr.
	// (one per pool; none when the target was down at configuration time)
	probe := 0
	if c.tgt == "name" && !c.late && !c.opts.noDNSCache {
		probe = c.pools
	}
	run := "ok"
	if runErr != nil {
		run = "err"
	}
	// a client that follows redirects asks for followPath once per 301 answer; any other client never does
	wantFollow := 0
	if c.opts.redirect && c.rstatus == 301 {
		wantFollow = nT
	}
	if run == "ok" && rec.follow != wantFollow {
		run = fmt.Sprintf("followups-%d-of-%d", rec.follow, wantFollow)
	}
	gunsMu.Lock()
	var cls []string
	for k := range guns {
		d, b := boundClients(guns[k])
		cls = append(cls, fmt.Sprintf("%d/%d", d, b))
	}
	gunsMu.Unlock()
	accepted, tun := rec.newc, ""
	if c.opts.connect {
		// the gun's target is the front: it accepts the probe and one connection per tunnel; the recording servers behind see
		// one connection per tunnel.  tun = CONNECT requests / connections at the recording servers / CONNECTs whose authority
		// is not the gun's target / connections that did not start with a CONNECT
		accepted = 0
		var cn, bad, non int
		for _, f := range fronts {
			a, c2, b, n := f.counts()
			accepted, cn, bad, non = accepted+a, cn+c2, bad+b, non+n
		}
		tun = fmt.Sprintf(" tun=%d/%d/%d/%d", cn, rec.newc, bad, non)
	}
	conn := fmt.Sprintf("%d/%d/%d", len(rec.conns), accepted, probe)
	if rec.follow > 0 {
		// follow-ups of redirects are requests too (without keep-alives each has its own connection): a fourth number
		conn += fmt.Sprintf("/%d", rec.follow)
	}
	out := fmt.Sprintf("run=%s conn=%s cl=%s%s n=%d", run, conn, strings.Join(cls, ","), tun, len(lines))
	for _, l := range lines {
		out += " | " + l
	}
	return out
}

// boundClients: among the guns of one pool, those the engine bound (BaseGun.Aggregator set by Bind; the warm-up gun never
// is) and how many distinct http clients (BaseGun.Client after Bind) they shoot through.  The registered factory returns
// phttp.WrapGun(*BaseGun): a struct whose only field is the embedded, exported Gun interface.
func boundClients(gs []core.Gun) (distinct, bound int) {
	seen := map[string]bool{}
	for _, g := range gs {
		base := baseGunOf(g)
		if base == nil || base.Aggregator == nil {
			continue
		}
		bound++
		id := fmt.Sprintf("%T:%v", base.Client, base.Client)
		if v := reflect.ValueOf(base.Client); v.IsValid() && v.Kind() == reflect.Ptr {
			id = fmt.Sprintf("%T:%x", base.Client, v.Pointer())
		}
		seen[id] = true
	}
	return len(seen), bound
}

func baseGunOf(g core.Gun) *phttp.BaseGun {
	v := reflect.ValueOf(g)
	for v.IsValid() && (v.Kind() == reflect.Ptr || v.Kind() == reflect.Interface) && !v.IsNil() {
		if b, ok := v.Interface().(*phttp.BaseGun); ok {
			return b
		}
		v = v.Elem()
	}
	if v.IsValid() && v.Kind() == reflect.Struct {
		for i := 0; i < v.NumField(); i++ {
			if f := v.Field(i); f.CanInterface() {
				if b, ok := f.Interface().(*phttp.BaseGun); ok {
					return b
				}
			}
		}
	}
	return nil
}

func main() {
	vh.Main(gen, func(cases []string) []string {
		setup()
		out := make([]string, len(cases))
		// cases with pauses between the requests take seconds each: they run concurrently with the sequential rest
		isPaused := func(c string) bool {
			f := strings.SplitN(c, " ", 12)
			if f[0] == "hist" {
				return strings.Contains(c, " W") // scripted histories with waits (self-contained: own target, own guns)
			}
			return len(f) > 10 && f[0] == "wire" && f[10] != "0"
		}
		var wg sync.WaitGroup
		sem := make(chan struct{}, 16)
		for i, c := range cases {
			if isPaused(c) {
				wg.Add(1)
				go func(i int, c string) {
					defer wg.Done()
					sem <- struct{}{}
					out[i] = runCase(c)
					<-sem
				}(i, c)
			}
		}
		for i, c := range cases {
			if !isPaused(c) {
				out[i] = runCase(c)
			}
		}
		wg.Wait()
		return out
	})
}
