package main

import (
	"context"
	"fmt"
	"strconv"
	"strings"
	"sync"
	"time"

	"github.com/yandex/pandora/core"
	"github.com/yandex/pandora/core/engine"
	"github.com/yandex/pandora/core/schedule"
	"go.uber.org/zap"
)

// ---------- ammo: a provider that recycles released ammo objects, under the real engine ----------
//
//	ammo <ninst> <rps> <dur_ms> <stall_ms> <discard 0|1>
//	    real engine, shared const(rps, dur) schedule, discard_overflow as given, a provider that takes
//	    its ammo objects from a sync.Pool fed by Release (like the built-in decode / grpc providers) and
//	    stamps every hand-out, a gun whose FIRST shot per instance stalls stall_ms (the instances then
//	    are that far behind the schedule). Observation = the trace  q<r>.<a> (goroutine r got object a
//	    from Acquire)  l<r>.<a> (goroutine r gave object a to Release), numbered by first appearance.

type pooledAmmo struct {
	seq     int
	payload string
}

type ammoLog struct {
	mu   sync.Mutex
	evs  []string
	gor  map[uint64]int
	objs map[*pooledAmmo]int
}

func (l *ammoLog) add(kind string, a *pooledAmmo) {
	id := goid()
	r, ok := l.gor[id]
	if !ok {
		r = len(l.gor)
		l.gor[id] = r
	}
	o, ok := l.objs[a]
	if !ok {
		o = len(l.objs)
		l.objs[a] = o
	}
	l.evs = append(l.evs, fmt.Sprintf("%s%d.%d", kind, r, o))
}

type poolProvider struct {
	pool sync.Pool
	sink chan *pooledAmmo
	log  *ammoLog
}

func (p *poolProvider) Run(ctx context.Context, deps core.ProviderDeps) error {
	defer close(p.sink)
	for n := 0; ; n++ {
		a := p.pool.Get().(*pooledAmmo)
		a.seq = n
		a.payload = "payload-" + strconv.Itoa(n)
		select {
		case p.sink <- a:
		case <-ctx.Done():
			return nil
		}
	}
}

func (p *poolProvider) Acquire() (core.Ammo, bool) {
	a, ok := <-p.sink
	if !ok {
		return nil, false
	}
	p.log.mu.Lock()
	p.log.add("q", a)
	p.log.mu.Unlock()
	return a, true
}

func (p *poolProvider) Release(am core.Ammo) {
	a := am.(*pooledAmmo)
	p.log.mu.Lock()
	p.log.add("l", a)
	p.pool.Put(a)
	p.log.mu.Unlock()
}

type stallGun struct {
	first bool
	stall time.Duration
	sink  *int
}

func (g *stallGun) Bind(core.Aggregator, core.GunDeps) error { return nil }
func (g *stallGun) Shoot(am core.Ammo) {
	a := am.(*pooledAmmo)
	s := a.seq
	if g.first {
		g.first = false
		time.Sleep(g.stall)
	} else {
		time.Sleep(500 * time.Microsecond)
	}
	*g.sink += s + a.seq + len(a.payload) // the ammo is read while it is shot
}

func runAmmoTrace(ninst int, rps float64, dur, stall time.Duration, discard bool) (string, bool) {
	lg := &ammoLog{gor: map[uint64]int{}, objs: map[*pooledAmmo]int{}}
	prov := &poolProvider{sink: make(chan *pooledAmmo, 8), log: lg}
	prov.pool.New = func() any { return &pooledAmmo{} }
	eng := engine.New(zap.NewNop(), newMetrics(), engine.Config{Pools: []engine.InstancePoolConfig{{
		ID: "p", Provider: prov, Aggregator: nopAggr{},
		NewGun: func() (core.Gun, error) {
			return &stallGun{first: stall > 0, stall: stall, sink: new(int)}, nil
		},
		NewRPSSchedule:  func() (core.Schedule, error) { return schedule.NewConst(rps, dur), nil },
		StartupSchedule: schedule.NewOnce(int64(ninst)),
		DiscardOverflow: discard,
	}}})
	ctx, cancel := context.WithTimeout(context.Background(), dur+stall+10*time.Second)
	defer cancel()
	res := make(chan error, 1)
	go func() { res <- eng.Run(ctx) }()
	select {
	case <-res:
	case <-time.After(dur + stall + 12*time.Second):
		return "hang", false
	}
	done := make(chan struct{})
	go func() { eng.Wait(); close(done) }()
	select {
	case <-done:
	case <-time.After(5 * time.Second):
		return "hang", false
	}
	lg.mu.Lock()
	defer lg.mu.Unlock()
	if len(lg.evs) == 0 {
		return "-", true
	}
	return strings.Join(lg.evs, ","), true
}

func runAmmo(f []string) string {
	ninst, _ := strconv.Atoi(f[1])
	rps, _ := strconv.Atoi(f[2])
	dur, _ := strconv.Atoi(f[3])
	stall, _ := strconv.Atoi(f[4])
	s, _ := runAmmoTrace(ninst, float64(rps), time.Duration(dur)*time.Millisecond, time.Duration(stall)*time.Millisecond, f[5] == "1")
	return s
}
