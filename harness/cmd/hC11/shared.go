// Case kinds about ONE rps schedule shared by the instances of a pool and started by whichever
// instance calls Next() first (the engine never calls Start on it):
//
//	shs <spec> <mode 0|1> <trials> <take>
//	    per trial: the object the engine builds (coreutil.NewCallbackOnFinishSchedule(<real schedule>,
//	    cancelStart)), P observer goroutines (P = min(6, GOMAXPROCS-1), each with its own coreutil.Waiter,
//	    as every instance has) and a starter.  mode 0: the observers evaluate the loop condition of
//	    instance.Run (Waiter.IsFinished) over and over while the starter takes <take> tokens with Next();
//	    mode 1: everybody runs the instance loop `for !IsFinished { Next }` for <take> rounds, released
//	    together.  Then (finite schedules) the starter drains the rest and looks at IsFinished again.
//	    spec = part+part+…   part = unl:<ms> | once:<n> | const:<rps>:<ms> | line:<from>:<to>:<ms> | step:<from>:<to>:<step>:<ms>
//	    Observation  total=<Left() of a fresh schedule> taken=<tokens taken in phase 1 (max over trials)>
//	    prem=<trials in which an observer was told "finished" in phase 1> cb=<trials in which the on-finish callback fired in phase 1>
//	    nextbad=<trials in which a phase 1 Next returned ok=false> endbad=<trials (finite) in which, after the drain, IsFinished was false
//	    or the callback had not fired exactly once> within=<1: every trial ended less than the (shortest) unlimited duration after its schedule was constructed>
//	shse <ninst> <runs> <k> <dur_ms>
//	    the real engine, startup once(ninst), rps unlimited(dur) shared; the provider holds back the first ammo
//	    until the k-th gun is bound (the instance that waits in Acquire then starts the schedule while instance k
//	    evaluates its loop condition for the first time); every gun's first Shoot waits until all ninst guns
//	    shot (10 s at most).  Observation  runs=<runs> short=<runs in which some instance never shot>
//	    cancel=<runs in which the engine logged "RPS schedule has been finished"> err=<runs with an engine error or a hang>
package main

import (
	"context"
	"fmt"
	"runtime"
	"strconv"
	"strings"
	"sync"
	"sync/atomic"
	"time"

	"github.com/yandex/pandora/core"
	"github.com/yandex/pandora/core/coreutil"
	"github.com/yandex/pandora/core/engine"
	"github.com/yandex/pandora/core/schedule"
	"go.uber.org/zap"
	"go.uber.org/zap/zapcore"
	"go.uber.org/zap/zaptest/observer"

	"verifharness/internal/vh"
)

// mkShared builds the schedule of a spec with the real constructors; minUnl = the shortest unlimited
// duration in it (0 = none)
func mkShared(spec string) (s core.Schedule, minUnl time.Duration, err error) {
	var parts []core.Schedule
	for _, p := range strings.Split(spec, "+") {
		f := strings.Split(p, ":")
		n := func(i int) int64 {
			if i >= len(f) {
				err = fmt.Errorf("bad part %q", p)
				return 0
			}
			v, e := strconv.ParseInt(f[i], 10, 64)
			if e != nil {
				err = e
			}
			return v
		}
		ms := func(i int) time.Duration { return time.Duration(n(i)) * time.Millisecond }
		switch f[0] {
		case "unl":
			d := ms(1)
			if minUnl == 0 || d < minUnl {
				minUnl = d
			}
			parts = append(parts, schedule.NewUnlimited(d))
		case "once":
			parts = append(parts, schedule.NewOnce(n(1)))
		case "const":
			parts = append(parts, schedule.NewConst(float64(n(1)), ms(2)))
		case "line":
			parts = append(parts, schedule.NewLine(float64(n(1)), float64(n(2)), ms(3)))
		case "step":
			parts = append(parts, schedule.NewStep(float64(n(1)), float64(n(2)), n(3), ms(4)))
		default:
			err = fmt.Errorf("bad part %q", p)
		}
		if err != nil {
			return nil, 0, err
		}
	}
	if len(parts) == 1 {
		return parts[0], minUnl, nil
	}
	return schedule.NewComposite(parts...), minUnl, nil
}

func runShs(f []string) string {
	if len(f) != 5 {
		return "bad-case"
	}
	spec := f[1]
	mode, _ := strconv.Atoi(f[2])
	trials, _ := strconv.Atoi(f[3])
	take, _ := strconv.Atoi(f[4])
	fresh, minUnl, err := mkShared(spec)
	if err != nil {
		return "bad-spec"
	}
	total := fresh.Left()
	observers := runtime.GOMAXPROCS(0) - 1
	if observers < 1 {
		observers = 1
	}
	if observers > 6 {
		observers = 6
	}
	ctx := context.Background()
	var prem, cbEarly, nextBad, endBad, maxTaken int
	within := true
	for trial := 0; trial < trials; trial++ {
		var (
			cbCount atomic.Int32
			sawFin  atomic.Int32
			badNext atomic.Int32
			taken   atomic.Int32
			stop    atomic.Bool
			goFlag  atomic.Bool
			ready   sync.WaitGroup
			done    sync.WaitGroup
		)
		t0 := time.Now()
		inner, _, _ := mkShared(spec)
		// what instancePool.buildNewInstanceSchedule builds for a pool whose rps schedule is shared
		shared := coreutil.NewCallbackOnFinishSchedule(inner, func() { cbCount.Add(1) })
		// the loop of instance.Run without the shooting: `for !waiter.IsFinished(ctx) { waiter.Wait -> sched.Next() }`
		instLoop := func(w *coreutil.Waiter) {
			for k := 0; k < take; k++ {
				if w.IsFinished(ctx) {
					sawFin.Add(1)
					return
				}
				_, ok := shared.Next()
				taken.Add(1)
				if !ok {
					badNext.Add(1)
					return
				}
			}
		}
		ready.Add(observers)
		done.Add(observers)
		for p := 0; p < observers; p++ {
			go func() {
				defer done.Done()
				w := coreutil.NewWaiter(shared)
				ready.Done()
				if mode == 1 {
					for !goFlag.Load() {
					}
					instLoop(w)
					return
				}
				for !stop.Load() {
					if w.IsFinished(ctx) {
						sawFin.Add(1)
						return
					}
				}
			}()
		}
		ready.Wait()
		w := coreutil.NewWaiter(shared)
		if mode == 1 {
			goFlag.Store(true)
		}
		instLoop(w)
		for i := 0; i < 50; i++ {
			runtime.Gosched()
		}
		stop.Store(true)
		done.Wait()
		if sawFin.Load() > 0 {
			prem++
		}
		if cbCount.Load() > 0 {
			cbEarly++
		}
		if badNext.Load() > 0 {
			nextBad++
		}
		if int(taken.Load()) > maxTaken {
			maxTaken = int(taken.Load())
		}
		if minUnl > 0 && time.Since(t0) >= minUnl {
			within = false
		}
		if total >= 0 && sawFin.Load() == 0 && badNext.Load() == 0 {
			// drain the rest: exactly total tokens come out, then everybody is told "finished", the callback fires once
			n := int(taken.Load())
			for ; n <= total+1; n++ {
				if _, ok := shared.Next(); !ok {
					break
				}
			}
			if n != total || !w.IsFinished(ctx) || !coreutil.NewWaiter(shared).IsFinished(ctx) || cbCount.Load() != 1 {
				endBad++
			}
		}
	}
	return fmt.Sprintf("total=%d taken=%d prem=%d cb=%d nextbad=%d endbad=%d within=%s", total, maxTaken, prem, cbEarly, nextBad, endBad, vh.B(within))
}

// ---------- shse: the same under the real engine ----------

type gateProvider struct {
	ch   chan int
	gate chan struct{}
}

func (p *gateProvider) Run(ctx context.Context, deps core.ProviderDeps) error { <-ctx.Done(); return nil }
func (p *gateProvider) Acquire() (core.Ammo, bool) {
	<-p.gate
	a, ok := <-p.ch
	return a, ok
}
func (p *gateProvider) Release(core.Ammo) {}

type barrier struct {
	n       int32
	arrived atomic.Int32
	open    chan struct{}
	once    sync.Once
}

type barrierGun struct {
	b      *barrier
	shot   atomic.Int32
	onBind func()
}

func (g *barrierGun) Bind(core.Aggregator, core.GunDeps) error { g.onBind(); return nil }
func (g *barrierGun) Shoot(core.Ammo) {
	if g.shot.Add(1) != 1 {
		return
	}
	if g.b.arrived.Add(1) >= g.b.n {
		g.b.once.Do(func() { close(g.b.open) })
	}
	select {
	case <-g.b.open:
	case <-time.After(10 * time.Second):
	}
}

func runShse(f []string) string {
	if len(f) != 5 {
		return "bad-case"
	}
	ninst, _ := strconv.Atoi(f[1])
	runs, _ := strconv.Atoi(f[2])
	k, _ := strconv.Atoi(f[3])
	durMs, _ := strconv.Atoi(f[4])
	if k < 1 {
		k = 1
	}
	if k > ninst {
		k = ninst
	}
	var short, canceled, bad int
	for r := 0; r < runs; r++ {
		obsCore, logs := observer.New(zapcore.InfoLevel)
		prov := &gateProvider{ch: make(chan int, 3*ninst), gate: make(chan struct{})}
		for i := 0; i < 3*ninst; i++ {
			prov.ch <- i
		}
		close(prov.ch)
		bar := &barrier{n: int32(ninst), open: make(chan struct{})}
		var (
			mu    sync.Mutex
			guns  []*barrierGun
			bound int
			gateO sync.Once
		)
		eng := engine.New(zap.New(obsCore), newMetrics(), engine.Config{Pools: []engine.InstancePoolConfig{{
			ID: "p", Provider: prov, Aggregator: nopAggr{},
			NewGun: func() (core.Gun, error) {
				g := &barrierGun{b: bar}
				g.onBind = func() {
					mu.Lock()
					bound++
					open := bound >= k
					mu.Unlock()
					if open {
						// the k-th instance binds its gun and enters instance.Run: let the waiting ones go
						gateO.Do(func() { close(prov.gate) })
					}
				}
				mu.Lock()
				guns = append(guns, g)
				mu.Unlock()
				return g, nil
			},
			NewRPSSchedule:  func() (core.Schedule, error) { return schedule.NewUnlimited(time.Duration(durMs) * time.Millisecond), nil },
			StartupSchedule: schedule.NewOnce(int64(ninst)),
		}}})
		ctx, cancel := context.WithTimeout(context.Background(), 30*time.Second)
		res := make(chan error, 1)
		go func() { res <- eng.Run(ctx) }()
		var err error
		select {
		case err = <-res:
		case <-time.After(40 * time.Second):
			err = fmt.Errorf("hang")
		}
		cancel()
		gateO.Do(func() { close(prov.gate) })
		if err != nil {
			bad++
		}
		mu.Lock()
		shot := 0
		for _, g := range guns {
			if g.shot.Load() > 0 {
				shot++
			}
		}
		mu.Unlock()
		if shot < ninst {
			short++
		}
		if logs.FilterMessageSnippet("RPS schedule has been finished").Len() > 0 {
			canceled++
		}
		if short+bad >= 2 {
			break // every further failing run would wait at the barrier again
		}
	}
	return fmt.Sprintf("runs=%d short=%d cancel=%d err=%d", runs, short, canceled, bad)
}
