package main

// hshare: the requests several instances hold from ONE http provider (Model/AmmoShare.v, Properties/C11_share.v).
//
//	hshare <dec> <preload 0|1> <mws> <cfg> <file> <nammo> <ops>
//	    dec  = uri | uripost | raw | jsonline | jsonarr (jsonline file in the array form)
//	    mws  = khex.loc,…    header/date middlewares in config order (khex = header_name, "-" = the default; loc = index of shareLocs)
//	    cfg  = - | khex=vhex,…  provider config `headers` in order (a key may repeat: several values)
//	    file = - | khex=vhex,…  headers the ammo file itself carries (uri/uripost: [K: v] lines, raw: request header lines,
//	                            jsonline: the "headers" object of every entry); one value per key
//	    ops  = a<i> | r<i> | w , comma separated:  a<i> instance i calls Acquire (and keeps the ammo, as engine.instance.Run does
//	           while it waits for its schedule), r<i> instance i looks at its request (Shoot) and releases it, w = the wall
//	           clock moves on to the next second (so that a later header/date value differs from an earlier one)
//
// The REAL provider (http.NewProvider on a mem fs, real decoders, real headerdate middleware, provider goroutine running).
// Observation = one item per op:  a<i>:<t>:<hdr>  /  r<i>:<hdr>  /  w   with hdr = - | khex=v|v;…  (keys sorted, values in
// order; v = hex of a literal of the case, @<t> = the date the middleware formats for the t-th distinct second of the case,
// ?hex = anything else), t = rank of the second in which the Acquire ran.  `inconclusive-clock` when an Acquire straddled a
// second boundary (the harness keeps 300 ms clear of it, so only under an extreme stall).

import (
	"context"
	"encoding/json"
	"fmt"
	"net/http"
	"sort"
	"strconv"
	"strings"
	"time"

	"github.com/spf13/afero"
	phttp "github.com/yandex/pandora/components/guns/http"
	httpprov "github.com/yandex/pandora/components/providers/http"
	"github.com/yandex/pandora/components/providers/http/config"
	"github.com/yandex/pandora/components/providers/http/middleware"
	"github.com/yandex/pandora/components/providers/http/middleware/headerdate"
	"github.com/yandex/pandora/core"
	"go.uber.org/zap"

	"verifharness/internal/vh"
)

var shareLocs = []string{"", "UTC", "Europe/Moscow", "Asia/Tokyo", "America/New_York"}

type kv struct{ k, v string }

func parseKVs(s string) []kv {
	if s == "-" || s == "" {
		return nil
	}
	var out []kv
	for _, it := range strings.Split(s, ",") {
		p := strings.SplitN(it, "=", 2)
		out = append(out, kv{string(vh.UnHex(p[0])), string(vh.UnHex(p[1]))})
	}
	return out
}

func shareFile(dec string, file []kv, nammo int) string {
	var b strings.Builder
	switch dec {
	case "uri":
		for _, h := range file {
			fmt.Fprintf(&b, "[%s: %s]\n", h.k, h.v)
		}
		for j := 0; j < nammo; j++ {
			fmt.Fprintf(&b, "/a%d tag%d\n", j, j)
		}
	case "uripost":
		for _, h := range file {
			fmt.Fprintf(&b, "[%s: %s]\n", h.k, h.v)
		}
		for j := 0; j < nammo; j++ {
			body := fmt.Sprintf("body%d", j)
			fmt.Fprintf(&b, "%d /a%d tag%d\n%s\n", len(body), j, j, body)
		}
	case "raw":
		for j := 0; j < nammo; j++ {
			req := fmt.Sprintf("GET /a%d HTTP/1.1\r\nHost: h.example\r\n", j)
			for _, h := range file {
				req += h.k + ": " + h.v + "\r\n"
			}
			req += "\r\n"
			fmt.Fprintf(&b, "%d tag%d\n%s\n", len(req), j, req)
		}
	case "jsonline", "jsonarr":
		var ents []string
		for j := 0; j < nammo; j++ {
			hs := map[string]string{}
			for _, h := range file {
				hs[h.k] = h.v
			}
			e, _ := json.Marshal(map[string]any{"host": "h.example", "method": "GET", "uri": fmt.Sprintf("/a%d", j),
				"headers": hs, "tag": fmt.Sprintf("tag%d", j)})
			ents = append(ents, string(e))
		}
		if dec == "jsonarr" {
			b.WriteString("[" + strings.Join(ents, ",\n") + "]\n")
		} else {
			b.WriteString(strings.Join(ents, "\n") + "\n")
		}
	}
	return b.String()
}

type shareHeld struct {
	ammo core.Ammo
	req  *http.Request
}

func runShare(f []string) string {
	if len(f) != 8 {
		return "bad-case"
	}
	dec, preload := f[1], f[2] == "1"
	cfgH, fileH := parseKVs(f[4]), parseKVs(f[5])
	nammo, _ := strconv.Atoi(f[6])
	ops := strings.Split(f[7], ",")

	lits := map[string]bool{}
	for _, h := range append(append([]kv{}, cfgH...), fileH...) {
		lits[h.v] = true
	}
	var mws []middleware.Middleware
	var locs []*time.Location
	for _, m := range strings.Split(f[3], ",") {
		p := strings.SplitN(m, ".", 2)
		li, _ := strconv.Atoi(p[1])
		c := headerdate.Config{Location: shareLocs[li]}
		if p[0] != "-" {
			c.HeaderName = string(vh.UnHex(p[0]))
		}
		mw, err := headerdate.NewMiddleware(c)
		if err != nil {
			return "mwerr:" + vh.HexS(err.Error())
		}
		mws = append(mws, mw)
		loc := time.UTC
		if shareLocs[li] != "" {
			loc, _ = time.LoadLocation(shareLocs[li])
		}
		locs = append(locs, loc)
	}
	var cfgLines []string
	for _, h := range cfgH {
		cfgLines = append(cfgLines, "["+h.k+": "+h.v+"]")
	}
	fs := afero.NewMemMapFs()
	_ = afero.WriteFile(fs, "ammo", []byte(shareFile(dec, fileH, nammo)), 0o644)
	dt := config.DecoderType(dec)
	if dec == "jsonarr" {
		dt = config.DecoderJSONLine
	}
	p, err := httpprov.NewProvider(fs, config.Config{Decoder: dt, File: "ammo", Preload: preload, Headers: cfgLines, Middlewares: mws})
	if err != nil {
		return "proverr:" + vh.HexS(err.Error())
	}
	ctx, cancel := context.WithCancel(context.Background())
	runErr := make(chan error, 1)
	go func() { runErr <- p.Run(ctx, core.ProviderDeps{Log: zap.NewNop(), PoolID: "pool"}) }()
	defer func() {
		cancel()
		select {
		case <-runErr:
		case <-time.After(5 * time.Second):
		}
	}()

	held := map[string]*shareHeld{}
	type item struct {
		op   string
		sec  int64
		snap http.Header
	}
	var items []item
	var secs []int64
	for _, op := range ops {
		switch {
		case op == "w":
			now := time.Now()
			time.Sleep(now.Truncate(time.Second).Add(time.Second + 3*time.Millisecond).Sub(now))
			items = append(items, item{op: "w"})
		case strings.HasPrefix(op, "a"):
			if held[op[1:]] != nil {
				return "bad-plan"
			}
			for {
				now := time.Now()
				if now.Nanosecond() < 700_000_000 {
					break
				}
				time.Sleep(now.Truncate(time.Second).Add(time.Second + 3*time.Millisecond).Sub(now))
			}
			before := time.Now().Unix()
			type got struct {
				a  core.Ammo
				ok bool
			}
			ch := make(chan got, 1)
			go func() { a, ok := p.Acquire(); ch <- got{a, ok} }()
			var g got
			select {
			case g = <-ch:
			case <-time.After(5 * time.Second):
				return "hang"
			}
			if time.Now().Unix() != before {
				return "inconclusive-clock"
			}
			if !g.ok {
				return "acquire-failed"
			}
			ga, ok := g.a.(phttp.Ammo)
			if !ok {
				return "not-http-ammo"
			}
			req, _ := ga.Request()
			held[op[1:]] = &shareHeld{g.a, req}
			secs = append(secs, before)
			items = append(items, item{op: op, sec: before, snap: req.Header.Clone()})
		case strings.HasPrefix(op, "r"):
			h := held[op[1:]]
			if h == nil {
				return "bad-plan"
			}
			items = append(items, item{op: op, snap: h.req.Header.Clone()})
			p.Release(h.ammo)
			delete(held, op[1:])
		default:
			return "bad-op"
		}
	}
	// ranks of the seconds, and what each middleware location formats for them
	sort.Slice(secs, func(i, j int) bool { return secs[i] < secs[j] })
	rank := map[int64]int{}
	for _, s := range secs {
		if _, ok := rank[s]; !ok {
			rank[s] = len(rank)
		}
	}
	dates := map[string]int{}
	for s, r := range rank {
		for _, loc := range locs {
			dates[time.Unix(s, 0).In(loc).Format(http.TimeFormat)] = r
		}
	}
	canon := func(h http.Header) string {
		var keys []string
		for k := range h {
			keys = append(keys, k)
		}
		if len(keys) == 0 {
			return "-"
		}
		sort.Strings(keys)
		var parts []string
		for _, k := range keys {
			var vs []string
			for _, v := range h[k] {
				if lits[v] {
					vs = append(vs, "l"+vh.HexS(v))
				} else if r, ok := dates[v]; ok {
					vs = append(vs, fmt.Sprintf("@%d", r))
				} else {
					vs = append(vs, "?"+vh.HexS(v))
				}
			}
			parts = append(parts, vh.HexS(k)+"="+strings.Join(vs, "|"))
		}
		return strings.Join(parts, ";")
	}
	var out []string
	for _, it := range items {
		switch it.op[0] {
		case 'w':
			out = append(out, "w")
		case 'a':
			out = append(out, fmt.Sprintf("%s:%d:%s", it.op, rank[it.sec], canon(it.snap)))
		default:
			out = append(out, it.op+":"+canon(it.snap))
		}
	}
	return strings.Join(out, " ")
}
