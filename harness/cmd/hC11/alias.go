package main

import (
	"context"
	"encoding/json"
	"fmt"
	"sort"
	"strconv"
	"strings"
	"sync"
	"time"

	"github.com/spf13/afero"
	phttp "github.com/yandex/pandora/components/guns/http"
	grpcscen "github.com/yandex/pandora/components/guns/grpc/scenario"
	httpscen "github.com/yandex/pandora/components/guns/http_scenario"
	"github.com/yandex/pandora/components/providers/scenario"
	scengrpc "github.com/yandex/pandora/components/providers/scenario/grpc"
	scenhttp "github.com/yandex/pandora/components/providers/scenario/http"
	scenimport "github.com/yandex/pandora/components/providers/scenario/import"
	"github.com/yandex/pandora/core"
	"github.com/yandex/pandora/core/aggregator/netsample"
	"github.com/yandex/pandora/core/plugin/pluginconfig"
	"github.com/yandex/pandora/core/warmup"
	"go.uber.org/zap"
	"gopkg.in/yaml.v2"

	"verifharness/internal/a20"
	"verifharness/internal/vh"
)

var (
	fs         = afero.NewMemMapFs()
	fileSeq    int
	grpcTarget *a20.Srv
	httpTarget *a20.HTTPSrv
	importOnce sync.Once
)

func targets() {
	if grpcTarget == nil {
		var err error
		if grpcTarget, err = a20.Start(); err != nil {
			panic(err)
		}
		if httpTarget, err = a20.StartHTTP(); err != nil {
			panic(err)
		}
	}
}

func stopTargets() {
	if grpcTarget != nil {
		grpcTarget.Stop()
		httpTarget.Stop()
	}
}

func imports() {
	importOnce.Do(func() {
		scenimport.Import(fs)
		pluginconfig.AddHooks()
	})
}

type codeAggr struct {
	mu sync.Mutex
	c  []int
}

func (r *codeAggr) Run(ctx context.Context, deps core.AggregatorDeps) error { <-ctx.Done(); return nil }
func (r *codeAggr) Report(s core.Sample) {
	r.mu.Lock()
	r.c = append(r.c, s.(*netsample.Sample).ProtoCode())
	r.mu.Unlock()
}

func parseMeta(s string) map[string]string {
	if s == "-" {
		return nil
	}
	md := map[string]string{}
	for _, kv := range strings.Split(s, ",") {
		x := strings.SplitN(kv, "=", 2)
		md[string(vh.UnHex(x[0]))] = string(vh.UnHex(x[1]))
	}
	return md
}

func canonMap(m map[string]string) string {
	if len(m) == 0 {
		return "-"
	}
	var it []string
	for k, v := range m {
		it = append(it, vh.HexS(k)+"="+vh.HexS(v))
	}
	sort.Strings(it)
	return strings.Join(it, ",")
}

func usersFile(base string, spec string) {
	var users []map[string]string
	for _, u := range strings.Split(spec, ",") {
		x := strings.Split(u, ":")
		users = append(users, map[string]string{"token": string(vh.UnHex(x[0])), "id": string(vh.UnHex(x[1]))})
	}
	ub, _ := json.Marshal(users)
	_ = afero.WriteFile(fs, base+"-users.json", ub, 0o644)
}

func parseOrder(s string) []int {
	var order []int
	for _, x := range strings.Split(s, ",") {
		k, _ := strconv.Atoi(x)
		order = append(order, k)
	}
	return order
}

func scenList(spec string, names []string) []map[string]any {
	var scens []map[string]any
	for _, s := range strings.Split(spec, "|") {
		x := strings.Split(s, ":")
		var reqs []string
		for _, is := range strings.Split(x[1], ".") {
			k, _ := strconv.Atoi(is)
			reqs = append(reqs, names[k]+"(1)")
		}
		scens = append(scens, map[string]any{"name": string(vh.UnHex(x[0])), "weight": 1, "min_waiting_time": 0, "requests": reqs})
	}
	return scens
}

// ---------- gRPC ----------

func runAliasGRPC(f []string) string {
	targets()
	imports()
	ninst, _ := strconv.Atoi(f[1])
	tmo, _ := strconv.Atoi(f[2])
	order := parseOrder(f[3])
	fileSeq++
	base := fmt.Sprintf("/agrpc-%d", fileSeq)
	usersFile(base, f[4])
	defer fs.Remove(base + "-users.json")
	var calls []map[string]any
	var names []string
	for _, d := range strings.Split(f[5], "|") {
		p := strings.Split(d, ";")
		name := string(vh.UnHex(p[0]))
		names = append(names, name)
		c := map[string]any{"name": name, "tag": string(vh.UnHex(p[1])), "call": string(vh.UnHex(p[2])), "payload": string(vh.UnHex(p[4]))}
		if md := parseMeta(p[3]); md != nil {
			c["metadata"] = md
		}
		if p[5] == "1" {
			c["preprocessors"] = []map[string]any{{"type": "prepare", "mapping": map[string]string{"u": "source.users[next]"}}}
		}
		calls = append(calls, c)
	}
	scens := scenList(f[6], names)
	cfg := map[string]any{
		"variable_sources": []map[string]any{{"name": "users", "type": "file/json", "file": base + "-users.json"}},
		"calls":            calls,
		"scenarios":        scens,
	}
	yb, _ := yaml.Marshal(cfg)
	_ = afero.WriteFile(fs, base+".yaml", yb, 0o644)
	defer fs.Remove(base + ".yaml")
	prov, err := scengrpc.NewProvider(fs, scenario.ProviderConfig{File: base + ".yaml", Limit: uint(len(order) + len(scens))})
	if err != nil {
		return "providererr:" + vh.HexS(err.Error())
	}
	log := zap.NewNop()
	ctx, cancel := context.WithCancel(context.Background())
	defer cancel()
	go func() { _ = prov.Run(ctx, core.ProviderDeps{Log: log}) }()
	gconf := grpcscen.DefaultGunConfig()
	gconf.Target = grpcTarget.Addr
	gconf.Timeout = time.Duration(tmo) * time.Millisecond
	wg := grpcscen.NewGun(gconf)
	sd, err := wg.WarmUp(&warmup.Options{Log: log, Ctx: ctx})
	if err != nil {
		return "warmuperr"
	}
	ag := &codeAggr{}
	guns := make([]*grpcscen.Gun, ninst)
	for i := range guns {
		guns[i] = grpcscen.NewGun(gconf)
		if err := guns[i].Bind(ag, core.GunDeps{Ctx: ctx, Log: log, InstanceID: i, Shared: sd}); err != nil {
			return "binderr"
		}
	}
	grpcTarget.Drain()
	var shots []string
	for _, inst := range order {
		am, ok := prov.Acquire()
		if !ok {
			shots = append(shots, "noammo")
			continue
		}
		before := len(ag.c)
		guns[inst%ninst].Shoot(am)
		codes := ag.c[before:]
		cs := grpcTarget.Drain()
		var steps []string
		ci := 0
		for _, code := range codes {
			if ci < len(cs) {
				steps = append(steps, strconv.Itoa(code)+";"+cs[ci].String())
				ci++
			} else {
				steps = append(steps, strconv.Itoa(code)+";-")
			}
		}
		for ; ci < len(cs); ci++ {
			steps = append(steps, "nosample;"+cs[ci].String())
		}
		if len(steps) == 0 {
			steps = []string{"none"}
		}
		shots = append(shots, strings.Join(steps, "|"))
	}
	// post-state of the shared definition: one more clone per scenario, its steps read back
	var post []string
	for range scens {
		am, ok := prov.Acquire()
		if !ok {
			post = append(post, "noammo")
			continue
		}
		sc := am.(*grpcscen.Scenario)
		var st []string
		for _, c := range sc.Calls {
			st = append(st, vh.HexS(c.Name)+";"+vh.HexS(c.Call)+";"+canonMap(c.Metadata)+";"+vh.Hex(c.Payload))
		}
		post = append(post, vh.HexS(sc.Name)+":"+strings.Join(st, "|"))
	}
	return strings.Join(shots, "#") + " post " + strings.Join(post, "#")
}

// ---------- HTTP ----------

type nsAggr struct{ a *codeAggr }

func (n nsAggr) Run(ctx context.Context, deps core.AggregatorDeps) error { return n.a.Run(ctx, deps) }
func (n nsAggr) Report(s *netsample.Sample)                                { n.a.Report(s) }

func runAliasHTTP(f []string) string {
	targets()
	imports()
	ninst, _ := strconv.Atoi(f[1])
	order := parseOrder(f[2])
	fileSeq++
	base := fmt.Sprintf("/ahttp-%d", fileSeq)
	usersFile(base, f[3])
	defer fs.Remove(base + "-users.json")
	var reqs []map[string]any
	var names []string
	for _, d := range strings.Split(f[4], "|") {
		p := strings.Split(d, ";")
		name := string(vh.UnHex(p[0]))
		names = append(names, name)
		r := map[string]any{"name": name, "method": string(vh.UnHex(p[1])), "uri": string(vh.UnHex(p[2])), "tag": name}
		if md := parseMeta(p[3]); md != nil {
			r["headers"] = md
		}
		if p[4] != "-" {
			r["body"] = string(vh.UnHex(p[4]))
		}
		if p[5] == "1" {
			r["preprocessor"] = map[string]any{"mapping": map[string]string{"u": "source.users[next]"}}
		}
		if len(p) > 6 && p[6] == "1" {
			r["postprocessors"] = []map[string]any{{"type": "assert/response", "body": []string{`"result":"ok"`}}}
		}
		reqs = append(reqs, r)
	}
	scens := scenList(f[5], names)
	cfg := map[string]any{
		"variable_sources": []map[string]any{{"name": "users", "type": "file/json", "file": base + "-users.json"}},
		"requests":         reqs,
		"scenarios":        scens,
	}
	yb, _ := yaml.Marshal(cfg)
	_ = afero.WriteFile(fs, base+".yaml", yb, 0o644)
	defer fs.Remove(base + ".yaml")
	prov, err := scenhttp.NewProvider(fs, scenario.ProviderConfig{File: base + ".yaml", Limit: uint(len(order) + len(scens))})
	if err != nil {
		return "providererr:" + vh.HexS(err.Error())
	}
	log := zap.NewNop()
	ctx, cancel := context.WithCancel(context.Background())
	defer cancel()
	go func() { _ = prov.Run(ctx, core.ProviderDeps{Log: log}) }()
	gconf := phttp.DefaultHTTPGunConfig()
	gconf.Target = httpTarget.Addr
	gconf.TargetResolved = httpTarget.Addr
	ag := &codeAggr{}
	guns := make([]*httpscen.ScenarioGun, ninst)
	for i := range guns {
		guns[i] = httpscen.NewHTTPGun(gconf, log)
		if err := guns[i].Bind(nsAggr{ag}, core.GunDeps{Ctx: ctx, Log: log, InstanceID: i}); err != nil {
			return "binderr"
		}
	}
	httpTarget.Drain()
	var shots []string
	for _, inst := range order {
		am, ok := prov.Acquire()
		if !ok {
			shots = append(shots, "noammo")
			continue
		}
		before := len(ag.c)
		guns[inst%ninst].Shoot(am.(*httpscen.Scenario))
		codes := ag.c[before:]
		rs := httpTarget.Drain()
		var steps []string
		ri := 0
		for _, code := range codes {
			if ri < len(rs) {
				steps = append(steps, strconv.Itoa(code)+";"+rs[ri].String())
				ri++
			} else {
				steps = append(steps, strconv.Itoa(code)+";-")
			}
		}
		for ; ri < len(rs); ri++ {
			steps = append(steps, "nosample;"+rs[ri].String())
		}
		if len(steps) == 0 {
			steps = []string{"none"}
		}
		shots = append(shots, strings.Join(steps, "|"))
	}
	for _, g := range guns {
		_ = g.Close()
	}
	var post []string
	for range scens {
		am, ok := prov.Acquire()
		if !ok {
			post = append(post, "noammo")
			continue
		}
		sc := am.(*httpscen.Scenario)
		var st []string
		for _, r := range sc.Requests {
			body := "-"
			if r.Body != nil {
				body = vh.HexS(*r.Body)
				if *r.Body == "" {
					body = "00empty"
				}
			}
			st = append(st, vh.HexS(r.Name)+";"+vh.HexS(r.Method)+";"+vh.HexS(r.URI)+";"+canonMap(r.Headers)+";"+body)
		}
		post = append(post, vh.HexS(sc.Name)+":"+strings.Join(st, "|"))
	}
	return strings.Join(shots, "#") + " post " + strings.Join(post, "#")
}
