package main

import (
	"context"
	"fmt"
	"net"
	"strconv"
	"strings"
	"time"

	"github.com/spf13/afero"
	"github.com/yandex/pandora/cli"
	grpcimport "github.com/yandex/pandora/components/grpc/import"
	phttpimport "github.com/yandex/pandora/components/phttp/import"
	"github.com/yandex/pandora/core/config"
	"github.com/yandex/pandora/core/engine"
	coreimport "github.com/yandex/pandora/core/import"
	"go.uber.org/zap"
	"gopkg.in/yaml.v2"

	"verifharness/internal/a20"
	"verifharness/internal/vh"
)

// ---------- cfg: several pools built through the real registry / config decoder ----------
//
//	cfg <kindA> <kindB> <ninst> <mdA> <mdB>
//	    one engine, two gRPC pools (kind = grpc | grpcscen), each with its own in-process target and its
//	    own map-valued gun option  reflect_metadata  (md = - | khex=vhex,…), ninst instances each, guns
//	    created by the registered plugin factories exactly as the cli does. Observation = the effective
//	    option of each pool as its target saw it on the reflection streams:  A=<md>+<md>…;B=…
//	    (one set per pool expected: its own section). Always run in a subprocess.

func mdYAML(spec string) string {
	if spec == "-" {
		return ""
	}
	var it []string
	for _, kv := range strings.Split(spec, ",") {
		x := strings.SplitN(kv, "=", 2)
		it = append(it, fmt.Sprintf("%q: %q", string(vh.UnHex(x[0])), string(vh.UnHex(x[1]))))
	}
	return ", reflect_metadata: {" + strings.Join(it, ", ") + "}"
}

func runCfgCase(f []string) string {
	ninst, _ := strconv.Atoi(f[3])
	mfs := afero.NewMemMapFs()
	coreimport.Import(mfs)
	phttpimport.Import(mfs)
	grpcimport.Import(mfs)
	_ = afero.WriteFile(mfs, "/race-users.json", []byte(raceUsers), 0o644)
	_ = afero.WriteFile(mfs, "/cfg.grpc", []byte(`{"tag":"h","call":"target.TargetService.Hello","payload":{"name":"n"}}`+"\n"), 0o644)
	_ = afero.WriteFile(mfs, "/cfg-grpc.yaml", []byte(grpcScenarioFile("0")), 0o644)
	var srvs []*a20.Srv
	var pools []string
	for i, kind := range []string{f[1], f[2]} {
		s, err := a20.Start()
		if err != nil {
			return "targeterr"
		}
		defer s.Stop()
		srvs = append(srvs, s)
		gun, ammo := "", ""
		switch kind {
		case "grpc":
			gun = fmt.Sprintf("{type: grpc, target: %q%s}", s.Addr, mdYAML(f[4+i]))
			ammo = "{type: grpc/json, file: /cfg.grpc, limit: 12}"
		case "grpcscen":
			gun = fmt.Sprintf("{type: grpc/scenario, target: %q%s}", s.Addr, mdYAML(f[4+i]))
			ammo = "{type: grpc/scenario, file: /cfg-grpc.yaml, limit: 6}"
		default:
			return "unknown-kind"
		}
		pools = append(pools, fmt.Sprintf(`  - id: P%d
    gun: %s
    ammo: %s
    result: {type: discard}
    rps: [{type: unlimited, duration: 20s}]
    startup: [{type: once, times: %d}]
`, i, gun, ammo, ninst))
	}
	y := "pools:\n" + strings.Join(pools, "") + "log: {level: error}\n"
	mapCfg := map[string]any{}
	if err := yaml.Unmarshal([]byte(y), &mapCfg); err != nil {
		return "yamlerr:" + err.Error()
	}
	conf := cli.DefaultConfig()
	if err := config.DecodeAndValidate(mapCfg, conf); err != nil {
		return "configerr:" + vh.HexS(err.Error())
	}
	eng := engine.New(zap.NewNop(), newMetrics(), conf.Engine)
	ctx, cancel := context.WithTimeout(context.Background(), 30*time.Second)
	defer cancel()
	err := eng.Run(ctx)
	eng.Wait()
	if err != nil {
		return "enginerr:" + strings.ReplaceAll(err.Error(), " ", "_")
	}
	var out []string
	for i, s := range srvs {
		out = append(out, string(rune('A'+i))+"="+strings.Join(s.ReflMD(), "+"))
	}
	return strings.Join(out, ";")
}

// freePort reserves a loopback port and releases it again: nothing listens there until the
// caller starts its target.
func freePort() int {
	l, err := net.Listen("tcp", "127.0.0.1:0")
	if err != nil {
		return 0
	}
	defer l.Close()
	return l.Addr().(*net.TCPAddr).Port
}
