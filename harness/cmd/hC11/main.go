// hC11: correspondence harness for property C11 (instance isolation and data-race freedom).
//
// Case kinds (blank separated fields):
//
//	own <ninst> <nammo> <perinst 0|1>
//	    the real engine (startup once(ninst), unlimited rps, mock provider with nammo ammo) with a
//	    RECORDING gun factory. Observation = the event trace  m<g> b<i>.<g> s<r>.<g> e<r>.<g>
//	    (factory call, Bind by instance i, Shoot start / end in goroutine r), objects and goroutines
//	    numbered by first appearance, joined by ','.  The trace is schedule dependent; the model
//	    accepts or rejects it.
//	ammo <ninst> <rps> <dur_ms> <stall_ms> <discard 0|1>     (see ammo.go)
//	sched <ninst> <nparts> <perinst 0|1>
//	    the real engine with mock gun/provider (ammo never runs out) and a REAL composite rps schedule of
//	    nparts alternating once(k) / unlimited(1ms) parts (shared by the instances unless perinst):
//	    the instances reach every part boundary together. Observation = ok | err:<engine error> | hang
//	shs <spec> <mode> <trials> <take>  /  shse <ninst> <runs> <k> <dur_ms>      (see shared.go: one shared schedule
//	    started by the first Next of one instance while the others evaluate their loop condition)
//	agrpc <ninst> <timeout_ms> <order> <users> <calls> <scenarios>      (same fields as hC20 scen)
//	    sequential aliasing differential through the real grpc/scenario provider + guns; observation =
//	    what the target received per shot  +  " post "  +  the shared definition read back afterwards
//	ahttp <ninst> <order> <users> <requests> <scenarios>
//	    the same for http/scenario: requests = def|def…  def = namehex;methodhex;urihex;headers;body;pp;assert
//	    headers = - | khex=texthex,…   body = - | hex   assert=1: postprocessor assert/response body ["result":"ok"]
//	    (the target answers "result":"bad" when the URI contains "nok": the step then fails after delivery)
//	cfg <kindA> <kindB> <ninst> <mdA> <mdB>      (see cfg.go; in a subprocess)
//	hshare <dec> <preload> <mws> <cfg> <file> <nammo> <ops>      (see share.go: requests held by several instances of one http provider)
//	race <pool> <ninst> <nshots> <variant>
//	    (run in a subprocess of the -race build) N instances of a pool kind under the real engine
//	    against in-process targets; observation = clean | race:<functions> | fatal:<message>
//	    pool = http | httpscen | grpc | grpcscen | httplate (two http pools on HOST-NAME targets that start
//	    listening only after the configuration was decoded: the DNS-caching dialer is in use) | ammo (recycling provider, variant 1 = discard_overflow
//	    with a stalled first shot) ; variant: http/grpc 0|1 = shared client off/on;
//	    scenarios 0 = [next] only, 1 = +[rand], 2 = +randString, 3 = +randInt and uuid
package main

import (
	"bytes"
	"context"
	"fmt"
	"os"
	"os/exec"
	"regexp"
	"runtime"
	"sort"
	"strconv"
	"strings"
	"sync"
	"time"

	"github.com/yandex/pandora/core"
	"github.com/yandex/pandora/core/engine"
	"github.com/yandex/pandora/core/schedule"
	"github.com/yandex/pandora/lib/monitoring"
	"go.uber.org/zap"

	"verifharness/internal/vh"
)

// ---------- own: recording gun factory under the real engine ----------

type evLog struct {
	mu   sync.Mutex
	evs  []string
	gor  map[uint64]int
	guns int
}

func goid() uint64 {
	var buf [64]byte
	n := runtime.Stack(buf[:], false)
	f := strings.Fields(string(buf[:n]))
	id, _ := strconv.ParseUint(f[1], 10, 64)
	return id
}

func (l *evLog) gorIdx(id uint64) int {
	if k, ok := l.gor[id]; ok {
		return k
	}
	k := len(l.gor)
	l.gor[id] = k
	return k
}

type recGun struct {
	id  int
	log *evLog
}

func (g *recGun) Bind(a core.Aggregator, deps core.GunDeps) error {
	g.log.mu.Lock()
	g.log.evs = append(g.log.evs, fmt.Sprintf("b%d.%d", deps.InstanceID, g.id))
	g.log.mu.Unlock()
	return nil
}

func (g *recGun) Shoot(am core.Ammo) {
	id := goid()
	g.log.mu.Lock()
	r := g.log.gorIdx(id)
	g.log.evs = append(g.log.evs, fmt.Sprintf("s%d.%d", r, g.id))
	g.log.mu.Unlock()
	runtime.Gosched()
	time.Sleep(20 * time.Microsecond)
	g.log.mu.Lock()
	g.log.evs = append(g.log.evs, fmt.Sprintf("e%d.%d", r, g.id))
	g.log.mu.Unlock()
}

type intProvider struct {
	ch chan int
}

func (p *intProvider) Run(ctx context.Context, deps core.ProviderDeps) error {
	<-ctx.Done()
	return nil
}
func (p *intProvider) Acquire() (core.Ammo, bool) { a, ok := <-p.ch; return a, ok }
func (p *intProvider) Release(core.Ammo)          {}

type nopAggr struct{}

func (nopAggr) Run(ctx context.Context, deps core.AggregatorDeps) error { <-ctx.Done(); return nil }
func (nopAggr) Report(core.Sample)                                      {}

func newMetrics() engine.Metrics {
	return engine.Metrics{Request: &monitoring.Counter{}, Response: &monitoring.Counter{},
		InstanceStart: &monitoring.Counter{}, InstanceFinish: &monitoring.Counter{}}
}

func runOwn(f []string) string {
	ninst, _ := strconv.Atoi(f[1])
	nammo, _ := strconv.Atoi(f[2])
	perInst := f[3] == "1"
	lg := &evLog{gor: map[uint64]int{}}
	prov := &intProvider{ch: make(chan int, nammo)}
	for i := 0; i < nammo; i++ {
		prov.ch <- i
	}
	close(prov.ch)
	eng := engine.New(zap.NewNop(), newMetrics(), engine.Config{Pools: []engine.InstancePoolConfig{{
		ID: "p", Provider: prov, Aggregator: nopAggr{},
		NewGun: func() (core.Gun, error) {
			lg.mu.Lock()
			g := &recGun{id: lg.guns, log: lg}
			lg.guns++
			lg.evs = append(lg.evs, fmt.Sprintf("m%d", g.id))
			lg.mu.Unlock()
			return g, nil
		},
		RPSPerInstance:  perInst,
		NewRPSSchedule:  func() (core.Schedule, error) { return schedule.NewUnlimited(20 * time.Second), nil },
		StartupSchedule: schedule.NewOnce(int64(ninst)),
	}}})
	ctx, cancel := context.WithTimeout(context.Background(), 15*time.Second)
	_ = eng.Run(ctx)
	cancel()
	done := make(chan struct{})
	go func() { eng.Wait(); close(done) }()
	select {
	case <-done:
	case <-time.After(5 * time.Second):
		return "hang"
	}
	lg.mu.Lock()
	defer lg.mu.Unlock()
	if len(lg.evs) == 0 {
		return "-"
	}
	return strings.Join(lg.evs, ",")
}

// ---------- sched: real composite schedule shared by the instances ----------

type endlessProvider struct{}

func (endlessProvider) Run(ctx context.Context, deps core.ProviderDeps) error { <-ctx.Done(); return nil }
func (endlessProvider) Acquire() (core.Ammo, bool)                             { return 1, true }
func (endlessProvider) Release(core.Ammo)                                      {}

type nopGun struct{}

func (nopGun) Bind(core.Aggregator, core.GunDeps) error { return nil }
func (nopGun) Shoot(core.Ammo)                          {}

func runSched(f []string) string {
	ninst, _ := strconv.Atoi(f[1])
	nparts, _ := strconv.Atoi(f[2])
	perInst := f[3] == "1"
	mk := func() (core.Schedule, error) {
		var parts []core.Schedule
		for i := 0; i < nparts; i++ {
			if i%2 == 0 {
				parts = append(parts, schedule.NewOnce(int64(1+i%4)))
			} else {
				parts = append(parts, schedule.NewUnlimited(time.Millisecond))
			}
		}
		parts = append(parts, schedule.NewOnce(1))
		return schedule.NewComposite(parts...), nil
	}
	eng := engine.New(zap.NewNop(), newMetrics(), engine.Config{Pools: []engine.InstancePoolConfig{{
		ID: "p", Provider: endlessProvider{}, Aggregator: nopAggr{},
		NewGun:          func() (core.Gun, error) { return nopGun{}, nil },
		RPSPerInstance:  perInst,
		NewRPSSchedule:  mk,
		StartupSchedule: schedule.NewOnce(int64(ninst)),
	}}})
	ctx, cancel := context.WithTimeout(context.Background(), 10*time.Second)
	defer cancel()
	res := make(chan error, 1)
	go func() { res <- eng.Run(ctx) }()
	select {
	case err := <-res:
		if err != nil {
			return "err:" + strings.ReplaceAll(err.Error(), " ", "_")
		}
	case <-time.After(12 * time.Second):
		return "hang"
	}
	done := make(chan struct{})
	go func() { eng.Wait(); close(done) }()
	select {
	case <-done:
	case <-time.After(5 * time.Second):
		return "hang"
	}
	return "ok"
}

// ---------- race: each case in a subprocess of the -race build ----------

var raceFn = regexp.MustCompile(`^\s+(github\.com/yandex/pandora/[^\s(]+(?:\(\*?[A-Za-z0-9_\[\].]+\))?[^\s(]*)\(`)

// raceSummary turns the race detector's reports into  race:<fnA>~<fnB>;…  (the innermost pandora
// frame of each of the two conflicting accesses, sorted), at most 4 distinct pairs.
func raceSummary(stderr string) string {
	if i := strings.Index(stderr, "fatal error:"); i >= 0 {
		line := stderr[i:]
		if j := strings.Index(line, "\n"); j >= 0 {
			line = line[:j]
		}
		return "fatal:" + strings.ReplaceAll(strings.TrimSpace(strings.TrimPrefix(line, "fatal error:")), " ", "-")
	}
	if !strings.Contains(stderr, "WARNING: DATA RACE") {
		return ""
	}
	pairs := map[string]bool{}
	for _, rep := range strings.Split(stderr, "WARNING: DATA RACE")[1:] {
		if k := strings.Index(rep, "=================="); k >= 0 {
			rep = rep[:k]
		}
		// blocks: "Write at …", "Previous read at …", then "Goroutine … created at" (ignored)
		var tops []string
		for _, blk := range strings.Split(rep, "\n\n") {
			head := strings.TrimSpace(blk)
			if !(strings.HasPrefix(head, "Write at") || strings.HasPrefix(head, "Read at") ||
				strings.HasPrefix(head, "Previous write at") || strings.HasPrefix(head, "Previous read at") ||
				strings.HasPrefix(head, "Atomic") || strings.HasPrefix(head, "Previous atomic")) {
				continue
			}
			top := "?"
			for _, ln := range strings.Split(blk, "\n") {
				if m := raceFn.FindStringSubmatch(ln); m != nil {
					top = strings.TrimPrefix(m[1], "github.com/yandex/pandora/")
					break
				}
			}
			tops = append(tops, top)
		}
		sort.Strings(tops)
		pairs[strings.Join(tops, "~")] = true
	}
	var ks []string
	for k := range pairs {
		ks = append(ks, k)
	}
	sort.Strings(ks)
	if len(ks) > 4 {
		ks = ks[:4]
	}
	return "race:" + strings.Join(ks, ";")
}

func runRaceSub(c string) string { return runSub("racecase", c) }

// runSub runs one case in a subprocess of this binary (its own plugin registry, its own process-wide
// caches; under the -race build its own detector report).
func runSub(mode, c string) string {
	cmd := exec.Command(os.Args[0], mode, c)
	cmd.Env = append(os.Environ(), "GORACE=halt_on_error=0 exitcode=0")
	var so, se bytes.Buffer
	cmd.Stdout = &so
	cmd.Stderr = &se
	done := make(chan error, 1)
	if err := cmd.Start(); err != nil {
		return "starterr"
	}
	go func() { done <- cmd.Wait() }()
	select {
	case <-done:
	case <-time.After(90 * time.Second):
		_ = cmd.Process.Kill()
		return "hang"
	}
	if s := raceSummary(se.String()); s != "" {
		if os.Getenv("HC11_KEEP_STDERR") != "" {
			_ = os.WriteFile(os.Getenv("HC11_KEEP_STDERR"), se.Bytes(), 0o644)
		}
		return s
	}
	out := strings.TrimSpace(so.String())
	if mode == "cfgcase" {
		if out == "" {
			return "failed:" + vh.HexS(lastLine(se.String()))
		}
		return out
	}
	if strings.HasPrefix(out, "counts:") || strings.HasPrefix(out, "enginerr:") {
		return out
	}
	if !strings.HasPrefix(out, "done") {
		return "failed:" + vh.HexS(out+"|"+lastLine(se.String()))
	}
	return "clean"
}

func lastLine(s string) string {
	s = strings.TrimSpace(s)
	if i := strings.LastIndex(s, "\n"); i >= 0 {
		return s[i+1:]
	}
	return s
}

func runCase(c string) (res string) {
	defer func() {
		if r := recover(); r != nil {
			res = "panic:" + vh.HexS(fmt.Sprint(r))
		}
	}()
	f := strings.Split(c, " ")
	switch f[0] {
	case "own":
		return runOwn(f)
	case "sched":
		return runSched(f)
	case "ammo":
		return runAmmo(f)
	case "shs":
		return runShs(f)
	case "shse":
		return runShse(f)
	case "agrpc":
		return runAliasGRPC(f)
	case "ahttp":
		return runAliasHTTP(f)
	case "race":
		return runRaceSub(c)
	case "cfg":
		return runSub("cfgcase", c)
	case "hshare":
		return runShare(f)
	}
	return "unknown-case"
}

func main() {
	if len(os.Args) >= 3 && os.Args[1] == "cfgcase" {
		fmt.Println(runCfgCase(strings.Split(os.Args[2], " ")))
		return
	}
	if len(os.Args) >= 3 && os.Args[1] == "racecase" {
		fmt.Println(runRaceCase(strings.Split(os.Args[2], " ")))
		return
	}
	vh.Main(gen, func(cases []string) []string {
		out := make([]string, len(cases))
		// the ammo and hshare cases (seconds of deliberate stall / waiting for the wall clock's next second) run beside the others
		var wg sync.WaitGroup
		for i, c := range cases {
			if strings.HasPrefix(c, "ammo ") || strings.HasPrefix(c, "hshare ") {
				wg.Add(1)
				go func(i int, c string) { defer wg.Done(); out[i] = runCase(c) }(i, c)
			}
		}
		for i, c := range cases {
			if !strings.HasPrefix(c, "ammo ") && !strings.HasPrefix(c, "hshare ") {
				out[i] = runCase(c)
			}
		}
		wg.Wait()
		stopTargets()
		return out
	})
}
