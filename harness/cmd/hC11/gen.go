package main

import (
	"fmt"
	"strings"

	"verifharness/internal/vh"
)

var grpcMethods = []struct {
	name   string
	fields []struct {
		name  string
		isInt bool
	}
}{
	{"target.TargetService.Hello", []struct {
		name  string
		isInt bool
	}{{"name", false}}},
	{"target.TargetService.Auth", []struct {
		name  string
		isInt bool
	}{{"login", false}, {"pass", false}}},
	{"target.TargetService.List", []struct {
		name  string
		isInt bool
	}{{"token", false}, {"user_id", true}}},
	{"target.TargetService.Order", []struct {
		name  string
		isInt bool
	}{{"token", false}, {"user_id", true}, {"item_id", true}}},
}

var mdKeys = []string{"authorization", "x-request-id", "Trace-Id", "k.v_1", "data-bin", "payload", "x", "X-UPPER", "metadata"}
var hdrKeys = []string{"Authorization", "X-Tok", "X-Id", "Accept", "X-Trace-Id", "Payload"}
var tokPool = []string{"AAA", "BBB", "CCC", "tok-1", "tok_2", "Zz9", "a.b", "x"}
var scenNames = []string{"s", "s_a", "main", "flow1"}
var callNames = []string{"a", "x", "a_x", "auth", "hello", "list_1", "ord"}

var grpcLits = []string{"Bearer ", "id-", "x", "v1", "a b", "-", "tok", ""}

// HTTP field values are trimmed of surrounding blanks on the wire: no literal starts or ends with one
var httpLits = []string{"Bearer-", "id-", "x", "v1", "a+b", "-", "tok", ""}

func genTmpl(r *vh.Rand, pp string) string { return genTmplL(r, pp, grpcLits) }

func genTmplL(r *vh.Rand, pp string, lits []string) string {
	k := r.Range(1, 3)
	var b strings.Builder
	for i := 0; i < k; i++ {
		if r.Chance(1, 2) {
			b.WriteString("{{.request." + pp + ".preprocessor.u." + r.Pick([]string{"token", "token", "id"}) + "}}")
		} else {
			b.WriteString(r.Pick(lits))
		}
	}
	return b.String()
}

func genUsers(r *vh.Rand) string {
	nu := r.Range(2, 4)
	var users []string
	for i := 0; i < nu; i++ {
		users = append(users, vh.HexS(tokPool[(i+r.Intn(3))%len(tokPool)])+":"+vh.HexS(fmt.Sprint(r.PickInt([]int{1, 2, 3, 10, 17, 1098, 2001}))))
	}
	return strings.Join(users, ",")
}

func genOrder(r *vh.Rand, ninst int) string {
	nshots := r.Range(2, 6)
	var order []string
	for i := 0; i < nshots; i++ {
		order = append(order, fmt.Sprint(r.Intn(ninst)))
	}
	return strings.Join(order, ",")
}

func genScens(r *vh.Rand, nd int) string {
	ns := r.Range(1, 2)
	sperm := r.Intn(len(scenNames))
	var scens []string
	for i := 0; i < ns; i++ {
		steps := []string{"0"}
		for k := r.Range(0, 3); k > 0; k-- {
			steps = append(steps, fmt.Sprint(r.Intn(nd)))
		}
		scens = append(scens, vh.HexS(scenNames[(sperm+i)%len(scenNames)])+":"+strings.Join(steps, "."))
	}
	return strings.Join(scens, "|")
}

func genMetaT(r *vh.Rand, keys []string, pp string, lits []string) string {
	k := r.PickInt([]int{0, 1, 1, 2, 3})
	if k == 0 {
		return "-"
	}
	used := map[string]bool{}
	var items []string
	for len(items) < k {
		key := r.Pick(keys)
		if used[strings.ToLower(key)] {
			continue
		}
		used[strings.ToLower(key)] = true
		items = append(items, vh.HexS(key)+"="+vh.HexS(genTmplL(r, pp, lits)))
	}
	return strings.Join(items, ",")
}

func genAliasGRPC(r *vh.Rand) string {
	ninst := r.Range(1, 4)
	nd := r.Range(1, 4)
	perm := r.Intn(len(callNames))
	pp := callNames[perm%len(callNames)]
	idRef := "{{.request." + pp + ".preprocessor.u.id}}"
	var defs []string
	for i := 0; i < nd; i++ {
		name := callNames[(perm+i)%len(callNames)]
		m := grpcMethods[r.Intn(len(grpcMethods))]
		var fs []string
		for _, f := range m.fields {
			if r.Chance(1, 6) {
				continue
			}
			key := `"` + f.name + `": `
			if f.isInt {
				if r.Chance(1, 2) {
					fs = append(fs, key+idRef)
				} else {
					fs = append(fs, key+fmt.Sprint(r.Range(0, 5000)))
				}
			} else {
				fs = append(fs, key+`"`+genTmpl(r, pp)+`"`)
			}
		}
		defs = append(defs, fmt.Sprintf("%s;%s;%s;%s;%s;%s", vh.HexS(name), vh.HexS(r.Pick([]string{"", "t", "t", "same", fmt.Sprintf("tg%d", i)})), vh.HexS(m.name),
			genMetaT(r, mdKeys, pp, grpcLits), vh.HexS("{"+strings.Join(fs, ", ")+"}"), vh.B(i == 0)))
	}
	return fmt.Sprintf("agrpc %d %d %s %s %s %s", ninst, r.PickInt([]int{0, 3000}), genOrder(r, ninst), genUsers(r),
		strings.Join(defs, "|"), genScens(r, nd))
}

func genAliasHTTP(r *vh.Rand) string {
	ninst := r.Range(1, 4)
	nd := r.Range(1, 4)
	perm := r.Intn(len(callNames))
	pp := callNames[perm%len(callNames)]
	var defs []string
	for i := 0; i < nd; i++ {
		name := callNames[(perm+i)%len(callNames)]
		method := r.Pick([]string{"GET", "POST", "PUT"})
		uri := "/" + r.Pick([]string{"a", "list", "p/q"}) + "/" + genTmplURI(r, pp)
		body := "-"
		if method != "GET" && r.Chance(3, 4) {
			body = vh.HexS(`{"v":"` + genTmplL(r, pp, httpLits) + `"}`)
		}
		defs = append(defs, fmt.Sprintf("%s;%s;%s;%s;%s;%s;%s", vh.HexS(name), vh.HexS(method), vh.HexS(uri), genMetaT(r, hdrKeys, pp, httpLits), body, vh.B(i == 0), vh.B(r.Chance(1, 2))))
	}
	return fmt.Sprintf("ahttp %d %s %s %s %s", ninst, genOrder(r, ninst), genUsers(r), strings.Join(defs, "|"), genScens(r, nd))
}

// URI templates: no blanks
func genTmplURI(r *vh.Rand, pp string) string {
	k := r.Range(1, 2)
	var b strings.Builder
	for i := 0; i < k; i++ {
		if r.Chance(1, 2) {
			b.WriteString("{{.request." + pp + ".preprocessor.u." + r.Pick([]string{"token", "id"}) + "}}")
		} else {
			b.WriteString(r.Pick([]string{"id-", "x", "v1", "-", "tok", "nok"}))
		}
	}
	return b.String() + r.Pick([]string{"", "?q=1", "?t={{.request." + pp + ".preprocessor.u.token}}"})
}

func raceCases(ninst, nshots int) []string {
	var out []string
	for _, p := range []string{"http", "httpscen", "grpc", "grpcscen", "ammo", "httplate"} {
		// http/grpc: shared client off/on; scenarios: [next] only / +[rand] / +randString / +randInt,uuid;
		// suffix c: the shared rps schedule is a composite of many short parts
		vs := map[string][]string{"http": {"0", "1c"}, "httpscen": {"0c", "1", "2", "3c"},
			"grpc": {"0c", "1"}, "grpcscen": {"0", "1c", "2c", "3"}, "ammo": {"0", "1"},
			"httplate": {"0", "1"}, "cfg": {"0"}}[p]
		for _, v := range vs {
			out = append(out, fmt.Sprintf("race %s %d %d %s", p, ninst, nshots, v))
		}
	}
	return out
}

// map-valued gun option set differently per pool
func genCfg(r *vh.Rand, ninst int) string {
	kinds := []string{"grpc", "grpcscen"}
	md := func() string {
		switch r.Intn(4) {
		case 0:
			return "-"
		case 1:
			return vh.HexS("x-tenant") + "=" + vh.HexS(r.Pick([]string{"A", "B", "C"}))
		default:
			return vh.HexS("authorization") + "=" + vh.HexS("token-"+r.Pick([]string{"1", "2", "3"})) + "," + vh.HexS(r.Pick([]string{"x-a", "x-b"})) + "=" + vh.HexS("1")
		}
	}
	a, b := md(), md()
	for a == b {
		b = md()
	}
	return fmt.Sprintf("cfg %s %s %d %s %s", r.Pick(kinds), r.Pick(kinds), ninst, a, b)
}

// one schedule shared by the instances and started by whichever calls Next first
func genShared(r *vh.Rand, n int) []string {
	var out []string
	unl := func() string { return fmt.Sprintf("unl:%d", r.PickInt([]int{3600000, 3600000, 60000, 600000, 86400000})) }
	fin := func() string {
		switch r.Intn(4) {
		case 0:
			return fmt.Sprintf("once:%d", r.Range(40, 400))
		case 1:
			return fmt.Sprintf("const:%d:%d", r.Range(50, 400), r.PickInt([]int{1000, 2000, 3000}))
		case 2:
			return fmt.Sprintf("line:%d:%d:%d", r.Range(20, 60), r.Range(60, 200), r.PickInt([]int{1000, 2000}))
		default:
			return fmt.Sprintf("step:%d:%d:%d:%d", r.Range(20, 40), r.Range(60, 100), r.PickInt([]int{10, 20}), r.PickInt([]int{500, 1000}))
		}
	}
	for i := 0; i < n; i++ {
		var spec string
		switch r.Intn(8) {
		case 0, 1, 2, 3:
			spec = unl()
		case 4:
			spec = fin()
		case 5:
			spec = fmt.Sprintf("once:%d+%s", r.Range(1, 3), unl())
		case 6:
			spec = unl() + "+" + fin()
		default:
			spec = fin() + "+" + fin()
		}
		// finite schedules hold at least 40 tokens: 7 goroutines x 4 rounds stay below
		out = append(out, fmt.Sprintf("shs %s %d %d %d", spec, r.Intn(2), r.PickInt([]int{100, 200, 300}), r.Range(1, 4)))
	}
	for i := 0; i < 1+n/4; i++ {
		ninst := r.Range(2, 12)
		out = append(out, fmt.Sprintf("shse %d %d %d %d", ninst, r.PickInt([]int{40, 60, 80}), r.Range(2, ninst), r.PickInt([]int{3600000, 600000})))
	}
	return out
}

// requests of several instances from one http provider whose decoded ammo are delivered again and again
var shareKeys = []string{"Date", "X-Ts", "X-Session", "Accept", "Created-Date"}
var shareVals = []string{"recorded", "Thu, 01 Jan 1970 00:00:00 GMT", "v1", "a b", "text/plain", "0"}

func genShare(r *vh.Rand) string {
	dec := r.Pick([]string{"uri", "uri", "uripost", "raw", "jsonline", "jsonarr", "jsonarr"})
	preload := r.Chance(3, 4)
	// middlewares: mostly the default header name; sometimes two (same or different header)
	mwKeys := []string{r.Pick([]string{"Date", "Date", "X-Ts", "Created-Date"})}
	if r.Chance(1, 4) {
		mwKeys = append(mwKeys, r.Pick([]string{mwKeys[0], "X-Ts", "Date"}))
	}
	var mws []string
	for _, k := range mwKeys {
		kh := vh.HexS(k)
		if k == "Date" && r.Chance(2, 3) {
			kh = "-"
		}
		mws = append(mws, fmt.Sprintf("%s.%d", kh, r.PickInt([]int{0, 0, 1, 2, 3, 4})))
	}
	// where the ammo already carries the middleware's header: file, config (1..3 values; 17 values is the
	// first count for which append([]string(nil), vv...) leaves spare capacity), both, nowhere
	var cfg, file []string
	used := map[string]bool{}
	for _, k := range mwKeys {
		if used[k] {
			continue
		}
		used[k] = true
		switch r.Intn(8) {
		case 0, 1, 2:
			file = append(file, vh.HexS(k)+"="+vh.HexS(r.Pick(shareVals)))
		case 3, 4:
			for n := r.PickInt([]int{1, 1, 2, 3}); n > 0; n-- {
				cfg = append(cfg, vh.HexS(k)+"="+vh.HexS(r.Pick(shareVals)))
			}
		case 5:
			file = append(file, vh.HexS(k)+"="+vh.HexS(r.Pick(shareVals)))
			cfg = append(cfg, vh.HexS(k)+"="+vh.HexS(r.Pick(shareVals)))
		case 6:
			for n := r.PickInt([]int{4, 16, 17, 18}); n > 0; n-- {
				cfg = append(cfg, vh.HexS(k)+"="+vh.HexS(r.Pick(shareVals)))
			}
		}
	}
	for _, k := range shareKeys {
		if used[k] {
			continue
		}
		if r.Chance(1, 4) {
			file = append(file, vh.HexS(k)+"="+vh.HexS(r.Pick(shareVals)))
		}
		if r.Chance(1, 4) {
			for n := r.Range(1, 2); n > 0; n-- {
				cfg = append(cfg, vh.HexS(k)+"="+vh.HexS(r.Pick(shareVals)))
			}
		}
	}
	join := func(xs []string) string {
		if len(xs) == 0 {
			return "-"
		}
		return strings.Join(xs, ",")
	}
	nammo := r.Range(1, 3)
	ninst := r.Range(2, 4)
	// plan: some instances acquire and wait for their schedule; the clock moves on; others acquire; ...; everybody shoots
	var ops []string
	held := map[int]bool{}
	waits := 0
	for step := r.Range(3, 8); step > 0; step-- {
		i := r.Intn(ninst)
		if held[i] {
			if r.Chance(1, 2) {
				ops = append(ops, fmt.Sprintf("r%d", i))
				delete(held, i)
			}
			continue
		}
		if len(held) > 0 && waits < 2 && r.Chance(2, 3) {
			ops = append(ops, "w")
			waits++
		}
		ops = append(ops, fmt.Sprintf("a%d", i))
		held[i] = true
	}
	if waits == 0 && len(held) > 0 {
		for i := 0; i < ninst; i++ {
			if !held[i] {
				ops = append(ops, "w", fmt.Sprintf("a%d", i))
				held[i] = true
				break
			}
		}
	}
	for i := 0; i < ninst; i++ {
		if held[i] {
			ops = append(ops, fmt.Sprintf("r%d", i))
		}
	}
	// one more delivery of every stored ammo: what a later pass sees
	for j := 0; j < nammo; j++ {
		ops = append(ops, "a0", "r0")
	}
	return fmt.Sprintf("hshare %s %s %s %s %s %d %s", dec, vh.B(preload), strings.Join(mws, ","), join(cfg), join(file), nammo, strings.Join(ops, ","))
}

func gen(r *vh.Rand, tier string) []string {
	switch tier {
	case "race-quick":
		return append(raceCases(4, 240), genCfg(r, 4), genCfg(r, 4))
	case "race-thorough":
		var out []string
		for i := 0; i < 3; i++ {
			out = append(out, raceCases(8, 2000+400*i)...)
			out = append(out, genCfg(r, 8), genCfg(r, 8))
		}
		return out
	}
	n := 60
	if tier == "thorough" {
		n = 900
	}
	var out []string
	// recycling provider: discard_overflow with a first shot stalled beyond the 2 s discard window,
	// the same without discard, and without a stall
	for i := 0; i < 1+n/300; i++ {
		out = append(out, fmt.Sprintf("ammo %d %d 2800 2300 1", r.Range(2, 6), r.PickInt([]int{200, 300, 400})))
		out = append(out, fmt.Sprintf("ammo %d %d 2800 2300 0", r.Range(2, 6), r.PickInt([]int{200, 300})))
		out = append(out, fmt.Sprintf("ammo %d %d 1200 0 1", r.Range(2, 6), r.PickInt([]int{200, 400})))
	}
	for i := 0; i < 4+n/100; i++ {
		out = append(out, genCfg(r, r.Range(1, 4)))
	}
	for i := 0; i < 40+n/4; i++ {
		out = append(out, genShare(r))
	}
	out = append(out, genShared(r, 16+n/10)...)
	for i := 0; i < n/2; i++ {
		out = append(out, fmt.Sprintf("own %d %d %s", r.Range(1, 8), r.Range(0, 40), vh.B(r.Bool())))
		out = append(out, fmt.Sprintf("sched %d %d %s", r.Range(2, 8), r.Range(4, 40), vh.B(r.Chance(1, 4))))
	}
	for i := 0; i < n; i++ {
		out = append(out, genAliasGRPC(r))
		out = append(out, genAliasHTTP(r))
	}
	return out
}
