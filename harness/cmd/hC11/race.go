package main

import (
	"context"
	"fmt"
	"os"
	"strconv"
	"strings"
	"time"

	"github.com/spf13/afero"
	"github.com/yandex/pandora/cli"
	grpcimport "github.com/yandex/pandora/components/grpc/import"
	phttpimport "github.com/yandex/pandora/components/phttp/import"
	"github.com/yandex/pandora/core/config"
	"github.com/yandex/pandora/core/engine"
	coreimport "github.com/yandex/pandora/core/import"
	"go.uber.org/zap"
	"gopkg.in/yaml.v2"

	"verifharness/internal/a20"
)

// one user's token contains "nok" (the HTTP target then answers "result":"bad": the assert/response
// postprocessor of `list` fails on a delivered answer); one user's id is not a number (the gRPC
// target answers InvalidArgument to Auth: the assert/response postprocessor of `auth` fails)
const raceUsers = `[{"token":"AAA","id":"1"},{"token":"BBB","id":"2"},{"token":"noknok","id":"3"},{"token":"DDD","id":"x4"},{"token":"EEE","id":"5"}]`

func httpScenarioFile(variant string) string {
	pre := `        u: source.users[next]
`
	hdr := ""
	switch variant {
	case "1": // [rand]
		pre += `        rnd: source.users[rand].token
`
		hdr = `      X-Rand: "{{.request.auth.preprocessor.rnd}}"
`
	case "2": // randString in a preprocessor and as a template function
		pre += `        str: randString(8, abcdef)
`
		hdr = `      X-Rand: "{{.request.auth.preprocessor.str}}"
      X-Fn: '{{randString 4 "xyz"}}'
`
	case "3": // randInt, uuid
		pre += `        num: randInt(10, 20)
        uid: uuid()
`
		// X-Lim: the template itself fails for the user whose id is not a number (randInt cannot parse its bound)
		hdr = `      X-Rand: "{{.request.auth.preprocessor.num}}-{{.request.auth.preprocessor.uid}}"
      X-Fn: '{{randInt 1 9}}{{uuid}}'
      X-Lim: '{{randInt 1 .request.auth.preprocessor.u.id}}'
`
	}
	return `variable_sources:
  - name: users
    type: file/json
    file: /race-users.json
  - name: consts
    type: variables
    variables:
      host: example.org
requests:
  - name: auth
    method: POST
    uri: /auth?u={{.request.auth.preprocessor.u.id}}
    tag: auth
    headers:
      Content-Type: application/json
      Authorization: "Bearer {{.request.auth.preprocessor.u.token}}"
      X-Host: "{{.source.consts.host}}"
` + hdr + `    body: '{"user":"{{.request.auth.preprocessor.u.token}}"}'
    preprocessor:
      mapping:
` + pre + `    postprocessors:
      - type: var/header
        mapping:
          ctype: Content-Type|upper
          tok: Authorization|substr(7)
      - type: var/jsonpath
        mapping:
          res: $.result
  - name: list
    method: GET
    uri: /list/{{.request.auth.preprocessor.u.token}}/{{.request.auth.postprocessor.tok}}
    tag: list
    headers:
      Authorization: "Bearer {{.request.auth.postprocessor.tok}}"
      X-Res: "{{.request.auth.postprocessor.res}}"
    postprocessors:
      - type: assert/response
        body: ['"result":"ok"']
  - name: page
    method: GET
    uri: /page/{{.request.auth.preprocessor.u.id}}
    tag: page
    headers:
      X-Html: "<{{.request.auth.preprocessor.u.id}}>"
    templater:
      type: html
    postprocessors:
      - type: var/xpath
        mapping:
          x: "//div[@id='x']"
          items: "//li[@class='i']"
      - type: var/header
        mapping:
          ct: Content-Type|lower|replace(text,TEXT)
          au: Authorization|substr(7,12)|upper
      - type: assert/response
        headers:
          Content-Type: html
        status_code: 200
        size:
          val: 10
          op: ">"
  - name: after
    method: POST
    uri: /after/{{.request.page.postprocessor.x}}
    tag: after
    headers:
      X-Items: "{{.request.page.postprocessor.items}}"
      X-Au: "{{.request.page.postprocessor.au}}"
    body: '{"ct":"{{.request.page.postprocessor.ct}}"}'
scenarios:
  - name: s1
    weight: 1
    min_waiting_time: 0
    requests: ["auth(1)", "page(1)", "list(2)", "after(1)"]
  - name: s2
    weight: 1
    min_waiting_time: 0
    requests: ["auth(1)", "list(1)", "page(2)"]
`
}

func grpcScenarioFile(variant string) string {
	pre := `          u: source.users[next]
`
	md := ""
	switch variant {
	case "1":
		pre += `          rnd: source.users[rand].token
`
		md = `      x-rand: "{{.request.auth.preprocessor.rnd}}"
`
	case "2":
		pre += `          str: randString(8, abcdef)
`
		md = `      x-rand: "{{.request.auth.preprocessor.str}}"
      x-fn: '{{randString 4 "xyz"}}'
`
	case "3":
		pre += `          num: randInt(10, 20)
          uid: uuid()
`
		md = `      x-rand: "{{.request.auth.preprocessor.num}}-{{.request.auth.preprocessor.uid}}"
      x-fn: '{{randInt 1 9}}{{uuid}}'
      x-lim: '{{randInt 1 .request.auth.preprocessor.u.id}}'
`
	}
	return `variable_sources:
  - name: users
    type: file/json
    file: /race-users.json
calls:
  - name: auth
    tag: auth
    call: target.TargetService.Auth
    metadata:
      authorization: "Bearer {{.request.auth.preprocessor.u.token}}"
      x-id: "{{.request.auth.preprocessor.u.id}}"
` + md + `    payload: '{"login": "{{.request.auth.preprocessor.u.id}}", "pass": "{{.request.auth.preprocessor.u.id}}"}'
    preprocessors:
      - type: prepare
        mapping:
` + pre + `    postprocessors:
      - type: assert/response
        status_code: 200
  - name: hello
    tag: hello
    call: target.TargetService.Hello
    metadata:
      authorization: "Bearer {{.request.auth.postprocessor.token}}"
    payload: '{"name": "{{.request.auth.preprocessor.u.token}}"}'
scenarios:
  - name: s1
    weight: 1
    min_waiting_time: 0
    requests: ["auth(1)", "hello(2)"]
  - name: s2
    weight: 1
    min_waiting_time: 0
    requests: ["auth(1)", "hello(1)"]
`
}

// runRaceCase runs in the subprocess: N instances of one pool kind under the real engine,
// configured through the real config decoder and plugin registry.
func runRaceCase(f []string) string {
	pool, variant := f[1], strings.TrimSuffix(f[4], "c")
	composite := strings.HasSuffix(f[4], "c")
	ninst, _ := strconv.Atoi(f[2])
	nshots, _ := strconv.Atoi(f[3])
	if pool == "ammo" {
		stall := time.Duration(0)
		if variant == "1" {
			stall = 2300 * time.Millisecond
		}
		if s, ok := runAmmoTrace(ninst, 300, 2800*time.Millisecond, stall, variant == "1"); !ok {
			return s
		}
		return "done"
	}
	if pool == "httplate" {
		return runHTTPLate(ninst, nshots, variant)
	}
	mfs := afero.NewMemMapFs()
	coreimport.Import(mfs)
	phttpimport.Import(mfs)
	grpcimport.Import(mfs)
	gs, err := a20.Start()
	if err != nil {
		return "targeterr"
	}
	defer gs.Stop()
	hs, err := a20.StartHTTP()
	if err != nil {
		return "targeterr"
	}
	hs.Record = false
	defer hs.Stop()
	_ = afero.WriteFile(mfs, "/race-users.json", []byte(raceUsers), 0o644)
	var gun, ammo, answPath string
	switch pool {
	case "http":
		_ = afero.WriteFile(mfs, "/race.uri", []byte("[Host: example.org]\n[X-Test: 1]\n/a tag1\n/b?x=1 tag2\n[X-Test: 2]\n/c\n"), 0o644)
		gun = fmt.Sprintf("{type: http, target: %q", hs.Addr)
		if variant == "1" {
			gun += ", shared-client: {enabled: true, client-number: 2}"
		}
		// one answer log shared by the guns of the pool (a real file: lib/answlog opens it with os.Create), sizes and
		// timings from the dumps / the httptrace hooks
		answPath = fmt.Sprintf("/var/tmp/C11-answ-%d.log", os.Getpid())
		gun += fmt.Sprintf(", answlog: {enabled: true, path: %q, filter: all}, httptrace: {dump: true, trace: true}}", answPath)
		// a provider middleware: it rewrites every request inside Acquire, i.e. on the instances' goroutines
		ammo = fmt.Sprintf("{type: uri, file: /race.uri, limit: %d, middlewares: [{type: header/date, location: UTC, headerName: X-Date}]}", nshots)
		if variant == "1" {
			// preloaded ammo: the SAME decoded ammo (header value slices included) reach all instances again and again,
			// and they already carry the headers the middlewares set (file: [X-Date]; config: X-Cfg with 17 values, the first count
			// for which a copy made by append has spare capacity)
			_ = afero.WriteFile(mfs, "/race.uri", []byte("[Host: example.org]\n[X-Test: 1]\n[X-Date: Thu, 01 Jan 1970 00:00:00 GMT]\n/a tag1\n/b?x=1 tag2\n[X-Test: 2]\n/c\n"), 0o644)
			ammo = fmt.Sprintf("{type: uri, file: /race.uri, limit: %d, preload: true, headers: [%s'[Accept: */*]'], middlewares: [{type: header/date, location: UTC, headerName: X-Date}, {type: header/date, headerName: X-Cfg}]}", nshots, strings.Repeat("'[X-Cfg: v]', ", 17))
		}
		hs.Record = true
	case "httpscen":
		_ = afero.WriteFile(mfs, "/race-http.yaml", []byte(httpScenarioFile(variant)), 0o644)
		gun = fmt.Sprintf("{type: http/scenario, target: %q}", hs.Addr)
		ammo = fmt.Sprintf("{type: http/scenario, file: /race-http.yaml, limit: %d}", nshots)
	case "grpc":
		lines := `{"tag":"h","call":"target.TargetService.Hello","metadata":{"authorization":"t"},"payload":{"name":"n"}}
{"tag":"a","call":"target.TargetService.Auth","payload":{"login":"1","pass":"1"}}
{"tag":"u","call":"target.TargetService.Nope","payload":{}}
{"tag":"b","call":"target.TargetService.Hello","payload":{"name":5}}
`
		_ = afero.WriteFile(mfs, "/race.grpc", []byte(lines), 0o644)
		gun = fmt.Sprintf("{type: grpc, target: %q", gs.Addr)
		if variant == "1" {
			gun += ", shared-client: {enabled: true, client-number: 2}"
		}
		gun += "}"
		ammo = fmt.Sprintf("{type: grpc/json, file: /race.grpc, limit: %d}", nshots)
	case "grpcscen":
		_ = afero.WriteFile(mfs, "/race-grpc.yaml", []byte(grpcScenarioFile(variant)), 0o644)
		gun = fmt.Sprintf("{type: grpc/scenario, target: %q}", gs.Addr)
		ammo = fmt.Sprintf("{type: grpc/scenario, file: /race-grpc.yaml, limit: %d}", nshots)
	default:
		return "unknown-pool"
	}
	// shared rps schedule: one unlimited part, or (variant suffix c) a composite of many short
	// finite and unlimited parts, so that the instances cross part boundaries together
	rps := "[{type: unlimited, duration: 30s}]"
	if composite {
		var parts []string
		for i := 0; i < 40; i++ {
			parts = append(parts, fmt.Sprintf("{type: once, times: %d}", 2+i%5), "{type: unlimited, duration: 2ms}")
		}
		parts = append(parts, "{type: unlimited, duration: 30s}")
		rps = "[" + strings.Join(parts, ", ") + "]"
	}
	y := fmt.Sprintf(`pools:
  - id: P
    gun: %s
    ammo: %s
    result: {type: phout, destination: /phout.log}
    rps: %s
    startup: [{type: once, times: %d}]
log: {level: error}
`, gun, ammo, rps, ninst)
	mapCfg := map[string]any{}
	if err := yaml.Unmarshal([]byte(y), &mapCfg); err != nil {
		return "yamlerr:" + err.Error()
	}
	conf := cli.DefaultConfig()
	if err := config.DecodeAndValidate(mapCfg, conf); err != nil {
		return "configerr:" + strings.ReplaceAll(err.Error(), "\n", " ")
	}
	eng := engine.New(zap.NewNop(), newMetrics(), conf.Engine)
	ctx, cancel := context.WithTimeout(context.Background(), 60*time.Second)
	defer cancel()
	err = eng.Run(ctx)
	eng.Wait()
	// one phout line per reported sample
	samples := 0
	phout := ""
	if b, rerr := afero.ReadFile(mfs, "/phout.log"); rerr == nil {
		phout = string(b)
		samples = strings.Count(phout, "\n")
	}
	if answPath != "" {
		defer os.Remove(answPath)
	}
	// scenario variant 3: the first step's template fails for every ammo that got the user with the non-numeric id
	// ([next] hands the 5 users out in turn, each index exactly once over all instances): one sample and no exchange
	tmplFail := 0
	if variant == "3" && (pool == "httpscen" || pool == "grpcscen") {
		for k := 0; k < nshots; k++ {
			if k%5 == 3 {
				tmplFail++
			}
		}
	}
	// what must hold whatever the schedule: the run ends without error, every ammo was shot, and
	// every sample stands for exactly one exchange with the target (or one locally failed entry)
	want, seen := -1, int(hs.Count)
	switch pool {
	case "http":
		want = nshots
	case "httpscen":
		want = seen + tmplFail
	case "grpcscen":
		want, seen = int(gs.Count())+tmplFail, int(gs.Count())
	}
	if err != nil {
		return "enginerr:" + strings.ReplaceAll(err.Error(), " ", "_")
	}
	if pool == "grpc" {
		// entries cycle good, good, unknown method, ill-typed: calls = samples - locally failed entries
		local := nshots / 4 * 2
		if nshots%4 == 3 {
			local++
		}
		if samples != nshots || int(gs.Count()) != nshots-local {
			return fmt.Sprintf("counts:samples=%d,ammo=%d,target=%d,local=%d", samples, nshots, gs.Count(), local)
		}
		return "done"
	}
	if samples != want {
		return fmt.Sprintf("counts:samples=%d,expected=%d,target=%d", samples, want, seen)
	}
	if pool == "http" {
		// every request went through the provider's middleware; every exchange is in the shared answer log once;
		// every sample carries the sizes of the dumps
		dated := 0
		for _, r := range hs.Drain() {
			if strings.Contains(r.Headers, vhHex("X-Date")+"=") {
				dated++
			}
		}
		b, _ := os.ReadFile(answPath)
		reqs, resps := strings.Count(string(b), "REQUEST:\n"), strings.Count(string(b), "RESPONSE:\n")
		sized := 0
		for _, ln := range strings.Split(strings.TrimSpace(phout), "\n") {
			c := strings.Split(ln, "\t")
			if len(c) >= 12 && c[8] != "0" && c[9] != "0" {
				sized++
			}
		}
		if dated != nshots || reqs != nshots || resps != nshots || sized != nshots {
			return fmt.Sprintf("counts:dated=%d,answlog-requests=%d,answlog-responses=%d,sized-samples=%d,ammo=%d", dated, reqs, resps, sized, nshots)
		}
	}
	return "done"
}

func vhHex(s string) string { return fmt.Sprintf("%x", s) }



// runHTTPLate: two http pools whose targets are given as host names (localhost:port) and are NOT up
// while the configuration is decoded, so the pre-resolve fails and the guns keep the process-wide
// DNS-caching dialer; the targets start afterwards and all instances make their first dials together.
func runHTTPLate(ninst, nshots int, variant string) string {
	mfs := afero.NewMemMapFs()
	coreimport.Import(mfs)
	phttpimport.Import(mfs)
	_ = afero.WriteFile(mfs, "/race-users.json", []byte(raceUsers), 0o644)
	_ = afero.WriteFile(mfs, "/race.uri", []byte("[Host: example.org]\n/a tag1\n/b?x=1 tag2\n"), 0o644)
	_ = afero.WriteFile(mfs, "/race-http.yaml", []byte(httpScenarioFile("0")), 0o644)
	ports := []int{freePort(), freePort(), freePort()}
	var pools []string
	for i, p := range ports {
		gun := fmt.Sprintf("{type: http, target: \"localhost:%d\"}", p)
		ammo := fmt.Sprintf("{type: uri, file: /race.uri, limit: %d}", nshots)
		if variant == "1" {
			gun = fmt.Sprintf("{type: http/scenario, target: \"localhost:%d\"}", p)
			ammo = fmt.Sprintf("{type: http/scenario, file: /race-http.yaml, limit: %d}", nshots)
		}
		pools = append(pools, fmt.Sprintf(`  - id: P%d
    gun: %s
    ammo: %s
    result: {type: discard}
    rps: [{type: unlimited, duration: 30s}]
    startup: [{type: once, times: %d}]
`, i, gun, ammo, ninst))
	}
	y := "pools:\n" + strings.Join(pools, "") + "log: {level: error}\n"
	mapCfg := map[string]any{}
	if err := yaml.Unmarshal([]byte(y), &mapCfg); err != nil {
		return "yamlerr:" + err.Error()
	}
	conf := cli.DefaultConfig()
	if err := config.DecodeAndValidate(mapCfg, conf); err != nil {
		return "configerr:" + strings.ReplaceAll(err.Error(), "\n", " ")
	}
	total := 0
	var srvs []*a20.HTTPSrv
	for _, p := range ports {
		hs, err := a20.StartHTTPAt(fmt.Sprintf("127.0.0.1:%d", p))
		if err != nil {
			return "targeterr"
		}
		hs.Record = false
		defer hs.Stop()
		srvs = append(srvs, hs)
	}
	eng := engine.New(zap.NewNop(), newMetrics(), conf.Engine)
	ctx, cancel := context.WithTimeout(context.Background(), 60*time.Second)
	defer cancel()
	err := eng.Run(ctx)
	eng.Wait()
	if err != nil {
		return "enginerr:" + strings.ReplaceAll(err.Error(), " ", "_")
	}
	for _, hs := range srvs {
		total += int(hs.Count)
	}
	if variant != "1" && total != nshots*len(ports) {
		return fmt.Sprintf("counts:target=%d,expected=%d", total, nshots*len(ports))
	}
	return "done"
}
