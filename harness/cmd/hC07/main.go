// hC07: correspondence harness for property C07 (ammo decoding fidelity).
//
// Case kinds (fields separated by one blank; byte strings in hex, "-" = empty):
//
//	uri     <passes p>[L][@sched] <finalNL> <file> <line tokens...>     (L: provider with preload: true;
//	        @sched: instance schedule, digits = instance ids, an event of an instance that holds no ammo is
//	        an Acquire, otherwise the shoot (request materialised, body read) + Release of what it holds;
//	        then optionally %n,n,..: the ammo file is read in short reads of these sizes, cyclically;
//	        then optionally ^hex.hex...: the provider's configured default headers, one "[Name: value]" each;
//	        then optionally ~mw,mw...: the provider's middlewares: d<loc>.<hexname> = header/date, f<n> = a middleware
//	        whose UpdateRequest fails at its n-th call, i = a middleware whose InitMiddleware fails)
//	        "<p>!<keep>[^cfg]": decoder-level run (decoders.NewDecoder; Scan, BuildRequest, Release by hand; a delivery
//	        is handed back when <keep> later ones have been scanned)
//	uripost <passes p> <finalNL> <file> <line tokens...>
//	raw     <passes p> <finalNL> <file> <line tokens...>
//	json    <passes p> <array 0|1> <file> <entity tokens...>
//
// The file field is the rendered ammo file (the model re-renders the tokens and must get
// the same bytes). Observation: the first p*n+1 deliveries of the real provider built by
// components/providers/http NewProvider over a mem file, then a status word
// (see a07ammo.RunProvider).
//
// Extra mode:  hC07 oracle <queries> <answers>   (third-party parser answers for the model)
package main

import (
	"os"
	"strconv"
	"strings"

	"verifharness/internal/a07ammo"
	"verifharness/internal/vh"
)

func runCase(c string) string {
	f := strings.Split(c, " ")
	if len(f) < 4 {
		return "bad-case"
	}
	// passes field: "<p>" or "<p>L" (L = with preload: true)
	// then optionally "@<schedule>": instance schedule, see a07ammo/sched.go
	// and optionally "%<n,n,...>": the file hands out its content in short reads of these sizes (cyclic)
	// and optionally "^<hex>.<hex>...": the provider's configured default headers (`headers:` list)
	// and optionally "~<mw>,<mw>...": the provider's middlewares (a07ammo.MWSpec)
	pf, mwSpec, hasMW := strings.Cut(f[1], "~")
	var opts a07ammo.ProvOpts
	if hasMW {
		for _, m := range strings.Split(mwSpec, ",") {
			opts.MW = append(opts.MW, a07ammo.MWSpec(m))
		}
	}
	pf, cfgSpec, hasCfg := strings.Cut(pf, "^")
	var cfgHeaders []string
	if hasCfg {
		cfgHeaders = a07ammo.ParseCfgField(cfgSpec)
	}
	opts.Headers = cfgHeaders
	pf, chunkSpec, hasChunks := strings.Cut(pf, "%")
	pf, sched, hasSched := strings.Cut(pf, "@")
	var chunks []int
	if hasChunks {
		chunks = a07ammo.ParseChunks(chunkSpec)
	}
	// "<p>!<keep>": decoder-level run with Release of consumed ammo (a07ammo.RunDecoderRelease)
	pf, keepSpec, hasKeep := strings.Cut(pf, "!")
	preload := strings.HasSuffix(pf, "L")
	p, _ := strconv.Atoi(strings.TrimSuffix(pf, "L"))
	file := vh.UnHex(f[3])
	n := 0
	for _, t := range f[4:] {
		if strings.HasPrefix(t, "R:") || strings.HasPrefix(t, "E:") {
			n++
		}
	}
	dec := f[0]
	if dec == "json" {
		dec = "jsonline"
	}
	if hasKeep {
		keep, _ := strconv.Atoi(keepSpec)
		return a07ammo.RunDecoderRelease(dec, file, p*n+1, cfgHeaders, keep)
	}
	if hasSched || hasChunks {
		if !hasSched {
			// sequential: one instance acquires and shoots p*n+1 times
			sched = strings.Repeat("00", p*n+1)
		}
		switch f[0] {
		case "uri", "uripost", "raw", "json":
			return a07ammo.RunProviderSchedX(dec, file, preload, sched, chunks, opts)
		}
		return "unknown-case"
	}
	switch f[0] {
	case "uri", "uripost", "raw":
		return a07ammo.RunProviderX(f[0], file, p*n+1, 0, 0, preload, opts)
	case "json":
		return a07ammo.RunProviderX("jsonline", file, p*n+1, 0, 0, preload, opts)
	}
	return "unknown-case"
}

func gen(r *vh.Rand, tier string) []string {
	n := 150
	if tier == "thorough" {
		n = 6000
	}
	out := a07ammo.GenBigCases(r, tier == "thorough")
	out = append(out, a07ammo.GenRound5Cases(r, n/5)...)
	out = append(out, a07ammo.GenCfgCases(r, n/5)...)
	out = append(out, a07ammo.GenMWCases(r, n/10)...)
	out = append(out, a07ammo.GenReleaseCases(r, n/10)...)
	for i := 0; i < n; i++ {
		out = append(out, a07ammo.GenURICase(r))
		out = append(out, a07ammo.GenURIPostCase(r))
		out = append(out, a07ammo.GenRawCase(r))
		out = append(out, a07ammo.GenJSONCase(r))
	}
	return out
}

func main() {
	if len(os.Args) == 4 && os.Args[1] == "oracle" {
		vh.WriteLines(os.Args[3], a07ammo.Oracle(vh.ReadLines(os.Args[2])))
		return
	}
	vh.Main(gen, func(cases []string) []string {
		out := make([]string, len(cases))
		for i, c := range cases {
			out[i] = runCase(c)
		}
		return out
	})
}
