package main

// ovl <ret P|F> <cfg S|P> <def V|-> <req N|F0|F1> <k> <default> <section>
//
// Config structs whose fields are not only scalars.  <default> describes the constructor's config
// struct AND the value its registered default-config function returns: comma separated
// name=value, value = 5 (int field) | {k=1;k2=2} (map[string]int) | [1;2] ([]int) | (x=1;y=2)
// (nested struct of ints) | &(x=1;y=2) (pointer to one).  The struct type is made with reflect.StructOf, constructor and default
// function with reflect.MakeFunc; the n-th invocation of the default function returns the tree
// with 1000*n added to every number (fresh maps / slices every time).  <section> (same syntax, ~ =
// nil value, - = no key) holds the user's settings; the component is registered through
// core/register and created through the real hooks + config.Decode as a component / func() Iface /
// func() (Iface, error) (k products).  Every product must be built from the default of its round
// overlaid by the settings: a map written key by key into the default's map, a nested struct field
// by field, a key that is absent or nil leaves the default - or the creation is the error result
// when a key names no field / a value has the wrong kind.
//
// nm <via H|R> <req N|F0|F1> <registered names: hex,hex,...> <requested name: hex|->
//
// Registered names as a dimension: upper / lower case, digits, separators, near-twins.  Every name
// is registered (behind a per-case prefix) with its own constructor; the requested name must reach
// the constructor registered under exactly these bytes, or be the error result.

import (
	"fmt"
	"reflect"
	"sort"
	"strconv"
	"strings"

	"github.com/yandex/pandora/core/config"
	"github.com/yandex/pandora/core/plugin"
	"github.com/yandex/pandora/core/plugin/pluginconfig"
	"github.com/yandex/pandora/core/register"

	"verifharness/internal/vh"
)

// ---- value trees ----
type otree struct {
	kind byte // n m l s ~
	num  int
	keys []string // m, s: keys in the order given
	vals []otree  // m, s: values (n or ~); l: elements
}

func splitTop(s string, sep byte) []string {
	var out []string
	depth, start := 0, 0
	for i := 0; i < len(s); i++ {
		switch s[i] {
		case '{', '[', '(':
			depth++
		case '}', ']', ')':
			depth--
		default:
			if s[i] == sep && depth == 0 {
				out = append(out, s[start:i])
				start = i + 1
			}
		}
	}
	return append(out, s[start:])
}

func parseVal(s string) (otree, bool) {
	if s == "~" {
		return otree{kind: '~'}, true
	}
	if s == "" {
		return otree{}, false
	}
	if s[0] == '&' {
		t, ok := parseVal(s[1:])
		if !ok || t.kind != 's' {
			return otree{}, false
		}
		t.kind = 'p'
		return t, true
	}
	switch s[0] {
	case '{', '(':
		closeC := byte('}')
		kind := byte('m')
		if s[0] == '(' {
			closeC, kind = ')', 's'
		}
		if s[len(s)-1] != closeC {
			return otree{}, false
		}
		t := otree{kind: kind}
		in := s[1 : len(s)-1]
		if in == "" {
			return t, true
		}
		for _, kv := range strings.Split(in, ";") {
			i := strings.IndexByte(kv, '=')
			if i <= 0 {
				return otree{}, false
			}
			v, ok := parseVal(kv[i+1:])
			if !ok || (v.kind != 'n' && v.kind != '~') {
				return otree{}, false
			}
			t.keys = append(t.keys, kv[:i])
			t.vals = append(t.vals, v)
		}
		return t, true
	case '[':
		if s[len(s)-1] != ']' {
			return otree{}, false
		}
		t := otree{kind: 'l'}
		in := s[1 : len(s)-1]
		if in == "" {
			return t, true
		}
		for _, e := range strings.Split(in, ";") {
			v, ok := parseVal(e)
			if !ok || v.kind != 'n' {
				return otree{}, false
			}
			t.vals = append(t.vals, v)
		}
		return t, true
	}
	n, err := strconv.Atoi(s)
	if err != nil || n < 0 {
		return otree{}, false
	}
	return otree{kind: 'n', num: n}, true
}

// name=value,name=value
func parseFields(s string) ([]string, []otree, bool) {
	if s == "-" {
		return nil, nil, true
	}
	var names []string
	var vals []otree
	for _, kv := range splitTop(s, ',') {
		i := strings.IndexByte(kv, '=')
		if i <= 0 {
			return nil, nil, false
		}
		v, ok := parseVal(kv[i+1:])
		if !ok {
			return nil, nil, false
		}
		names = append(names, kv[:i])
		vals = append(vals, v)
	}
	return names, vals, true
}

var (
	intT    = reflect.TypeOf(0)
	mapT    = reflect.TypeOf(map[string]int(nil))
	sliceT  = reflect.TypeOf([]int(nil))
	facT0   = reflect.TypeOf((func() Iface)(nil))
	ovlSeq  int
	nameSeq int
)

func structOf(names []string, types []reflect.Type) reflect.Type {
	var fs []reflect.StructField
	for i, n := range names {
		fs = append(fs, reflect.StructField{Name: fmt.Sprintf("F%d", i), Type: types[i], Tag: reflect.StructTag(fmt.Sprintf(`config:"%s"`, n))})
	}
	return reflect.StructOf(fs)
}

func typeOfTree(t otree) reflect.Type {
	switch t.kind {
	case 'm':
		return mapT
	case 'l':
		return sliceT
	case 's', 'p':
		ts := make([]reflect.Type, len(t.keys))
		for i := range ts {
			ts[i] = intT
		}
		if t.kind == 'p' {
			return reflect.PtrTo(structOf(t.keys, ts))
		}
		return structOf(t.keys, ts)
	}
	return intT
}

// a fresh Go value of the field's type holding the tree, every number + bump
func valueOfTree(t otree, typ reflect.Type, bump int) reflect.Value {
	v := reflect.New(typ).Elem()
	switch t.kind {
	case 'n':
		v.SetInt(int64(t.num + bump))
	case 'm':
		m := reflect.MakeMap(typ)
		for i, k := range t.keys {
			m.SetMapIndex(reflect.ValueOf(k), reflect.ValueOf(t.vals[i].num+bump))
		}
		v.Set(m)
	case 'l':
		s := reflect.MakeSlice(typ, len(t.vals), len(t.vals))
		for i, e := range t.vals {
			s.Index(i).SetInt(int64(e.num + bump))
		}
		v.Set(s)
	case 's':
		for i := range t.keys {
			v.Field(i).SetInt(int64(t.vals[i].num + bump))
		}
	case 'p':
		e := reflect.New(typ.Elem())
		for i := range t.keys {
			e.Elem().Field(i).SetInt(int64(t.vals[i].num + bump))
		}
		v.Set(e)
	}
	return v
}

func tagName(f reflect.StructField) string { return f.Tag.Get("config") }

// canonical text of a config value (maps sorted by key)
func canonVal(v reflect.Value) string {
	switch v.Kind() {
	case reflect.Int:
		return strconv.FormatInt(v.Int(), 10)
	case reflect.Map:
		var ks []string
		for _, k := range v.MapKeys() {
			ks = append(ks, k.String())
		}
		sort.Strings(ks)
		var ps []string
		for _, k := range ks {
			ps = append(ps, k+"="+canonVal(v.MapIndex(reflect.ValueOf(k))))
		}
		return "{" + strings.Join(ps, ";") + "}"
	case reflect.Slice:
		var ps []string
		for i := 0; i < v.Len(); i++ {
			ps = append(ps, canonVal(v.Index(i)))
		}
		return "[" + strings.Join(ps, ";") + "]"
	case reflect.Struct:
		var ps []string
		for i := 0; i < v.NumField(); i++ {
			ps = append(ps, tagName(v.Type().Field(i))+"="+canonVal(v.Field(i)))
		}
		return "(" + strings.Join(ps, ";") + ")"
	case reflect.Ptr:
		if v.IsNil() {
			return "&nil"
		}
		return "&" + canonVal(v.Elem())
	}
	return "?" + v.Kind().String()
}

func canonCfg(v reflect.Value) string {
	if v.Kind() == reflect.Ptr {
		if v.IsNil() {
			return "nil"
		}
		v = v.Elem()
	}
	var ps []string
	for i := 0; i < v.NumField(); i++ {
		ps = append(ps, tagName(v.Type().Field(i))+"="+canonVal(v.Field(i)))
	}
	if len(ps) == 0 {
		return "-"
	}
	return strings.Join(ps, ",")
}

// the constructor spoils what it was given after recording it: a config shared with a later
// product would show
func poison(v reflect.Value) {
	if v.Kind() == reflect.Ptr {
		if v.IsNil() {
			return
		}
		v = v.Elem()
	}
	for i := 0; i < v.NumField(); i++ {
		f := v.Field(i)
		switch f.Kind() {
		case reflect.Map:
			if !f.IsNil() {
				f.SetMapIndex(reflect.ValueOf("poison"), reflect.ValueOf(666))
			}
		case reflect.Slice:
			if f.Len() > 0 {
				f.Index(0).SetInt(666)
			}
		}
	}
}

// the section's value as config data
func dataOfTree(t otree) interface{} {
	switch t.kind {
	case '~':
		return nil
	case 'n':
		return t.num
	case 'l':
		out := []interface{}{}
		for _, e := range t.vals {
			out = append(out, dataOfTree(e))
		}
		return out
	}
	out := map[string]interface{}{}
	for i, k := range t.keys {
		out[k] = dataOfTree(t.vals[i])
	}
	return out
}

type orec struct {
	evs                []string
	nDef, nCtor, nProd int
}

func (r *orec) ev(s string) { r.evs = append(r.evs, s) }
func (r *orec) take() string {
	s := "."
	if len(r.evs) > 0 {
		s = strings.Join(r.evs, " ")
	}
	r.evs = nil
	return s
}

// drives a section through the real hooks as a component / factory; describe renders a product
func driveSection(r *orec, req string, k int, mkdata func() map[string]interface{}, describe func(Iface) string) string {
	var sb strings.Builder
	safe := func(f func() string) (out string) {
		defer func() {
			if v := recover(); v != nil {
				out = "panic"
			}
		}()
		return f()
	}
	if req == "N" {
		sb.WriteString("new")
		for i := 0; i < k; i++ {
			out := safe(func() string {
				var h struct {
					X Iface `config:"x"`
				}
				if err := config.Decode(mkdata(), &h); err != nil {
					return "err"
				}
				return describe(h.X)
			})
			sb.WriteString(" | " + r.take() + " => " + out)
		}
		return sb.String()
	}
	var call func() (Iface, error)
	cout := safe(func() string {
		if req == "F0" {
			var h struct {
				X func() Iface `config:"x"`
			}
			if err := config.Decode(mkdata(), &h); err != nil {
				return "err"
			}
			if h.X == nil {
				return "nofactory"
			}
			call = func() (Iface, error) { return h.X(), nil }
			return "ok"
		}
		var h struct {
			X func() (Iface, error) `config:"x"`
		}
		if err := config.Decode(mkdata(), &h); err != nil {
			return "err"
		}
		if h.X == nil {
			return "nofactory"
		}
		call = h.X
		return "ok"
	})
	sb.WriteString("fac " + r.take() + " => " + cout)
	if cout != "ok" {
		return sb.String()
	}
	for i := 0; i < k; i++ {
		out := safe(func() string {
			p, err := call()
			if err != nil {
				return "err"
			}
			return describe(p)
		})
		sb.WriteString(" | " + r.take() + " => " + out)
	}
	return sb.String()
}

func describeOvl(p Iface) string {
	im, ok := p.(*Impl)
	if !ok || im == nil {
		return fmt.Sprintf("notimpl-%T", p)
	}
	return "ok:" + im.arg
}

func runOvl(f []string) string {
	if len(f) != 8 {
		return "unknown-case"
	}
	ret, cfg, def, req := f[1], f[2], f[3], f[4]
	k, _ := strconv.Atoi(f[5])
	names, dvals, ok := parseFields(f[6])
	snames, svals, ok2 := parseFields(f[7])
	if !ok || !ok2 || len(names) == 0 {
		return "unknown-case"
	}
	if !hooksAdded {
		pluginconfig.AddHooks()
		hooksAdded = true
	}
	ovlSeq++
	name := fmt.Sprintf("ov18-%d", ovlSeq)
	types := make([]reflect.Type, len(names))
	for i, t := range dvals {
		if t.kind == '~' {
			return "unknown-case"
		}
		types[i] = typeOfTree(t)
	}
	st := structOf(names, types)
	ct := st
	if cfg == "P" {
		ct = reflect.PtrTo(st)
	}
	r := &orec{}
	outT := ifaceT
	if ret == "F" {
		outT = facT0
	}
	ctor := reflect.MakeFunc(reflect.FuncOf([]reflect.Type{ct}, []reflect.Type{outT}, false), func(in []reflect.Value) []reflect.Value {
		n := r.nCtor
		r.nCtor++
		arg := canonCfg(in[0])
		r.ev(fmt.Sprintf("C%d:%s", n, arg))
		poison(in[0])
		if ret == "P" {
			return []reflect.Value{reflect.ValueOf(&Impl{ctor: n, prod: -1, arg: arg}).Convert(ifaceT)}
		}
		fac := func() Iface {
			m := r.nProd
			r.nProd++
			r.ev(fmt.Sprintf("P%d", m))
			return &Impl{ctor: n, prod: m, arg: arg}
		}
		return []reflect.Value{reflect.ValueOf(fac)}
	}).Interface()
	args := []interface{}{}
	if def == "V" {
		args = append(args, reflect.MakeFunc(reflect.FuncOf(nil, []reflect.Type{ct}, false), func([]reflect.Value) []reflect.Value {
			n := r.nDef
			r.nDef++
			r.ev(fmt.Sprintf("D%d", n))
			v := reflect.New(st)
			for i, t := range dvals {
				v.Elem().Field(i).Set(valueOfTree(t, types[i], 1000*n))
			}
			if cfg == "P" {
				return []reflect.Value{v}
			}
			return []reflect.Value{v.Elem()}
		}).Interface())
	}
	regPanic := false
	func() {
		defer func() {
			if recover() != nil {
				regPanic = true
			}
		}()
		register.RegisterPtr((*Iface)(nil), name, ctor, args...)
	}()
	if regPanic {
		return "regpanic"
	}
	mkdata := func() map[string]interface{} {
		sec := map[string]interface{}{"type": name}
		for i, n := range snames {
			sec[n] = dataOfTree(svals[i])
		}
		return map[string]interface{}{"x": sec}
	}
	return driveSection(r, req, k, mkdata, describeOvl)
}

// ---- generator ----
var (
	ovlFieldNames = []string{"labels", "limit", "tags", "opts", "size", "hosts", "meta", "retry", "n", "sub", "weights", "queue"}
	ovlMapKeys    = []string{"env", "team", "zone", "a", "b", "c", "dc"}
	ovlSubNames   = []string{"x", "y", "z", "w"}
)

func treeText(t otree) string {
	switch t.kind {
	case '~':
		return "~"
	case 'n':
		return strconv.Itoa(t.num)
	case 'l':
		var ps []string
		for _, e := range t.vals {
			ps = append(ps, treeText(e))
		}
		return "[" + strings.Join(ps, ";") + "]"
	}
	var ps []string
	for i, k := range t.keys {
		ps = append(ps, k+"="+treeText(t.vals[i]))
	}
	if t.kind == 'm' {
		return "{" + strings.Join(ps, ";") + "}"
	}
	if t.kind == 'p' {
		return "&(" + strings.Join(ps, ";") + ")"
	}
	return "(" + strings.Join(ps, ";") + ")"
}

func pickDistinct(r *vh.Rand, pool []string, n int) []string {
	idx := r.Intn(len(pool))
	step := []int{1, 3, 5}[r.Intn(3)]
	if len(pool)%step == 0 && step != 1 {
		step = 1
	}
	var out []string
	for i := 0; i < n && i < len(pool); i++ {
		out = append(out, pool[(idx+i*step)%len(pool)])
	}
	return out
}

func num(r *vh.Rand) otree { return otree{kind: 'n', num: 1 + r.Intn(99)} }

func genDefault(r *vh.Rand) ([]string, []otree) {
	nf := 3 + r.Intn(3)
	names := pickDistinct(r, ovlFieldNames, nf)
	// always a map, a nested struct and a number or slice among the first three fields
	kinds := [][]byte{{'m', 's', 'n'}, {'s', 'l', 'm'}, {'n', 'm', 's'}, {'l', 's', 'm'}, {'m', 'n', 's'}, {'s', 'm', 'l'}}[r.Intn(6)]
	var vals []otree
	for i := range names {
		kd := kinds[i%3]
		if kd == 's' && r.Chance(1, 3) {
			kd = 'p' // the nested struct behind a pointer
		}
		if i >= 3 {
			kd = "nmlspp"[r.Intn(6)]
		}
		switch kd {
		case 'n':
			vals = append(vals, num(r))
		case 'm':
			t := otree{kind: 'm'}
			nk := r.Intn(4) // the default's map may also be empty
			if i < 3 {
				nk = 1 + r.Intn(3)
			}
			for _, k := range pickDistinct(r, ovlMapKeys, nk) {
				t.keys = append(t.keys, k)
				t.vals = append(t.vals, num(r))
			}
			vals = append(vals, t)
		case 'l':
			t := otree{kind: 'l'}
			for j := r.Intn(4); j > 0; j-- {
				t.vals = append(t.vals, num(r))
			}
			vals = append(vals, t)
		case 's', 'p':
			t := otree{kind: kd}
			for _, k := range pickDistinct(r, ovlSubNames, 2+r.Intn(2)) {
				t.keys = append(t.keys, k)
				t.vals = append(t.vals, num(r))
			}
			vals = append(vals, t)
		}
	}
	return names, vals
}

// a setting for a field of the given default: mode p = partial / fitting value
func genSetting(r *vh.Rand, d otree, withNil bool) otree {
	switch d.kind {
	case 'n':
		return otree{kind: 'n', num: 100 + r.Intn(800)}
	case 'l':
		t := otree{kind: 'l'}
		for j := r.Intn(5); j > 0; j-- {
			t.vals = append(t.vals, otree{kind: 'n', num: 100 + r.Intn(800)})
		}
		return t
	case 'm':
		t := otree{kind: 'm'}
		// some of the default's keys (not all when it has several) and possibly new ones
		for i, k := range d.keys {
			if (i > 0 || len(d.keys) == 1) && r.Chance(1, 2) {
				t.keys = append(t.keys, k)
				t.vals = append(t.vals, otree{kind: 'n', num: 100 + r.Intn(800)})
			}
		}
		for _, k := range pickDistinct(r, ovlMapKeys, r.Intn(3)) {
			dup := false
			for _, k2 := range append(append([]string{}, d.keys...), t.keys...) {
				dup = dup || k2 == k
			}
			if !dup {
				t.keys = append(t.keys, k)
				v := otree{kind: 'n', num: 100 + r.Intn(800)}
				if withNil && r.Chance(1, 6) {
					v = otree{kind: '~'}
				}
				t.vals = append(t.vals, v)
			}
		}
		return t
	}
	t := otree{kind: 'm'}
	for i, k := range d.keys {
		if i == 0 && r.Chance(2, 3) {
			continue // never all fields of a nested struct
		}
		if r.Chance(1, 2) {
			v := otree{kind: 'n', num: 100 + r.Intn(800)}
			if withNil && r.Chance(1, 5) {
				v = otree{kind: '~'}
			}
			t.keys = append(t.keys, k)
			t.vals = append(t.vals, v)
		}
	}
	return t
}

func genOvl(r *vh.Rand, tier string) []string {
	var out []string
	reps := 1
	if tier == "thorough" {
		reps = 8
	}
	const variants = 14
	for rep := 0; rep < reps; rep++ {
		for _, ret := range []string{"P", "F"} {
			for _, cfg := range []string{"S", "P"} {
				for _, def := range []string{"V", "-"} {
					for _, req := range []string{"N", "F0", "F1"} {
						for v := 0; v < variants; v++ {
							names, dvals := genDefault(r)
							var sn []string
							var sv []otree
							add := func(n string, t otree) { sn = append(sn, n); sv = append(sv, t) }
							first := func(kind byte) int {
								for i, d := range dvals {
									if d.kind == kind || (kind == 's' && d.kind == 'p') {
										return i
									}
								}
								return 0
							}
							switch v {
							case 0: // no setting at all
							case 1: // part of a map only
								i := first('m')
								add(names[i], genSetting(r, dvals[i], false))
							case 2: // a key with a nil value
								i := r.Intn(len(names))
								add(names[i], otree{kind: '~'})
							case 3: // part of a nested struct only
								i := first('s')
								add(names[i], genSetting(r, dvals[i], false))
							case 4: // an empty map / list for a field
								i := first('m')
								add(names[i], otree{kind: 'm'})
							case 5: // a key inside a nested struct that names no field
								i := first('s')
								t := genSetting(r, dvals[i], false)
								t.keys = append(t.keys, r.Pick([]string{"q", "xx", "limit"}))
								t.vals = append(t.vals, otree{kind: 'n', num: 1})
								add(names[i], t)
							case 6: // a value of the wrong kind
								i := r.Intn(len(names))
								if dvals[i].kind == 'n' {
									add(names[i], otree{kind: 'm', keys: []string{"a"}, vals: []otree{{kind: 'n', num: 1}}})
								} else {
									add(names[i], otree{kind: 'n', num: 7})
								}
							default: // every field: absent / nil / a fitting setting; sometimes a stray key
								for i := range names {
									switch c := r.Intn(10); {
									case c < 3:
									case c < 4:
										add(names[i], otree{kind: '~'})
									default:
										add(names[i], genSetting(r, dvals[i], true))
									}
								}
								if v == 13 || r.Chance(1, 8) {
									stray := r.Pick(otherKeys)
									for _, n := range names {
										if n == stray {
											stray = "zz"
										}
									}
									add(stray, otree{kind: 'n', num: 1})
								}
							}
							// the section's keys in a PRNG order (a Go map has none)
							for i := len(sn) - 1; i > 0; i-- {
								j := r.Intn(i + 1)
								sn[i], sn[j] = sn[j], sn[i]
								sv[i], sv[j] = sv[j], sv[i]
							}
							var dps, sps []string
							for i, n := range names {
								dps = append(dps, n+"="+treeText(dvals[i]))
							}
							for i, n := range sn {
								sps = append(sps, n+"="+treeText(sv[i]))
							}
							sec := "-"
							if len(sps) > 0 {
								sec = strings.Join(sps, ",")
							}
							out = append(out, fmt.Sprintf("ovl %s %s %s %s %d %s %s", ret, cfg, def, req, 1+r.Intn(3), strings.Join(dps, ","), sec))
						}
					}
				}
			}
		}
	}
	return out
}

// ---- registered names ----
func runNm(f []string) string {
	if len(f) != 5 {
		return "unknown-case"
	}
	via, req := f[1], f[2]
	if !hooksAdded {
		pluginconfig.AddHooks()
		hooksAdded = true
	}
	nameSeq++
	prefix := fmt.Sprintf("nm%d.", nameSeq)
	r := &orec{}
	for i, h := range strings.Split(f[3], ",") {
		idx := i
		nm := string(vh.UnHex(h))
		panicked := false
		func() {
			defer func() {
				if recover() != nil {
					panicked = true
				}
			}()
			register.RegisterPtr((*Iface)(nil), prefix+nm, func() Iface {
				return &Impl{ctor: idx, prod: -1, arg: strconv.Itoa(idx)}
			})
		}()
		if panicked {
			return "regpanic"
		}
	}
	want := ""
	if f[4] != "-" {
		want = prefix + string(vh.UnHex(f[4]))
	}
	describe := func(p Iface) string {
		im, ok := p.(*Impl)
		if !ok || im == nil {
			return fmt.Sprintf("notimpl-%T", p)
		}
		return "ok:" + im.arg
	}
	if via == "H" {
		return driveSection(r, req, 1, func() map[string]interface{} {
			return map[string]interface{}{"x": map[string]interface{}{"type": want}}
		}, describe)
	}
	safe := func(fn func() string) (out string) {
		defer func() {
			if recover() != nil {
				out = "panic"
			}
		}()
		return fn()
	}
	if req == "N" {
		return "new | . => " + safe(func() string {
			p, err := plugin.New(ifaceT, want)
			if err != nil {
				return "err"
			}
			return describe(p.(Iface))
		})
	}
	var fac interface{}
	cout := safe(func() string {
		var err error
		fac, err = plugin.NewFactory(factoryType(req), want)
		if err != nil {
			return "err"
		}
		return "ok"
	})
	if cout != "ok" {
		return "fac . => " + cout
	}
	return "fac . => ok | . => " + safe(func() string {
		if req == "F0" {
			return describe(fac.(func() Iface)())
		}
		p, err := fac.(func() (Iface, error))()
		if err != nil {
			return "err"
		}
		return describe(p)
	})
}

var nmBases = []string{"shout", "echo", "my-gun", "http2", "a_b", "x/y", "v1.0", "mycompany/echo", "ünit", "json lines", "q"}

func nameVariants(r *vh.Rand, base string) []string {
	rs := []rune(base)
	up := func(i int) string {
		c := append([]rune{}, rs...)
		c[i] = []rune(strings.ToUpper(string(c[i])))[0]
		return string(c)
	}
	vs := []string{base, strings.ToUpper(base), up(0), up(r.Intn(len(rs))), strings.Title(base)}
	for _, sep := range []string{"-", "_", "/", ".", " "} {
		if strings.Contains(base, sep) {
			for _, to := range []string{"-", "_", "", "."} {
				if to != sep {
					vs = append(vs, strings.ReplaceAll(base, sep, to))
				}
			}
		}
	}
	vs = append(vs, base+strconv.Itoa(r.Intn(10)), base+"0"+strconv.Itoa(1+r.Intn(9)), base+" ", " "+base, base+string(rs[0]))
	if strings.ContainsAny(base, "0123456789") {
		vs = append(vs, strings.NewReplacer("1", "01", "2", "02").Replace(base))
	}
	return vs
}

func genNm(r *vh.Rand, tier string) []string {
	var out []string
	reps := 4
	if tier == "thorough" {
		reps = 30
	}
	for rep := 0; rep < reps; rep++ {
		for _, base := range nmBases {
			for _, via := range []string{"H", "R"} {
				for _, req := range []string{"N", "F0", "F1"} {
					vs := nameVariants(r, base)
					// registered: 1-4 distinct spellings, not always the plain one
					seen := map[string]bool{}
					var regd []string
					for n := 1 + r.Intn(4); n > 0; n-- {
						v := vs[r.Intn(len(vs))]
						if n == 1 && len(regd) == 0 && r.Chance(1, 2) {
							v = vs[1+r.Intn(4)] // a lone name that is not all lower case
						}
						if !seen[v] {
							seen[v] = true
							regd = append(regd, v)
						}
					}
					var want string
					switch c := r.Intn(20); {
					case c < 13:
						want = regd[r.Intn(len(regd))]
					case c < 19 || via == "R":
						want = vs[r.Intn(len(vs))] // a near-twin, registered or not
					default:
						want = ""
					}
					var hs []string
					for _, n := range regd {
						hs = append(hs, vh.HexS(n))
					}
					out = append(out, fmt.Sprintf("nm %s %s %s %s", via, req, strings.Join(hs, ","), vh.HexS(want)))
				}
			}
		}
	}
	return out
}
