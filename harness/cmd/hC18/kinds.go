package main

// kind <K> <cfg S|P> <def -|V|W> <req N|F0|F1> <userB|-> <k> <userA|->
//
// The way every built-in and custom component is registered: the per-kind helpers of core/register
// (register.Provider / Limiter / Gun / Aggregator / DataSource / DataSink -> RegisterPtr ->
// plugin.Register on the default registry), with or without a default-config function; creation the
// way the engine config does it: pluginconfig hooks + config.Decode of {type: name[, b][, a]} into a
// field of the kind's interface type (component) or of a factory type of it (func() (T, error) /
// func() T), then k products.  Observation and verdict are those of the "hook" cases: every product
// must be built from the registered default overlaid by the section.

import (
	"context"
	"fmt"
	"io"
	"reflect"
	"strconv"
	"strings"
	"time"

	"github.com/yandex/pandora/core"
	"github.com/yandex/pandora/core/config"
	"github.com/yandex/pandora/core/plugin/pluginconfig"
	"github.com/yandex/pandora/core/register"

	"verifharness/internal/vh"
)

type kimpl interface{ inner() *Impl }

type kProvider struct{ *Impl }
type kLimiter struct{ *Impl }
type kGun struct{ *Impl }
type kAggregator struct{ *Impl }
type kDataSource struct{ *Impl }
type kDataSink struct{ *Impl }

func (k kProvider) inner() *Impl                                   { return k.Impl }
func (k kProvider) Run(context.Context, core.ProviderDeps) error   { return nil }
func (k kProvider) Acquire() (core.Ammo, bool)                     { return nil, false }
func (k kProvider) Release(core.Ammo)                              {}
func (k kLimiter) inner() *Impl                                    { return k.Impl }
func (k kLimiter) Start(time.Time)                                 {}
func (k kLimiter) Next() (time.Time, bool)                         { return time.Time{}, false }
func (k kLimiter) Left() int                                       { return 0 }
func (k kGun) inner() *Impl                                        { return k.Impl }
func (k kGun) Bind(core.Aggregator, core.GunDeps) error            { return nil }
func (k kGun) Shoot(core.Ammo)                                     {}
func (k kAggregator) inner() *Impl                                 { return k.Impl }
func (k kAggregator) Run(context.Context, core.AggregatorDeps) error { return nil }
func (k kAggregator) Report(core.Sample)                           {}
func (k kDataSource) inner() *Impl                                 { return k.Impl }
func (k kDataSource) OpenSource() (io.ReadCloser, error)           { return nil, nil }
func (k kDataSink) inner() *Impl                                   { return k.Impl }
func (k kDataSink) OpenSink() (io.WriteCloser, error)              { return nil, nil }

type kindDesc struct {
	iface    reflect.Type
	impl     reflect.Type
	wrap     func(*Impl) reflect.Value
	register func(name string, ctor interface{}, def ...interface{})
}

var kinds = map[string]kindDesc{
	"provider": {reflect.TypeOf((*core.Provider)(nil)).Elem(), reflect.TypeOf(kProvider{}),
		func(i *Impl) reflect.Value { return reflect.ValueOf(kProvider{i}) }, register.Provider},
	"limiter": {reflect.TypeOf((*core.Schedule)(nil)).Elem(), reflect.TypeOf(kLimiter{}),
		func(i *Impl) reflect.Value { return reflect.ValueOf(kLimiter{i}) }, register.Limiter},
	"gun": {reflect.TypeOf((*core.Gun)(nil)).Elem(), reflect.TypeOf(kGun{}),
		func(i *Impl) reflect.Value { return reflect.ValueOf(kGun{i}) }, register.Gun},
	"aggregator": {reflect.TypeOf((*core.Aggregator)(nil)).Elem(), reflect.TypeOf(kAggregator{}),
		func(i *Impl) reflect.Value { return reflect.ValueOf(kAggregator{i}) }, register.Aggregator},
	"datasource": {reflect.TypeOf((*core.DataSource)(nil)).Elem(), reflect.TypeOf(kDataSource{}),
		func(i *Impl) reflect.Value { return reflect.ValueOf(kDataSource{i}) }, register.DataSource},
	"datasink": {reflect.TypeOf((*core.DataSink)(nil)).Elem(), reflect.TypeOf(kDataSink{}),
		func(i *Impl) reflect.Value { return reflect.ValueOf(kDataSink{i}) }, register.DataSink},
}

var kindNames = []string{"provider", "limiter", "gun", "aggregator", "datasource", "datasink"}

// a struct { X <t> `config:"x"` } made for the field type wanted
func holderOf(t reflect.Type) reflect.Value {
	st := reflect.StructOf([]reflect.StructField{{Name: "X", Type: t, Tag: `config:"x"`}})
	return reflect.New(st)
}

func runKind(f []string) string {
	if len(f) != 8 {
		return "unknown-case"
	}
	kd, ok := kinds[f[1]]
	if !ok {
		return "unknown-case"
	}
	cfg, def, req := f[2], f[3], f[4]
	k, _ := strconv.Atoi(f[6])
	if !hooksAdded {
		pluginconfig.AddHooks()
		hooksAdded = true
	}
	hookSeq++
	name := fmt.Sprintf("kc18-%s-%d", f[1], hookSeq)
	r := &rec{cerr: true, ffail: map[int]bool{}, cfail: map[int]bool{}, pfail: map[int]bool{}, wrap: kd.wrap}
	args := []interface{}{}
	if def != "-" {
		args = append(args, r.defaultFn(cfg, def))
	}
	kd.register(name, r.constructor("P", cfg, kd.impl), args...)
	mkdata := func() map[string]interface{} {
		sec := map[string]interface{}{"type": name}
		if f[5] != "-" {
			n, _ := strconv.Atoi(f[5])
			sec["b"] = n
		}
		if f[7] != "-" {
			n, _ := strconv.Atoi(f[7])
			sec["a"] = n
		}
		return map[string]interface{}{"x": sec}
	}
	var sb strings.Builder
	if req == "N" {
		sb.WriteString("new")
		for i := 0; i < k; i++ {
			out := guarded(func() string {
				h := holderOf(kd.iface)
				if err := config.Decode(mkdata(), h.Interface()); err != nil {
					return "err:config"
				}
				return describe(h.Elem().Field(0).Interface(), nil)
			})
			sb.WriteString(" | " + r.take() + " => " + out)
		}
		return sb.String()
	}
	outs := []reflect.Type{kd.iface}
	if req == "F1" {
		outs = append(outs, errT)
	}
	h := holderOf(reflect.FuncOf(nil, outs, false))
	cout := guarded(func() string {
		if err := config.Decode(mkdata(), h.Interface()); err != nil {
			return "err:config"
		}
		if h.Elem().Field(0).IsNil() {
			return "err:nofactory"
		}
		return "ok"
	})
	sb.WriteString("fac " + r.take() + " => " + cout)
	if cout != "ok" {
		return sb.String()
	}
	for i := 0; i < k; i++ {
		out := guarded(func() string {
			res := h.Elem().Field(0).Call(nil)
			if len(res) == 2 && !res[1].IsNil() {
				return "err:config"
			}
			return describe(res[0].Interface(), nil)
		})
		if strings.HasPrefix(out, "panic:") {
			out = "panic:config"
		}
		sb.WriteString(" | " + r.take() + " => " + out)
	}
	return sb.String()
}

func genKinds(r *vh.Rand, tier string) []string {
	var out []string
	ks := []int{1, 3}
	if tier == "thorough" {
		ks = []int{1, 2, 3, 5}
	}
	for _, kind := range kindNames {
		for _, cfg := range []string{"S", "P"} {
			for _, def := range []string{"-", "V", "W"} {
				for _, req := range []string{"N", "F0", "F1"} {
					for _, k := range ks {
						b := strconv.Itoa(r.Range(1, 99))
						a := strconv.Itoa(r.Range(1, 99))
						// the section holds: type only / b / a (valid) / a (invalid) / a and b
						for _, ab := range [][2]string{{"-", "-"}, {"-", b}, {a, "-"}, {strconv.Itoa(r.Range(1001, 4000)), "-"}, {a, b}} {
							out = append(out, fmt.Sprintf("kind %s %s %s %s %s %d %s", kind, cfg, def, req, ab[1], k, ab[0]))
						}
					}
				}
			}
		}
	}
	return out
}
