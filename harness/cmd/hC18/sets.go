package main

// set <ret P|F> <cfg N|S|P|E|Q> <cerr 0|1> <def -|V> <rt I|M> <req N|F0|F1> <k> <a|-> <b|-> <c|-> <others|->
//
// The user's settings of a component: the keys of its config section besides `type`.  Every
// constructor shape - component or factory constructor; no config (N), config struct Cfg by value
// (S) or by pointer (P), a config struct WITHOUT fields by value (E) or by pointer (Q); with or
// without error result; with or without default - is registered through core/register and created
// through the real hooks + config.Decode as a component (N), a func() Iface (F0) or a
// func() (Iface, error) (F1), from the section {type: name[, a: A][, b: B][, c: C][, <other>: 1 ...]}.
// A key that names no field of the constructor's config (for N, E, Q: any key) must reach the caller
// as the error result of the creation with nothing constructed; otherwise every product is built
// from the default overlaid by the settings (field a carries validate max=1000).

import (
	"fmt"
	"reflect"
	"strconv"
	"strings"

	"github.com/yandex/pandora/core/config"
	"github.com/yandex/pandora/core/plugin/pluginconfig"
	"github.com/yandex/pandora/core/register"

	"verifharness/internal/vh"
)

// a config struct without fields
type ECfg struct{}

var ecfgT = reflect.TypeOf(ECfg{})

func runSet(f []string) string {
	if len(f) != 12 {
		return "unknown-case"
	}
	ret, cfg, def, rt, req := f[1], f[2], f[4], f[5], f[6]
	k, _ := strconv.Atoi(f[7])
	if !hooksAdded {
		pluginconfig.AddHooks()
		hooksAdded = true
	}
	hookSeq++
	name := fmt.Sprintf("st18-%d", hookSeq)
	r := &rec{cerr: f[3] == "1", ffail: map[int]bool{}, cfail: map[int]bool{}, pfail: map[int]bool{}}
	resT := ifaceT
	if rt == "M" {
		resT = implT
	}
	args := []interface{}{}
	if def != "-" {
		args = append(args, r.defaultFn(cfg, def))
	}
	register.RegisterPtr((*Iface)(nil), name, r.constructor(ret, cfg, resT), args...)
	mkdata := func() map[string]interface{} {
		sec := map[string]interface{}{"type": name}
		for i, key := range []string{"a", "b", "c"} {
			if f[8+i] != "-" {
				n, _ := strconv.Atoi(f[8+i])
				sec[key] = n
			}
		}
		if f[11] != "-" {
			for _, key := range strings.Split(f[11], ",") {
				sec[key] = 1
			}
		}
		return map[string]interface{}{"x": sec}
	}
	var sb strings.Builder
	if req == "N" {
		sb.WriteString("new")
		for i := 0; i < k; i++ {
			out := guarded(func() string {
				var h struct {
					X Iface `config:"x"`
				}
				if err := config.Decode(mkdata(), &h); err != nil {
					return "err:config"
				}
				return describe(h.X, nil)
			})
			sb.WriteString(" | " + r.take() + " => " + out)
		}
		return sb.String()
	}
	var call func() (Iface, error)
	cout := guarded(func() string {
		if req == "F0" {
			var h struct {
				X func() Iface `config:"x"`
			}
			if err := config.Decode(mkdata(), &h); err != nil {
				return "err:config"
			}
			if h.X == nil {
				return "err:nofactory"
			}
			call = func() (Iface, error) { return h.X(), nil }
			return "ok"
		}
		var h struct {
			X func() (Iface, error) `config:"x"`
		}
		if err := config.Decode(mkdata(), &h); err != nil {
			return "err:config"
		}
		if h.X == nil {
			return "err:nofactory"
		}
		call = h.X
		return "ok"
	})
	sb.WriteString("fac " + r.take() + " => " + cout)
	if cout != "ok" {
		return sb.String()
	}
	for i := 0; i < k; i++ {
		out := func() (out string) {
			defer func() {
				if v := recover(); v != nil {
					if _, isErr := v.(error); isErr && classify(v) == "other" {
						out = "panic:config"
					} else {
						out = "panic:" + classify(v)
					}
				}
			}()
			p, err := call()
			if err != nil {
				return "err:config"
			}
			return describe(p, nil)
		}()
		sb.WriteString(" | " + r.take() + " => " + out)
	}
	return sb.String()
}

var otherKeys = []string{"zz", "limit", "destination", "typ", "types", "a2", "bb", "conf", "timeout", "x", "kind", "name"}

func genSets(r *vh.Rand, tier string) []string {
	var out []string
	reps := 2
	if tier == "thorough" {
		reps = 10
	}
	pickOthers := func(n int) string {
		if n == 0 {
			return "-"
		}
		var ks []string
		start := r.Intn(len(otherKeys))
		for i := 0; i < n; i++ {
			ks = append(ks, otherKeys[(start+i*5)%len(otherKeys)])
		}
		return strings.Join(ks, ",")
	}
	val := func(on bool, base int) string {
		if !on {
			return "-"
		}
		return strconv.Itoa(base + r.Intn(50))
	}
	for rep := 0; rep < reps; rep++ {
		for _, ret := range []string{"P", "F"} {
			for _, cfg := range []string{"N", "S", "P", "E", "Q"} {
				defs := []string{"-"}
				if cfg == "S" || cfg == "P" {
					defs = []string{"-", "V"}
				}
				for _, def := range defs {
					for _, req := range []string{"N", "F0", "F1"} {
						// which of a, b, c are set, whether a violates its tag, how many other keys
						for _, v := range []struct {
							a, b, c, bad bool
							others       int
						}{
							{}, {b: true}, {a: true, b: true}, {c: true}, {a: true, b: true, c: true},
							{others: 1}, {b: true, others: 1}, {others: 2}, {a: true, bad: true}, {a: true, bad: true, others: 1},
						} {
							a := val(v.a, 1)
							if v.bad {
								a = strconv.Itoa(1001 + r.Intn(5000))
							}
							out = append(out, fmt.Sprintf("set %s %s %s %s %s %s %d %s %s %s %s", ret, cfg, vh.B(r.Bool()), def,
								r.Pick([]string{"I", "M"}), req, 1+r.Intn(3), a, val(v.b, 500), val(v.c, 700), pickOthers(v.others)))
						}
					}
				}
			}
		}
	}
	return out
}
