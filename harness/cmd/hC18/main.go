// hC18: correspondence harness for property C18 (plugin registry).
//
// One case = one constructor shape registered in a fresh plugin.Registry, one requested form
// and a failure plan:
//
//	c18 <ret P|F> <cfg N|S|P> <cerr 0|1> <perr 0|1> <def -|V|Z> <rt I|M> <req N|F0|F1> <hf 0|1> <k> <ffail> <cfail> <pfail>
//
// ret: the constructor returns a plugin / a factory; cfg: it takes nothing / Cfg / *Cfg;
// cerr: it has an error result; perr: the factory it returns has one; def: no default-config
// function / one returning a value / one returning a nil pointer; rt: results are declared as
// the plugin interface / as the implementation type; req: Registry.New (k calls) /
// Registry.NewFactory for func() Iface / for func() (Iface, error), then k calls of the
// factory; hf: a fillConf is passed; ?fail: comma separated invocation indices (0-based, per
// kind of user code) at which fillConf / the constructor / the returned factory fails ("-": none).
//
// Observation (one line): `regpanic`, or `new | <evs> => <out> | ...`, or
// `fac <evs> => ok|err:<e> | <evs> => <out> | ...` with events
// D<n> (default called), F<n>:<E|#id>:<a,b,c seen> (fillConf called), C<n>:<arg> (constructor
// called), P<m>@<n> (factory returned by constructor call n called) and outcomes
// ok:c<n>p<m|->:<arg>, err:<stage><n>, panic:<stage><n>.
package main

import (
	"errors"
	"fmt"
	"reflect"
	"strconv"
	"strings"

	"github.com/yandex/pandora/core/config"
	"github.com/yandex/pandora/core/plugin"
	"github.com/yandex/pandora/core/plugin/pluginconfig"
	"github.com/yandex/pandora/core/register"

	"verifharness/internal/vh"
)

type Iface interface{ Do() }
type Cfg struct {
	A int `config:"a" validate:"max=1000"`
	B int `config:"b"`
	C int `config:"c"`
}
type Impl struct {
	ctor, prod int
	arg        string
}

func (*Impl) Do() {}

// named func types with the signatures of the two factory forms
type NamedF0 func() Iface
type NamedF1 func() (Iface, error)

var (
	namedF0T = reflect.TypeOf(NamedF0(nil))
	namedF1T = reflect.TypeOf(NamedF1(nil))
)

type stageErr struct {
	stage string
	n     int
}

func (e *stageErr) Error() string { return fmt.Sprintf("%s%d", e.stage, e.n) }

var (
	ifaceT = reflect.TypeOf((*Iface)(nil)).Elem()
	implT  = reflect.TypeOf((*Impl)(nil))
	errT   = reflect.TypeOf((*error)(nil)).Elem()
	cfgT   = reflect.TypeOf(Cfg{})
	ptrT   = reflect.PtrTo(cfgT)
)

type rec struct {
	named                     bool // the hand-out-able function (newPlugin / returned factory) has a named func type
	evs                       []string
	nDef, nFill, nCtor, nProd int
	ptrs                      []*Cfg // kept alive: identities stay distinct
	ffail, cfail, pfail       map[int]bool
	cerr, perr                bool
	wrap                      func(*Impl) reflect.Value // kind cases: the component type of the kind around the record
}

func (r *rec) mk(im *Impl, resT reflect.Type) reflect.Value {
	if r.wrap != nil {
		return r.wrap(im).Convert(resT)
	}
	return reflect.ValueOf(im).Convert(resT)
}

func (r *rec) id(p *Cfg) int {
	for i, q := range r.ptrs {
		if q == p {
			return i
		}
	}
	r.ptrs = append(r.ptrs, p)
	return len(r.ptrs) - 1
}

func (r *rec) ev(s string) { r.evs = append(r.evs, s) }
func (r *rec) take() string {
	s := "."
	if len(r.evs) > 0 {
		s = strings.Join(r.evs, " ")
	}
	r.evs = nil
	return s
}

func cv(c Cfg) string { return fmt.Sprintf("%d,%d,%d", c.A, c.B, c.C) }

func errVal(e error) reflect.Value {
	if e == nil {
		return reflect.Zero(errT)
	}
	return reflect.ValueOf(&e).Elem()
}

func parseSet(s string) map[int]bool {
	m := map[int]bool{}
	if s == "-" || s == "" {
		return m
	}
	for _, x := range strings.Split(s, ",") {
		n, _ := strconv.Atoi(x)
		m[n] = true
	}
	return m
}

// the registered constructor, built for the requested Go type by reflection
func (r *rec) constructor(ret, cfg string, resT reflect.Type) interface{} {
	var in []reflect.Type
	switch cfg {
	case "S":
		in = []reflect.Type{cfgT}
	case "P":
		in = []reflect.Type{ptrT}
	case "E":
		in = []reflect.Type{ecfgT}
	case "Q":
		in = []reflect.Type{reflect.PtrTo(ecfgT)}
	}
	var out []reflect.Type
	var facT reflect.Type
	if ret == "P" {
		out = []reflect.Type{resT}
	} else {
		fo := []reflect.Type{resT}
		if r.perr {
			fo = append(fo, errT)
		}
		facT = reflect.FuncOf(nil, fo, false)
		if r.named {
			facT = namedF0T
			if r.perr {
				facT = namedF1T
			}
		}
		out = []reflect.Type{facT}
	}
	if r.cerr {
		out = append(out, errT)
	}
	body := func(args []reflect.Value) []reflect.Value {
		n := r.nCtor
		r.nCtor++
		arg := "-"
		switch cfg {
		case "S":
			arg = "=" + cv(args[0].Interface().(Cfg))
		case "P":
			p := args[0].Interface().(*Cfg)
			if p == nil {
				arg = "nil"
			} else {
				arg = fmt.Sprintf("#%d=%s", r.id(p), cv(*p))
			}
		case "E":
			arg = "=0,0,0"
		case "Q":
			// pointers to zero-size values have no observable identity: content only
			arg = "=0,0,0"
			if args[0].Interface().(*ECfg) == nil {
				arg = "nil"
			}
		}
		r.ev(fmt.Sprintf("C%d:%s", n, arg))
		fail := r.cerr && r.cfail[n]
		var res []reflect.Value
		if ret == "P" {
			if fail {
				res = []reflect.Value{reflect.Zero(resT)}
			} else {
				res = []reflect.Value{r.mk(&Impl{ctor: n, prod: -1, arg: arg}, resT)}
			}
		} else {
			if fail {
				res = []reflect.Value{reflect.Zero(facT)}
			} else {
				f := reflect.MakeFunc(facT, func([]reflect.Value) []reflect.Value {
					m := r.nProd
					r.nProd++
					r.ev(fmt.Sprintf("P%d@%d", m, n))
					pf := r.perr && r.pfail[m]
					var pres []reflect.Value
					if pf {
						pres = []reflect.Value{reflect.Zero(resT)}
					} else {
						pres = []reflect.Value{r.mk(&Impl{ctor: n, prod: m, arg: arg}, resT)}
					}
					if r.perr {
						if pf {
							pres = append(pres, errVal(&stageErr{"prod", m}))
						} else {
							pres = append(pres, errVal(nil))
						}
					}
					return pres
				})
				res = []reflect.Value{f}
			}
		}
		if r.cerr {
			if fail {
				res = append(res, errVal(&stageErr{"ctor", n}))
			} else {
				res = append(res, errVal(nil))
			}
		}
		return res
	}
	ctorT := reflect.FuncOf(in, out, false)
	if r.named && ret == "P" {
		ctorT = namedF0T
		if r.cerr {
			ctorT = namedF1T
		}
	}
	return reflect.MakeFunc(ctorT, body).Interface()
}

func (r *rec) defaultFn(cfg, def string) interface{} {
	t := cfgT
	if cfg == "P" {
		t = ptrT
	}
	if cfg == "N" {
		t = cfgT // registration must refuse it whatever its type
	}
	return reflect.MakeFunc(reflect.FuncOf(nil, []reflect.Type{t}, false), func([]reflect.Value) []reflect.Value {
		n := r.nDef
		r.nDef++
		r.ev(fmt.Sprintf("D%d", n))
		v := Cfg{A: 100 + n, B: 200 + n}
		if def == "W" {
			v.A = 5000 + n // a default that violates its own validate tag
		}
		if t == ptrT {
			if def == "Z" {
				return []reflect.Value{reflect.Zero(ptrT)}
			}
			return []reflect.Value{reflect.ValueOf(&v)}
		}
		return []reflect.Value{reflect.ValueOf(v)}
	}).Interface()
}

func (r *rec) fill(conf interface{}) error {
	n := r.nFill
	r.nFill++
	switch p := conf.(type) {
	case *Cfg:
		if p == nil {
			r.ev(fmt.Sprintf("F%d:nil:0,0,0", n))
			return errors.New("nil config")
		}
		r.ev(fmt.Sprintf("F%d:#%d:%s", n, r.id(p), cv(*p)))
		p.B = 300 + n // a decoder may have written part of the config before it fails
		if r.ffail[n] {
			return &stageErr{"fill", n}
		}
		p.C = 400 + n
	case *struct{}:
		r.ev(fmt.Sprintf("F%d:E:0,0,0", n))
		if r.ffail[n] {
			return &stageErr{"fill", n}
		}
	default:
		r.ev(fmt.Sprintf("F%d:?%T:0,0,0", n, conf))
	}
	return nil
}

func classify(v interface{}) string {
	e, ok := v.(error)
	if !ok {
		return "other"
	}
	if se, ok := e.(*stageErr); ok {
		return se.Error()
	}
	var se *stageErr
	if errors.As(e, &se) {
		return "wrapped-" + se.Error()
	}
	return "other"
}

func describe(p interface{}, err error) string {
	if err != nil {
		return "err:" + classify(err)
	}
	im, ok := p.(*Impl)
	if ki, isK := p.(kimpl); isK {
		im, ok = ki.inner(), true
	}
	if !ok || im == nil {
		return fmt.Sprintf("ok:notimpl-%T", p)
	}
	pr := "-"
	if im.prod >= 0 {
		pr = strconv.Itoa(im.prod)
	}
	return fmt.Sprintf("ok:c%dp%s:%s", im.ctor, pr, im.arg)
}

func guarded(f func() string) (out string) {
	defer func() {
		if v := recover(); v != nil {
			out = "panic:" + classify(v)
		}
	}()
	return f()
}

var (
	hooksAdded bool
	hookSeq    int
)

// hook <cfg S|P> <def -|V|W> <req N|F1> <userB|-> <k> [<userA|->]: the way real configs reach the
// registry: core/register (default registry) + pluginconfig hooks + config.Decode of
// {type: name[, b: userB][, a: userA]} into a field of plugin type / of factory type; the fill is
// the real decoder + validator (field a: max=1000; default W returns a = 5000+n).
func runHook(f []string) string {
	if len(f) != 6 && len(f) != 7 {
		return "unknown-case"
	}
	cfg, def, req := f[1], f[2], f[3]
	k, _ := strconv.Atoi(f[5])
	if !hooksAdded {
		pluginconfig.AddHooks()
		hooksAdded = true
	}
	hookSeq++
	name := fmt.Sprintf("hc18-%d", hookSeq)
	r := &rec{cerr: true, ffail: map[int]bool{}, cfail: map[int]bool{}, pfail: map[int]bool{}}
	args := []interface{}{}
	if def != "-" {
		args = append(args, r.defaultFn(cfg, def))
	}
	register.RegisterPtr((*Iface)(nil), name, r.constructor("P", cfg, implT), args...)
	// a fresh map per Decode: pluginconfig.parseConf deletes the "type" key from the map it is given
	mkdata := func() map[string]interface{} {
		sec := map[string]interface{}{"type": name}
		if f[4] != "-" {
			n, _ := strconv.Atoi(f[4])
			sec["b"] = n
		}
		if len(f) == 7 && f[6] != "-" {
			n, _ := strconv.Atoi(f[6])
			sec["a"] = n
		}
		return map[string]interface{}{"x": sec}
	}
	var sb strings.Builder
	if req == "N" {
		sb.WriteString("new")
		for i := 0; i < k; i++ {
			out := guarded(func() string {
				var h struct {
					X Iface `config:"x"`
				}
				err := config.Decode(mkdata(), &h)
				if err != nil {
					return "err:config"
				}
				return describe(h.X, nil)
			})
			sb.WriteString(" | " + r.take() + " => " + out)
		}
		return sb.String()
	}
	var h struct {
		X func() (Iface, error) `config:"x"`
	}
	cout := guarded(func() string {
		if err := config.Decode(mkdata(), &h); err != nil {
			return "err:config"
		}
		return "ok"
	})
	sb.WriteString("fac " + r.take() + " => " + cout)
	if cout != "ok" {
		return sb.String()
	}
	for i := 0; i < k; i++ {
		out := guarded(func() string {
			p, err := h.X()
			if err != nil {
				return "err:config"
			}
			return describe(p, nil)
		})
		sb.WriteString(" | " + r.take() + " => " + out)
	}
	return sb.String()
}

type OuterCfg struct {
	B     int   `config:"b"`
	Inner Iface `config:"inner"`
}

// hookn <req N|F1> <k>: a plugin whose config contains a nested plugin, decoded by the real hooks:
// {type: outer, b: 5, inner: {type: inner, b: 6}}.  Every product must get its own, freshly
// decoded config, i.e. its own freshly constructed inner plugin (the same config data is decoded
// again on every call of the factory).
func runHookNested(f []string) string {
	if len(f) != 3 {
		return "unknown-case"
	}
	req := f[1]
	k, _ := strconv.Atoi(f[2])
	if !hooksAdded {
		pluginconfig.AddHooks()
		hooksAdded = true
	}
	hookSeq++
	inner := fmt.Sprintf("hc18-inner-%d", hookSeq)
	outer := fmt.Sprintf("hc18-outer-%d", hookSeq)
	r := &rec{cerr: true, ffail: map[int]bool{}, cfail: map[int]bool{}, pfail: map[int]bool{}}
	register.RegisterPtr((*Iface)(nil), inner, r.constructor("P", "P", implT), r.defaultFn("P", "V"))
	register.RegisterPtr((*Iface)(nil), outer, func(c OuterCfg) (Iface, error) {
		n := r.nCtor
		r.nCtor++
		in := "nil"
		if im, ok := c.Inner.(*Impl); ok && im != nil {
			in = fmt.Sprintf("c%d", im.ctor)
		}
		arg := fmt.Sprintf("outer=%d/%s", c.B, in)
		r.ev(fmt.Sprintf("C%d:%s", n, arg))
		return &Impl{ctor: n, prod: -1, arg: arg}, nil
	})
	mkdata := func() map[string]interface{} {
		return map[string]interface{}{"x": map[string]interface{}{"type": outer, "b": 5,
			"inner": map[string]interface{}{"type": inner, "b": 6}}}
	}
	var sb strings.Builder
	if req == "N" {
		sb.WriteString("new")
		for i := 0; i < k; i++ {
			out := guarded(func() string {
				var h struct {
					X Iface `config:"x"`
				}
				if err := config.Decode(mkdata(), &h); err != nil {
					return "err:decode:" + strings.ReplaceAll(err.Error(), "\n", " ")
				}
				return describe(h.X, nil)
			})
			sb.WriteString(" | " + r.take() + " => " + out)
		}
		return sb.String()
	}
	var h struct {
		X func() (Iface, error) `config:"x"`
	}
	cout := guarded(func() string {
		if err := config.Decode(mkdata(), &h); err != nil {
			return "err:decode:" + strings.ReplaceAll(err.Error(), "\n", " ")
		}
		return "ok"
	})
	sb.WriteString("fac " + r.take() + " => " + cout)
	if cout != "ok" {
		return sb.String()
	}
	for i := 0; i < k; i++ {
		out := guarded(func() string {
			p, err := h.X()
			if err != nil {
				return "err:" + strings.ReplaceAll(err.Error(), "\n", " ")
			}
			return describe(p, nil)
		})
		sb.WriteString(" | " + r.take() + " => " + out)
	}
	return sb.String()
}

// nest <mode r|g> <ret> <cfg> <cerr> <perr> <def> <rt> <req N|F0|F1> <k> <ffail> <cfail> <pfail>
//
// Overlapping creations of the same registered entry: the fillConf handed to New / NewFactory,
// before it writes its own settings, lets another Registry.New of the same (type, name) run to
// completion - inline (mode r: a nested component of the same entry created from inside the
// decode) or in a second goroutine the fill waits for (mode g: a concurrent creation that falls
// into this one's decode window).  The inner creation uses the plain fill.  Events are logged
// flat; the inner creation appears as  [ <events> => <outcome> ]  inside the outer one's events.
func runNest(f []string) string {
	if len(f) != 13 {
		return "unknown-case"
	}
	mode, ret, cfg, def, rt, req := f[1], f[2], f[3], f[6], f[7], f[8]
	k, _ := strconv.Atoi(f[9])
	r := &rec{cerr: f[4] == "1", perr: f[5] == "1", ffail: parseSet(f[10]), cfail: parseSet(f[11]), pfail: parseSet(f[12])}
	resT := ifaceT
	if rt == "M" {
		resT = implT
	}
	r.named = rt == "J"
	reg := plugin.NewRegistry()
	args := []interface{}{}
	if def != "-" {
		args = append(args, r.defaultFn(cfg, def))
	}
	reg.Register(ifaceT, "x", r.constructor(ret, cfg, resT), args...)
	innerNew := func() string {
		return guarded(func() string { return describe(reg.New(ifaceT, "x", r.fill)) })
	}
	fillRe := func(conf interface{}) error {
		n := r.nFill
		r.nFill++
		p, isCfg := conf.(*Cfg)
		switch {
		case isCfg && p != nil:
			r.ev(fmt.Sprintf("F%d:#%d:%s", n, r.id(p), cv(*p)))
		case isCfg:
			r.ev(fmt.Sprintf("F%d:nil:0,0,0", n))
		default:
			r.ev(fmt.Sprintf("F%d:E:0,0,0", n))
		}
		r.ev("[")
		var inner string
		if mode == "g" {
			done := make(chan string)
			go func() { done <- innerNew() }()
			inner = <-done
		} else {
			inner = innerNew()
		}
		r.ev("=> " + inner + " ]")
		if isCfg && p != nil {
			p.B = 300 + n
		}
		if r.ffail[n] {
			return &stageErr{"fill", n}
		}
		if isCfg && p != nil {
			p.C = 400 + n
		}
		return nil
	}
	var sb strings.Builder
	if req == "N" {
		sb.WriteString("nestnew")
		for i := 0; i < k; i++ {
			out := guarded(func() string { return describe(reg.New(ifaceT, "x", fillRe)) })
			sb.WriteString(" | " + r.take() + " => " + out)
		}
		return sb.String()
	}
	var fac interface{}
	cout := guarded(func() string {
		var err error
		fac, err = reg.NewFactory(factoryType(req), "x", fillRe)
		if err != nil {
			return "err:" + classify(err)
		}
		if !hasRequestedType(req, fac) {
			return fmt.Sprintf("wrongtype:%T", fac)
		}
		return "ok"
	})
	sb.WriteString("nestfac " + r.take() + " => " + cout)
	if cout != "ok" {
		return sb.String()
	}
	for i := 0; i < k; i++ {
		out := guarded(func() string { return callFactory(req, fac) })
		sb.WriteString(" | " + r.take() + " => " + out)
	}
	return sb.String()
}

func runCase(c string) string {
	f := strings.Split(c, " ")
	if f[0] == "nest" {
		return runNest(f)
	}
	if f[0] == "hook" {
		return runHook(f)
	}
	if f[0] == "hookn" {
		return runHookNested(f)
	}
	if f[0] == "kind" {
		return runKind(f)
	}
	if f[0] == "conc" {
		return runConc(f)
	}
	if f[0] == "sec" {
		return runSec(f)
	}
	if f[0] == "reg" {
		return runReg(f)
	}
	if f[0] == "set" {
		return runSet(f)
	}
	if f[0] == "ftype" {
		return runFtype(f)
	}
	if f[0] == "ovl" {
		return runOvl(f)
	}
	if f[0] == "nm" {
		return runNm(f)
	}
	if len(f) != 13 || f[0] != "c18" {
		return "unknown-case"
	}
	ret, cfg, def, rt, req := f[1], f[2], f[5], f[6], f[7]
	hf := f[8] == "1"
	k, _ := strconv.Atoi(f[9])
	r := &rec{cerr: f[3] == "1", perr: f[4] == "1", ffail: parseSet(f[10]), cfail: parseSet(f[11]), pfail: parseSet(f[12])}
	resT := ifaceT
	if rt == "M" {
		resT = implT
	}
	r.named = rt == "J"
	reg := plugin.NewRegistry()
	args := []interface{}{}
	if def != "-" {
		args = append(args, r.defaultFn(cfg, def))
	}
	ctor := r.constructor(ret, cfg, resT)
	panicked := false
	func() {
		defer func() {
			if recover() != nil {
				panicked = true
			}
		}()
		reg.Register(ifaceT, "x", ctor, args...)
	}()
	if panicked {
		return "regpanic"
	}
	var fills []func(interface{}) error
	if hf {
		fills = append(fills, r.fill)
	}
	var sb strings.Builder
	if req == "N" {
		sb.WriteString("new")
		for i := 0; i < k; i++ {
			out := guarded(func() string { return describe(reg.New(ifaceT, "x", fills...)) })
			sb.WriteString(" | " + r.take() + " => " + out)
		}
		return sb.String()
	}
	var fac interface{}
	cout := guarded(func() string {
		var err error
		fac, err = reg.NewFactory(factoryType(req), "x", fills...)
		if err != nil {
			return "err:" + classify(err)
		}
		if !hasRequestedType(req, fac) {
			return fmt.Sprintf("wrongtype:%T", fac)
		}
		return "ok"
	})
	sb.WriteString("fac " + r.take() + " => " + cout)
	if cout != "ok" {
		return sb.String()
	}
	for i := 0; i < k; i++ {
		out := guarded(func() string { return callFactory(req, fac) })
		sb.WriteString(" | " + r.take() + " => " + out)
	}
	return sb.String()
}

// requested factory types: F0 func() Iface, F1 func() (Iface, error), G0 / G1 the named func
// types NamedF0 / NamedF1 with the same signatures
func factoryType(req string) reflect.Type {
	switch req {
	case "F1":
		return reflect.TypeOf((func() (Iface, error))(nil))
	case "G0":
		return namedF0T
	case "G1":
		return namedF1T
	}
	return reflect.TypeOf((func() Iface)(nil))
}

// the value NewFactory returned must have exactly the requested type (what a type assertion by
// the caller, or the config decoder assigning it to a field of that type, relies on)
func hasRequestedType(req string, fac interface{}) bool {
	switch req {
	case "F1":
		_, ok := fac.(func() (Iface, error))
		return ok
	case "G0":
		_, ok := fac.(NamedF0)
		return ok
	case "G1":
		_, ok := fac.(NamedF1)
		return ok
	}
	_, ok := fac.(func() Iface)
	return ok
}

func callFactory(req string, fac interface{}) string {
	switch req {
	case "F1":
		return describe(fac.(func() (Iface, error))())
	case "G0":
		return describe(fac.(NamedF0)(), nil)
	case "G1":
		return describe(fac.(NamedF1)())
	}
	return describe(fac.(func() Iface)(), nil)
}

func setStr(xs []int) string {
	if len(xs) == 0 {
		return "-"
	}
	s := make([]string, len(xs))
	for i, x := range xs {
		s[i] = strconv.Itoa(x)
	}
	return strings.Join(s, ",")
}

// positions: none, or exactly one index below n
func single(n int, on bool) [][]int {
	out := [][]int{nil}
	if !on {
		return out
	}
	for i := 0; i < n; i++ {
		out = append(out, []int{i})
	}
	return out
}

func gen(r *vh.Rand, tier string) []string {
	var out []string
	b := func(x bool) string { return vh.B(x) }
	for _, ret := range []string{"P", "F"} {
		for _, cfg := range []string{"N", "S", "P"} {
			for _, cerr := range []bool{false, true} {
				for _, perr := range []bool{false, true} {
					if ret == "P" && perr {
						continue
					}
					defs := []string{"-", "V"}
					if cfg == "P" {
						defs = append(defs, "Z")
					}
					for _, def := range defs {
						rts := []string{"I", "M"}
						if ret == "F" || cfg == "N" {
							rts = append(rts, "J") // the hand-out-able function has a named func type
						}
						for _, rt := range rts {
							head := fmt.Sprintf("c18 %s %s %s %s %s %s", ret, cfg, b(cerr), b(perr), def, rt)
							if cfg == "N" && def != "-" {
								// registration is refused
								out = append(out, head+" N 0 1 - - -", head+" F1 1 2 - - -")
								continue
							}
							for _, req := range []string{"N", "F0", "F1", "G0", "G1"} {
								for _, hf := range []bool{false, true} {
									ks := []int{0, 1, 2, 3, 4, 5}
									if req == "N" {
										ks = []int{1, 2, 3}
									}
									for _, k := range ks {
										// how often each kind of user code can run in this case
										nf, nc, np := k, k, k
										if req != "N" && ret == "F" {
											nf, nc = 1, 1
										}
										if req != "N" && cfg == "N" {
											nf = 1
										}
										if req != "N" && ret == "P" && cfg != "N" {
											nf = k + 1 // NewFactory may make and fill one trial config at creation
										}
										for _, ff := range single(nf, hf) {
											for _, cf := range single(nc, cerr) {
												for _, pf := range single(np, ret == "F" && perr) {
													out = append(out, fmt.Sprintf("%s %s %s %d %s %s %s", head, req, b(hf), k, setStr(ff), setStr(cf), setStr(pf)))
												}
											}
										}
										if tier == "thorough" {
											// arbitrary failure sets on top of the enumeration
											for i := 0; i < 6; i++ {
												var ff, cf, pf []int
												for j := 0; j <= k; j++ {
													if hf && r.Chance(1, 3) {
														ff = append(ff, j)
													}
													if cerr && r.Chance(1, 3) {
														cf = append(cf, j)
													}
													if ret == "F" && perr && r.Chance(1, 3) {
														pf = append(pf, j)
													}
												}
												out = append(out, fmt.Sprintf("%s %s %s %d %s %s %s", head, req, b(hf), k, setStr(ff), setStr(cf), setStr(pf)))
											}
										}
									}
								}
							}
						}
					}
				}
			}
		}
	}
	for _, cfg := range []string{"S", "P"} {
		for _, def := range []string{"-", "V", "W"} {
			for _, req := range []string{"N", "F1"} {
				for _, k := range []int{1, 2, 4} {
					// the section holds: type only / b / a (valid) / a (invalid) / a and b
					for _, ab := range [][2]string{{"-", "-"}, {"-", fmt.Sprint(7 + k)}, {"7", "-"}, {"2000", "-"}, {"9", fmt.Sprint(7 + k)}} {
						out = append(out, fmt.Sprintf("hook %s %s %s %s %d %s", cfg, def, req, ab[1], k, ab[0]))
					}
				}
			}
		}
	}
	// overlapping creations of the same entry: every shape with a config; New k times, and (plugin
	// constructors) NewFactory + k calls; inline and from a second goroutine; no failure, then every
	// single failure position of the fills (outer and inner alternate) and of the constructor
	for _, mode := range []string{"r", "g"} {
		for _, ret := range []string{"P", "F"} {
			for _, cfg := range []string{"S", "P"} {
				for _, cerr := range []bool{false, true} {
					for _, perr := range []bool{false, true} {
						if ret == "P" && perr {
							continue
						}
						defs := []string{"-", "V"}
						if cfg == "P" {
							defs = append(defs, "Z")
						}
						for _, def := range defs {
							for _, rt := range []string{"I", "M"} {
								reqs := []string{"N"}
								if ret == "P" {
									reqs = []string{"N", "F0", "F1"}
								}
								for _, req := range reqs {
									for _, k := range []int{1, 2} {
										head := fmt.Sprintf("nest %s %s %s %s %s %s %s %s %d", mode, ret, cfg, b(cerr), b(perr), def, rt, req, k)
										out = append(out, head+" - - -")
										for i := 0; i < 2*k+2; i++ {
											out = append(out, fmt.Sprintf("%s %d - -", head, i))
										}
										if cerr {
											for i := 0; i < 2*k; i++ {
												out = append(out, fmt.Sprintf("%s - %d -", head, i))
											}
										}
										if ret == "F" && perr {
											out = append(out, head+" - - 0", head+" - - 1")
										}
									}
								}
							}
						}
					}
				}
			}
		}
	}
	for _, req := range []string{"N", "F1"} {
		for _, k := range []int{1, 2, 3, 5} {
			out = append(out, fmt.Sprintf("hookn %s %d", req, k))
		}
	}
	out = append(out, genKinds(r, tier)...)
	out = append(out, genConc(r, tier)...)
	out = append(out, genSecs(r, tier)...)
	out = append(out, genSets(r, tier)...)
	out = append(out, genOvl(r, tier)...)
	out = append(out, genNm(r, tier)...)
	return out
}

func main() {
	vh.Main(gen, func(cases []string) []string {
		out := make([]string, len(cases))
		for i, c := range cases {
			out[i] = runCase(c)
		}
		return out
	})
}
