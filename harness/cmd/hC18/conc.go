package main

// conc <via h|r> <mode N|F> <cfg S|P> <def -|V> <G> <K> <own 0|1>
//
// Products created CONCURRENTLY: G goroutines, released together, each create K products of one
// registered plugin constructor that takes a config -
//
//	mode N: K creations of a component each (Registry.New; via h: config.Decode of the section into
//	        a field of plugin type, each goroutine into its own holder),
//	mode F: K calls of a factory made from the plugin constructor (own=0: one factory shared by all
//	        goroutines, as the engine shares the gun factory between its instances; own=1: every
//	        goroutine first makes its own factory, concurrently with the others).
//
// via h: the real way - core/register + pluginconfig hooks + config.Decode (the fill is the real
// decoder, user setting b = 7, or 1000+g when own=1); via r: a fresh plugin.Registry with a fill
// that writes b (same values) and c = 1.  The user code is re-entrant (atomic default counter, no
// shared log): what is observed is the config each product was built from.
//
// Observation: `conc <rec> ...`, one record per product in (goroutine, call) order: `a,b,c` the
// config the constructor received (pointer configs: `a,b,c#id`, identities numbered by first
// appearance, all products kept alive), `E` an error, `X` no / a foreign product.
// Every product must be built from ITS OWN config: a fresh default (a = 100+n, every n at most
// once) overlaid by the settings of its own section - whatever the interleaving.

import (
	"fmt"
	"reflect"
	"strconv"
	"strings"
	"sync"
	"sync/atomic"

	"github.com/yandex/pandora/core/config"
	"github.com/yandex/pandora/core/plugin"
	"github.com/yandex/pandora/core/plugin/pluginconfig"
	"github.com/yandex/pandora/core/register"

	"verifharness/internal/vh"
)

// the config of the concurrent cases (no validation tag: the default's a = 100+n is not bounded)
type CCfg struct {
	A int `config:"a"`
	B int `config:"b"`
	C int `config:"c"`
}

type CImpl struct {
	cfg CCfg
	ptr *CCfg
}

func (*CImpl) Do() {}

func runConc(f []string) string {
	if len(f) != 8 {
		return "unknown-case"
	}
	via, mode, cfg, def := f[1], f[2], f[3], f[4]
	G, _ := strconv.Atoi(f[5])
	K, _ := strconv.Atoi(f[6])
	own := f[7] == "1"
	if G < 1 || K < 1 || G*K > 1<<20 {
		return "unknown-case"
	}
	var nDef int64
	var ctor, dflt interface{}
	if cfg == "P" {
		ctor = func(c *CCfg) (Iface, error) {
			if c == nil {
				return &CImpl{cfg: CCfg{A: -1, B: -1, C: -1}}, nil
			}
			return &CImpl{cfg: *c, ptr: c}, nil
		}
		dflt = func() *CCfg { n := int(atomic.AddInt64(&nDef, 1)) - 1; return &CCfg{A: 100 + n, B: 200 + n} }
	} else {
		ctor = func(c CCfg) (Iface, error) { return &CImpl{cfg: c}, nil }
		dflt = func() CCfg { n := int(atomic.AddInt64(&nDef, 1)) - 1; return CCfg{A: 100 + n, B: 200 + n} }
	}
	args := []interface{}{}
	if def != "-" {
		args = append(args, dflt)
	}
	userB := func(g int) int {
		if own {
			return 1000 + g
		}
		return 7
	}
	// how goroutine g makes a component / a factory
	var newOne func(g int) (Iface, error)
	var newFac func(g int) (func() (Iface, error), error)
	if via == "h" {
		if !hooksAdded {
			pluginconfig.AddHooks()
			hooksAdded = true
		}
		hookSeq++
		name := fmt.Sprintf("cc18-%d", hookSeq)
		register.RegisterPtr((*Iface)(nil), name, ctor, args...)
		mkdata := func(g int) map[string]interface{} {
			return map[string]interface{}{"x": map[string]interface{}{"type": name, "b": userB(g)}}
		}
		// the hooks are compiled by the first Decode (the engine decodes its config before it starts instances)
		var warm struct {
			X map[string]interface{} `config:"x"`
		}
		_ = config.Decode(map[string]interface{}{"x": map[string]interface{}{}}, &warm)
		newOne = func(g int) (Iface, error) {
			var h struct {
				X Iface `config:"x"`
			}
			err := config.Decode(mkdata(g), &h)
			return h.X, err
		}
		newFac = func(g int) (func() (Iface, error), error) {
			var h struct {
				X func() (Iface, error) `config:"x"`
			}
			err := config.Decode(mkdata(g), &h)
			return h.X, err
		}
	} else {
		reg := plugin.NewRegistry()
		reg.Register(ifaceT, "x", ctor, args...)
		fill := func(g int) func(interface{}) error {
			return func(conf interface{}) error {
				p, ok := conf.(*CCfg)
				if !ok || p == nil {
					return fmt.Errorf("fill: unexpected target %T", conf)
				}
				p.B = userB(g)
				p.C = 1
				return nil
			}
		}
		newOne = func(g int) (Iface, error) {
			p, err := reg.New(ifaceT, "x", fill(g))
			if err != nil {
				return nil, err
			}
			i, _ := p.(Iface)
			return i, nil
		}
		newFac = func(g int) (func() (Iface, error), error) {
			fac, err := reg.NewFactory(reflect.TypeOf((func() (Iface, error))(nil)), "x", fill(g))
			if err != nil {
				return nil, err
			}
			ff, _ := fac.(func() (Iface, error))
			return ff, nil
		}
	}
	var shared func() (Iface, error)
	if mode == "F" && !own {
		var err error
		shared, err = newFac(0)
		if err != nil || shared == nil {
			return "conc creation-failed"
		}
	}
	type res struct {
		p   Iface
		err error
	}
	results := make([][]res, G)
	var ready, done sync.WaitGroup
	start := make(chan struct{})
	ready.Add(G)
	done.Add(G)
	for g := 0; g < G; g++ {
		results[g] = make([]res, K)
		go func(g int) {
			defer done.Done()
			out := results[g]
			defer func() {
				if v := recover(); v != nil {
					for j := range out {
						if out[j].p == nil && out[j].err == nil {
							out[j].err = fmt.Errorf("panic: %v", v)
						}
					}
				}
			}()
			ready.Done()
			<-start
			fac := shared
			if mode == "F" && own {
				var err error
				fac, err = newFac(g)
				if err != nil || fac == nil {
					for j := range out {
						out[j].err = fmt.Errorf("creation failed: %v", err)
					}
					return
				}
			}
			for j := 0; j < K; j++ {
				if mode == "N" {
					out[j].p, out[j].err = newOne(g)
				} else {
					out[j].p, out[j].err = fac()
				}
			}
		}(g)
	}
	ready.Wait()
	close(start)
	done.Wait()
	var sb strings.Builder
	sb.WriteString("conc")
	ids := map[*CCfg]int{}
	for g := 0; g < G; g++ {
		for j := 0; j < K; j++ {
			r := results[g][j]
			im, ok := r.p.(*CImpl)
			switch {
			case r.err != nil:
				sb.WriteString(" E")
			case !ok || im == nil:
				sb.WriteString(" X")
			default:
				fmt.Fprintf(&sb, " %d,%d,%d", im.cfg.A, im.cfg.B, im.cfg.C)
				if im.ptr != nil {
					id, known := ids[im.ptr]
					if !known {
						id = len(ids)
						ids[im.ptr] = id
					}
					fmt.Fprintf(&sb, "#%d", id)
				}
			}
		}
	}
	return sb.String()
}

func genConc(r *vh.Rand, tier string) []string {
	var out []string
	reps := 2
	if tier == "thorough" {
		reps = 8
	}
	for rep := 0; rep < reps; rep++ {
		for _, via := range []string{"h", "r"} {
			for _, mode := range []string{"N", "F"} {
				for _, cfg := range []string{"S", "P"} {
					for _, def := range []string{"-", "V"} {
						for _, own := range []string{"0", "1"} {
							G := r.PickInt([]int{2, 4, 8, 8, 16})
							// G*K stays below ~500 (the specification's pairwise checks run on unary numbers)
							K := r.Range(20, 60)
							if G == 16 {
								K = r.Range(12, 30)
							}
							out = append(out, fmt.Sprintf("conc %s %s %s %s %d %d %s", via, mode, cfg, def, G, K, own))
						}
					}
				}
			}
		}
	}
	return out
}
