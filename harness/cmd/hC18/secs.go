package main

// sec <form S|U|X> <t0t1t2> <b 0|1> <k 0|1> <req N|F1> <cfg S|P> <def -|V>
//
// Config sections as the config file gives them to the hooks: a map[string]interface{} (S), a
// map[interface{}]interface{} (U, what yaml produces) or something that is no map (X); under each of
// the spellings type / Type / tYpE of the plugin-name key: nothing (-), the registered name (s), a name
// nobody registered (u), a value that is no string (n); optionally the setting b: 7; optionally (U) a
// key that is no string.  Every wrong section must reach the caller as the error result of the
// creation (component form: the Decode; factory form: the Decode that makes the factory) with
// nothing constructed and the default-config function not even invoked; a right one yields
// products built from the default overlaid by the section.
//
// reg <what notype|noname|ptrtype> <req N|F0|F1>
//
// Registry.New / NewFactory for a plugin type nothing is registered for / for a name that is not
// registered: error result, nothing runs.  ptrtype: register.RegisterPtr handed a value that is
// not a pointer (plugin.PtrType) panics at registration.

import (
	"fmt"
	"reflect"
	"strings"

	"github.com/yandex/pandora/core/config"
	"github.com/yandex/pandora/core/plugin"
	"github.com/yandex/pandora/core/plugin/pluginconfig"
	"github.com/yandex/pandora/core/register"

	"verifharness/internal/vh"
)

var typeSpellings = []string{"type", "Type", "tYpE"}

func runSec(f []string) string {
	if len(f) != 8 || len(f[2]) != 3 {
		return "unknown-case"
	}
	form, tys, req, cfg, def := f[1], f[2], f[5], f[6], f[7]
	if !hooksAdded {
		pluginconfig.AddHooks()
		hooksAdded = true
	}
	hookSeq++
	name := fmt.Sprintf("sc18-%d", hookSeq)
	r := &rec{cerr: true, ffail: map[int]bool{}, cfail: map[int]bool{}, pfail: map[int]bool{}}
	args := []interface{}{}
	if def != "-" {
		args = append(args, r.defaultFn(cfg, def))
	}
	register.RegisterPtr((*Iface)(nil), name, r.constructor("P", cfg, implT), args...)
	mksec := func() interface{} {
		if form == "X" {
			return "oops"
		}
		s := map[string]interface{}{}
		for i, sp := range typeSpellings {
			switch tys[i] {
			case 's':
				s[sp] = name
			case 'u':
				s[sp] = "no-such-" + name
			case 'n':
				s[sp] = 5
			}
		}
		if f[3] == "1" {
			s["b"] = 7
		}
		if form == "S" {
			return s
		}
		u := map[interface{}]interface{}{}
		for k, v := range s {
			u[k] = v
		}
		if f[4] == "1" {
			u[5] = 1
		}
		return u
	}
	mkdata := func() map[string]interface{} { return map[string]interface{}{"x": mksec()} }
	var sb strings.Builder
	if req == "N" {
		out := guarded(func() string {
			var h struct {
				X Iface `config:"x"`
			}
			if err := config.Decode(mkdata(), &h); err != nil {
				return "err:config"
			}
			return describe(h.X, nil)
		})
		return "new | " + r.take() + " => " + out
	}
	var h struct {
		X func() (Iface, error) `config:"x"`
	}
	cout := guarded(func() string {
		if err := config.Decode(mkdata(), &h); err != nil {
			return "err:config"
		}
		if h.X == nil {
			return "err:nofactory"
		}
		return "ok"
	})
	sb.WriteString("fac " + r.take() + " => " + cout)
	if cout != "ok" {
		return sb.String()
	}
	for i := 0; i < 2; i++ {
		out := guarded(func() string {
			p, err := h.X()
			if err != nil {
				return "err:config"
			}
			return describe(p, nil)
		})
		sb.WriteString(" | " + r.take() + " => " + out)
	}
	return sb.String()
}

func runReg(f []string) string {
	if len(f) != 3 {
		return "unknown-case"
	}
	what, req := f[1], f[2]
	r := &rec{cerr: true, ffail: map[int]bool{}, cfail: map[int]bool{}, pfail: map[int]bool{}}
	if what == "ptrtype" {
		hookSeq++
		panicked := false
		func() {
			defer func() {
				if recover() != nil {
					panicked = true
				}
			}()
			register.RegisterPtr(Impl{}, fmt.Sprintf("pc18-%d", hookSeq), r.constructor("P", "P", implT))
		}()
		if panicked {
			return "regpanic"
		}
		return "registered"
	}
	if what == "setdefault" {
		// plugin.SetDefaultRegistry: the package-level Register / New work on the registry that was set
		old := plugin.DefaultRegistry()
		fresh := plugin.NewRegistry()
		plugin.SetDefaultRegistry(fresh)
		defer plugin.SetDefaultRegistry(old)
		plugin.Register(ifaceT, "x", r.constructor("P", "P", implT), r.defaultFn("P", "V"))
		out := guarded(func() string { return describe(plugin.New(ifaceT, "x", r.fill)) })
		res := "new | " + r.take() + " => " + out
		oldOut := guarded(func() string {
			if _, err := old.New(ifaceT, "x"); err != nil {
				return "err:lookup"
			}
			return "ok"
		})
		return res + " ; default=" + vh.B(plugin.DefaultRegistry() == fresh) + " old=" + oldOut
	}
	reg := plugin.NewRegistry()
	if what == "noname" {
		reg.Register(ifaceT, "x", r.constructor("P", "P", implT), r.defaultFn("P", "V"))
	}
	if req == "N" {
		out := guarded(func() string {
			p, err := reg.New(ifaceT, "y", r.fill)
			if err != nil {
				return "err:lookup"
			}
			return describe(p, nil)
		})
		return "new | " + r.take() + " => " + out
	}
	out := guarded(func() string {
		fac, err := reg.NewFactory(factoryType(req), "y", r.fill)
		if err != nil {
			return "err:lookup"
		}
		return fmt.Sprintf("ok:%T", fac)
	})
	return "fac " + r.take() + " => " + out
}

func genSecs(r *vh.Rand, tier string) []string {
	var out []string
	// every combination of the three spellings (4^3), for both map forms; b, request, config kind and
	// default variant drawn per case; plus the non-string key and the not-a-map sections
	vals := []byte{'-', 's', 'u', 'n'}
	reps := 1
	if tier == "thorough" {
		reps = 4
	}
	for rep := 0; rep < reps; rep++ {
		for _, form := range []string{"S", "U"} {
			for a := 0; a < 4; a++ {
				for b := 0; b < 4; b++ {
					for c := 0; c < 4; c++ {
						tys := string([]byte{vals[a], vals[b], vals[c]})
						for _, req := range []string{"N", "F1"} {
							out = append(out, fmt.Sprintf("sec %s %s %s 0 %s %s %s", form, tys, vh.B(r.Bool()), req, r.Pick([]string{"S", "P"}), r.Pick([]string{"-", "V"})))
						}
					}
				}
			}
			if form == "U" {
				for _, tys := range []string{"s--", "-s-", "---", "su-"} {
					for _, req := range []string{"N", "F1"} {
						out = append(out, fmt.Sprintf("sec U %s %s 1 %s %s %s", tys, vh.B(r.Bool()), req, r.Pick([]string{"S", "P"}), r.Pick([]string{"-", "V"})))
					}
				}
			}
		}
		for _, req := range []string{"N", "F1"} {
			out = append(out, fmt.Sprintf("sec X --- 0 0 %s %s %s", req, r.Pick([]string{"S", "P"}), r.Pick([]string{"-", "V"})))
		}
	}
	for _, what := range []string{"notype", "noname"} {
		for _, req := range []string{"N", "F0", "F1", "G0", "G1"} {
			out = append(out, fmt.Sprintf("reg %s %s", what, req))
		}
	}
	out = append(out, "reg ptrtype N", "reg setdefault N")
	for _, t := range goTypeNames {
		for _, registered := range []string{"0", "1"} {
			for _, name := range []string{"x", "y"} {
				out = append(out, fmt.Sprintf("ftype %s %s %s", t, registered, name))
			}
		}
	}
	return out
}

// ftype <type> <registered 0|1> <name x|y>
//
// Which Go types the registry takes as requested factory forms: plugin.FactoryPluginType,
// Registry.LookupFactory and Registry.NewFactory for func types of every arity / result kind, on a
// registry that holds (Iface, "x") or nothing.
type Other interface{ Other() }

var goTypeNames = []string{"f0", "f1", "g0", "g1", "impl", "int2", "in1", "in1e", "three", "none", "notfunc", "iface", "err0", "err1", "other0", "other1", "errfirst"}

var goTypes = map[string]reflect.Type{
	"f0":       reflect.TypeOf((func() Iface)(nil)),
	"f1":       reflect.TypeOf((func() (Iface, error))(nil)),
	"g0":       namedF0T,
	"g1":       namedF1T,
	"impl":     reflect.TypeOf((func() *Impl)(nil)),
	"int2":     reflect.TypeOf((func() (Iface, int))(nil)),
	"in1":      reflect.TypeOf((func(int) Iface)(nil)),
	"in1e":     reflect.TypeOf((func(int) (Iface, error))(nil)),
	"three":    reflect.TypeOf((func() (Iface, error, error))(nil)),
	"none":     reflect.TypeOf((func())(nil)),
	"notfunc":  reflect.TypeOf(0),
	"iface":    ifaceT,
	"err0":     reflect.TypeOf((func() error)(nil)),
	"err1":     reflect.TypeOf((func() (error, error))(nil)),
	"other0":   reflect.TypeOf((func() Other)(nil)),
	"other1":   reflect.TypeOf((func() (Other, error))(nil)),
	"errfirst": reflect.TypeOf((func() (error, Iface))(nil)),
}

func runFtype(f []string) string {
	if len(f) != 4 {
		return "unknown-case"
	}
	t, ok := goTypes[f[1]]
	if !ok {
		return "unknown-case"
	}
	r := &rec{cerr: true, ffail: map[int]bool{}, cfail: map[int]bool{}, pfail: map[int]bool{}}
	reg := plugin.NewRegistry()
	if f[2] == "1" {
		reg.Register(ifaceT, "x", r.constructor("P", "P", implT), r.defaultFn("P", "V"))
	}
	fpt := guarded(func() string {
		pt, ok := plugin.FactoryPluginType(t)
		if !ok {
			if pt != nil {
				return "0:?"
			}
			return "0:-"
		}
		switch pt {
		case ifaceT:
			return "1:I"
		case errT:
			return "1:E"
		case reflect.TypeOf((*Other)(nil)).Elem():
			return "1:O"
		}
		return "1:?"
	})
	lookup := guarded(func() string { return vh.B(reg.LookupFactory(t)) })
	nf := func() (out string) {
		defer func() {
			if recover() != nil {
				out = "panic"
			}
		}()
		fac, err := reg.NewFactory(t, f[3], r.fill)
		if err != nil {
			return "err:lookup"
		}
		if reflect.TypeOf(fac) != t {
			return fmt.Sprintf("wrongtype:%T", fac)
		}
		return "ok"
	}()
	return "fpt=" + fpt + " lookup=" + lookup + " nf=" + nf
}
