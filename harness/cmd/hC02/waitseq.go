package main

// seq cases with the op W (wait): self-starting schedules (no S) whose unlimited parts are SHORT
// (0.2 - 1 ms) and whose other parts take no or hardly any time.  W sleeps until every window of the
// profile has certainly closed (total duration of the tree + 3 ms after the op before it), so that
// what Left() / Next() answer afterwards no longer depends on the clock.  Before W only operations
// that do not look at a window are generated: Next calls for (at most) the tokens in front of the
// first unlimited part, Left only while some of those tokens remain.  This reaches the states "the
// part before an unknown-length part has been drained by fast-path Next calls, the window has
// elapsed, nobody has hit the slow path yet", at top level and with the lazily started composite as
// head of an enclosing one.

import (
	"fmt"
	"strings"

	"verifharness/internal/vh"
)

func genWaitSeq(r *vh.Rand, tier string) []string {
	var out []string
	n := 60
	if tier == "thorough" {
		n = 600
	}
	for i := 0; i < n; i++ {
		small := func() *node {
			switch r.Intn(6) {
			case 0:
				return &node{kind: "comp"}
			case 1:
				return &node{kind: "comp", kids: []*node{{kind: "once", p: []int64{int64(r.Range(0, 2))}}, {kind: "once", p: []int64{int64(r.Range(0, 2))}}}}
			case 2:
				return &node{kind: "const", p: []int64{int64(r.PickInt([]int{0, 2000000})), 1000000}}
			default:
				return &node{kind: "once", p: []int64{int64(r.Range(0, 3))}}
			}
		}
		shortUnl := func() *node { return &node{kind: "unl", p: []int64{int64(r.PickInt([]int{200000, 1000000}))}} }
		// the profile begins with a token: the first Next (always before W) starts the schedule
		inner := &node{kind: "comp", kids: []*node{{kind: "once", p: []int64{int64(r.Range(1, 3))}}}}
		for j, m := 0, r.Range(0, 2); j < m; j++ {
			inner.kids = append(inner.kids, small())
		}
		inner.kids = append(inner.kids, shortUnl())
		for j, m := 0, r.Range(0, 2); j < m; j++ {
			if r.Chance(1, 4) {
				inner.kids = append(inner.kids, shortUnl())
			} else {
				inner.kids = append(inner.kids, small())
			}
		}
		t := inner
		if r.Chance(1, 3) {
			// the lazily started composite is the head of an enclosing one
			t = &node{kind: "comp", kids: []*node{inner}}
			for j, m := 0, r.Range(1, 2); j < m; j++ {
				t.kids = append(t.kids, small())
			}
		}
		fillTables(t)
		before, _, _ := beforeWindow(t)
		tok, _ := countTokens(t)
		k := before
		if r.Chance(1, 4) {
			k = r.Range(1, before)
		}
		var b strings.Builder
		for d := 0; d < k; d++ {
			if r.Chance(1, 3) {
				b.WriteByte('L') // some token in front of the window remains: no window is looked at
			}
			b.WriteByte('N')
		}
		b.WriteByte('W')
		if r.Chance(3, 4) {
			b.WriteByte('L')
		}
		b.WriteString(genOps(r, tok-k+r.Range(1, 4), r.PickInt([]int{20, 40, 60})))
		out = append(out, fmt.Sprintf("seq %s %s", t, b.String()))
	}
	return out
}
