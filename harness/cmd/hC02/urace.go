package main

// urace cases: a schedule with ONE live unlimited part (its window stays open for the whole run),
// nobody calls Start, bare leaves.
//
//	urace <tree> <G> <per> <iters>
//
// iters times: build the schedule; G goroutines released together draw `per` tokens each, looking at
// Left() in between, while one more goroutine does nothing but poll Left() until they are done.  While
// a window is not closed the total is unknown: EVERY Left() must be negative, every Next() must hand
// out a token, the tokens of the finite parts before the window come exactly once (printed relative to
// the smallest time) and the tokens of the window are max(clock reading, start of the window).  Observation (all iterations must agree): tok=<finite tokens> nu=<window tokens>
// lbad=<Left results that were not negative> nok=<failed Next> uok=<0|1> mono=<0|1> cb=<callbacks>.

import (
	"fmt"
	"runtime"
	"sort"
	"strconv"
	"strings"
	"sync"
	"sync/atomic"
	"time"

	"github.com/yandex/pandora/core/coreutil"

	"verifharness/internal/vh"
)

// finite tokens and duration of the parts before the first unlimited part
func beforeWindow(n *node) (tok int, dur int64, found bool) {
	switch n.kind {
	case "unl":
		return 0, 0, true
	case "comp":
		for _, k := range n.kids {
			t, d, f := beforeWindow(k)
			tok += t
			dur += d
			if f {
				return tok, dur, true
			}
		}
		return tok, dur, false
	}
	t, _ := countTokens(n)
	return t, durOf(n), false
}

func runURace(f []string) string {
	tree := parseTree(f[1])
	g, _ := strconv.Atoi(f[2])
	per, _ := strconv.Atoi(f[3])
	iters, _ := strconv.Atoi(f[4])
	finite, fdur, _ := beforeWindow(tree)
	var first string
	for it := 0; it < iters; it++ {
		b := &built{log: &recLog{}, tblOK: true, bare: true}
		func() {
			defer func() {
				if e := recover(); e != nil {
					b.ctorPanic = panicKind(e)
				}
			}()
			b.top = b.build(tree, true)
		}()
		if b.ctorPanic != "" {
			return "Pctor:" + b.ctorPanic
		}
		var cb int32
		top := coreutil.NewCallbackOnFinishSchedule(b.top, func() { atomic.AddInt32(&cb, 1) })
		w0 := time.Now()
		var ready, running int32
		var lbad, nok int64
		var wg sync.WaitGroup
		var mu sync.Mutex
		var all []int64
		mono := true
		panicked := false
		guard := func() {
			if recover() != nil {
				mu.Lock()
				panicked = true
				mu.Unlock()
			}
		}
		atomic.StoreInt32(&running, int32(g))
		wg.Add(1)
		go func() { // the poller
			defer wg.Done()
			defer guard()
			atomic.AddInt32(&ready, 1)
			bad := int64(0)
			for n := 0; atomic.LoadInt32(&running) > 0; n++ {
				if top.Left() >= 0 {
					bad++
				}
				if n%4096 == 4095 {
					runtime.Gosched()
				}
			}
			atomic.AddInt64(&lbad, bad)
		}()
		for gi := 0; gi < g; gi++ {
			wg.Add(1)
			go func(gi int) {
				defer wg.Done()
				defer atomic.AddInt32(&running, -1)
				defer guard()
				atomic.AddInt32(&ready, 1)
				for spins := 0; atomic.LoadInt32(&ready) < int32(g+1); spins++ {
					if spins%1000 == 999 {
						runtime.Gosched()
					}
				}
				var mine []int64
				okMono := true
				last := int64(-1 << 62)
				bad, failed := int64(0), int64(0)
				for n := 0; n < per; n++ {
					if (n+gi)%2 == 0 && top.Left() >= 0 {
						bad++
					}
					tx, ok := top.Next()
					t := int64(tx.Sub(w0))
					if !ok {
						failed++
						continue
					}
					if t < last {
						okMono = false
					}
					last = t
					mine = append(mine, t)
				}
				atomic.AddInt64(&lbad, bad)
				atomic.AddInt64(&nok, failed)
				mu.Lock()
				all = append(all, mine...)
				mono = mono && okMono
				mu.Unlock()
			}(gi)
		}
		done := make(chan struct{})
		go func() { wg.Wait(); close(done) }()
		tm := time.NewTimer(5 * time.Second)
		select {
		case <-done:
			tm.Stop()
		case <-tm.C:
			return "hang"
		}
		if panicked {
			return "panic"
		}
		w1 := int64(time.Since(w0))
		sort.Slice(all, func(i, j int) bool { return all[i] < all[j] })
		// the smallest `finite` times are the tokens of the parts before the window
		nf := finite
		if nf > len(all) {
			nf = len(all)
		}
		base := int64(0)
		if len(all) > 0 {
			base = all[0]
		}
		p := make([]string, 0, nf)
		for _, t := range all[:nf] {
			p = append(p, strconv.FormatInt(t-base, 10))
		}
		ts := "-"
		if len(p) > 0 {
			ts = strings.Join(p, ",")
		}
		// window tokens: clock readings of this run, not before the start of the window
		uok := true
		for _, t := range all[nf:] {
			// max(clock reading, start of the window); the start may still lie ahead of the clock
			if t < 0 || t > w1+fdur || (nf > 0 && t < base+fdur) {
				uok = false
			}
		}
		cur := fmt.Sprintf("tok=%s nu=%d lbad=%d nok=%d uok=%s mono=%s cb=%d", ts, len(all)-nf,
			min64(atomic.LoadInt64(&lbad), 1), atomic.LoadInt64(&nok), vh.B(uok), vh.B(mono), atomic.LoadInt32(&cb))
		if it == 0 {
			first = cur
		} else if cur != first {
			return "var " + first + " VERSUS " + cur
		}
	}
	return first
}

func min64(a, b int64) int64 {
	if a < b {
		return a
	}
	return b
}

func genURace(r *vh.Rand, tier string) []string {
	var out []string
	n, iters := 10, 3000
	if tier == "thorough" {
		n, iters = 40, 15000
	}
	unl := func() *node { return &node{kind: "unl", p: []int64{live}} }
	once := func(k int) *node { return &node{kind: "once", p: []int64{int64(k)}} }
	for i := 0; i < n; i++ {
		var t *node
		switch i % 5 {
		case 0:
			t = unl() // e.g. a pool's shared `rps: {type: unlimited}`
		case 1:
			t = &node{kind: "comp", kids: []*node{unl(), once(r.Range(1, 3))}}
		case 2:
			t = &node{kind: "comp", kids: []*node{once(r.Range(1, 3)), unl()}}
		case 3:
			t = &node{kind: "comp", kids: []*node{{kind: "comp", kids: []*node{unl(), once(1)}}, once(2)}}
		default:
			t = &node{kind: "comp", kids: []*node{once(r.Range(0, 2)), {kind: "const", p: []int64{int64(r.PickInt([]int{0, 2000000})), 1000000}}, unl(), once(1)}}
		}
		fillTables(t)
		fin, _, _ := beforeWindow(t)
		g := r.Range(1, 3)
		per := (fin+g-1)/g + r.Range(1, 3)
		out = append(out, fmt.Sprintf("urace %s %d %d %d", t, g, per, iters))
	}
	return out
}
