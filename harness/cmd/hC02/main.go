// hC02: correspondence harness for property C02 (schedule token contract).
//
// Case kinds (fields separated by one blank; tree syntax in tree.go):
//
//	seq  <tree> <ops>            one caller; ops over S (Start(t0)), N (Next), L (Left); the top
//	                             schedule is wrapped by coreutil.NewCallbackOnFinishSchedule
//	conc <tree> <S|-> <plan>     plan = op strings (N/L) of the goroutines separated by '/'
//
// Clock discipline: an explicit start is t0 = now - PAST (PAST = 1e15 ns), unlimited parts have
// either a short duration (<= 1e12: closed long ago relative to t0) or LIVE = 1e17 (never closes
// during the run), so every outcome is independent of the real clock; times are printed relative
// to t0; a token of a live unlimited part is printed as "u".  Without S the schedule self-starts
// at the first Next and times are printed relative to the smallest returned time.
//
// seq observation:  tbl=<0|1> then one field per op:  S | N<t>:<ok> | Nu | L<k> | P<kind>, a '!'
// appended when the finish callback fired during that op.
// conc observation: summary fields, " | ", then the event log (see logText).
package main

import (
	"fmt"
	"math"
	"runtime"
	"sort"
	"strconv"
	"strings"
	"sync"
	"sync/atomic"
	"time"

	"github.com/yandex/pandora/core"
	"github.com/yandex/pandora/core/coreutil"

	"verifharness/internal/vh"
)

const (
	past = int64(1e15)
	live = int64(1e17)
)

func curG() int {
	var buf [64]byte
	n := runtime.Stack(buf[:], false)
	// "goroutine 123 ["
	s := string(buf[10:n])
	if i := strings.IndexByte(s, ' '); i > 0 {
		id, _ := strconv.Atoi(s[:i])
		if v, ok := gidOf.Load(id); ok {
			return v.(int)
		}
	}
	return -1
}

func regG(idx int) func() {
	var buf [64]byte
	n := runtime.Stack(buf[:], false)
	s := string(buf[10:n])
	id, _ := strconv.Atoi(s[:strings.IndexByte(s, ' ')])
	gidOf.Store(id, idx)
	return func() { gidOf.Delete(id) }
}

func panicKind(r interface{}) string {
	s := fmt.Sprint(r)
	switch {
	case strings.Contains(s, "already started"):
		return "started"
	case strings.Contains(s, "not finished"):
		return "notfinished"
	case strings.Contains(s, "index out of range"):
		return "index"
	}
	return "other"
}

// ---------------------------------------------------------------- seq

func runSeq(f []string) string {
	tree := parseTree(f[1])
	ops := f[2]
	defer regG(0)()
	b := buildTree(tree)
	if b.ctorPanic != "" {
		return "tbl=" + vh.B(b.tblOK) + " Pctor:" + b.ctorPanic
	}
	var cb int32
	top := coreutil.NewCallbackOnFinishSchedule(b.top, func() { atomic.AddInt32(&cb, 1) })
	explicit := strings.Contains(ops, "S")
	wall0 := time.Now()
	t0 := wall0.Add(-time.Duration(past))
	type r struct {
		kind byte
		t    time.Time
		ok   bool
		u    bool
		k    int
		pk   string
		cb   bool
	}
	var rs []r
	lastUnl := false
	b.log.record = true
	for i := 0; i < len(ops); i++ {
		before := atomic.LoadInt32(&cb)
		var x r
		x.kind = ops[i]
		func() {
			defer func() {
				if e := recover(); e != nil {
					x.kind = 'P'
					x.pk = panicKind(e)
				}
			}()
			switch ops[i] {
			case 'S':
				top.Start(t0)
			case 'N':
				nlog := len(b.log.ev)
				w1 := time.Now()
				x.t, x.ok = top.Next()
				w2 := time.Now()
				// which leaf produced the result: the last leaf-level Next event of this call
				lastUnl = false
				for j := len(b.log.ev) - 1; j >= nlog; j-- {
					if b.log.ev[j].op == 'N' {
						lastUnl = b.leaves[b.log.ev[j].leaf].unl
						break
					}
				}
				// a token "now" of an unlimited part (its start time, when still ahead of the clock, is
				// an ordinary time)
				if x.ok && lastUnl && !x.t.Before(w1) && !x.t.After(w2) {
					x.u = true
				}
			case 'L':
				x.k = top.Left()
			case 'W':
				// every (short) window of the profile has closed after this, see waitseq.go
				time.Sleep(time.Duration(durOf(tree)) + 3*time.Millisecond)
			}
		}()
		x.cb = atomic.LoadInt32(&cb) != before
		rs = append(rs, x)
		if x.kind == 'P' {
			break
		}
	}
	base := t0
	if !explicit {
		first := true
		for _, x := range rs {
			if x.kind == 'N' && !x.u && (first || x.t.Before(base)) {
				base = x.t
				first = false
			}
		}
	}
	out := []string{"tbl=" + vh.B(b.tblOK)}
	for _, x := range rs {
		var s string
		switch x.kind {
		case 'S':
			s = "S"
		case 'N':
			if x.u {
				s = "Nu" + x.pk
			} else {
				s = fmt.Sprintf("N%d:%s", int64(x.t.Sub(base)), vh.B(x.ok))
			}
		case 'L':
			s = fmt.Sprintf("L%d", x.k)
		case 'W':
			s = "W"
		case 'P':
			s = "P:" + x.pk
		}
		if x.cb {
			s += "!"
		}
		out = append(out, s)
	}
	return strings.Join(out, " ")
}

// ---------------------------------------------------------------- conc

func logText(ev []event, base int64) string {
	var b strings.Builder
	for i, e := range ev {
		if i > 0 {
			b.WriteByte(' ')
		}
		switch e.op {
		case 'N':
			fmt.Fprintf(&b, "%d.%d.N.%d:%s", e.g, e.leaf, e.t-base, vh.B(e.ok))
		case 'L':
			fmt.Fprintf(&b, "%d.%d.L.%d", e.g, e.leaf, e.t)
		case 'S':
			fmt.Fprintf(&b, "%d.%d.S.%d", e.g, e.leaf, e.t-base)
		case 'n':
			fmt.Fprintf(&b, "%d.c.N", e.g)
		case 'l':
			fmt.Fprintf(&b, "%d.c.L", e.g)
		case 'r':
			fmt.Fprintf(&b, "%d.r.N.%d:%s", e.g, e.t-base, vh.B(e.ok))
		case 'q':
			fmt.Fprintf(&b, "%d.r.L.%d", e.g, e.t)
		case 'p':
			fmt.Fprintf(&b, "%d.r.P", e.g)
		}
	}
	return b.String()
}

func runConc(f []string) string {
	tree := parseTree(f[1])
	explicit := f[2] == "S"
	plans := strings.Split(f[3], "/")
	defer regG(len(plans))()
	b := buildTree(tree)
	if b.ctorPanic != "" {
		return "tbl=" + vh.B(b.tblOK) + " Pctor:" + b.ctorPanic
	}
	var cb int32
	top := coreutil.NewCallbackOnFinishSchedule(b.top, func() { atomic.AddInt32(&cb, 1) })
	lg := b.log
	var yc uint64
	lg.yield = func() {
		if atomic.AddUint64(&yc, 0x9E3779B97F4A7C15)>>61 < 3 {
			runtime.Gosched()
		}
	}
	wall0 := time.Now()
	t0 := wall0.Add(-time.Duration(past))
	lg.record = true
	panicked := int32(0)
	if explicit {
		func() {
			defer func() {
				if recover() != nil {
					atomic.StoreInt32(&panicked, 1)
				}
			}()
			top.Start(t0)
		}()
	}
	add := func(e event) {
		lg.mu.Lock()
		lg.ev = append(lg.ev, e)
		lg.mu.Unlock()
	}
	var wg sync.WaitGroup
	start := make(chan struct{})
	for gi, plan := range plans {
		wg.Add(1)
		go func(gi int, plan string) {
			defer wg.Done()
			defer regG(gi)()
			<-start
			for i := 0; i < len(plan); i++ {
				stop := false
				func() {
					defer func() {
						if recover() != nil {
							atomic.StoreInt32(&panicked, 1)
							add(event{g: gi, leaf: -1, op: 'p'})
							stop = true
						}
					}()
					if plan[i] == 'N' {
						add(event{g: gi, leaf: -1, op: 'n'})
						tx, ok := top.Next()
						add(event{g: gi, leaf: -1, op: 'r', t: tx.UnixNano(), ok: ok})
					} else {
						add(event{g: gi, leaf: -1, op: 'l'})
						k := top.Left()
						add(event{g: gi, leaf: -1, op: 'q', t: int64(k)})
					}
				}()
				if stop {
					return
				}
			}
		}(gi, plan)
	}
	close(start)
	done := make(chan struct{})
	go func() { wg.Wait(); close(done) }()
	// a panic inside composite.go's write-lock section leaves the lock held: the other callers
	// then block for ever; do not wait for them longer than needed
	deadline := time.After(5 * time.Second)
	tick := time.NewTicker(20 * time.Millisecond)
	defer tick.Stop()
	hung := false
wait:
	for {
		select {
		case <-done:
			break wait
		case <-tick.C:
			if atomic.LoadInt32(&panicked) == 1 {
				time.Sleep(50 * time.Millisecond)
				hung = true
				break wait
			}
		case <-deadline:
			return "hang"
		}
	}
	lg.mu.Lock()
	lg.record = false
	evs := append([]event(nil), lg.ev...)
	lg.mu.Unlock()
	lq := -99
	if !hung && atomic.LoadInt32(&panicked) == 0 {
		func() {
			defer func() {
				if recover() != nil {
					atomic.StoreInt32(&panicked, 1)
				}
			}()
			lq = top.Left()
		}()
	}
	// which leaf produced the value a goroutine returned: its last leaf-level Next before the return
	wallEnd := time.Now().UnixNano()
	lastLeaf := map[int]int{}
	var toks []int64
	nu := 0
	uok := true
	mono := true
	stable := true
	fin := int64(0)
	haveFin := false
	lastT := map[int]int64{}
	haveT := map[int]bool{}
	ended := map[int]bool{}
	minT := int64(0)
	haveMin := false
	type ret struct {
		g  int
		t  int64
		ok bool
		u  bool
	}
	var rets []ret
	for _, e := range evs {
		switch e.op {
		case 'n':
			lastLeaf[e.g] = -1
		case 'N':
			lastLeaf[e.g] = e.leaf
		case 'r':
			u := e.ok && lastLeaf[e.g] >= 0 && b.leaves[lastLeaf[e.g]].unl && e.t >= wall0.UnixNano() && e.t <= wallEnd
			rets = append(rets, ret{e.g, e.t, e.ok, u})
			if !u && (!haveMin || e.t < minT) {
				minT, haveMin = e.t, true
			}
		}
	}
	base := t0.UnixNano()
	if !explicit {
		base = minT
	}
	w0, w1 := wall0.UnixNano(), time.Now().UnixNano()
	for _, r := range rets {
		if haveT[r.g] && r.t < lastT[r.g] {
			mono = false
		}
		lastT[r.g], haveT[r.g] = r.t, true
		if r.ok {
			if ended[r.g] {
				stable = false
			}
			if r.u {
				nu++
				if r.t < w0 || r.t > w1 {
					uok = false
				}
			} else {
				toks = append(toks, r.t-base)
			}
		} else {
			ended[r.g] = true
			if haveFin && fin != r.t-base {
				stable = false
			}
			fin, haveFin = r.t-base, true
		}
	}
	sort.Slice(toks, func(i, j int) bool { return toks[i] < toks[j] })
	ts := "-"
	if len(toks) > 0 {
		p := make([]string, len(toks))
		for i, t := range toks {
			p[i] = strconv.FormatInt(t, 10)
		}
		ts = strings.Join(p, ",")
	}
	fs := "-"
	if haveFin {
		fs = strconv.FormatInt(fin, 10)
	}
	sum := fmt.Sprintf("tbl=%s tok=%s nu=%d uok=%s mono=%s fin=%s stable=%s lq=%d cb=%d pan=%d conf=1",
		vh.B(b.tblOK), ts, nu, vh.B(uok), vh.B(mono), fs, vh.B(stable), lq, atomic.LoadInt32(&cb), atomic.LoadInt32(&panicked))
	return sum + " | " + logText(evs, base)
}

// ---------------------------------------------------------------- race
//
//	race <tree> <G> <iters>   finite trees only; NO recording wrappers (the leaves race for real)
//
// iters times: build the schedule, Start(t0), release G goroutines together by a spinning barrier;
// each draws until !ok, polling Left() in between; then the quiescent Left().  Observation (all
// iterations must agree, else "var ..."): tok=<sorted token times> fin=<finish> lq=<final Left>
// cb=<callback count> lneg=<number of negative Left results> lover=<Left results above the total>
// mono=<0|1> stable=<0|1>.
//
//	srace <tree> <G> <iters>  the same WITHOUT Start: the schedule starts itself inside the first Next calls,
//	                          which overlap (this is how the engine uses schedules: it never calls Start).
//	                          The start instant S of an iteration is re-derived after the drain from the
//	                          quiescent finish time (finish - total duration of the tree); every time is printed
//	                          relative to S and the extra field start=<0|1> says whether S lies between the
//	                          creation of the schedule and the end of the drain.
func runRace(f []string) string {
	self := f[0] == "srace"
	totalDur := time.Duration(0)
	tree := parseTree(f[1])
	if self {
		totalDur = time.Duration(durOf(tree))
	}
	g, _ := strconv.Atoi(f[2])
	iters, _ := strconv.Atoi(f[3])
	total, _ := countTokens(tree)
	var first string
	same := true
	lneg, lover := 0, 0
	mono, stable := true, true
	for it := 0; it < iters; it++ {
		b := &built{log: &recLog{}, tblOK: true, bare: true}
		func() {
			defer func() {
				if e := recover(); e != nil {
					b.ctorPanic = panicKind(e)
				}
			}()
			b.top = b.build(tree, true)
		}()
		if b.ctorPanic != "" {
			return "Pctor:" + b.ctorPanic
		}
		var cb int32
		top := coreutil.NewCallbackOnFinishSchedule(b.top, func() { atomic.AddInt32(&cb, 1) })
		t0 := time.Now().Add(-time.Duration(past))
		if self {
			t0 = time.Now() // reference instant only; times are re-based on the real start below
		} else {
			top.Start(t0)
		}
		var ready int32
		var wg sync.WaitGroup
		var mu sync.Mutex
		var toks []int64
		fins := map[int64]bool{}
		panicked := false
		for gi := 0; gi < g; gi++ {
			wg.Add(1)
			go func(gi int) {
				defer wg.Done()
				defer func() {
					if recover() != nil {
						mu.Lock()
						panicked = true
						mu.Unlock()
					}
				}()
				atomic.AddInt32(&ready, 1)
				for spins := 0; atomic.LoadInt32(&ready) < int32(g); spins++ {
					if spins%1000 == 999 {
						runtime.Gosched()
					}
				}
				var mine []int64
				myNeg, myOver := 0, 0
				last := int64(-1 << 62)
				okMono, okStable := true, true
				ended := false
				for n := 0; n < total+3; n++ {
					tx, ok := top.Next()
					t := int64(tx.Sub(t0))
					if t < last {
						okMono = false
					}
					last = t
					if ok {
						if ended {
							okStable = false
						}
						mine = append(mine, t)
					} else {
						ended = true
						mu.Lock()
						fins[t] = true
						mu.Unlock()
					}
					if (n+gi)%2 == 0 {
						l := top.Left()
						if l < 0 {
							myNeg++
						}
						if l > total {
							myOver++
						}
					}
				}
				mu.Lock()
				toks = append(toks, mine...)
				lneg += myNeg
				lover += myOver
				mono = mono && okMono
				stable = stable && okStable
				mu.Unlock()
			}(gi)
		}
		done := make(chan struct{})
		go func() { wg.Wait(); close(done) }()
		tm := time.NewTimer(5 * time.Second)
		select {
		case <-done:
			tm.Stop()
		case <-tm.C:
			return "hang"
		}
		if panicked {
			return "panic"
		}
		lq := top.Left()
		startOK := true
		if self {
			// all goroutines are done: the finish time the schedule answers now, minus the total duration
			// of the profile, is the instant it was started at
			finq, _ := top.Next()
			wEnd := time.Now()
			st := finq.Add(-totalDur)
			startOK = !st.Before(t0) && !st.After(wEnd)
			off := int64(st.Sub(t0))
			rebase := func(d int64) int64 {
				if d == math.MinInt64 || d == math.MaxInt64 {
					return d // time.Time.Sub saturated: a time centuries away from the run
				}
				return d - off
			}
			for i := range toks {
				toks[i] = rebase(toks[i])
			}
			nf := map[int64]bool{}
			for k := range fins {
				nf[rebase(k)] = true
			}
			fins = nf
		}
		sort.Slice(toks, func(i, j int) bool { return toks[i] < toks[j] })
		p := make([]string, len(toks))
		for i, t := range toks {
			p[i] = strconv.FormatInt(t, 10)
		}
		ts := "-"
		if len(p) > 0 {
			ts = strings.Join(p, ",")
		}
		fs := "-"
		if len(fins) == 1 {
			for k := range fins {
				fs = strconv.FormatInt(k, 10)
			}
		} else if len(fins) > 1 {
			fs = "several"
		}
		cur := fmt.Sprintf("tok=%s fin=%s lq=%d cb=%d", ts, fs, lq, atomic.LoadInt32(&cb))
		if self {
			cur += " start=" + vh.B(startOK)
		}
		if it == 0 {
			first = cur
		} else if cur != first {
			same = false
			first = first + " VERSUS " + cur
			break
		}
	}
	if !same {
		return "var " + first
	}
	return fmt.Sprintf("%s lneg=%d lover=%d mono=%s stable=%s", first, lneg, lover, vh.B(mono), vh.B(stable))
}

func runCase(c string) (out string) {
	defer func() {
		if e := recover(); e != nil {
			out = "harness-panic:" + strings.ReplaceAll(fmt.Sprint(e), " ", "_")
		}
	}()
	f := strings.Split(c, " ")
	switch f[0] {
	case "seq":
		return runSeq(f)
	case "conc":
		return runConc(f)
	case "race", "srace":
		return runRace(f)
	case "fact":
		return runFact(f)
	case "urace":
		return runURace(f)
	}
	return "unknown-case"
}

// ---------------------------------------------------------------- generator

// Rate leaves (const / line).  Half of them come from the short pick lists the earlier rounds used; the
// other half are drawn from the whole domain the configuration accepts, over orders of magnitude: a
// duration between 1 ms and a good hour, a rate chosen so that the part holds 0-30 tokens, and for a line
// one of the shapes: rising from (almost) nothing, falling to (almost) nothing, a moderate slope either
// way, and ALMOST FLAT - from and to differ by 1-3 thousandths of an operation per second - which is the
// neighbourhood of the from == to special case of NewLine.  Whatever the parameters, the part's tokens
// must lie inside the part's window and never go back (the driver judges the drained table).
// At most longBudget parts of one tree take longer than 100 s (explicitly started cases put the start
// 1e15 ns into the past and need every part closed by now).
var longBudget int

func genWideDur(r *vh.Rand) int64 {
	ds := []int64{1000000, 10000000, 100000000, 1000000000, 10000000000, 100000000000,
		1000000000000, 3000000000000, 3600000000000, 4000000000000}
	n := len(ds)
	if longBudget <= 0 {
		n = 6
	}
	d := ds[r.Intn(n)]
	if d > 100000000000 {
		longBudget--
	}
	if r.Chance(1, 3) {
		d += int64(r.Intn(int(d/10) + 1)) // not only round values
	}
	return d
}

// milli-operations per second that give about tok tokens during d ns
func rateFor(tok int, d int64) int64 {
	return int64(float64(tok) * 1e9 / float64(d) * 1000)
}

func genConstLeaf(r *vh.Rand) *node {
	if r.Chance(1, 16) {
		// the constructor called with a negative rate (the configuration cannot say so, code can): NewConst
		// clamps it to zero - a part that takes its time and holds no token
		return &node{kind: "const", p: []int64{-int64(r.PickInt([]int{1, 500, 2000})), int64(r.PickInt([]int{1000000, 1000000000}))}}
	}
	if r.Bool() {
		ops := int64(r.PickInt([]int{0, 500, 1000, 2000, 3500, 10000}))
		dur := int64(r.PickInt([]int{1000000, 500000000, 1000000000, 2500000000, 3000000000}))
		return &node{kind: "const", p: []int64{ops, dur}}
	}
	d := genWideDur(r)
	return &node{kind: "const", p: []int64{rateFor(r.Intn(31), d), d}}
}

func genLineLeaf(r *vh.Rand) *node {
	if r.Bool() {
		from := int64(r.PickInt([]int{0, 1000, 2000, 5000}))
		to := int64(r.PickInt([]int{0, 1000, 4000, 8000}))
		dur := int64(r.PickInt([]int{1000000000, 2000000000, 3000000000}))
		return &node{kind: "line", p: []int64{from, to, dur}}
	}
	d := genWideDur(r)
	base := rateFor(r.Range(1, 30), d) // mean rate
	var from, to int64
	switch r.Intn(6) {
	case 0: // rising from nothing
		from, to = int64(r.Intn(2)), 2*base
	case 1: // falling to nothing
		from, to = 2*base, int64(r.Intn(2))
	case 2, 3: // moderate slope
		k := int64(r.Range(2, 10))
		from, to = base-base/k, base+base/k
		if r.Bool() {
			from, to = to, from
		}
	default: // almost flat: the neighbourhood of from == to
		diff := int64(r.Range(1, 3))
		from, to = base, base+diff
		if r.Chance(1, 3) {
			from, to = to, from
		}
	}
	return &node{kind: "line", p: []int64{from, to, d}}
}

func genLeaf(r *vh.Rand, allowUnl bool, liveOK bool) *node {
	k := r.Intn(10)
	switch {
	case k < 3:
		return &node{kind: "once", p: []int64{int64(r.PickInt([]int{0, 0, 1, 1, 2, 3, 5}))}}
	case k < 6:
		return genConstLeaf(r)
	case k < 8:
		return genLineLeaf(r)
	default:
		if !allowUnl {
			return &node{kind: "once", p: []int64{int64(r.Intn(4))}}
		}
		if liveOK && r.Chance(1, 3) {
			return &node{kind: "unl", p: []int64{live}}
		}
		return &node{kind: "unl", p: []int64{int64(r.PickInt([]int{1000000, 1000000000, 60000000000}))}}
	}
}

func genTree(r *vh.Rand, depth int, allowUnl, liveOK bool) *node {
	longBudget = 30
	return genTreeRec(r, depth, allowUnl, liveOK)
}

func genTreeRec(r *vh.Rand, depth int, allowUnl, liveOK bool) *node {
	k := r.Intn(12)
	if depth <= 0 || k < 3 {
		return genLeaf(r, allowUnl, liveOK)
	}
	if k == 3 {
		return &node{kind: "istep", p: []int64{int64(r.Intn(4)), int64(r.Range(0, 9)), int64(r.Range(1, 3)), int64(r.PickInt([]int{1000000, 1000000000}))}}
	}
	if k == 4 {
		return &node{kind: "step", p: []int64{int64(r.PickInt([]int{0, 1000, 2000})), int64(r.PickInt([]int{1000, 3000, 4000})), int64(r.Range(1, 2)), int64(r.PickInt([]int{500000000, 1000000000}))}}
	}
	c := &node{kind: "comp"}
	n := r.PickInt([]int{0, 1, 2, 2, 2, 3, 3, 4, 5})
	for i := 0; i < n; i++ {
		c.kids = append(c.kids, genTreeRec(r, depth-1, allowUnl, liveOK))
	}
	return c
}

func countTokens(n *node) (tokens int, hasLive bool) {
	switch n.kind {
	case "once":
		return int(n.p[0]), false
	case "const", "line":
		return len(n.tbl), false
	case "unl":
		return 0, n.p[0] == live
	case "istep":
		t := int(n.p[0])
		if n.p[2] > 0 {
			for i := n.p[0] + n.p[2]; i <= n.p[1]; i += n.p[2] {
				t += int(n.p[2])
			}
		}
		return t, false
	}
	for _, k := range n.kids {
		t, l := countTokens(k)
		tokens += t
		hasLive = hasLive || l
	}
	return
}

func firstLeaf(n *node) *node {
	switch n.kind {
	case "comp", "step":
		for _, k := range n.kids {
			if f := firstLeaf(k); f != nil {
				return f
			}
		}
		return nil
	}
	return n
}

func genOps(r *vh.Rand, n int, pL int) string {
	var b strings.Builder
	for i := 0; i < n; i++ {
		if r.Intn(100) < pL {
			b.WriteByte('L')
		} else {
			b.WriteByte('N')
		}
	}
	return b.String()
}

func gen(r *vh.Rand, tier string) []string {
	var out []string
	nseq, nconc, nflat, maxG, depth := 500, 300, 200, 8, 3
	if tier == "thorough" {
		nseq, nconc, nflat, maxG, depth = 6000, 4000, 3000, 16, 4
	}
	for i := 0; i < nseq; i++ {
		explicit := r.Chance(3, 4)
		t := genTree(r, depth, true, true)
		if !explicit {
			// self-start: short unlimited parts would close at a clock-dependent moment
			t = genTree(r, depth, r.Chance(1, 2), true)
			stripShortUnl(t)
		}
		fillTables(t)
		if !explicit {
			fixSelfStartUnl(t, 0)
		}
		tok, _ := countTokens(t)
		n := tok + r.Range(1, 6)
		if n > 80 {
			n = 80
		}
		ops := genOps(r, n, r.PickInt([]int{0, 20, 40, 60}))
		if explicit {
			pre := ""
			if r.Chance(1, 4) {
				pre = strings.Repeat("L", r.Range(1, 2))
				bumpTinyUnl(t) // a Left before Start may self-start a part at the wall clock
			}
			if r.Chance(1, 12) {
				// a second Start: MarkStarted must panic "schedule is already started" (and nothing after it runs)
				pos := r.Intn(len(ops) + 1)
				ops = ops[:pos] + "S" + ops[pos:]
			}
			ops = pre + "S" + ops
		} else if r.Chance(1, 2) {
			ops = "N" + ops
		}
		out = append(out, fmt.Sprintf("seq %s %s", t, ops))
	}
	for i := 0; i < nconc; i++ {
		explicit := r.Chance(4, 5)
		t := genTree(r, depth, true, true)
		if !explicit {
			t = genTree(r, depth, r.Chance(1, 2), true)
			stripShortUnl(t)
		}
		fillTables(t)
		if !explicit {
			fixSelfStartUnl(t, 0)
		}
		if !explicit {
			fl := firstLeaf(t)
			ok := fl != nil && ((fl.kind == "once" && fl.p[0] > 0) || ((fl.kind == "const" || fl.kind == "line") && len(fl.tbl) > 0) || (fl.kind == "unl") || (fl.kind == "istep" && fl.p[0] > 0))
			if !ok {
				explicit = true
			}
		}
		tok, _ := countTokens(t)
		g := r.Range(1, maxG)
		per := (tok+g-1)/g + r.Range(1, 4)
		if per > 60 {
			per = 60
		}
		pL := r.PickInt([]int{0, 15, 30, 50})
		var plans []string
		total := 0
		for j := 0; j < g; j++ {
			p := genOps(r, per+r.Intn(3), pL)
			total += strings.Count(p, "N")
			plans = append(plans, p)
		}
		// make sure the schedule is exhausted when it can be (keeps the observation canonical)
		for total < tok+g && len(plans[0]) < 400 {
			plans[total%g] += "N"
			total++
		}
		s := "-"
		if explicit {
			s = "S"
		}
		out = append(out, fmt.Sprintf("conc %s %s %s", t, s, strings.Join(plans, "/")))
	}
	// flat composites of recorded parts, explicit start, Left-heavy plans: the per-goroutine
	// conformance replay of the atomic-section model applies to every one of these
	for i := 0; i < nflat; i++ {
		t := &node{kind: "comp"}
		longBudget = 30
		n := r.Range(2, 6)
		for j := 0; j < n; j++ {
			switch r.Intn(8) {
			case 0:
				t.kids = append(t.kids, &node{kind: "comp"})
			case 1:
				t.kids = append(t.kids, &node{kind: "istep", p: []int64{int64(r.Intn(3)), int64(r.Range(0, 5)), int64(r.Range(1, 2)), 1000000}})
			default:
				t.kids = append(t.kids, genLeaf(r, true, j == n-1))
			}
		}
		fillTables(t)
		tok, _ := countTokens(t)
		g := r.Range(2, maxG)
		per := (tok+g-1)/g + r.Range(1, 4)
		if per > 60 {
			per = 60
		}
		pL := r.PickInt([]int{20, 40, 60})
		var plans []string
		total := 0
		for j := 0; j < g; j++ {
			p := genOps(r, per+r.Intn(3), pL)
			total += strings.Count(p, "N")
			plans = append(plans, p)
		}
		for total < tok+g && len(plans[0]) < 400 {
			plans[total%g] += "N"
			total++
		}
		out = append(out, fmt.Sprintf("conc %s S %s", t, strings.Join(plans, "/")))
	}
	nrace, riters := 10, 300
	if tier == "thorough" {
		nrace, riters = 60, 3000
	}
	for i := 0; i < nrace; i++ {
		var t *node
		switch i % 5 {
		case 0:
			t = &node{kind: "once", p: []int64{int64(r.Range(1, 3))}}
		case 1:
			t = &node{kind: "comp", kids: []*node{{kind: "once", p: []int64{int64(r.Range(1, 2))}}, {kind: "once", p: []int64{int64(r.Range(1, 4))}}}}
		case 2:
			t = &node{kind: "istep", p: []int64{int64(r.Range(1, 2)), int64(r.Range(3, 6)), int64(r.Range(1, 2)), 1000000}}
		default:
			t = genTree(r, 2, false, false)
		}
		fillTables(t)
		if tok, _ := countTokens(t); tok > 40 {
			continue
		}
		out = append(out, fmt.Sprintf("race %s %d %d", t, r.Range(2, maxG), riters))
	}
	// self-starting schedules under contention (the engine never calls Start: the first Next calls of
	// the instances sharing a schedule start it): small finite trees, 2-4 (sometimes more) callers
	// released together, many short drains
	nsr, sriters := 16, 6000
	if tier == "thorough" {
		nsr, sriters = 64, 30000
	}
	for i := 0; i < nsr; i++ {
		var t *node
		switch i % 8 {
		case 0:
			t = &node{kind: "once", p: []int64{int64(r.Range(1, 3))}}
		case 1:
			t = &node{kind: "comp", kids: []*node{{kind: "once", p: []int64{int64(r.Range(1, 2))}}, {kind: "const", p: []int64{int64(r.PickInt([]int{1000, 2000})), 2000000000}}}}
		case 2:
			t = &node{kind: "const", p: []int64{int64(r.PickInt([]int{1000, 2000, 3500})), int64(r.PickInt([]int{1000000000, 2000000000}))}}
		case 3:
			t = &node{kind: "istep", p: []int64{int64(r.Range(1, 2)), int64(r.Range(3, 6)), int64(r.Range(1, 2)), 1000000}}
		case 4:
			t = &node{kind: "comp", kids: []*node{{kind: "once", p: []int64{1}}, {kind: "once", p: []int64{int64(r.Range(1, 3))}}, {kind: "line", p: []int64{1000, 3000, 1000000000}}}}
		case 5:
			t = &node{kind: "comp", kids: []*node{{kind: "comp", kids: []*node{{kind: "once", p: []int64{int64(r.Range(0, 1))}}, {kind: "once", p: []int64{1}}}}, {kind: "const", p: []int64{1000, 1000000000}}}}
		default:
			t = genTree(r, 2, false, false)
		}
		fillTables(t)
		tok, _ := countTokens(t)
		if tok > 40 {
			continue
		}
		it := sriters
		if tok > 8 {
			it = sriters / 4
		}
		g := r.Range(2, 4)
		if r.Chance(1, 4) {
			g = r.Range(2, maxG)
		}
		out = append(out, fmt.Sprintf("srace %s %d %d", t, g, it))
	}
	out = append(out, genFact(r, tier)...)
	out = append(out, genURace(r, tier)...)
	out = append(out, genWaitSeq(r, tier)...)
	return out
}

func bumpTinyUnl(n *node) {
	for _, k := range n.kids {
		bumpTinyUnl(k)
	}
	if n.kind == "unl" && n.p[0] < 1000000000 {
		n.p[0] = 1000000000
	}
}

// durOf: total duration of a (sub)tree, used to place unlimited parts in self-start cases
func durOf(n *node) int64 {
	switch n.kind {
	case "once":
		return 0
	case "const", "unl":
		return n.p[len(n.p)-1]
	case "line":
		return n.p[2]
	case "istep":
		var k int64
		if n.p[2] > 0 {
			for i := n.p[0] + n.p[2]; i <= n.p[1]; i += n.p[2] {
				k++
			}
		}
		return k * n.p[3]
	case "step":
		if len(n.kids) == 1 {
			return durOf(n.kids[0])
		}
		return 0
	}
	var d int64
	for _, k := range n.kids {
		d += durOf(k)
	}
	return d
}

// After a self-start the clock is "now": an unlimited part whose start lies a few ms ahead would
// answer its start or the clock depending on real timing.  Such parts become once(1).
func fixSelfStartUnl(n *node, before int64) int64 {
	if n.kind == "comp" {
		for _, k := range n.kids {
			before = fixSelfStartUnl(k, before)
		}
		return before
	}
	if n.kind == "unl" && before > 0 && before < 400000000 {
		n.kind, n.p = "once", []int64{1}
	}
	return before + durOf(n)
}

func stripShortUnl(n *node) {
	for _, k := range n.kids {
		stripShortUnl(k)
	}
	if n.kind == "unl" && n.p[0] != live {
		n.p[0] = live
	}
}

var _ core.Schedule = (*recLeaf)(nil)

func main() {
	vh.Main(gen, func(cases []string) []string {
		out := make([]string, len(cases))
		for i, c := range cases {
			out[i] = runCase(c)
		}
		return out
	})
}
