package main

// fact cases: schedules as pandora itself makes them - from a CONFIGURATION, through the real plugin
// registry (coreimport.Import, config.Decode into a `func() (core.Schedule, error)` field: what the
// pool option `rps` is; with rps-per-instance the engine calls it once per instance).
//
//	fact <tree> <K> <ops>     the tree is rendered as a config (a composite as a YAML-style list or as
//	                          {type: composite, nested: [...]}), decoded ONCE into a schedule factory; the
//	                          factory is called K times; ops = pairs <instance digit><S|N|L> executed in
//	                          order by one caller.  Every schedule the factory returns is "a schedule" of the
//	                          property: it must answer exactly what the token stream of the configuration
//	                          says for ITS OWN operations, whatever is done with its siblings.
//
// Instance j is started (op S) at t0 + j seconds, t0 = now - PAST; times are printed relative to the
// instance's own start (without S: relative to the smallest time the instance returned).
// Observation: one seq observation (see main.go) per instance, separated by " | ".

import (
	"fmt"
	"strings"
	"sync"
	"sync/atomic"
	"time"

	"github.com/spf13/afero"
	"github.com/yandex/pandora/core"
	"github.com/yandex/pandora/core/config"
	"github.com/yandex/pandora/core/coreutil"
	coreimport "github.com/yandex/pandora/core/import"

	"verifharness/internal/vh"
)

var importOnce sync.Once

func durText(ns int64) string { return fmt.Sprintf("%dns", ns) }

// confOf renders a tree as the generic config value pandora's config files decode to.
func confOf(n *node, depth int) interface{} {
	switch n.kind {
	case "once":
		return map[string]interface{}{"type": "once", "times": n.p[0]}
	case "const":
		return map[string]interface{}{"type": "const", "ops": float64(n.p[0]) / 1000, "duration": durText(n.p[1])}
	case "line":
		return map[string]interface{}{"type": "line", "from": float64(n.p[0]) / 1000, "to": float64(n.p[1]) / 1000, "duration": durText(n.p[2])}
	case "unl":
		return map[string]interface{}{"type": "unlimited", "duration": durText(n.p[0])}
	case "step":
		return map[string]interface{}{"type": "step", "from": float64(n.p[0]) / 1000, "to": float64(n.p[1]) / 1000, "step": n.p[2], "duration": durText(n.p[3])}
	case "istep":
		return map[string]interface{}{"type": "instance_step", "from": n.p[0], "to": n.p[1], "step": n.p[2], "stepduration": durText(n.p[3])}
	case "comp":
		l := []interface{}{}
		for _, k := range n.kids {
			l = append(l, confOf(k, depth+1))
		}
		if depth%2 == 0 {
			return l // the list form (scheduleSliceToCompositeConfigHook)
		}
		return map[string]interface{}{"type": "composite", "nested": l}
	}
	panic("confOf: " + n.kind)
}

// tablesOK: the '=' parts of the case line are what fresh real leaves give.
func tablesOK(n *node) bool {
	switch n.kind {
	case "const", "line":
		return eqTbl(table(n, 100000), n.tbl)
	case "step":
		return stepExpansion(float64(n.p[0])/1000, float64(n.p[1])/1000, n.p[2], n.p[3]).String() == n.kids[0].String()
	case "comp":
		for _, k := range n.kids {
			if !tablesOK(k) {
				return false
			}
		}
	}
	return true
}

func errKind(err error) string {
	s := err.Error()
	if len(s) > 60 {
		s = s[:60]
	}
	return strings.Map(func(r rune) rune {
		if r == ' ' || r == '\n' || r == '\t' || r == '|' {
			return '_'
		}
		return r
	}, s)
}

func runFact(f []string) string {
	tree := parseTree(f[1])
	k := int(f[2][0] - '0')
	ops := f[3]
	importOnce.Do(func() { coreimport.Import(afero.NewMemMapFs()) })
	tbl := "tbl=" + vh.B(tablesOK(tree))
	all := func(s string) string {
		p := make([]string, k)
		for i := range p {
			p[i] = tbl + " " + s
		}
		return strings.Join(p, " | ")
	}
	var conf struct {
		RPS func() (core.Schedule, error) `config:"rps"`
	}
	if err := config.Decode(map[string]interface{}{"rps": confOf(tree, 0)}, &conf); err != nil {
		return all("Pdecode:" + errKind(err))
	}
	type inst struct {
		s        core.Schedule
		cb       int32
		explicit bool
		t0       time.Time
		dead     bool
		out      []string
		times    []int // indices into out of N results still to be printed
		tv       []time.Time
		tok      []bool
	}
	insts := make([]*inst, k)
	wall0 := time.Now()
	ctor := ""
	for j := 0; j < k && ctor == ""; j++ {
		in := &inst{t0: wall0.Add(-time.Duration(past)).Add(time.Duration(j) * time.Second)}
		func() {
			defer func() {
				if e := recover(); e != nil {
					ctor = "Pctor:" + panicKind(e)
				}
			}()
			s, err := conf.RPS()
			if err != nil {
				ctor = "Pfactory:" + errKind(err)
				return
			}
			in.s = coreutil.NewCallbackOnFinishSchedule(s, func() { atomic.AddInt32(&in.cb, 1) })
		}()
		insts[j] = in
	}
	if ctor != "" {
		return all(ctor)
	}
	for i := 0; i+1 < len(ops); i += 2 {
		if ops[i+1] == 'S' {
			insts[int(ops[i]-'0')].explicit = true
		}
	}
	for i := 0; i+1 < len(ops); i += 2 {
		in := insts[int(ops[i]-'0')]
		if in.dead {
			continue
		}
		before := atomic.LoadInt32(&in.cb)
		var s string
		func() {
			defer func() {
				if e := recover(); e != nil {
					s = "P:" + panicKind(e)
					in.dead = true
				}
			}()
			switch ops[i+1] {
			case 'S':
				in.s.Start(in.t0)
				s = "S"
			case 'N':
				w1 := time.Now()
				tx, ok := in.s.Next()
				w2 := time.Now()
				if in.explicit && ok && !tx.Before(w1) && !tx.After(w2) {
					s = "Nu" // a token "now" of a live unlimited part (everything else lies days in the past)
				} else {
					s = "" // filled in below, once the base is known
					in.times = append(in.times, len(in.out))
					in.tv = append(in.tv, tx)
					in.tok = append(in.tok, ok)
				}
			case 'L':
				s = fmt.Sprintf("L%d", in.s.Left())
			}
		}()
		if atomic.LoadInt32(&in.cb) != before {
			s += "!"
		}
		in.out = append(in.out, s)
	}
	segs := make([]string, k)
	for j, in := range insts {
		base := in.t0
		if !in.explicit {
			for i, tx := range in.tv {
				if i == 0 || tx.Before(base) {
					base = tx
				}
			}
		}
		for i, at := range in.times {
			in.out[at] = fmt.Sprintf("N%d:%s", int64(in.tv[i].Sub(base)), vh.B(in.tok[i])) + in.out[at]
		}
		segs[j] = strings.TrimRight(tbl+" "+strings.Join(in.out, " "), " ")
	}
	return strings.Join(segs, " | ")
}

// cfgValid rewrites what a configuration cannot say (once needs times >= 1): an empty part becomes a
// zero-rate const or an empty list.
func cfgValid(r *vh.Rand, n *node) {
	for _, k := range n.kids {
		cfgValid(r, k)
	}
	if n.kind == "const" && n.p[0] < 0 {
		n.p[0] = 0 // validate:"min=0"
	}
	if n.kind == "once" && n.p[0] == 0 {
		if r.Bool() {
			n.kind, n.p = "const", []int64{0, int64(r.PickInt([]int{1000000, 1000000000}))}
		} else {
			n.kind, n.p = "comp", nil
		}
	}
}

func genFact(r *vh.Rand, tier string) []string {
	var out []string
	n := 160
	if tier == "thorough" {
		n = 2500
	}
	for i := 0; i < n; i++ {
		explicit := r.Chance(3, 4)
		var t *node
		if r.Chance(2, 3) {
			// a list at top level (how an rps / startup profile is written)
			t = &node{kind: "comp"}
			m := r.Range(2, 4)
			for j := 0; j < m; j++ {
				t.kids = append(t.kids, genTree(r, 2, explicit, explicit))
			}
		} else {
			t = genTree(r, 3, explicit, explicit)
		}
		cfgValid(r, t)
		fillTables(t)
		tok, _ := countTokens(t)
		k := r.Range(2, 4)
		pL := r.PickInt([]int{10, 30, 50})
		plans := make([]string, k)
		for j := 0; j < k; j++ {
			m := tok + r.Range(1, 4)
			if m > 30 {
				m = 30
			}
			if r.Chance(1, 5) {
				m = r.Range(0, 3) // an instance that hardly draws
			}
			p := genOps(r, m, pL)
			if explicit {
				pre := ""
				if r.Chance(1, 3) {
					pre = strings.Repeat("L", r.Range(1, 2))
				}
				p = pre + "S" + p
			} else {
				p = "L" + p
			}
			plans[j] = p
		}
		if explicit {
			bumpTinyUnl(t)
		}
		// merge: mostly fine-grained interleaving, sometimes one instance after the other
		var b strings.Builder
		pos := make([]int, k)
		left := 0
		for _, p := range plans {
			left += len(p)
		}
		serial := r.Chance(1, 4)
		cur := 0
		for left > 0 {
			j := r.Intn(k)
			if serial {
				j = cur
			}
			if pos[j] >= len(plans[j]) {
				if serial {
					cur++
				}
				continue
			}
			b.WriteByte(byte('0' + j))
			b.WriteByte(plans[j][pos[j]])
			pos[j]++
			left--
		}
		out = append(out, fmt.Sprintf("fact %s %d %s", t, k, b.String()))
	}
	return out
}
