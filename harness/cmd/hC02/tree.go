package main

// Schedule trees of the C02 cases: text form, construction through the REAL constructors,
// recording wrappers around every leaf handed to NewComposite.
//
// Text form (no blanks):
//
//	once:N                         schedule.NewOnce(N)
//	const:OPSm:DUR=o1,o2,...       schedule.NewConst(OPSm/1000, DUR ns); after '=' the token offsets (ns) of a fresh leaf ('-' = none)
//	line:FROMm:TOm:DUR=o1,...      schedule.NewLine(FROMm/1000, TOm/1000, DUR)
//	unl:DUR                        schedule.NewUnlimited(DUR)
//	comp(a;b;...)                  schedule.NewComposite(a, b, ...)   (0, 1 or more children)
//	step:FROMm:TOm:STEP:DUR=comp(const..;..)   schedule.NewStep; after '=' the expansion the model uses
//	istep:FROM:TO:STEP:DUR         schedule.NewInstanceStep (the model has its own definition)
//
// The part after '=' is what the model is given; the harness re-derives it from fresh real
// leaves on every run and reports a mismatch (field "tbl=0").

import (
	"fmt"
	"strconv"
	"strings"
	"sync"
	"time"

	"github.com/yandex/pandora/core"
	"github.com/yandex/pandora/core/schedule"
)

type node struct {
	kind string // once const line unl comp step istep
	p    []int64
	tbl  []int64 // const/line: offsets given in the case
	kids []*node // comp children; step: expansion (single comp node)
}

type parser struct {
	s string
	i int
}

func (p *parser) peek() byte {
	if p.i < len(p.s) {
		return p.s[p.i]
	}
	return 0
}

func (p *parser) ident() string {
	j := p.i
	for p.i < len(p.s) && p.s[p.i] >= 'a' && p.s[p.i] <= 'z' {
		p.i++
	}
	return p.s[j:p.i]
}

func (p *parser) int() int64 {
	j := p.i
	if p.peek() == '-' {
		p.i++
	}
	for p.i < len(p.s) && p.s[p.i] >= '0' && p.s[p.i] <= '9' {
		p.i++
	}
	v, err := strconv.ParseInt(p.s[j:p.i], 10, 64)
	if err != nil {
		panic("bad int in tree at " + strconv.Itoa(j) + ": " + p.s)
	}
	return v
}

func (p *parser) node() *node {
	n := &node{kind: p.ident()}
	if n.kind == "comp" {
		if p.peek() != '(' {
			panic("comp without (")
		}
		p.i++
		for p.peek() != ')' {
			n.kids = append(n.kids, p.node())
			if p.peek() == ';' {
				p.i++
			}
		}
		p.i++
		return n
	}
	for p.peek() == ':' {
		p.i++
		n.p = append(n.p, p.int())
	}
	if p.peek() == '=' {
		p.i++
		if n.kind == "step" {
			n.kids = []*node{p.node()}
		} else if p.peek() == '-' && (p.i+1 >= len(p.s) || p.s[p.i+1] < '0' || p.s[p.i+1] > '9') {
			p.i++
		} else {
			for {
				n.tbl = append(n.tbl, p.int())
				if p.peek() != ',' {
					break
				}
				p.i++
			}
		}
	}
	return n
}

func parseTree(s string) *node {
	p := &parser{s: s}
	n := p.node()
	if p.i != len(s) {
		panic("trailing text in tree: " + s[p.i:])
	}
	return n
}

func (n *node) String() string {
	var b strings.Builder
	n.write(&b)
	return b.String()
}

func (n *node) write(b *strings.Builder) {
	b.WriteString(n.kind)
	if n.kind == "comp" {
		b.WriteByte('(')
		for i, k := range n.kids {
			if i > 0 {
				b.WriteByte(';')
			}
			k.write(b)
		}
		b.WriteByte(')')
		return
	}
	for _, v := range n.p {
		fmt.Fprintf(b, ":%d", v)
	}
	switch n.kind {
	case "const", "line":
		b.WriteByte('=')
		if len(n.tbl) == 0 {
			b.WriteByte('-')
		}
		for i, v := range n.tbl {
			if i > 0 {
				b.WriteByte(',')
			}
			fmt.Fprintf(b, "%d", v)
		}
	case "step":
		b.WriteByte('=')
		n.kids[0].write(b)
	}
}

// ---------------------------------------------------------------- real leaves

func realLeaf(n *node) core.Schedule {
	switch n.kind {
	case "once":
		return schedule.NewOnce(n.p[0])
	case "const":
		return schedule.NewConst(float64(n.p[0])/1000, time.Duration(n.p[1]))
	case "line":
		return schedule.NewLine(float64(n.p[0])/1000, float64(n.p[1])/1000, time.Duration(n.p[2]))
	case "unl":
		return schedule.NewUnlimited(time.Duration(n.p[0]))
	}
	panic("not a leaf: " + n.kind)
}

// table drains a fresh leaf started at a fixed instant: offsets of its tokens (at most max).
func table(n *node, max int) []int64 {
	s := realLeaf(n)
	t0 := time.Unix(1000000, 0)
	s.Start(t0)
	var out []int64
	for len(out) <= max {
		tx, ok := s.Next()
		if !ok {
			return out
		}
		out = append(out, int64(tx.Sub(t0)))
	}
	return out
}

// stepExpansion mirrors step.go: the list of const leaves NewStep builds.
func stepExpansion(from, to float64, step int64, dur int64) *node {
	mk := func(ops float64) *node {
		c := &node{kind: "const", p: []int64{int64(ops * 1000), dur}}
		c.tbl = table(c, 100000)
		return c
	}
	if from == to {
		return mk(from)
	}
	c := &node{kind: "comp"}
	for i := from; i <= to; i += float64(step) {
		c.kids = append(c.kids, mk(i))
	}
	// NewComposite of 0 / 1 children
	return c
}

// fillTables recomputes every '=' part from the real code.
func fillTables(n *node) {
	switch n.kind {
	case "const", "line":
		n.tbl = table(n, 100000)
	case "comp":
		for _, k := range n.kids {
			fillTables(k)
		}
	case "step":
		n.kids = []*node{stepExpansion(float64(n.p[0])/1000, float64(n.p[1])/1000, n.p[2], n.p[3])}
	}
}

// ---------------------------------------------------------------- recording wrappers

type event struct {
	g    int   // goroutine (-1: none)
	leaf int   // leaf id, -1 for a top-level call/return
	op   byte  // 'N' 'L' 'S' ; top level: 'n' 'l' call, 'r' return
	t    int64 // Next: returned time (ns since epoch base); Left: value; Start: time
	ok   bool
}

type recLog struct {
	mu     sync.Mutex
	ev     []event
	record bool
	yield  func()
}

type recLeaf struct {
	inner core.Schedule
	id    int
	unl   bool
	log   *recLog
}

// goroutine id of the caller is passed through a goroutine-local table kept by the harness
var gidOf sync.Map // goroutine key -> int

func (r *recLeaf) Start(t time.Time) {
	r.log.mu.Lock()
	defer r.log.mu.Unlock()
	r.inner.Start(t)
	if r.log.record {
		r.log.ev = append(r.log.ev, event{g: curG(), leaf: r.id, op: 'S', t: t.UnixNano()})
	}
}

func (r *recLeaf) Next() (time.Time, bool) {
	if r.log.yield != nil {
		r.log.yield()
	}
	r.log.mu.Lock()
	tx, ok := r.inner.Next()
	if r.log.record {
		r.log.ev = append(r.log.ev, event{g: curG(), leaf: r.id, op: 'N', t: tx.UnixNano(), ok: ok})
	}
	r.log.mu.Unlock()
	if r.log.yield != nil {
		r.log.yield()
	}
	return tx, ok
}

func (r *recLeaf) Left() int {
	if r.log.yield != nil {
		r.log.yield()
	}
	r.log.mu.Lock()
	l := r.inner.Left()
	if r.log.record {
		r.log.ev = append(r.log.ev, event{g: curG(), leaf: r.id, op: 'L', t: int64(l)})
	}
	r.log.mu.Unlock()
	if r.log.yield != nil {
		r.log.yield()
	}
	return l
}

type built struct {
	top       core.Schedule
	log       *recLog
	leaves    []*recLeaf // wrapped leaves in flattened order (step/istep internals are not wrapped)
	tblOK     bool
	bare      bool // no recording wrappers at all (race cases)
	ctorPanic string
}

func eqTbl(a, b []int64) bool {
	if len(a) != len(b) {
		return false
	}
	for i := range a {
		if a[i] != b[i] {
			return false
		}
	}
	return true
}

func (b *built) build(n *node, top bool) core.Schedule {
	switch n.kind {
	case "comp":
		if len(n.kids) == 0 {
			// NewComposite() returns a fresh once(0): recorded like any other part
			return b.wrapPart(schedule.NewComposite(), false)
		}
		var ks []core.Schedule
		for _, k := range n.kids {
			ks = append(ks, b.build(k, false))
		}
		return schedule.NewComposite(ks...)
	case "step":
		exp := stepExpansion(float64(n.p[0])/1000, float64(n.p[1])/1000, n.p[2], n.p[3])
		if exp.String() != n.kids[0].String() {
			b.tblOK = false
		}
		return b.wrapPart(schedule.NewStep(float64(n.p[0])/1000, float64(n.p[1])/1000, n.p[2], time.Duration(n.p[3])), top)
	case "istep":
		return b.wrapPart(schedule.NewInstanceStep(n.p[0], n.p[1], n.p[2], time.Duration(n.p[3])), top)
	}
	if n.kind == "const" || n.kind == "line" {
		if !eqTbl(table(n, 100000), n.tbl) {
			b.tblOK = false
		}
	}
	if b.bare {
		return realLeaf(n)
	}
	l := &recLeaf{inner: realLeaf(n), id: len(b.leaves), unl: n.kind == "unl", log: b.log}
	b.leaves = append(b.leaves, l)
	return l
}

// buildTree constructs the schedule; a panic of a constructor is reported in ctorPanic.
// wrapPart: a step / instance_step below a composite is handed over as ONE atomic recorded
// part (its operations run under the log mutex); at top level it is left bare so that its own
// composite is exercised concurrently.
func (b *built) wrapPart(s core.Schedule, top bool) core.Schedule {
	if top || b.bare {
		return s
	}
	l := &recLeaf{inner: s, id: len(b.leaves), log: b.log}
	b.leaves = append(b.leaves, l)
	return l
}

func buildTree(n *node) (b *built) {
	b = &built{log: &recLog{}, tblOK: true}
	defer func() {
		if e := recover(); e != nil {
			b.ctorPanic = panicKind(e)
		}
	}()
	b.top = b.build(n, true)
	return b
}
