// hC20: correspondence harness for property C20 (gRPC wire fidelity).
//
// One in-process gRPC target (examples/grpc/server + reflection, recording interceptor, see
// internal/a20) serves every case. Case kinds (blank separated fields, lists use , ; : | + =):
//
//	json <mode d|e|dr|er> <shared 0|1> <clients> <ninst> <timeout_ms> <n> <entry>*n
//	    mode suffix r: the gun is configured with reflect_port = the port of a SECOND in-process server
//	    (side-car: same service + reflection, recording separately); every call must still be recorded
//	    by the target — calls the side-car received are appended to the observation as  sidecar=<n>
//	    entry   = taghex;callhex;meta;payload
//	    meta    = - | khex=vhex,…
//	    payload = ~ (no payload key) | - ({}) | field,…   field = keyhex:kind:val
//	              kind s: string (val hex)  i: integer literal (val decimal)  r: real literal,
//	              val = twice the value (decimal), written d.0 / d.5   b: bool (0|1)  n: null  o: {}
//	    mode d: the real grpc/json provider + ninst real guns (one WarmUp, Bind each), entry j is
//	            acquired and shot by gun j mod ninst, sequentially; observation per entry.
//	    mode e: the same provider and gun factory under the real engine (startup once(ninst),
//	            unlimited rps); observation = samples sorted by tag + calls sorted.
//	    optional trailing fields (after the entries), any order:
//	      rm=<meta>   the gun option reflect_metadata (metadata of the REFLECTION request of warm-up; it is
//	                  not the metadata of any ammo entry and must not reach a call)
//	      fl=<plan>   the target's ANSWERS (not pandora's to choose): p<c>.<c>.…  = the i-th unary call the
//	                  target receives in this case is answered with gRPC status c without running the handler
//	                  (0 = handler), a slot  <c>+<ms>  = that answer comes <ms> milliseconds after the call arrived
//	                  (the target's LATENCY; not less than the deadline the call arrived with = not answered in
//	                  time);  h<salt>.<permille> = content-keyed (engine mode): a call is answered with
//	                  an injected status chosen by a hash of salt+method+message+metadata in permille/1000 of the cases
//	      au=<hex|->  observe the :authority of every call and reflection stream; <hex> = the gun option
//	                  dial_options.authority (- = not configured: the authority is the address dialled);
//	                  dt=<ms> = dial_options.timeout.  The observation then ends with  auth=<a>+<a>…  (distinct
//	                  values, hex; "target" / "side" = the address of the target / of the reflection side-car)
//	      ov=<burst>.<rps>.<ms>.<lat>   (mode e) an OVERLOADED pool with discard_overflow on (what the CLI sets by default):
//	                  the rps schedule is once(burst) + const(rps, ms) and the first answer to each instance comes <lat> ms
//	                  (>= 2 s) after the call arrived, so the instances fall behind: the tokens that are >= 2 s overdue
//	                  when an instance gets to them are DISCARDED (sample tagged "discarded", the acquired entry is not
//	                  sent), the rest of the entries are shot late. Which entries are discarded is timing; every entry
//	                  that is NOT discarded must reach the target exactly once, as written.
//	      tls=1       the gun option tls: the target (and the reflection side-car) of this case are served behind TLS
//	                  with a self-signed certificate; nothing else changes — what arrives is specified as without it
//	scen <ninst>[r] <timeout_ms> <order> <users> <calls> <scenarios> [rm=<meta>] [fl=<plan>]   (r: reflect_port as above)
//	    order     = instance index per shot (comma list); shot j: instance order[j] acquires the
//	                next scenario ammo from the real grpc/scenario provider and shoots it
//	    users     = tokhex:idhex,…   (json variable source "users", consumed by [next])
//	    calls     = def|def…   def = namehex;taghex;callhex;meta;payloadhex;pp(0|1)
//	                meta = - | khex=texthex,…  (template texts as they stand in the scenario file);
//	                payloadhex = the payload template text;  pp=1: the call has the `prepare`
//	                preprocessor  u = source.users[next]  (templates refer to
//	                {{.request.<pp call>.preprocessor.u.token}} / …u.id}})
//	    scenarios = namehex:step.step.…|…   step = idx (index into calls) | idx~ms | idx^ms : think time of
//	                <ms> milliseconds after the step, written  name(1,ms)  (~)  or  name(1), sleep(ms)  (^)
//	                in the requests list of the scenario
//
// Observation (direct and scen): one item per shot-step  code;call  where call = - or
// methodhex/msg/md/timeout_s/status (a20.Call). Scenario: steps of a shot joined by '|', shots by '#'.
// Every observation ends with  refl=<md>  = the distinct application metadata sets seen on reflection streams
// (target and side-car) during the case, canonical, joined by '+' ("none": no reflection stream seen).
package main

import (
	"context"
	"encoding/json"
	"fmt"
	"hash/fnv"
	"sort"
	"strconv"
	"strings"
	"sync"
	"time"

	"github.com/spf13/afero"
	grpcgun "github.com/yandex/pandora/components/guns/grpc"
	grpcscen "github.com/yandex/pandora/components/guns/grpc/scenario"
	"github.com/yandex/pandora/components/providers/grpc/grpcjson"
	"github.com/yandex/pandora/components/providers/scenario"
	scengrpc "github.com/yandex/pandora/components/providers/scenario/grpc"
	scenimport "github.com/yandex/pandora/components/providers/scenario/import"
	"github.com/yandex/pandora/core"
	"github.com/yandex/pandora/core/aggregator/netsample"
	"github.com/yandex/pandora/core/engine"
	"github.com/yandex/pandora/core/plugin/pluginconfig"
	"github.com/yandex/pandora/core/schedule"
	"github.com/yandex/pandora/core/warmup"
	"github.com/yandex/pandora/lib/monitoring"
	"go.uber.org/zap"
	"gopkg.in/yaml.v2"

	"verifharness/internal/a20"
	"verifharness/internal/vh"
)

type recAggr struct {
	mu sync.Mutex
	s  []string // tag:code
	c  []int
}

func (r *recAggr) Run(ctx context.Context, deps core.AggregatorDeps) error {
	<-ctx.Done()
	return nil
}
func (r *recAggr) Report(s core.Sample) {
	ns := s.(*netsample.Sample)
	r.mu.Lock()
	r.s = append(r.s, vh.HexS(ns.Tags())+":"+strconv.Itoa(ns.ProtoCode()))
	r.c = append(r.c, ns.ProtoCode())
	r.mu.Unlock()
}

var (
	srv     *a20.Srv
	side    *a20.Srv // reflection side-car on another port
	tlsSrv  *a20.Srv // the same pair behind TLS (cases with tls=1)
	tlsSide *a20.Srv
	useTLS  bool
	fs      = afero.NewMemMapFs()
	fileSeq int
)

func jstr(s string) string {
	b, _ := json.Marshal(s)
	return string(b)
}

func realLit(twice string) string {
	h, _ := strconv.ParseInt(twice, 10, 64)
	neg := h < 0
	if neg {
		h = -h
	}
	s := strconv.FormatInt(h/2, 10)
	if h%2 == 0 {
		s += ".0"
	} else {
		s += ".5"
	}
	if neg {
		s = "-" + s
	}
	return s
}

// entryJSON renders one grpc/json ammo line from the structured entry.
func entryJSON(e string) string {
	p := strings.Split(e, ";")
	var b strings.Builder
	b.WriteString(`{"tag":` + jstr(string(vh.UnHex(p[0]))) + `,"call":` + jstr(string(vh.UnHex(p[1]))))
	if p[2] != "-" {
		b.WriteString(`,"metadata":{`)
		for i, kv := range strings.Split(p[2], ",") {
			x := strings.Split(kv, "=")
			if i > 0 {
				b.WriteString(",")
			}
			b.WriteString(jstr(string(vh.UnHex(x[0]))) + ":" + jstr(string(vh.UnHex(x[1]))))
		}
		b.WriteString("}")
	}
	if p[3] != "~" {
		b.WriteString(`,"payload":{`)
		if p[3] != "-" {
			for i, f := range strings.Split(p[3], ",") {
				x := strings.Split(f, ":")
				if i > 0 {
					b.WriteString(",")
				}
				b.WriteString(jstr(string(vh.UnHex(x[0]))) + ":")
				switch x[1] {
				case "s":
					b.WriteString(jstr(string(vh.UnHex(x[2]))))
				case "i":
					b.WriteString(x[2])
				case "r":
					b.WriteString(realLit(x[2]))
				case "b":
					if x[2] == "1" {
						b.WriteString("true")
					} else {
						b.WriteString("false")
					}
				case "n":
					b.WriteString("null")
				case "o":
					b.WriteString("{}")
				}
			}
		}
		b.WriteString("}")
	}
	b.WriteString("}")
	return b.String()
}

func callsStr(cs []a20.Call) string {
	if len(cs) == 0 {
		return "-"
	}
	out := make([]string, len(cs))
	for i, c := range cs {
		out[i] = c.String()
	}
	return strings.Join(out, "&") // more than one call for one shot is itself a finding
}

func sidePort() int64 {
	p, _ := strconv.ParseInt(side.Addr[strings.LastIndex(side.Addr, ":")+1:], 10, 64)
	return p
}

func sideNote(s string) string {
	s = reflNote(s)
	if n := len(side.Drain()); n > 0 {
		return s + fmt.Sprintf(" sidecar=%d", n)
	}
	return s
}

// dial options of a case: au=<hex|->, dt=<ms>
func dialOpts(f []string) (observe bool, d grpcgun.GrpcDialOptions) {
	for _, x := range f {
		switch {
		case strings.HasPrefix(x, "au="):
			observe = true
			if x[3:] != "-" {
				d.Authority = string(vh.UnHex(x[3:]))
			}
		case strings.HasPrefix(x, "dt="):
			ms, _ := strconv.Atoi(x[3:])
			d.Timeout = time.Duration(ms) * time.Millisecond
		}
	}
	return
}

// authNote appends the :authority values the servers saw (only for cases that ask for it).
func authNote(observe bool, s string) string {
	if !observe {
		srv.DrainAuthorities()
		side.DrainAuthorities()
		return s
	}
	set := map[string]bool{}
	for _, a := range append(srv.DrainAuthorities(), side.DrainAuthorities()...) {
		switch a {
		case srv.Addr:
			set["target"] = true
		case side.Addr:
			set["side"] = true
		default:
			set[vh.HexS(a)] = true
		}
	}
	var l []string
	for a := range set {
		l = append(l, a)
	}
	sort.Strings(l)
	if len(l) == 0 {
		l = []string{"none"}
	}
	return s + " auth=" + strings.Join(l, "+")
}

// overload of an engine-mode case: ov=<burst>.<rps>.<ms>.<lat>
type ovConf struct{ burst, rps, ms, lat int }

func overload(f []string) *ovConf {
	for _, x := range f {
		if strings.HasPrefix(x, "ov=") {
			p := strings.Split(x[3:], ".")
			if len(p) != 4 {
				return nil
			}
			var o ovConf
			o.burst, _ = strconv.Atoi(p[0])
			o.rps, _ = strconv.Atoi(p[1])
			o.ms, _ = strconv.Atoi(p[2])
			o.lat, _ = strconv.Atoi(p[3])
			return &o
		}
	}
	return nil
}

// trailing options of a case: rm=<meta>, fl=<plan>
func caseOpts(f []string) (rm map[string]string, fl string) {
	for _, x := range f {
		switch {
		case strings.HasPrefix(x, "rm="):
			rm = map[string]string{}
			if x[3:] != "-" {
				for _, kv := range strings.Split(x[3:], ",") {
					p := strings.SplitN(kv, "=", 2)
					rm[string(vh.UnHex(p[0]))] = string(vh.UnHex(p[1]))
				}
			}
		case strings.HasPrefix(x, "fl="):
			fl = x[3:]
		}
	}
	return
}

var faultCodes = []uint32{14, 14, 14, 14, 1, 2, 3, 4, 5, 6, 7, 8, 8, 9, 10, 11, 12, 13, 13, 15, 16}

// armFaults installs the answers of the target for this case; the returned function removes them.
func armFaults(fl string) func() {
	switch {
	case strings.HasPrefix(fl, "p"):
		var plan []uint32
		var delays []int
		for _, c := range strings.Split(fl[1:], ".") {
			d := 0
			if i := strings.IndexByte(c, '+'); i >= 0 {
				d, _ = strconv.Atoi(c[i+1:])
				c = c[:i]
			}
			k, _ := strconv.Atoi(c)
			plan = append(plan, uint32(k))
			delays = append(delays, d)
		}
		srv.SetPlanDelays(plan, delays)
	case strings.HasPrefix(fl, "h"):
		x := strings.Split(fl[1:], ".")
		salt := x[0]
		permille, _ := strconv.Atoi(x[1])
		srv.SetFaultFn(func(c a20.Call) uint32 {
			h := fnv.New32a()
			_, _ = h.Write([]byte(salt + "/" + c.Method + "/" + c.Msg + "/" + c.MD))
			v := h.Sum32()
			if int(v%1000) >= permille {
				return 0
			}
			return faultCodes[int(v/1000)%len(faultCodes)]
		})
	}
	return func() { srv.SetPlan(nil); srv.SetFaultFn(nil) }
}

func drainRefl() {
	srv.DrainReflMD()
	side.DrainReflMD()
}

// reflNote appends what the reflection streams of this case carried.
func reflNote(s string) string {
	set := map[string]bool{}
	for _, x := range srv.DrainReflMD() {
		set[x] = true
	}
	for _, x := range side.DrainReflMD() {
		set[x] = true
	}
	var l []string
	for x := range set {
		l = append(l, x)
	}
	sort.Strings(l)
	if len(l) == 0 {
		return s + " refl=none"
	}
	return s + " refl=" + strings.Join(l, "+")
}

func gunConf(shared bool, clients int, timeoutMs int, reflect bool) grpcgun.GunConfig {
	conf := grpcgun.DefaultGunConfig()
	conf.Target = srv.Addr
	if reflect {
		conf.ReflectPort = sidePort()
	}
	conf.Timeout = time.Duration(timeoutMs) * time.Millisecond
	conf.TLS = useTLS
	conf.SharedClient.Enabled = shared
	conf.SharedClient.ClientNumber = clients
	return conf
}

func runJSON(f []string) string {
	reflect := strings.HasSuffix(f[1], "r")
	mode, shared := strings.TrimSuffix(f[1], "r"), f[2] == "1"
	clients, _ := strconv.Atoi(f[3])
	ninst, _ := strconv.Atoi(f[4])
	tmo, _ := strconv.Atoi(f[5])
	n, _ := strconv.Atoi(f[6])
	entries := f[7 : 7+n]
	var data strings.Builder
	for _, e := range entries {
		data.WriteString(entryJSON(e) + "\n")
	}
	fileSeq++
	name := fmt.Sprintf("/ammo-%d.json", fileSeq)
	_ = afero.WriteFile(fs, name, []byte(data.String()), 0o644)
	defer fs.Remove(name)
	conf := gunConf(shared, clients, tmo, reflect)
	rm, fl := caseOpts(f[7+n:])
	conf.ReflectMetadata = rm
	var obsAuth bool
	obsAuth, conf.DialOptions = dialOpts(f[7+n:])
	side.Drain()
	drainRefl()
	authNote(false, "")
	prov := grpcjson.NewProvider(fs, grpcjson.Config{File: name, Passes: 1})
	log := zap.NewNop()
	srv.Drain()

	if mode == "e" {
		ov := overload(f[7+n:])
		if ov != nil {
			// the first answers of the target take ov.lat ms: the instances fall behind the schedule
			fl = "p" + strings.TrimSuffix(strings.Repeat(fmt.Sprintf("0+%d.", ov.lat), ninst), ".")
		}
		defer armFaults(fl)()
		ag := &recAggr{}
		newRPS := func() (core.Schedule, error) { return schedule.NewUnlimited(30 * time.Second), nil }
		if ov != nil {
			newRPS = func() (core.Schedule, error) {
				return schedule.NewComposite(schedule.NewOnce(int64(ov.burst)),
					schedule.NewConst(float64(ov.rps), time.Duration(ov.ms)*time.Millisecond)), nil
			}
		}
		eng := engine.New(log, engine.Metrics{Request: &monitoring.Counter{}, Response: &monitoring.Counter{},
			InstanceStart: &monitoring.Counter{}, InstanceFinish: &monitoring.Counter{}},
			engine.Config{Pools: []engine.InstancePoolConfig{{
				ID: "p", Provider: prov, Aggregator: ag,
				NewGun:          func() (core.Gun, error) { return grpcgun.NewGun(conf), nil },
				NewRPSSchedule:  newRPS,
				StartupSchedule: schedule.NewOnce(int64(ninst)),
				DiscardOverflow: ov != nil,
			}}})
		ctx, cancel := context.WithTimeout(context.Background(), 20*time.Second)
		err := eng.Run(ctx)
		cancel()
		done := make(chan struct{})
		go func() { eng.Wait(); close(done) }()
		select {
		case <-done:
		case <-time.After(5 * time.Second):
			return "hang"
		}
		res := "ok"
		if err != nil {
			res = "err"
		}
		sort.Strings(ag.s)
		var cs []string
		for _, c := range srv.Drain() {
			cs = append(cs, c.String())
		}
		sort.Strings(cs)
		if len(cs) == 0 {
			cs = []string{"-"}
		}
		if len(ag.s) == 0 {
			ag.s = []string{"-"}
		}
		return authNote(obsAuth, sideNote(res+" "+strings.Join(ag.s, ",")+" "+strings.Join(cs, "|")))
	}

	ctx, cancel := context.WithCancel(context.Background())
	defer cancel()
	pdone := make(chan error, 1)
	go func() { pdone <- prov.Run(ctx, core.ProviderDeps{Log: log}) }()
	wg := grpcgun.NewGun(conf)
	sd, err := wg.WarmUp(&warmup.Options{Log: log, Ctx: ctx})
	if err != nil {
		return "warmuperr"
	}
	ag := &recAggr{}
	guns := make([]*grpcgun.Gun, ninst)
	for i := range guns {
		guns[i] = grpcgun.NewGun(conf)
		if err := guns[i].Bind(ag, core.GunDeps{Ctx: ctx, Log: log, InstanceID: i, Shared: sd}); err != nil {
			return "binderr"
		}
	}
	srv.Drain()
	defer armFaults(fl)()
	var out []string
	for j := 0; ; j++ {
		am, ok := prov.Acquire()
		if !ok {
			break
		}
		before := len(ag.c)
		guns[j%ninst].Shoot(am)
		prov.Release(am)
		codes := ag.c[before:]
		cstr := "nosample"
		if len(codes) == 1 {
			cstr = strconv.Itoa(codes[0])
		} else if len(codes) > 1 {
			cstr = fmt.Sprintf("samples=%d", len(codes))
		}
		out = append(out, cstr+";"+callsStr(srv.Drain()))
	}
	if len(out) == 0 {
		return authNote(obsAuth, sideNote("-"))
	}
	return authNote(obsAuth, sideNote(strings.Join(out, " ")))
}

// ---- scenario ----

var importOnce sync.Once

func runScen(f []string) string {
	importOnce.Do(func() {
		scenimport.Import(fs)
		pluginconfig.AddHooks()
	})
	reflect := strings.HasSuffix(f[1], "r")
	ninst, _ := strconv.Atoi(strings.TrimSuffix(f[1], "r"))
	tmo, _ := strconv.Atoi(f[2])
	var order []int
	for _, s := range strings.Split(f[3], ",") {
		k, _ := strconv.Atoi(s)
		order = append(order, k)
	}
	fileSeq++
	base := fmt.Sprintf("/scen-%d", fileSeq)
	// users source
	var users []map[string]string
	for _, u := range strings.Split(f[4], ",") {
		x := strings.Split(u, ":")
		users = append(users, map[string]string{"token": string(vh.UnHex(x[0])), "id": string(vh.UnHex(x[1]))})
	}
	ub, _ := json.Marshal(users)
	_ = afero.WriteFile(fs, base+"-users.json", ub, 0o644)
	defer fs.Remove(base + "-users.json")
	defs := strings.Split(f[5], "|")
	var calls []map[string]any
	var names []string
	for _, d := range defs {
		p := strings.Split(d, ";")
		name := string(vh.UnHex(p[0]))
		names = append(names, name)
		c := map[string]any{"name": name, "tag": string(vh.UnHex(p[1])), "call": string(vh.UnHex(p[2]))}
		if p[3] != "-" {
			md := map[string]string{}
			for _, kv := range strings.Split(p[3], ",") {
				x := strings.SplitN(kv, "=", 2)
				md[string(vh.UnHex(x[0]))] = string(vh.UnHex(x[1]))
			}
			c["metadata"] = md
		}
		c["payload"] = string(vh.UnHex(p[4]))
		if p[5] == "1" {
			c["preprocessors"] = []map[string]any{{"type": "prepare", "mapping": map[string]string{"u": "source.users[next]"}}}
		}
		calls = append(calls, c)
	}
	var scens []map[string]any
	for _, s := range strings.Split(f[6], "|") {
		x := strings.Split(s, ":")
		var reqs []string
		for _, is := range strings.Split(x[1], ".") {
			if i := strings.IndexAny(is, "~^"); i >= 0 {
				k, _ := strconv.Atoi(is[:i])
				if is[i] == '~' {
					reqs = append(reqs, names[k]+"(1,"+is[i+1:]+")")
				} else {
					reqs = append(reqs, names[k]+"(1)", "sleep("+is[i+1:]+")")
				}
				continue
			}
			k, _ := strconv.Atoi(is)
			reqs = append(reqs, names[k]+"(1)")
		}
		scens = append(scens, map[string]any{"name": string(vh.UnHex(x[0])), "weight": 1, "min_waiting_time": 0, "requests": reqs})
	}
	cfg := map[string]any{
		"variable_sources": []map[string]any{{"name": "users", "type": "file/json", "file": base + "-users.json"}},
		"calls":            calls,
		"scenarios":        scens,
	}
	yb, _ := yaml.Marshal(cfg)
	_ = afero.WriteFile(fs, base+".yaml", yb, 0o644)
	defer fs.Remove(base + ".yaml")

	prov, err := scengrpc.NewProvider(fs, scenario.ProviderConfig{File: base + ".yaml", Limit: uint(len(order))})
	if err != nil {
		return "providererr:" + vh.HexS(err.Error())
	}
	log := zap.NewNop()
	ctx, cancel := context.WithCancel(context.Background())
	defer cancel()
	go func() { _ = prov.Run(ctx, core.ProviderDeps{Log: log}) }()
	gconf := grpcscen.DefaultGunConfig()
	gconf.Target = srv.Addr
	gconf.Timeout = time.Duration(tmo) * time.Millisecond
	gconf.TLS = useTLS
	if reflect {
		gconf.ReflectPort = sidePort()
	}
	rm, fl := caseOpts(f[7:])
	gconf.ReflectMetadata = rm
	obsAuth, dopts := dialOpts(f[7:])
	gconf.DialOptions.Authority, gconf.DialOptions.Timeout = dopts.Authority, dopts.Timeout
	side.Drain()
	drainRefl()
	authNote(false, "")
	wg := grpcscen.NewGun(gconf)
	sd, err := wg.WarmUp(&warmup.Options{Log: log, Ctx: ctx})
	if err != nil {
		return "warmuperr"
	}
	ag := &recAggr{}
	guns := make([]*grpcscen.Gun, ninst)
	for i := range guns {
		guns[i] = grpcscen.NewGun(gconf)
		if err := guns[i].Bind(ag, core.GunDeps{Ctx: ctx, Log: log, InstanceID: i, Shared: sd}); err != nil {
			return "binderr"
		}
	}
	srv.Drain()
	defer armFaults(fl)()
	var shots []string
	for _, inst := range order {
		am, ok := prov.Acquire()
		if !ok {
			shots = append(shots, "noammo")
			continue
		}
		before := len(ag.c)
		guns[inst%ninst].Shoot(am)
		codes := ag.c[before:]
		cs := srv.Drain()
		// steps: samples in order; calls in order; a sample with a server call pairs with the next call
		// (sequential shooting: every Sent step has exactly one call, failed steps have none).
		var steps []string
		ci := 0
		for _, code := range codes {
			// a step reached the server iff its code is neither the local 0 nor a local 400 …
			// that cannot be told from the code alone, so pair greedily: failed local steps are
			// always last in a shot (the scenario stops there).
			if ci < len(cs) {
				steps = append(steps, strconv.Itoa(code)+";"+cs[ci].String())
				ci++
			} else {
				steps = append(steps, strconv.Itoa(code)+";-")
			}
		}
		for ; ci < len(cs); ci++ {
			steps = append(steps, "nosample;"+cs[ci].String())
		}
		if len(steps) == 0 {
			steps = []string{"none"}
		}
		shots = append(shots, strings.Join(steps, "|"))
	}
	return authNote(obsAuth, sideNote(strings.Join(shots, "#")))
}

func runCase(c string) (res string) {
	defer func() {
		if r := recover(); r != nil {
			res = "panic:" + vh.HexS(fmt.Sprint(r))
		}
	}()
	f := strings.Split(c, " ")
	useTLS = false
	for _, x := range f {
		if x == "tls=1" {
			useTLS = true
		}
	}
	if useTLS {
		// this case talks to the TLS pair of servers
		srv, side, tlsSrv, tlsSide = tlsSrv, tlsSide, srv, side
		defer func() { srv, side, tlsSrv, tlsSide = tlsSrv, tlsSide, srv, side }()
	}
	switch f[0] {
	case "json":
		return runJSON(f)
	case "scen":
		return runScen(f)
	}
	return "unknown-case"
}

func main() {
	vh.Main(gen, func(cases []string) []string {
		var err error
		srv, err = a20.Start()
		if err != nil {
			panic(err)
		}
		defer srv.Stop()
		side, err = a20.Start()
		if err != nil {
			panic(err)
		}
		defer side.Stop()
		if tlsSrv, err = a20.StartTLS(); err != nil {
			panic(err)
		}
		defer tlsSrv.Stop()
		if tlsSide, err = a20.StartTLS(); err != nil {
			panic(err)
		}
		defer tlsSide.Stop()
		out := make([]string, len(cases))
		for i, c := range cases {
			out[i] = runCase(c)
		}
		return out
	})
}
