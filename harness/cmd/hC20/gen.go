package main

import (
	"fmt"
	"strings"

	"verifharness/internal/vh"
)

type fieldD struct {
	name, jsonName string
	isInt          bool
}

type methodD struct {
	name   string
	fields []fieldD
}

var methods = []methodD{
	{"target.TargetService.Hello", []fieldD{{"name", "name", false}}},
	{"target.TargetService.Auth", []fieldD{{"login", "login", false}, {"pass", "pass", false}}},
	{"target.TargetService.List", []fieldD{{"token", "token", false}, {"user_id", "userId", true}}},
	{"target.TargetService.Order", []fieldD{{"token", "token", false}, {"user_id", "userId", true}, {"item_id", "itemId", true}}},
	{"target.TargetService.Stats", nil},
}

var unknownMethods = []string{"target.TargetService.Nope", "target.TargetService.hello", "TargetService.Hello",
	"", "/target.TargetService/Hello", "target.TargetService.Hello ", "grpc.reflection.v1alpha.ServerReflection.Nope"}

var mdKeys = []string{"authorization", "x-request-id", "Trace-Id", "k.v_1", "data-bin", "payload", "x", "X-UPPER", "metadata"}

var intVals = []string{"0", "1", "-1", "42", "7", "1098", "2147483648", "9007199254740991", "9007199254740992",
	"9007199254740993", "-9007199254740993", "4611686018427387905", "9223372036854775807", "-9223372036854775808",
	"9223372036854775808", "-9223372036854775809", "100000000000000000000", "123456789012345678"}

var strVals = []string{"", "test", "1", "2", "10", "007", "-5", "abc def", "é", "a\"b\\c", "x\ty", "12a", "9007199254740993", "+3", " 4",
	"a&b<c>d", "it's 1+1=2", "50%/x?y", "{{x}} {y}", "<script>alert('x')</script>", "日本語 ü ß"}

func asciiVal(r *vh.Rand) string {
	const cs = "abcdefghijklmnopqrstuvwxyzABCDEFGHIJKLMNOPQRSTUVWXYZ0123456789-_.~!$&'()*+,;=:@/? <>\"{}%#[]|^`"
	n := r.Intn(12)
	var b strings.Builder
	for i := 0; i < n; i++ {
		b.WriteByte(cs[r.Intn(len(cs))])
	}
	return strings.TrimSpace(b.String())
}

func genMeta(r *vh.Rand) string {
	k := r.PickInt([]int{0, 0, 1, 1, 2, 3})
	if k == 0 {
		return "-"
	}
	used := map[string]bool{}
	var items []string
	for len(items) < k {
		key := r.Pick(mdKeys)
		if used[strings.ToLower(key)] {
			continue
		}
		used[strings.ToLower(key)] = true
		items = append(items, vh.HexS(key)+"="+vh.HexS(asciiVal(r)))
	}
	return strings.Join(items, ",")
}

// genReflMeta: the gun option reflect_metadata (credentials of the reflection request). Keys come from the
// same pool as the entries' metadata keys, so an entry may or may not carry a key that reflect_metadata has.
func genReflMeta(r *vh.Rand) string {
	if !r.Chance(2, 5) {
		return ""
	}
	k := r.PickInt([]int{1, 1, 2, 3})
	used := map[string]bool{}
	var items []string
	for len(items) < k {
		key := r.Pick(mdKeys)
		if used[strings.ToLower(key)] {
			continue
		}
		used[strings.ToLower(key)] = true
		items = append(items, vh.HexS(key)+"="+vh.HexS(r.Pick([]string{"Bearer reflection-robot", "1", "refl", ""})+asciiVal(r)))
	}
	return " rm=" + strings.Join(items, ",")
}

// genDial: the gun options dial_options.authority / dial_options.timeout (1/4 of the cases; the :authority of
// every call and reflection stream is then part of the observation)
func genDial(r *vh.Rand) string {
	if !r.Chance(1, 4) {
		return ""
	}
	o := " au=-"
	if r.Chance(2, 3) {
		o = " au=" + vh.HexS(r.Pick([]string{"example.org", "svc.internal:443", "x", "lb-7.prod.example.net", "127.0.0.1:1"}))
	}
	if r.Chance(1, 2) {
		o += fmt.Sprintf(" dt=%d", r.PickInt([]int{300, 3000}))
	}
	return o
}

// genTLS: the gun option tls (1/6 of the cases): target and side-car behind TLS
func genTLS(r *vh.Rand) string {
	if r.Chance(1, 6) {
		return " tls=1"
	}
	return ""
}

// the target's answers: gRPC status codes 1..16, UNAVAILABLE / RESOURCE_EXHAUSTED / INTERNAL (what an
// overloaded or restarting backend says) more often
var answerCodes = []int{14, 14, 14, 14, 8, 8, 13, 13, 4, 1, 2, 3, 5, 6, 7, 9, 10, 11, 12, 15, 16}

// genPlan: answers for the first ncalls unary calls the target receives, in arrival order.
func genPlan(r *vh.Rand, ncalls int, num, den int) string {
	if !r.Chance(num, den) {
		return ""
	}
	var p []string
	for i := 0; i < ncalls; i++ {
		if r.Chance(1, 2) {
			p = append(p, "0")
		} else {
			p = append(p, fmt.Sprint(r.PickInt(answerCodes)))
		}
	}
	return " fl=p" + strings.Join(p, ".")
}

// genPayload: a payload for method m; ill=true plants exactly one ill-typed / unknown field.
func genPayload(r *vh.Rand, m methodD, ill bool) string {
	if !ill && r.Chance(1, 12) {
		return r.Pick([]string{"~", "-"})
	}
	var fs []string
	for _, f := range m.fields {
		if r.Chance(1, 5) {
			continue
		}
		key := f.name
		if r.Chance(1, 3) {
			key = f.jsonName
		}
		var v string
		if f.isInt {
			switch r.Intn(8) {
			case 0:
				v = "s:" + vh.HexS(r.Pick([]string{"1", "10", "9007199254740993", "-5", "007", "9223372036854775807"}))
			case 1:
				v = fmt.Sprintf("r:%d", 2*r.Range(-3, 2000)) // integral real literal d.0
			case 2:
				v = "n:0"
			default:
				v = "i:" + r.Pick(intVals)
			}
		} else {
			if r.Chance(1, 10) {
				v = "n:0"
			} else {
				v = "s:" + vh.HexS(r.Pick(strVals))
			}
		}
		fs = append(fs, vh.HexS(key)+":"+v)
	}
	if ill {
		var bad string
		if len(m.fields) == 0 || r.Chance(1, 4) {
			bad = vh.HexS(r.Pick([]string{"zzz", "Name", "user-id", "nam"})) + ":" + r.Pick([]string{"i:1", "s:" + vh.HexS("x"), "n:0"})
			if strings.HasSuffix(bad, "n:0") {
				bad = vh.HexS("zzz") + ":i:1"
			}
		} else {
			f := m.fields[r.Intn(len(m.fields))]
			if f.isInt {
				bad = vh.HexS(f.name) + ":" + r.Pick([]string{"s:" + vh.HexS("12a"), "s:" + vh.HexS(""), "b:1", "o:0", "r:3", "r:-7",
					"i:9223372036854775808", "i:100000000000000000000", "s:" + vh.HexS("9223372036854775808"), "s:" + vh.HexS("abc")})
			} else {
				bad = vh.HexS(f.name) + ":" + r.Pick([]string{"i:5", "b:0", "o:0", "r:2", "i:0"})
			}
			// drop a good occurrence of the same field (by either name)
			var keep []string
			for _, x := range fs {
				k := string(vh.UnHex(strings.SplitN(x, ":", 2)[0]))
				if k != f.name && k != f.jsonName {
					keep = append(keep, x)
				}
			}
			fs = keep
		}
		pos := r.Intn(len(fs) + 1)
		fs = append(fs[:pos], append([]string{bad}, fs[pos:]...)...)
	}
	if len(fs) == 0 {
		return "-"
	}
	return strings.Join(fs, ",")
}

// nm = number of methods to choose from: the Stats handler of the example server returns its
// live counter maps, which a concurrent Auth call mutates while grpc marshals the answer
// (a data race of the TARGET), so it is left out of the cases that shoot concurrently.
func genEntry(r *vh.Rand, tag string, nm int) string {
	k := r.Intn(20)
	switch {
	case k < 3:
		m := methods[r.Intn(nm)]
		return vh.HexS(tag) + ";" + vh.HexS(r.Pick(unknownMethods)) + ";" + genMeta(r) + ";" + genPayload(r, m, false)
	case k < 8:
		m := methods[r.Intn(nm)]
		return vh.HexS(tag) + ";" + vh.HexS(m.name) + ";" + genMeta(r) + ";" + genPayload(r, m, true)
	default:
		m := methods[r.Intn(nm)]
		return vh.HexS(tag) + ";" + vh.HexS(m.name) + ";" + genMeta(r) + ";" + genPayload(r, m, false)
	}
}

func genJSON(r *vh.Rand) string {
	mode := "d"
	if r.Chance(1, 4) {
		mode = "e"
	}
	n := r.Range(1, 6)
	ninst := r.Range(1, 4)
	var es []string
	for i := 0; i < n; i++ {
		tag := fmt.Sprintf("t%d", i)
		if mode == "d" && r.Chance(1, 5) {
			tag = r.Pick([]string{"", "same", "a b", "ü|x"})
		}
		nm := len(methods)
		if mode == "e" {
			nm--
		}
		es = append(es, genEntry(r, tag, nm))
	}
	modeR := mode
	if r.Chance(1, 3) {
		modeR += "r" // reflection served on another port
	}
	opts := genReflMeta(r)
	if mode == "e" {
		if r.Chance(2, 5) {
			opts += fmt.Sprintf(" fl=h%d.%d", r.Intn(1000), r.PickInt([]int{300, 500, 1000}))
		}
	} else {
		opts += genPlan(r, n, 2, 5)
	}
	opts += genDial(r) + genTLS(r)
	return fmt.Sprintf("json %s %s %d %d %d %d %s%s", modeR, vh.B(r.Chance(1, 2)), r.Range(0, 3), ninst,
		r.PickInt([]int{0, 0, 2000, 5000, 40000}), n, strings.Join(es, " "), opts)
}

// ---- scenarios ----

// values of scenario variables: rendered verbatim into payload strings and metadata (text/template
// semantics: no escaping of any kind); printable ASCII only, since they also go into metadata
var tokPool = []string{"AAA", "BBB", "CCC", "tok-1", "tok_2", "Zz9", "a.b", "x",
	"a&b", "<t>", "it's", "1+1=2", "50%/x", "{y}", "p&q<r>'s'+/=%", "[k]|^`#"}
var scenNames = []string{"s", "s_a", "main", "flow1"}
var callNames = []string{"a", "x", "a_x", "auth", "hello", "list_1", "ord"}

func genTmpl(r *vh.Rand, pp string) string {
	k := r.Range(1, 3)
	var b strings.Builder
	for i := 0; i < k; i++ {
		if r.Chance(1, 2) {
			b.WriteString("{{.request." + pp + ".preprocessor.u." + r.Pick([]string{"token", "token", "id"}) + "}}")
		} else {
			b.WriteString(r.Pick([]string{"Bearer ", "id-", "x", "v1", "a b", "-", "tok", "", "&", "<v>", "'q'", "1+1=", "%2F/", "{l}"}))
		}
	}
	return b.String()
}

// badTmpl: a template that is not one of the well-formed references: an action that is never closed
// (text/template refuses it: the step is a failed sample, nothing is sent), or a path that names nothing
// in the variables (a step that has not run — text/template renders "<no value>", it is NOT an error:
// the call is sent with that text)
func badTmpl(r *vh.Rand, pp string) string {
	switch r.Intn(4) {
	case 0:
		return "v{{.request." + pp + ".preprocessor.u.token"
	case 1:
		return "{{"
	case 2:
		return "{{.request.nostep.postprocessor.x}}"
	default:
		return "id-{{.request.never_ran.postprocessor.body}}"
	}
}

// tags are labels of samples, not identities: several distinct calls may share one or have none
func tagFor(r *vh.Rand, i int) string {
	return r.Pick([]string{"", "t", "t", "same", fmt.Sprintf("tg%d", i), fmt.Sprintf("tg%d", i)})
}

func genScen(r *vh.Rand) string {
	ninst := r.Range(1, 4)
	nshots := r.Range(1, 6)
	var order []string
	for i := 0; i < nshots; i++ {
		order = append(order, fmt.Sprint(r.Intn(ninst)))
	}
	nu := r.Range(1, 4)
	var users []string
	for i := 0; i < nu; i++ {
		users = append(users, vh.HexS(tokPool[r.Intn(len(tokPool))])+":"+vh.HexS(fmt.Sprint(r.PickInt([]int{1, 2, 3, 10, 17, 1098, 2001}))))
	}
	// call definitions: def 0 always carries the preprocessor
	nd := r.Range(1, 4)
	perm := r.Intn(len(callNames))
	pp := callNames[perm%len(callNames)]
	idRef := "{{.request." + pp + ".preprocessor.u.id}}"
	var defs []string
	for i := 0; i < nd; i++ {
		name := callNames[(perm+i)%len(callNames)]
		kind := r.Intn(10)
		m := methods[r.Intn(4)]
		call := m.name
		if kind == 0 && i > 0 {
			call = r.Pick(unknownMethods[:3])
		}
		// metadata templates
		meta := "-"
		if k := r.PickInt([]int{0, 1, 1, 2, 3}); k > 0 {
			used := map[string]bool{}
			var items []string
			for len(items) < k {
				key := r.Pick(mdKeys)
				if used[strings.ToLower(key)] {
					continue
				}
				used[strings.ToLower(key)] = true
				items = append(items, vh.HexS(key)+"="+vh.HexS(genTmpl(r, pp)))
			}
			meta = strings.Join(items, ",")
		}
		var fs []string
		for _, f := range m.fields {
			if r.Chance(1, 6) {
				continue
			}
			key := jstr(f.name) + ": "
			if f.isInt {
				if kind == 1 && i > 0 {
					fs = append(fs, key+`"notanumber"`) // ill-typed: string for int64
				} else if r.Chance(1, 2) {
					fs = append(fs, key+idRef)
				} else {
					fs = append(fs, key+fmt.Sprint(r.Range(0, 5000)))
				}
			} else {
				if kind == 1 && i > 0 {
					fs = append(fs, key+"5") // ill-typed: number for string
				} else {
					fs = append(fs, key+`"`+genTmpl(r, pp)+`"`)
				}
			}
		}
		if kind == 2 && i > 0 {
			fs = append(fs, `"zzz": 1`)
		}
		// kind 3: an odd template (see badTmpl) in the payload or in one metadata value: one that cannot be
		// parsed makes the step a failed sample (code 0), nothing is sent, the shot ends there, other shots
		// are not disturbed; an undefined path is rendered as "<no value>"
		if kind == 3 && i > 0 {
			bad := badTmpl(r, pp)
			if r.Chance(1, 2) || len(m.fields) == 0 {
				item := vh.HexS("x-err") + "=" + vh.HexS(bad)
				if meta == "-" {
					meta = item
				} else {
					meta += "," + item
				}
			} else {
				fs = append(fs[:0:0], fs...)
				fs = append(fs, jstr("zz")+`: "`+bad+`"`)
			}
		}
		pl := vh.HexS("{" + strings.Join(fs, ", ") + "}")
		defs = append(defs, fmt.Sprintf("%s;%s;%s;%s;%s;%s", vh.HexS(name), vh.HexS(tagFor(r, i)), vh.HexS(call), meta, pl, vh.B(i == 0)))
	}
	ns := r.Range(1, 2)
	sperm := r.Intn(len(scenNames))
	var scens []string
	for i := 0; i < ns; i++ {
		steps := []string{"0"}
		for k := r.Range(0, 3); k > 0; k-- {
			steps = append(steps, fmt.Sprint(r.Intn(nd)))
		}
		scens = append(scens, vh.HexS(scenNames[(sperm+i)%len(scenNames)])+":"+strings.Join(steps, "."))
	}
	refl := ""
	if r.Chance(1, 4) {
		refl = "r"
	}
	// at most 4 steps per shot
	opts := genReflMeta(r) + genPlan(r, 4*nshots, 2, 5) + genDial(r) + genTLS(r)
	return fmt.Sprintf("scen %d%s %d %s %s %s %s%s", ninst, refl, r.PickInt([]int{0, 0, 3000, 20000}), strings.Join(order, ","),
		strings.Join(users, ","), strings.Join(defs, "|"), strings.Join(scens, "|"), opts)
}

// ---- time: think time between scenario steps, a target that takes its time ----

// genValidDef: a call definition that is sent (known method, fitting payload).
func genValidDef(r *vh.Rand, i int, name, pp string) string {
	m := methods[r.Intn(4)]
	idRef := "{{.request." + pp + ".preprocessor.u.id}}"
	meta := "-"
	if k := r.PickInt([]int{0, 1, 1, 2}); k > 0 {
		used := map[string]bool{}
		var items []string
		for len(items) < k {
			key := r.Pick(mdKeys)
			if used[strings.ToLower(key)] {
				continue
			}
			used[strings.ToLower(key)] = true
			items = append(items, vh.HexS(key)+"="+vh.HexS(genTmpl(r, pp)))
		}
		meta = strings.Join(items, ",")
	}
	var fs []string
	for _, f := range m.fields {
		key := jstr(f.name) + ": "
		if f.isInt {
			if r.Chance(1, 2) {
				fs = append(fs, key+idRef)
			} else {
				fs = append(fs, key+fmt.Sprint(r.Range(0, 5000)))
			}
		} else {
			fs = append(fs, key+`"`+genTmpl(r, pp)+`"`)
		}
	}
	pl := vh.HexS("{" + strings.Join(fs, ", ") + "}")
	return fmt.Sprintf("%s;%s;%s;%s;%s;%s", vh.HexS(name), vh.HexS(tagFor(r, i)), vh.HexS(m.name), meta, pl, vh.B(i == 0))
}

// genScenTimed: scenarios of 2-4 sent steps with THINK TIME after steps (`name(1,ms)` / `sleep(ms)`) and a
// target whose answers take time, under a request timeout of 1 s / 2 s / none configured (15 s per call).  The property gives every call
// the configured timeout from the moment it is issued, so: latencies well below the timeout (<= T-500 ms:
// answered, whatever was slept or waited for before) or well above it (T+300 ms: that call is a 504
// sample, the next steps are sent all the same); think times up to more than the whole timeout.
// The recorded deadline is rounded to seconds (500 ms of slack for transit on a busy machine).
func genScenTimed(r *vh.Rand) string {
	ninst := r.Range(1, 2)
	nshots := r.PickInt([]int{1, 1, 2})
	var order []string
	for i := 0; i < nshots; i++ {
		order = append(order, fmt.Sprint(r.Intn(ninst)))
	}
	// the configured timeout (0 = none configured: 15 s per call) and the timeout in effect
	conf := r.PickInt([]int{1000, 1000, 1000, 2000, 2000, 0})
	T := conf
	if T == 0 {
		T = 15000
	}
	nu := r.Range(1, 3)
	var users []string
	for i := 0; i < nu; i++ {
		users = append(users, vh.HexS(tokPool[r.Intn(len(tokPool))])+":"+vh.HexS(fmt.Sprint(r.PickInt([]int{1, 2, 3, 10, 17, 1098, 2001}))))
	}
	nd := r.Range(1, 3)
	perm := r.Intn(len(callNames))
	pp := callNames[perm%len(callNames)]
	var defs []string
	for i := 0; i < nd; i++ {
		defs = append(defs, genValidDef(r, i, callNames[(perm+i)%len(callNames)], pp))
	}
	nsteps := r.Range(2, 4)
	budget := 1700 // ms of think time + latency per shot, keeps the quick tier short
	var steps, plan []string
	slow := false
	for k := 0; k < nsteps; k++ {
		idx := 0
		if k > 0 {
			idx = r.Intn(nd)
		}
		st := fmt.Sprint(idx)
		// the answer to this step
		lat := 0
		switch r.Intn(8) {
		case 0, 1:
			lat = r.PickInt([]int{150, 300, 500})
		case 2:
			if !slow && budget >= T+300 {
				lat = T + 300
				slow = true
			}
		}
		if lat > T {
			budget -= T
		} else if lat <= budget {
			budget -= lat
		} else {
			lat = 0
		}
		code := 0
		if r.Chance(1, 4) {
			code = r.PickInt(answerCodes)
		}
		if lat > 0 {
			plan = append(plan, fmt.Sprintf("%d+%d", code, lat))
		} else {
			plan = append(plan, fmt.Sprint(code))
		}
		// think time after the step
		if k < nsteps-1 || r.Chance(1, 4) {
			sl := r.PickInt([]int{0, 100, 300, 600, 700, 1100, T + 100}) // capped by the budget below
			if sl > budget {
				sl = budget / 100 * 100
			}
			budget -= sl
			if sl > 0 {
				st += r.Pick([]string{"~", "^"}) + fmt.Sprint(sl)
			}
		}
		steps = append(steps, st)
	}
	scen := vh.HexS(r.Pick(scenNames)) + ":" + strings.Join(steps, ".")
	// the same answers for every shot
	var all []string
	for i := 0; i < nshots; i++ {
		all = append(all, plan...)
	}
	return fmt.Sprintf("scen %d %d %s %s %s %s%s fl=p%s", ninst, conf, strings.Join(order, ","),
		strings.Join(users, ","), strings.Join(defs, "|"), scen, genReflMeta(r), strings.Join(all, "."))
}

// genJSONTimed: grpc/json entries against a target that takes its time: an entry whose answer does not
// come within the timeout is a 504 sample for THAT entry; the entries after it are sent as written.
func genJSONTimed(r *vh.Rand) string {
	n := r.Range(2, 4)
	T := 1000
	var es, plan []string
	slowAt := r.Intn(n + 1) // n: none
	for i := 0; i < n; i++ {
		e := genEntry(r, fmt.Sprintf("t%d", i), len(methods))
		es = append(es, e)
		code := 0
		if r.Chance(1, 4) {
			code = r.PickInt(answerCodes)
		}
		switch {
		case i == slowAt:
			plan = append(plan, fmt.Sprintf("%d+%d", code, T+300))
		case r.Chance(1, 3):
			plan = append(plan, fmt.Sprintf("%d+%d", code, r.PickInt([]int{100, 300, 500})))
		default:
			plan = append(plan, fmt.Sprint(code))
		}
	}
	return fmt.Sprintf("json d %s %d %d %d %d %s%s fl=p%s", vh.B(r.Chance(1, 2)), r.Range(0, 3), r.Range(1, 3), T, n,
		strings.Join(es, " "), genReflMeta(r), strings.Join(plan, "."))
}

// genLong: more entries than the provider's sink buffer (128), so that ammo objects released to
// the provider's sync.Pool are reused for later entries (state leaking from one entry into a
// later one through the pooled object would show here).
func genLong(r *vh.Rand) string {
	n := r.Range(300, 420)
	var es []string
	for i := 0; i < n; i++ {
		es = append(es, genEntry(r, fmt.Sprintf("t%d", i), len(methods)))
	}
	opts := genReflMeta(r) + genPlan(r, n, 1, 2)
	return fmt.Sprintf("json %s %s %d %d %d %d %s%s", r.Pick([]string{"d", "dr"}), vh.B(r.Chance(1, 2)), r.Range(0, 3), r.Range(1, 4),
		r.PickInt([]int{0, 2000}), n, strings.Join(es, " "), opts)
}

// genOverload: engine mode, discard_overflow on, a pool that falls >= 2 s behind its schedule: a burst of tokens at
// t = 0, then a constant rate for a fraction of a second, while the first answer to each instance takes 2.1-2.3 s.
// The instances discard what is >= 2 s overdue and shoot the rest. More entries than the provider's read-ahead
// (128), so the entries shot after the discards are decoded into ammo objects released during the discards.
func genOverload(r *vh.Rand) string {
	ninst := r.Range(1, 3)
	burst := r.Range(30, 90)
	rps := r.PickInt([]int{200, 300, 400})
	ms := r.PickInt([]int{250, 500, 750}) // fractions of a second that are exact in binary: rps*ms/1000 tokens, no rounding
	if t := burst + rps*ms/1000; t < 150 {
		burst += 150 - t
	}
	// a few tokens more than entries, or exactly as many (the run ends when the file is read); one case in four:
	// fewer tokens than entries (the schedule ends first, the last entries are never acquired)
	n := burst + rps*ms/1000 - r.Intn(10)
	if r.Chance(1, 4) {
		n = burst + rps*ms/1000 + r.Range(1, 12)
	}
	var es []string
	for i := 0; i < n; i++ {
		es = append(es, genEntry(r, fmt.Sprintf("t%d", i), len(methods)-1))
	}
	modeR := "e"
	if r.Chance(1, 3) {
		modeR += "r"
	}
	opts := genReflMeta(r) + fmt.Sprintf(" ov=%d.%d.%d.%d", burst, rps, ms, r.Range(2100, 2300))
	return fmt.Sprintf("json %s %s %d %d %d %d %s%s", modeR, vh.B(r.Chance(1, 2)), r.Range(0, 3), ninst,
		r.PickInt([]int{0, 5000, 40000}), n, strings.Join(es, " "), opts)
}

func gen(r *vh.Rand, tier string) []string {
	n := 220
	if tier == "thorough" {
		n = 4000
	}
	var out []string
	for i := 0; i < 1+n/400; i++ {
		out = append(out, genLong(r))
	}
	// time: think time / slow answers (each case takes about a second of wall clock)
	nt, njt := 10, 3
	if tier == "thorough" {
		nt, njt = 40, 10
	}
	for i := 0; i < nt; i++ {
		out = append(out, genScenTimed(r))
	}
	for i := 0; i < njt; i++ {
		out = append(out, genJSONTimed(r))
	}
	// overload + discard_overflow (each case takes about 2.5 s of wall clock)
	nov := 5
	if tier == "thorough" {
		nov = 16
	}
	for i := 0; i < nov; i++ {
		out = append(out, genOverload(r))
	}
	for i := 0; i < n; i++ {
		if i%5 < 3 {
			out = append(out, genJSON(r))
		} else {
			out = append(out, genScen(r))
		}
	}
	return out
}
