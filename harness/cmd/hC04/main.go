// hC04: correspondence harness for property C04 (timing: no early shots, the 2 s discard window).
//
// Case kinds (all times in milliseconds, token times relative to the start instant t0):
//
//	w <step> <step> ...       the REAL coreutil.Waiter on a mock schedule; a step is
//	                          <sleep>:<tok>        sleep, then Wait for a token due at t0+tok
//	                          <sleep>:end          sleep, then Wait on a finished schedule
//	                          <sleep>:<tok>:c      sleep, cancel the context, then Wait
//	                          <sleep>:<tok>:k<ms>  sleep, Wait; the context is cancelled <ms> after Wait was entered
//	st <last|none> <tok>      (nanoseconds, relative to a base instant 10 s in the past) a Waiter whose cached reading is
//	                          preset to base+last (verif hook), one Wait for a token at base+tok: exact boundaries of the
//	                          "due by the cached reading" and "cached reading proves >= 2 s" comparisons
//	near <us> <us> ...        every Next() of the mock schedule returns time.Now()+<us> microseconds
//	eng <discard 0|1> <tok,tok,...> <dur,dur,...>
//	                          the REAL engine, one pool, one instance, the tokens of a mock shared schedule,
//	                          a gun whose i-th Shoot sleeps dur_i, discard_overflow as given
//
//	prof <discard 0|1> <segs> <offs|-> <tail|-> <durs|->
//	                          the REAL engine, one instance, on a REAL composite rps profile built from <segs> =
//	                          once.<n> ; const.<ops>.<ms> ; pause.<ms> ; unl.<ms> (';'-separated); <offs> = the offsets (µs from
//	                          the run's start) the CONFIGURED profile gives its finite tokens and <tail> = <start µs>:<dur µs>
//	                          of its unlimited tail -- both are recomputed by the model from <segs> and must agree;
//	                          the i-th Shoot sleeps dur_i ms (25 ms when not given)
//
//	cfg <form>,<form>,...     one pool per <form>; the pool's discard_overflow key is written as
//	                          absent | true | false | envtrue | envfalse (a ${env:...} placeholder resolving to true/false);
//	                          the YAML file goes through the REAL CLI config reader (cli.readConfig via the verif hook, in a
//	                          subprocess); observed: the DiscardOverflow of every decoded pool
//	ph <inst> <behind> <ordinary> <episodes> [<queue> <stall>]
//	                          the REAL engine with the REAL phout aggregator (afero mem fs) and a gun that reports samples
//	                          obtained from netsample.Acquire; <inst> instances, <episodes> overload episodes: <inst> tokens whose
//	                          shots take 2.6 s, <behind> tokens 100..300 ms behind them (picked up >= 2.3 s late), then
//	                          <ordinary> on-time tokens 10 ms apart; every line of the phout file is judged.
//	                          <queue> = phout's sample-queue-size (0: the default); <stall> = 1: the results file is slow --
//	                          every write to it issued before t0+2.9 s returns at t0+2.9 s (the burst of discards of the
//	                          first episode meets a writer that is stuck in its flush)
//
//	pool <discard 0|1> <perinst 0|1> <start,start,...> <m:off,off,...|p:segs> <durs/durs/...|->
//	                          the REAL engine, ONE POOL with as many instances as there are <start>s (ms; a mock startup
//	                          schedule hands them out), rps-per-instance as given: every instance gets a schedule of its own
//	                          (perinst 1) or all draw from one shared schedule; the schedule is a mock token list (m: offsets
//	                          in ms from its first Next()) or a REAL finite composite profile (p: segments as in prof);
//	                          the j-th Shoot of the k-th instance sleeps durs[k][j] ms (0 when not given).  Every Next(),
//	                          Shoot and Report is attributed to its instance (the goroutine instance.Run runs on).
//
//	comp <n> <segs> <offs>    the REAL composite schedule over REAL finite segments (segs/offs as in prof) shared by <n> goroutines,
//	                          each with a REAL coreutil.Waiter of its own, looping on Wait (a request is "fired" when Wait returns).
//	                          Every nested segment is wrapped so that a caller that is told "finished" is held (at most 100 ms)
//	                          until all <n> callers hold such an answer: concurrent callers meet the segment switch together.
//	                          Judged against the CONFIGURED profile with no knowledge of who took which token: at no instant
//	                          have more requests been fired than tokens of the profile were due.
//
//	first <n> <bare 0|1> <segs> <offs> <dur> <trials>
//	                          <n> instances, each with a REAL coreutil.Waiter of its own, take their FIRST token from one fresh
//	                          REAL self-starting schedule at the same moment (spin barrier; what `startup: once N` does), <trials>
//	                          times on a fresh schedule each; bare 1: the leaf schedule itself (once / const), 0: the composite over
//	                          <segs>; <offs> / <dur> (µs) = token offsets and length of the CONFIGURED profile.  The instant ends as soon as
//	                          every instance holds its answer; an instance whose token is not yet due is cancelled in its sleep.
//	                          These cases run one at a time after all the others (they spin).
//
// Observation: one field per token, only booleans / inequalities, never raw times:
//
//	w:   <ok><slow><not_early><late_enter><late_ret>   (IsSlowDown after Wait; measured instants before/after Wait
//	                                                     against the token time and the 2 s window)
//	st:  <ok><slow><refreshed><cached_exact>            (refreshed: the cached reading changed; cached_exact: it did not and
//	                                                     overdue == cached reading - token)
//	near: <ok><not_early>
//	prof: per finite token <F|D><not before its configured offset><late2s>, then c=<lt|eq|gt> (events vs finite tokens;
//	      lt|ge when the profile has an unlimited tail)
//	proftail (same run as prof): t=<no shot of the unlimited tail before the tail's configured start>
//	cfg: one bit per pool (DiscardOverflow)
//	ph:  N=<lines> F=<lines tagged by the gun with net 0 / proto 200> D=<lines 'discarded' with net 777> X=<other lines> S=<Shoot calls>
//	pool: per token <instance>:<F|D|L><not_early><late2s at hand-out><late2s at Shoot entry / discard report> (L = neither fired nor
//	      reported; grouped by instance for own schedules, in hand-out order for the shared one), then R=<reports that are
//	      777/'discarded'> X=<other reports + events outside any token> S=<schedules built>
//	      E=<discard_overflow off, or engine.Run returned within last start + profile length + 2 s + the longest response (+ margin)>
//	comp: one bit per fired request in order of firing: at least k+1 tokens of the configured profile are due when the k-th (from 0)
//	      request is fired (profile start = an instant not after the first Next()); then c=<lt|eq|gt> (requests vs tokens)
//	first: <ahead bits>/<slow bits> c=<requests fired in the instant>: per request fired, in order of firing, "at least k+1 tokens of the
//	      configured profile were due (profile start = an instant before the barrier opens)" and "NOT (IsSlowDown although fired less
//	      than 2 s after that instant)"; the observation is that of the first trial with a 0 bit, else that of the first trial
//	      (trials that took longer than 50 ms say nothing and are skipped; none left: "disturbed")
//	eng: <F|D><not_early><late2s><sample_ok>            (F fired / D reported as discarded; instant of Shoot entry or of
//	                                                     the discard report against the token; D: net code 777 + tag)
//
// Every case is planned with a margin (>= 250 ms) around each comparison the code or the observation
// makes. An attempt during which the canary (see below) saw the machine unable to keep time is
// repeated (up to 8 times, then the observation is "disturbed": no information).
package main

import (
	"context"
	"fmt"
	"os"
	"os/exec"
	"path/filepath"
	"runtime"
	"sort"
	"strconv"
	"strings"
	"sync"
	"sync/atomic"
	"time"

	"github.com/spf13/afero"
	"github.com/yandex/pandora/cli"
	"github.com/yandex/pandora/core"
	"github.com/yandex/pandora/core/aggregator/netsample"
	"github.com/yandex/pandora/core/coreutil"
	"github.com/yandex/pandora/core/engine"
	coreimport "github.com/yandex/pandora/core/import"
	"github.com/yandex/pandora/core/register"
	"github.com/yandex/pandora/core/schedule"
	"github.com/yandex/pandora/lib/monitoring"
	"go.uber.org/zap"

	"verifharness/internal/vh"
)

const (
	ms        = int64(time.Millisecond)
	window    = 2000 * ms
	margin    = 250 * ms
)

// ---- canary: is the machine able to keep time right now? ----
//
// A goroutine sleeps 5 ms in a loop; whenever such a sleep overshoots by more than 50 ms the
// disturbance counter is bumped. An attempt during which the counter moved says nothing about the
// code (the harness's own sleeps were off as well) and is repeated; this criterion does not look
// at the code under test, so a Wait that hangs or returns at the wrong time is never excused.
var disturbances atomic.Int64

func canary() {
	for {
		t := time.Now()
		time.Sleep(5 * time.Millisecond)
		if time.Since(t) > 55*time.Millisecond {
			disturbances.Add(1)
		}
	}
}

const maxAttempts = 8

// ---- mock schedule: tokens at t0+offset, t0 = the instant of Start or of the first Next ----

type offSchedule struct {
	mu      sync.Mutex
	offs    []int64 // ns
	i       int
	t0      time.Time
	started bool
}

func (s *offSchedule) Start(at time.Time) {
	s.mu.Lock()
	defer s.mu.Unlock()
	if !s.started {
		s.t0, s.started = at, true
	}
}

func (s *offSchedule) Next() (time.Time, bool) {
	s.mu.Lock()
	defer s.mu.Unlock()
	if !s.started {
		s.t0, s.started = time.Now(), true
	}
	if s.i >= len(s.offs) {
		return s.t0, false
	}
	t := s.t0.Add(time.Duration(s.offs[s.i]))
	s.i++
	return t, true
}

func (s *offSchedule) Left() int {
	s.mu.Lock()
	defer s.mu.Unlock()
	return len(s.offs) - s.i
}

// ---- nominal simulation (planning only: margins and the expected timeline) ----

type wsim struct {
	has           bool
	last, overdue int64
}

type sim struct {
	fixed     bool
	w         wsim
	minMargin int64
	// zeroDue: the call chain is the one that started the schedule (its first Next() defines the token times), so
	// relative to the tokens its instants can only drift later than planned: a token planned to be due by exactly
	// 0 ns is due in reality as well
	zeroDue bool
}

func (s *sim) cmpDue(x int64) {
	if s.zeroDue && x == 0 {
		return
	}
	s.cmp(x)
}

func (s *sim) cmp(x int64) { // a comparison "x <= 0" / "x < 0": distance of x from the boundary
	if x < 0 {
		x = -x
	}
	if x < s.minMargin {
		s.minMargin = x
	}
}

// wait returns the nominal return instant
func (s *sim) wait(next, enter int64) int64 {
	if s.w.has {
		s.cmpDue(next - s.w.last)
		if next-s.w.last <= 0 {
			od := s.w.last - next
			if s.fixed {
				s.cmp(od - window)
				if od < window {
					s.w.last, s.w.overdue = enter, enter-next
				} else {
					s.w.overdue = od
				}
			} else {
				s.w.overdue = od
			}
			s.cmp(s.w.overdue - window)
			return enter
		}
	}
	s.w.has, s.w.last = true, enter
	s.cmpDue(next - enter)
	if next-enter <= 0 {
		s.w.overdue = enter - next
		s.cmp(s.w.overdue - window)
		return enter
	}
	s.w.overdue = 0
	return next
}

type wstep struct {
	sleep, tok int64
	end        bool
	cancelPre  bool
	cancelIn   int64 // >0: cancel that long after Wait was entered
}

func parseW(fields []string) []wstep {
	var out []wstep
	for _, f := range fields {
		p := strings.Split(f, ":")
		st := wstep{}
		v, _ := strconv.ParseInt(p[0], 10, 64)
		st.sleep = v * ms
		if p[1] == "end" {
			st.end = true
		} else {
			v, _ = strconv.ParseInt(p[1], 10, 64)
			st.tok = v * ms
		}
		if len(p) > 2 {
			if p[2] == "c" {
				st.cancelPre = true
			} else if strings.HasPrefix(p[2], "k") {
				v, _ = strconv.ParseInt(p[2][1:], 10, 64)
				st.cancelIn = v * ms
			}
		}
		out = append(out, st)
	}
	return out
}

// planW: nominal enter instants and the smallest margin, for one variant
func planW(steps []wstep, fixed bool) ([]int64, int64) {
	e, _, m := planW2(steps, fixed)
	return e, m
}

// planW2: nominal enter and return instants and the smallest margin, for one variant
func planW2(steps []wstep, fixed bool) ([]int64, []int64, int64) {
	s := &sim{fixed: fixed, minMargin: 1 << 62}
	t := int64(0)
	var enters, rets []int64
	done := false
	for _, st := range steps {
		t += st.sleep
		enters = append(enters, t)
		if done || st.cancelPre || st.end {
			if st.cancelPre {
				done = true
			}
			rets = append(rets, t)
			continue
		}
		ret := s.wait(st.tok, t)
		if st.cancelIn > 0 {
			if ret > t+st.cancelIn {
				s.cmp(ret - (t + st.cancelIn))
				ret = t + st.cancelIn
			} else {
				s.cmp(t + st.cancelIn - ret)
			}
			done = true
		} else {
			// the observation's own comparisons
			s.cmp(t - st.tok - window)
			s.cmp(ret - st.tok - window)
		}
		t = ret
		rets = append(rets, t)
	}
	return enters, rets, s.minMargin
}

func b(x bool) string { return vh.B(x) }

func runW(fields []string) string {
	steps := parseW(fields)
	var obs []string
	for attempt := 0; attempt < maxAttempts; attempt++ {
		before := disturbances.Load()
		var offs []int64
		for _, st := range steps {
			if !st.end {
				offs = append(offs, st.tok)
			}
		}
		sched := &offSchedule{offs: offs}
		ctx, cancel := context.WithCancel(context.Background())
		w := coreutil.NewWaiter(sched)
		t0 := time.Now()
		sched.Start(t0)
		obs = obs[:0]
		for _, st := range steps {
			time.Sleep(time.Duration(st.sleep))
			if st.cancelPre {
				cancel()
			}
			var timer *time.Timer
			if st.cancelIn > 0 {
				timer = time.AfterFunc(time.Duration(st.cancelIn), cancel)
			}
			enter := time.Since(t0).Nanoseconds()
			ok := w.Wait(ctx)
			ret := time.Since(t0).Nanoseconds()
			slow := w.IsSlowDown(ctx)
			if timer != nil {
				timer.Stop()
			}
			tok := st.tok
			obs = append(obs, b(ok)+b(slow)+b(!ok || ret >= tok)+b(ok && enter-tok >= window)+b(ok && ret-tok >= window))
		}
		cancel()
		if disturbances.Load() == before {
			return strings.Join(obs, " ")
		}
	}
	return "disturbed"
}


// ---- engine level ----

type event struct {
	discarded bool
	at        int64
	sampleOK  bool
}

type recAggr struct {
	mu  sync.Mutex
	t0  func() time.Time
	evs *[]event
}

func (a *recAggr) Run(ctx context.Context, _ core.AggregatorDeps) error { <-ctx.Done(); return nil }
func (a *recAggr) Report(s core.Sample) {
	ns, ok := s.(*netsample.Sample)
	if !ok {
		return
	}
	at := time.Since(a.t0()).Nanoseconds()
	// the property's own words: net code 777, tag 'discarded' (literals on purpose, not the source's constants)
	good := ns.Tags() == "discarded" && strings.Contains(ns.String(), "\t777\t")
	a.mu.Lock()
	*a.evs = append(*a.evs, event{discarded: true, at: at, sampleOK: good})
	a.mu.Unlock()
}

type slowGun struct {
	aggr *recAggr
	durs []int64
	n    int
}

func (g *slowGun) Bind(core.Aggregator, core.GunDeps) error { return nil }
func (g *slowGun) Shoot(core.Ammo) {
	at := time.Since(g.aggr.t0()).Nanoseconds()
	g.aggr.mu.Lock()
	*g.aggr.evs = append(*g.aggr.evs, event{at: at})
	g.aggr.mu.Unlock()
	d := int64(0)
	if g.n < len(g.durs) {
		d = g.durs[g.n]
	}
	g.n++
	time.Sleep(time.Duration(d))
}

type endlessProvider struct{}

func (endlessProvider) Run(ctx context.Context, _ core.ProviderDeps) error { <-ctx.Done(); return nil }
func (endlessProvider) Acquire() (core.Ammo, bool)                         { return struct{}{}, true }
func (endlessProvider) Release(core.Ammo)                                  {}

func parseList(s string) []int64 {
	var out []int64
	if s == "-" || s == "" {
		return out
	}
	for _, x := range strings.Split(s, ",") {
		v, _ := strconv.ParseInt(x, 10, 64)
		out = append(out, v*ms)
	}
	return out
}

// planEng: nominal entry instants (Shoot entry / discard report) and the smallest margin
func planEng(discard bool, toks, durs []int64, fixed bool) ([]int64, int64) {
	s := &sim{fixed: fixed, minMargin: 1 << 62}
	t := int64(0)
	var entries []int64
	k := 0
	for _, tok := range toks {
		ret := s.wait(tok, t)
		entries = append(entries, ret)
		s.cmp(ret - tok - window)
		if discard && s.w.overdue >= window {
			t = ret
			continue
		}
		d := int64(0)
		if k < len(durs) {
			d = durs[k]
		}
		k++
		t = ret + d
	}
	return entries, s.minMargin
}

func runEng(fields []string) string {
	discard := fields[0] == "1"
	toks := parseList(fields[1])
	durs := parseList(fields[2])
	var obs []string
	for attempt := 0; attempt < maxAttempts; attempt++ {
		before := disturbances.Load()
		sched := &offSchedule{offs: toks}
		var evs []event
		aggr := &recAggr{evs: &evs, t0: func() time.Time { sched.mu.Lock(); defer sched.mu.Unlock(); return sched.t0 }}
		gun := &slowGun{aggr: aggr, durs: durs}
		conf := engine.Config{Pools: []engine.InstancePoolConfig{{
			Provider:        endlessProvider{},
			Aggregator:      aggr,
			NewGun:          func() (core.Gun, error) { return gun, nil },
			NewRPSSchedule:  func() (core.Schedule, error) { return sched, nil },
			StartupSchedule: schedule.NewOnce(1),
			DiscardOverflow: discard,
		}}}
		m := engine.Metrics{Request: &monitoring.Counter{}, Response: &monitoring.Counter{}, InstanceStart: &monitoring.Counter{}, InstanceFinish: &monitoring.Counter{}}
		eng := engine.New(zap.NewNop(), m, conf)
		ctx, cancel := context.WithTimeout(context.Background(), 30*time.Second)
		sched.Start(time.Now())
		err := eng.Run(ctx)
		cancel()
		eng.Wait()
		obs = obs[:0]
		if err != nil {
			obs = append(obs, "run-error")
		}
		for i, e := range evs {
			if i >= len(toks) {
				break
			}
			kind := "F"
			if e.discarded {
				kind = "D"
			}
			obs = append(obs, kind+b(e.at >= toks[i])+b(e.at-toks[i] >= window)+b(!e.discarded || e.sampleOK))
		}
		if len(evs) != len(toks) {
			obs = append(obs, fmt.Sprintf("events=%d", len(evs)))
		}
		if disturbances.Load() == before {
			return strings.Join(obs, " ")
		}
	}
	return "disturbed"
}

// ---- engine on a real composite profile ----

func buildProfile(segs string) core.Schedule {
	var parts []core.Schedule
	for _, sg := range strings.Split(segs, ";") {
		f := strings.Split(sg, ".")
		at := func(i int) int64 { v, _ := strconv.ParseInt(f[i], 10, 64); return v }
		switch f[0] {
		case "once":
			parts = append(parts, schedule.NewOnce(at(1)))
		case "const":
			parts = append(parts, schedule.NewConst(float64(at(1)), time.Duration(at(2))*time.Millisecond))
		case "pause":
			parts = append(parts, schedule.NewConst(0, time.Duration(at(1))*time.Millisecond))
		case "unl":
			parts = append(parts, schedule.NewUnlimited(time.Duration(at(1))*time.Millisecond))
		case "step": // step.<from mrps>.<to mrps>.<step rps>.<ms per level>: the registered `step` profile
			parts = append(parts, schedule.NewStepConf(schedule.StepConfig{
				From: float64(at(1)) / 1000, To: float64(at(2)) / 1000, Step: at(3), Duration: time.Duration(at(4)) * time.Millisecond}))
		case "istep": // istep.<from>.<to>.<step>.<ms>: the registered `instance_step` profile used as an rps profile
			parts = append(parts, schedule.NewInstanceStepConf(schedule.InstanceStepConfig{
				From: at(1), To: at(2), Step: at(3), StepDuration: time.Duration(at(4)) * time.Millisecond}))
		}
	}
	if len(parts) == 1 && (strings.HasPrefix(segs, "step.") || strings.HasPrefix(segs, "istep.")) {
		return parts[0] // the profile as the config factory hands it to the pool: not wrapped again
	}
	return schedule.NewComposite(parts...)
}

type profGun struct {
	mu   *sync.Mutex
	t0   time.Time
	evs  *[]event
	durs []int64
	n    int
}

func (g *profGun) Bind(core.Aggregator, core.GunDeps) error { return nil }
func (g *profGun) Shoot(core.Ammo) {
	at := time.Since(g.t0).Nanoseconds()
	g.mu.Lock()
	*g.evs = append(*g.evs, event{at: at})
	g.mu.Unlock()
	d := 25 * ms
	if g.n < len(g.durs) {
		d = g.durs[g.n]
	}
	g.n++
	time.Sleep(time.Duration(d))
}

func parseUs(s string) []int64 {
	var out []int64
	if s == "-" || s == "" {
		return out
	}
	for _, x := range strings.Split(s, ",") {
		v, _ := strconv.ParseInt(x, 10, 64)
		out = append(out, v*1000)
	}
	return out
}

func runProf(fields []string, tailOnly bool) string {
	discard := fields[0] == "1"
	offs := parseUs(fields[2])
	hasTail := fields[3] != "-"
	var tailStart int64
	if hasTail {
		p := strings.Split(fields[3], ":")
		v, _ := strconv.ParseInt(p[0], 10, 64)
		tailStart = v * 1000
	}
	durs := parseList(fields[4])
	for attempt := 0; attempt < maxAttempts; attempt++ {
		before := disturbances.Load()
		sched := buildProfile(fields[1])
		var evs []event
		t0 := time.Now()
		sched.Start(t0)
		aggr := &recAggr{evs: &evs, t0: func() time.Time { return t0 }}
		gun := &profGun{mu: &aggr.mu, t0: t0, evs: &evs, durs: durs}
		conf := engine.Config{Pools: []engine.InstancePoolConfig{{
			Provider:        endlessProvider{},
			Aggregator:      aggr,
			NewGun:          func() (core.Gun, error) { return gun, nil },
			NewRPSSchedule:  func() (core.Schedule, error) { return sched, nil },
			StartupSchedule: schedule.NewOnce(1),
			DiscardOverflow: discard,
		}}}
		m := engine.Metrics{Request: &monitoring.Counter{}, Response: &monitoring.Counter{}, InstanceStart: &monitoring.Counter{}, InstanceFinish: &monitoring.Counter{}}
		eng := engine.New(zap.NewNop(), m, conf)
		ctx, cancel := context.WithTimeout(context.Background(), 30*time.Second)
		err := eng.Run(ctx)
		cancel()
		eng.Wait()
		var obs []string
		if err != nil {
			obs = append(obs, "run-error")
		}
		n := len(offs)
		tailOK := true
		for i, e := range evs {
			if i < n {
				kind := "F"
				if e.discarded {
					kind = "D"
				}
				obs = append(obs, kind+b(e.at >= offs[i])+b(e.at-offs[i] >= window))
			} else if !hasTail || e.at < tailStart {
				tailOK = false
			}
		}
		c := "eq"
		switch {
		case len(evs) < n:
			c = "lt"
		case hasTail:
			c = "ge"
		case len(evs) > n:
			c = "gt"
		}
		obs = append(obs, "c="+c)
		if tailOnly {
			// same run, judged only on: no shot of the unlimited tail before the tail's configured start
			obs = []string{"t=" + b(tailOK)}
		}
		if disturbances.Load() == before {
			return strings.Join(obs, " ")
		}
	}
	return "disturbed"
}

// ---- the CLI config reader ----

type cfgGun struct{}

func (cfgGun) Bind(core.Aggregator, core.GunDeps) error { return nil }
func (cfgGun) Shoot(core.Ammo)                          {}

func cliSub(file string) {
	coreimport.Import(afero.NewMemMapFs())
	register.Gun("verifgun", func() core.Gun { return cfgGun{} })
	conf := cli.VerifReadConfig([]string{file})
	var bits string
	for _, p := range conf.Engine.Pools {
		bits += b(p.DiscardOverflow)
	}
	fmt.Println("RESULT " + bits)
}

func runCfg(forms string, idx int) string {
	var y strings.Builder
	y.WriteString("pools:\n")
	env := os.Environ()
	for i, f := range strings.Split(forms, ",") {
		fmt.Fprintf(&y, "  - id: p%d\n    gun: {type: verifgun}\n    ammo: {type: dummy}\n    result: {type: discard}\n", i)
		y.WriteString("    rps: {type: once, times: 1}\n    startup: {type: once, times: 1}\n")
		switch f {
		case "true", "false":
			fmt.Fprintf(&y, "    discard_overflow: %s\n", f)
		case "envtrue", "envfalse":
			fmt.Fprintf(&y, "    discard_overflow: ${env:VERIF_DO_%d}\n", i)
			env = append(env, fmt.Sprintf("VERIF_DO_%d=%s", i, f[3:]))
		}
	}
	dir, err := os.MkdirTemp("", "a04-hC04-")
	if err != nil {
		return "tmpdir-error"
	}
	defer os.RemoveAll(dir)
	file := filepath.Join(dir, fmt.Sprintf("load-%d.yaml", idx))
	if err := os.WriteFile(file, []byte(y.String()), 0o644); err != nil {
		return "write-error"
	}
	exe, _ := os.Executable()
	cmd := exec.Command(exe, "clisub", file)
	cmd.Env = env
	cmd.Dir = dir
	out, err := cmd.Output()
	if err != nil {
		return "config-rejected"
	}
	for _, l := range strings.Split(string(out), "\n") {
		if strings.HasPrefix(l, "RESULT ") {
			return l[7:]
		}
	}
	return "no-result"
}

// ---- the real phout aggregator, a gun that uses netsample.Acquire ----

type phGun struct {
	// the Shoot calls of an episode: first one per instance taking 2.6 s, then one per ordinary token (1 ms); tokens that are
	// discarded make no call. Which calls are slow is decided by their number, not by the wall clock: a machine that is
	// slow to start the engine still runs the planned episodes.
	inst, ordinary int64
	aggr           netsample.Aggregator
	shoots         *atomic.Int64
}

func (g *phGun) Bind(a core.Aggregator, _ core.GunDeps) error {
	g.aggr = netsample.UnwrapAggregator(a)
	return nil
}

func (g *phGun) Shoot(core.Ammo) {
	k := g.shoots.Add(1) - 1
	s := netsample.Acquire("verifgun")
	d := ms
	if k%(g.inst+g.ordinary) < g.inst {
		d = 2600 * ms
	}
	time.Sleep(time.Duration(d))
	s.SetProtoCode(200)
	g.aggr.Report(s)
}

// stallFs: a results file system that is slow for a while: a Write issued before [until] returns at [until].
type stallFs struct {
	afero.Fs
	until time.Time
}

type stallFile struct {
	afero.File
	until time.Time
}

func (f stallFs) Create(name string) (afero.File, error) {
	file, err := f.Fs.Create(name)
	if err != nil {
		return nil, err
	}
	return stallFile{File: file, until: f.until}, nil
}

func (f stallFile) Write(p []byte) (int, error) {
	if d := time.Until(f.until); d > 0 {
		time.Sleep(d)
	}
	return f.File.Write(p)
}

func runPh(fields []string) string {
	at := func(i int) int64 { v, _ := strconv.ParseInt(fields[i], 10, 64); return v }
	inst, behind, ordinary, episodes := at(0), at(1), at(2), at(3)
	queue, stall := int64(0), false
	if len(fields) == 6 {
		queue, stall = at(4), at(5) == 1
	}
	var toks []int64
	base := int64(0)
	for e := int64(0); e < episodes; e++ {
		for i := int64(0); i < inst; i++ {
			toks = append(toks, base)
		}
		for i := int64(0); i < behind; i++ {
			toks = append(toks, base+100*ms+i*200*ms/behind)
		}
		for i := int64(0); i < ordinary; i++ {
			toks = append(toks, base+2700*ms+i*10*ms)
		}
		base += 2700*ms + ordinary*10*ms + 100*ms
	}
	for attempt := 0; attempt < maxAttempts; attempt++ {
		before := disturbances.Load()
		fs := afero.NewMemMapFs()
		pc := netsample.DefaultPhoutConfig()
		pc.Destination = "phout.log"
		if queue > 0 {
			pc.SampleQueueSize = int(queue)
		}
		t0 := time.Now()
		var resFs afero.Fs = fs
		if stall {
			resFs = stallFs{Fs: fs, until: t0.Add(2900 * time.Millisecond)}
		}
		ph, err := netsample.NewPhout(resFs, pc)
		if err != nil {
			return "phout-error"
		}
		sched := &offSchedule{offs: toks}
		var shoots atomic.Int64
		sched.Start(t0)
		conf := engine.Config{Pools: []engine.InstancePoolConfig{{
			Provider:        endlessProvider{},
			Aggregator:      netsample.WrapAggregator(ph),
			NewGun:          func() (core.Gun, error) { return &phGun{inst: inst, ordinary: ordinary, shoots: &shoots}, nil },
			NewRPSSchedule:  func() (core.Schedule, error) { return sched, nil },
			StartupSchedule: schedule.NewOnce(inst),
			DiscardOverflow: true,
		}}}
		m := engine.Metrics{Request: &monitoring.Counter{}, Response: &monitoring.Counter{}, InstanceStart: &monitoring.Counter{}, InstanceFinish: &monitoring.Counter{}}
		eng := engine.New(zap.NewNop(), m, conf)
		ctx, cancel := context.WithTimeout(context.Background(), 40*time.Second)
		runErr := eng.Run(ctx)
		cancel()
		eng.Wait()
		data, _ := afero.ReadFile(fs, "phout.log")
		var n, f, d, x int
		for _, l := range strings.Split(strings.TrimRight(string(data), "\n"), "\n") {
			if l == "" {
				continue
			}
			n++
			p := strings.Split(l, "\t")
			switch {
			case len(p) == 12 && p[1] == "verifgun" && p[10] == "0" && p[11] == "200":
				f++
			case len(p) == 12 && p[1] == "discarded" && p[10] == "777":
				d++
			default:
				x++
			}
		}
		obs := fmt.Sprintf("N=%d F=%d D=%d X=%d S=%d", n, f, d, x, shoots.Load())
		if runErr != nil {
			obs = "run-error " + obs
		}
		if disturbances.Load() == before {
			return obs
		}
	}
	return "disturbed"
}

// ---- a whole pool: several instances, own schedules or the shared one ----

// goid: the id of the calling goroutine. instance.Run takes the token (Next), fires (Shoot) and reports the
// discarded sample (Report) on one goroutine per instance, which is what attributes every event to its token.
func goid() int64 {
	var buf [64]byte
	n := runtime.Stack(buf[:], false)
	f := strings.Fields(string(buf[:n]))
	if len(f) < 2 {
		return -1
	}
	id, err := strconv.ParseInt(f[1], 10, 64)
	if err != nil {
		return -1
	}
	return id
}

type ptok struct {
	inst             int
	tok, handout, at int64
	fate             byte // 'F' fired, 'D' reported as discarded, 'L' neither
}

type poolRec struct {
	mu      sync.Mutex
	t0      time.Time
	instOf  map[int64]int
	cur     map[int64]*ptok
	all     []*ptok
	byInst  [][]*ptok
	okRep   int
	badRep  int
	orphans int
	scheds  int
}

type poolSched struct {
	inner core.Schedule
	rec   *poolRec
}

func (s *poolSched) Start(at time.Time) { s.inner.Start(at) }
func (s *poolSched) Left() int {
	s.rec.mu.Lock()
	defer s.rec.mu.Unlock()
	return s.inner.Left()
}
func (s *poolSched) Next() (time.Time, bool) {
	g := goid()
	r := s.rec
	r.mu.Lock()
	defer r.mu.Unlock()
	before := time.Since(r.t0).Nanoseconds()
	t, ok := s.inner.Next()
	if !ok {
		delete(r.cur, g)
		return t, ok
	}
	k, seen := r.instOf[g]
	if !seen {
		k = len(r.instOf)
		r.instOf[g] = k
		r.byInst = append(r.byInst, nil)
	}
	p := &ptok{inst: k, tok: t.Sub(r.t0).Nanoseconds(), handout: before, fate: 'L'}
	r.cur[g] = p
	r.all = append(r.all, p)
	r.byInst[k] = append(r.byInst[k], p)
	return t, ok
}

type poolGun struct {
	rec  *poolRec
	durs [][]int64
	n    int
}

func (g *poolGun) Bind(core.Aggregator, core.GunDeps) error { return nil }
func (g *poolGun) Shoot(core.Ammo) {
	r := g.rec
	at := time.Since(r.t0).Nanoseconds()
	id := goid()
	d := int64(0)
	r.mu.Lock()
	if p := r.cur[id]; p == nil || p.fate != 'L' {
		r.orphans++
	} else {
		p.fate, p.at = 'F', at
		if p.inst < len(g.durs) && g.n < len(g.durs[p.inst]) {
			d = g.durs[p.inst][g.n]
		}
	}
	r.mu.Unlock()
	g.n++
	time.Sleep(time.Duration(d))
}

type poolAggr struct{ rec *poolRec }

func (a *poolAggr) Run(ctx context.Context, _ core.AggregatorDeps) error { <-ctx.Done(); return nil }
func (a *poolAggr) Report(s core.Sample) {
	r := a.rec
	at := time.Since(r.t0).Nanoseconds()
	id := goid()
	ns, ok := s.(*netsample.Sample)
	// the property's own words: net code 777, tag 'discarded'
	good := ok && ns.Tags() == "discarded" && strings.Contains(ns.String(), "\t777\t")
	r.mu.Lock()
	defer r.mu.Unlock()
	if p := r.cur[id]; p == nil || p.fate != 'L' {
		r.orphans++
	} else {
		p.fate, p.at = 'D', at
	}
	if good {
		r.okRep++
	} else {
		r.badRep++
	}
}

// partOffsets: the token offsets (ns) one part of a finite profile is CONFIGURED to have when it starts at `start`,
// and how long the part lasts (the harness's own arithmetic from the written numbers; the model recomputes it).
//	once.<n> ; const.<ops>.<ms> ; pause.<ms> ; step.<from mrps>.<to mrps>.<step rps>.<ms> ; istep.<from>.<to>.<step>.<ms>
func partOffsets(sg string, start int64) ([]int64, int64) {
	var offs []int64
	f := strings.Split(sg, ".")
	at := func(i int) int64 {
		if i >= len(f) {
			return 0
		}
		v, _ := strconv.ParseInt(f[i], 10, 64)
		return v
	}
	constLevel := func(mrps, dur, start int64) {
		if mrps <= 0 {
			return
		}
		n := mrps * (dur / ms) / 1000000 // mrps * seconds / 1000
		for k := int64(0); k < n; k++ {
			offs = append(offs, start+k*(1000000*ms/mrps))
		}
	}
	switch f[0] {
	case "once":
		for k := int64(0); k < at(1); k++ {
			offs = append(offs, start)
		}
		return offs, 0
	case "const":
		constLevel(at(1)*1000, at(2)*ms, start)
		return offs, at(2) * ms
	case "pause", "unl":
		return offs, at(1) * ms
	case "step": // every level from, from+step, ... <= to lasts its duration, with or without tokens
		dur, total := at(4)*ms, int64(0)
		for rate := at(1); rate <= at(2); rate += at(3) * 1000 {
			constLevel(rate, dur, start+total)
			total += dur
		}
		return offs, total
	case "istep":
		total := int64(0)
		for k := int64(0); k < at(1); k++ {
			offs = append(offs, start)
		}
		for i := at(1) + at(3); i <= at(2); i += at(3) {
			total += at(4) * ms
			for k := int64(0); k < at(3); k++ {
				offs = append(offs, start+total)
			}
		}
		return offs, total
	}
	return offs, 0
}

// exactPart: every rate of the part has a whole number of ns between two tokens (the model's offsets are exact then)
func exactPart(sg string) bool {
	f := strings.Split(sg, ".")
	if f[0] != "step" {
		return true
	}
	from, _ := strconv.ParseInt(f[1], 10, 64)
	to, _ := strconv.ParseInt(f[2], 10, 64)
	st, _ := strconv.ParseInt(f[3], 10, 64)
	for rate := from; rate <= to; rate += st * 1000 {
		if rate > 0 && 1000000000000%rate != 0 {
			return false
		}
	}
	return true
}

// genStepPart: a `step` / `instance_step` part as a config may hold it: staircases that open with a level without
// tokens (from 0, or a rate below one token per level), staircases of positive rates, flat ones (from == to)
func genStepPart(r *vh.Rand, durs []int) string {
	for {
		dur := r.PickInt(durs)
		var sg string
		if r.Chance(1, 5) {
			from := r.Range(0, 2)
			st := r.Range(1, 2)
			sg = fmt.Sprintf("istep.%d.%d.%d.%d", from, from+st*r.Range(1, 2), st, dur)
		} else {
			from := r.PickInt([]int{0, 0, 0, 500, 500, 1000, 2000})
			st := r.Range(1, 2)
			to := from + 1000*st*r.Range(0, 2) + r.PickInt([]int{0, 0, 500})
			sg = fmt.Sprintf("step.%d.%d.%d.%d", from, to, st, dur)
		}
		if exactPart(sg) {
			return sg
		}
	}
}

// profOffsets: the token offsets (ns) a finite profile is configured to have
func profOffsets(segs string) []int64 {
	var offs []int64
	start := int64(0)
	for _, sg := range strings.Split(segs, ";") {
		o, d := partOffsets(sg, start)
		offs = append(offs, o...)
		start += d
	}
	return offs
}

func parseDurs(s string) [][]int64 {
	var out [][]int64
	if s == "-" || s == "" {
		return out
	}
	for _, x := range strings.Split(s, "/") {
		out = append(out, parseList(x))
	}
	return out
}

func runPool(fields []string) string {
	discard, perinst := fields[0] == "1", fields[1] == "1"
	starts := parseList(fields[2])
	spec := fields[3]
	durs := parseDurs(fields[4])
	if len(spec) < 2 || (spec[:2] != "m:" && spec[:2] != "p:") {
		return "unknown-case"
	}
	poolOffs := profOffsets(spec[2:])
	if spec[:2] == "m:" {
		poolOffs = parseList(spec[2:])
	}
	mk := func() core.Schedule {
		if spec[:2] == "m:" {
			return &offSchedule{offs: parseList(spec[2:])}
		}
		return buildProfile(spec[2:])
	}
	for attempt := 0; attempt < maxAttempts; attempt++ {
		before := disturbances.Load()
		rec := &poolRec{instOf: map[int64]int{}, cur: map[int64]*ptok{}}
		startup := &offSchedule{offs: starts}
		conf := engine.Config{Pools: []engine.InstancePoolConfig{{
			Provider:   endlessProvider{},
			Aggregator: &poolAggr{rec: rec},
			NewGun:     func() (core.Gun, error) { return &poolGun{rec: rec, durs: durs}, nil },
			NewRPSSchedule: func() (core.Schedule, error) {
				rec.mu.Lock()
				rec.scheds++
				rec.mu.Unlock()
				return &poolSched{inner: mk(), rec: rec}, nil
			},
			RPSPerInstance:  perinst,
			StartupSchedule: startup,
			DiscardOverflow: discard,
		}}}
		m := engine.Metrics{Request: &monitoring.Counter{}, Response: &monitoring.Counter{}, InstanceStart: &monitoring.Counter{}, InstanceFinish: &monitoring.Counter{}}
		eng := engine.New(zap.NewNop(), m, conf)
		ctx, cancel := context.WithTimeout(context.Background(), 40*time.Second)
		rec.t0 = time.Now()
		startup.Start(rec.t0)
		err := eng.Run(ctx)
		ended := time.Since(rec.t0).Nanoseconds()
		cancel()
		eng.Wait()
		rec.mu.Lock()
		var obs []string
		if err != nil {
			obs = append(obs, "run-error")
		}
		field := func(p *ptok) string {
			return fmt.Sprintf("%d:%c%s%s%s", p.inst, p.fate, b(p.fate != 'L' && p.at >= p.tok), b(p.handout-p.tok >= window), b(p.fate != 'L' && p.at-p.tok >= window))
		}
		if perinst {
			for _, l := range rec.byInst {
				for _, p := range l {
					obs = append(obs, field(p))
				}
			}
		} else {
			for _, p := range rec.all {
				obs = append(obs, field(p))
			}
		}
		// the run-length bound of the property: enabled => done within 2 s + one response time of the profile's end
		// (counted from the start of the last instance); a planning margin on top
		var smax, omax, dmax int64
		for _, x := range starts {
			smax = max(smax, x)
		}
		for _, x := range poolOffs {
			omax = max(omax, x)
		}
		for _, l := range durs {
			for _, x := range l {
				dmax = max(dmax, x)
			}
		}
		inTime := !discard || ended <= smax+omax+window+dmax+margin
		obs = append(obs, fmt.Sprintf("R=%d X=%d S=%d E=%s", rec.okRep, rec.badRep+rec.orphans, rec.scheds, b(inTime)))
		rec.mu.Unlock()
		if disturbances.Load() == before {
			return strings.Join(obs, " ")
		}
	}
	return "disturbed"
}

// planPool: the nominal timeline of a pool case (same rules as the model's run_pool): the smallest margin of any
// comparison made by the code, the observation or the hand-out order, the end of the run, and whether some token
// is picked up >= 2 s late.
func planPool(discard, perinst bool, starts, offs []int64, durs [][]int64, fixed bool) (int64, int64, bool) {
	n := len(starts)
	sims := make([]*sim, n)
	free := make([]int64, n)
	fired := make([]int, n)
	minM := int64(1) << 62
	for k := range sims {
		sims[k] = &sim{fixed: fixed, minMargin: 1 << 62, zeroDue: perinst || k == 0}
		free[k] = starts[k]
	}
	late := false
	step := func(k int, tok int64) {
		s := sims[k]
		enter := free[k]
		ret := s.wait(tok, enter)
		s.cmp(enter - tok - window)
		s.cmp(ret - tok - window)
		if enter-tok >= window {
			late = true
		}
		if discard && s.w.overdue >= window {
			free[k] = ret
			return
		}
		d := int64(0)
		if k < len(durs) && fired[k] < len(durs[k]) {
			d = durs[k][fired[k]]
		}
		fired[k]++
		free[k] = ret + d
	}
	if perinst {
		for k := 0; k < n; k++ {
			for _, off := range offs {
				step(k, starts[k]+off)
			}
		}
	} else {
		for _, off := range offs {
			best := 0
			for k := 1; k < n; k++ {
				if free[k] < free[best] {
					best = k
				}
			}
			for k := 0; k < n; k++ {
				if k != best && free[k]-free[best] < minM {
					minM = free[k] - free[best]
				}
			}
			step(best, starts[0]+off)
		}
	}
	end := int64(0)
	for k := 0; k < n; k++ {
		if sims[k].minMargin < minM {
			minM = sims[k].minMargin
		}
		if free[k] > end {
			end = free[k]
		}
	}
	return minM, end, late
}

// ---- a composite profile shared by several waiters ----

// finGate aligns concurrent callers at the moment a nested schedule tells them it is finished.
type finGate struct {
	mu      sync.Mutex
	n       int
	waiting int
	ch      chan struct{}
}

func (g *finGate) arrive() {
	g.mu.Lock()
	if g.ch == nil {
		g.ch = make(chan struct{})
	}
	g.waiting++
	ch := g.ch
	if g.waiting >= g.n {
		close(g.ch)
		g.ch, g.waiting = nil, 0
		g.mu.Unlock()
		return
	}
	g.mu.Unlock()
	select {
	case <-ch:
	case <-time.After(100 * time.Millisecond):
		g.mu.Lock()
		if g.ch == ch {
			g.waiting--
		}
		g.mu.Unlock()
	}
}

type gatedSched struct {
	core.Schedule
	gate *finGate
}

func (s gatedSched) Next() (time.Time, bool) {
	t, ok := s.Schedule.Next()
	if !ok {
		s.gate.arrive()
	}
	return t, ok
}

type firstNextRec struct {
	core.Schedule
	mu     sync.Mutex
	t0     time.Time
	before int64
	seen   bool
}

func (s *firstNextRec) Next() (time.Time, bool) {
	bf := time.Since(s.t0).Nanoseconds()
	s.mu.Lock()
	if !s.seen {
		s.seen, s.before = true, bf
	}
	s.mu.Unlock()
	return s.Schedule.Next()
}

func runComp(fields []string) string {
	n64, _ := strconv.ParseInt(fields[0], 10, 64)
	n := int(n64)
	offs := parseUs(fields[2])
	if n < 1 || n > 16 {
		return "unknown-case"
	}
	for attempt := 0; attempt < maxAttempts; attempt++ {
		before := disturbances.Load()
		gate := &finGate{n: n}
		var parts []core.Schedule
		for _, sg := range strings.Split(fields[1], ";") {
			parts = append(parts, gatedSched{Schedule: buildProfile(sg), gate: gate})
		}
		rs := &firstNextRec{Schedule: schedule.NewComposite(parts...), t0: time.Now()}
		ctx, cancel := context.WithTimeout(context.Background(), 20*time.Second)
		var mu sync.Mutex
		var ats []int64
		var wg sync.WaitGroup
		for i := 0; i < n; i++ {
			wg.Add(1)
			go func() {
				defer wg.Done()
				w := coreutil.NewWaiter(rs)
				for w.Wait(ctx) {
					at := time.Since(rs.t0).Nanoseconds()
					mu.Lock()
					ats = append(ats, at)
					mu.Unlock()
				}
			}()
		}
		wg.Wait()
		cancel()
		sort.Slice(ats, func(i, j int) bool { return ats[i] < ats[j] })
		var bits strings.Builder
		for k, at := range ats {
			due := 0
			for _, o := range offs {
				if rs.before+o <= at {
					due++
				}
			}
			bits.WriteString(b(due >= k+1))
		}
		c := "eq"
		if len(ats) < len(offs) {
			c = "lt"
		} else if len(ats) > len(offs) {
			c = "gt"
		}
		if bits.Len() == 0 {
			bits.WriteString("-")
		}
		if disturbances.Load() == before {
			return bits.String() + " c=" + c
		}
	}
	return "disturbed"
}

// ---- several instances take their first token from a fresh self-starting schedule at the same moment ----

type cntSched struct {
	core.Schedule
	nexts atomic.Int64
}

func (s *cntSched) Next() (time.Time, bool) {
	t, ok := s.Schedule.Next()
	s.nexts.Add(1)
	return t, ok
}

func buildFirst(segs string, bare bool) core.Schedule {
	if !bare {
		return buildProfile(segs)
	}
	f := strings.Split(segs, ".")
	at := func(i int) int64 { v, _ := strconv.ParseInt(f[i], 10, 64); return v }
	switch {
	case f[0] == "once" && len(f) == 2:
		return schedule.NewOnce(at(1))
	case f[0] == "const" && len(f) == 3:
		return schedule.NewConst(float64(at(1)), time.Duration(at(2))*time.Millisecond)
	}
	return nil
}

type firstRes struct {
	ok, slow bool
	ret      int64
}

// one instant: outcome, whether it says anything (the machine did not stall), whether a Wait hung
func firstTrial(n int, sched core.Schedule, offs []int64) (string, bool, bool) {
	cs := &cntSched{Schedule: sched}
	ctx, cancel := context.WithCancel(context.Background())
	defer cancel()
	var ready atomic.Int64
	var release atomic.Bool
	var t0 time.Time
	res := make([]firstRes, n)
	var wg sync.WaitGroup
	for i := 0; i < n; i++ {
		wg.Add(1)
		go func(i int) {
			defer wg.Done()
			w := coreutil.NewWaiter(cs) // what instance.Run does
			ready.Add(1)
			for !release.Load() { // spin: all instances ask for their first token together
			}
			ok := w.Wait(ctx)
			ret := time.Since(t0).Nanoseconds()
			res[i] = firstRes{ok: ok, slow: ok && w.IsSlowDown(ctx), ret: ret}
		}(i)
	}
	for ready.Load() < int64(n) {
		runtime.Gosched()
	}
	t0 = time.Now() // not after any Next(): the profile cannot have started earlier
	release.Store(true)
	deadline := t0.Add(3 * time.Second)
	for cs.nexts.Load() < int64(n) {
		if time.Now().After(deadline) {
			cancel()
			return "hang", true, true
		}
		runtime.Gosched()
	}
	time.Sleep(50 * time.Microsecond)
	elapsed := time.Since(t0)
	cancel() // instances asleep until a later token give up
	done := make(chan struct{})
	go func() { wg.Wait(); close(done) }()
	select {
	case <-done:
	case <-time.After(3 * time.Second):
		return "hang", true, true
	}
	var fired []firstRes
	for _, r := range res {
		if r.ok {
			fired = append(fired, r)
		}
	}
	sort.Slice(fired, func(i, j int) bool { return fired[i].ret < fired[j].ret })
	var ahead, slow strings.Builder
	for k, r := range fired {
		due := 0
		for _, o := range offs {
			if o <= r.ret {
				due++
			}
		}
		ahead.WriteString(b(due >= k+1))
		slow.WriteString(b(!(r.slow && r.ret < window)))
	}
	if len(fired) == 0 {
		ahead.WriteString("-")
		slow.WriteString("-")
	}
	return fmt.Sprintf("%s/%s c=%d", ahead.String(), slow.String(), len(fired)), elapsed <= 50*time.Millisecond, false
}

func runFirst(fields []string) string {
	n64, _ := strconv.ParseInt(fields[0], 10, 64)
	n := int(n64)
	bare := fields[1] == "1"
	offs := parseUs(fields[3])
	trials, _ := strconv.ParseInt(fields[5], 10, 64)
	if n < 1 || n > 16 || trials < 1 || trials > 100000 || buildFirst(fields[2], bare) == nil {
		return "unknown-case"
	}
	first := ""
	// wall-clock budget of the case (4 ms per trial; an unloaded machine needs ~1 ms): on a busy machine fewer instants are tried
	budget := time.Now().Add(time.Duration(trials) * 4 * time.Millisecond)
	for t := int64(0); t < trials && (t < 20 || time.Now().Before(budget)); t++ {
		out, valid, hang := firstTrial(n, buildFirst(fields[2], bare), offs)
		if hang {
			return out
		}
		if strings.Contains(strings.Split(out, " ")[0], "0") {
			return out // a request ahead of the profile / judged late at the start: true whatever the machine did meanwhile
		}
		if valid && first == "" {
			first = out
		} else if valid && out != first {
			return "mixed:" + first + "|" + out
		}
	}
	if first == "" {
		return "disturbed"
	}
	return first
}

type oneSchedule struct {
	t    time.Time
	used bool
}

func (s *oneSchedule) Start(time.Time) {}
func (s *oneSchedule) Next() (time.Time, bool) {
	if s.used {
		return s.t, false
	}
	s.used = true
	return s.t, true
}
func (s *oneSchedule) Left() int {
	if s.used {
		return 0
	}
	return 1
}

func runSt(fields []string) string {
	base := time.Now().Add(-10 * time.Second)
	var last time.Time
	if fields[0] != "none" {
		v, _ := strconv.ParseInt(fields[0], 10, 64)
		last = base.Add(time.Duration(v))
	}
	v, _ := strconv.ParseInt(fields[1], 10, 64)
	tok := base.Add(time.Duration(v))
	w := coreutil.VerifNewWaiter(&oneSchedule{t: tok}, last, 0)
	ctx := context.Background()
	ok := w.Wait(ctx)
	slow := w.IsSlowDown(ctx)
	ln, od := w.VerifState()
	refreshed := !ln.Equal(last)
	return b(ok) + b(slow) + b(refreshed) + b(!refreshed && od == last.Sub(tok))
}

type nearSchedule struct {
	us   []int64
	i    int
	last time.Time
}

func (s *nearSchedule) Start(time.Time) {}
func (s *nearSchedule) Next() (time.Time, bool) {
	if s.i >= len(s.us) {
		return s.last, false
	}
	s.last = time.Now().Add(time.Duration(s.us[s.i]) * time.Microsecond)
	s.i++
	return s.last, true
}
func (s *nearSchedule) Left() int { return len(s.us) - s.i }

func runNear(fields []string) string {
	var us []int64
	for _, f := range fields {
		v, _ := strconv.ParseInt(f, 10, 64)
		us = append(us, v)
	}
	sched := &nearSchedule{us: us}
	w := coreutil.NewWaiter(sched)
	ctx := context.Background()
	var obs []string
	for range us {
		ok := w.Wait(ctx)
		after := time.Now()
		obs = append(obs, b(ok)+b(!after.Before(sched.last)))
	}
	return strings.Join(obs, " ")
}

func runCase(c string, idx int) string {
	f := strings.Split(c, " ")
	switch f[0] {
	case "cfg":
		if len(f) == 2 {
			return runCfg(f[1], idx)
		}
	case "st":
		if len(f) == 3 {
			return runSt(f[1:])
		}
	case "near":
		return runNear(f[1:])
	case "ph":
		if len(f) == 5 || len(f) == 7 {
			return runPh(f[1:])
		}
	case "first":
		if len(f) == 7 {
			return runFirst(f[1:])
		}
	case "comp":
		if len(f) == 4 {
			return runComp(f[1:])
		}
	case "pool":
		if len(f) == 6 {
			return runPool(f[1:])
		}
	case "prof", "proftail":
		if len(f) == 6 {
			return runProf(f[1:], f[0] == "proftail")
		}
	case "w":
		return runW(f[1:])
	case "eng":
		if len(f) == 4 {
			return runEng(f[1:])
		}
	}
	return "unknown-case"
}

// ---- generator ----

func wLine(steps []wstep) string {
	var parts []string
	for _, st := range steps {
		s := fmt.Sprintf("%d:", st.sleep/ms)
		if st.end {
			s += "end"
		} else {
			s += strconv.FormatInt(st.tok/ms, 10)
		}
		if st.cancelPre {
			s += ":c"
		} else if st.cancelIn > 0 {
			s += fmt.Sprintf(":k%d", st.cancelIn/ms)
		}
		parts = append(parts, s)
	}
	return "w " + strings.Join(parts, " ")
}

func okMargins(steps []wstep) bool {
	_, m1 := planW(steps, true)
	_, m2 := planW(steps, false)
	return m1 >= margin && m2 >= margin
}

func joinMs(xs []int64) string {
	if len(xs) == 0 {
		return "-"
	}
	var p []string
	for _, x := range xs {
		p = append(p, strconv.FormatInt(x/ms, 10))
	}
	return strings.Join(p, ",")
}

func gen(r *vh.Rand, tier string) []string {
	var out []string
	nW, nE := 36, 10
	if tier == "thorough" {
		nW, nE = 400, 120
	}
	sleeps := []int64{0, 0, 0, 300, 700, 1200, 1500, 2300, 2600}
	for len(out) < nW {
		n := r.Range(1, 4)
		var steps []wstep
		total := int64(0)
		for i := 0; i < n; i++ {
			st := wstep{sleep: int64(r.PickInt([]int{0, 0, 0, 300, 700, 1200, 1500, 2300, 2600})) * ms}
			_ = sleeps
			total += st.sleep
			// token relative to the planned instant of the call: far past, past, slightly past, future
			rel := int64(r.PickInt([]int{-4000, -2600, -2300, -1500, -700, -300, 300, 600})) * ms
			st.tok = total + rel
			if st.tok < 0 {
				st.tok = int64(r.PickInt([]int{0, 10, 20}))*ms + int64(i)*ms
			}
			if i > 0 && st.tok < steps[i-1].tok {
				st.tok = steps[i-1].tok + int64(r.PickInt([]int{0, 10, 400}))*ms
			}
			if st.tok > total {
				total = st.tok
			}
			steps = append(steps, st)
		}
		switch r.Intn(8) {
		case 0:
			steps = append(steps, wstep{sleep: int64(r.PickInt([]int{0, 300})) * ms, end: true})
		case 1:
			last := steps[len(steps)-1]
			steps = append(steps, wstep{sleep: 300 * ms, tok: last.tok + 5000*ms, cancelPre: true})
		case 2:
			last := steps[len(steps)-1]
			steps = append(steps, wstep{sleep: 0, tok: total + 1500*ms, cancelIn: 400 * ms})
			_ = last
		}
		if total > 4500*ms || !okMargins(steps) {
			continue
		}
		out = append(out, wLine(steps))
	}
	// exact boundaries through the preset-state hook
	for _, last := range []int64{0, 1000000000} {
		for _, d := range []int64{-3000000000, -2000000001, -2000000000, -1999999999, -1000000000, -1, 0, 1, 1000000000} {
			out = append(out, fmt.Sprintf("st %d %d", last, last+d))
		}
	}
	out = append(out, "st none 0", "st none 2000000000")
	// tokens a few hundred microseconds ahead of / behind the call
	nN := 8
	if tier == "thorough" {
		nN = 100
	}
	for i := 0; i < nN; i++ {
		n := r.Range(1, 6)
		var p []string
		for j := 0; j < n; j++ {
			p = append(p, strconv.Itoa(r.PickInt([]int{-500, -1, 0, 50, 200, 300, 500, 800, 999, 1500, 3000, 20000})))
		}
		out = append(out, "near "+strings.Join(p, " "))
	}
	// discard_overflow through the CLI config reader, every way of writing it, 1..3 pools
	forms := []string{"absent", "true", "false", "envtrue", "envfalse"}
	for _, f := range forms {
		out = append(out, "cfg "+f)
	}
	nC := 5
	if tier == "thorough" {
		nC = 40
	}
	for i := 0; i < nC; i++ {
		n := r.Range(2, 3)
		var fs []string
		for j := 0; j < n; j++ {
			fs = append(fs, r.Pick(forms))
		}
		out = append(out, "cfg "+strings.Join(fs, ","))
	}
	// overload episodes with the real phout aggregator
	nPh := 2
	if tier == "thorough" {
		nPh = 12
	}
	for i := 0; i < nPh; i++ {
		out = append(out, fmt.Sprintf("ph %d %d %d %d", r.Range(3, 6), r.Range(4, 10), r.Range(30, 80), 2))
	}
	// ... with a small (valid) sample queue and bursts of discards much larger than it; half of them meet a slow results file
	for i := 0; i < nPh+nPh/2; i++ {
		q := r.PickInt([]int{1, 2, 8, 64})
		behind := r.Range(q+20, q+300)
		stall := i%3 != 0
		out = append(out, fmt.Sprintf("ph %d %d %d %d %d %s", r.Range(2, 6), behind, r.Range(45, 80), r.Range(1, 2), q, b(stall)))
	}
	// composite rps profiles: finite segments, pauses, an unlimited tail of short duration
	nP := 20
	if tier == "thorough" {
		nP = 200
	}
	for made := 0; made < nP; {
		nseg := r.Range(2, 4)
		var segs []string
		var offs []int64 // ns
		start := int64(0)
		if made%5 == 4 {
			nseg = 1 // the whole rps profile is one `step` / `instance_step` entry (plus, mostly, an unlimited tail)
		}
		for i := 0; i < nseg; i++ {
			kind := r.Intn(5)
			if made%5 >= 3 && i == 0 {
				kind = 4
			}
			switch kind {
			case 4: // a staircase built by the profile type itself (levels without tokens are its pauses)
				sg := genStepPart(r, []int{500, 1000})
				o, d := partOffsets(sg, start)
				segs = append(segs, sg)
				offs = append(offs, o...)
				start += d
			case 0:
				n := r.Range(1, 3)
				segs = append(segs, fmt.Sprintf("once.%d", n))
				for k := 0; k < n; k++ {
					offs = append(offs, start)
				}
			case 1, 2:
				ops := int64(r.PickInt([]int{2, 4, 5, 10}))
				dur := int64(r.PickInt([]int{500, 1000})) * ms
				n := ops * dur / (1000 * ms)
				segs = append(segs, fmt.Sprintf("const.%d.%d", ops, dur/ms))
				for k := int64(0); k < n; k++ {
					offs = append(offs, start+k*(1000*ms/ops))
				}
				start += dur
			case 3:
				dur := int64(r.PickInt([]int{300, 500, 800})) * ms
				segs = append(segs, fmt.Sprintf("pause.%d", dur/ms))
				start += dur
			}
		}
		tail := "-"
		if r.Chance(3, 4) {
			dur := int64(r.PickInt([]int{200, 300})) * ms
			segs = append(segs, fmt.Sprintf("unl.%d", dur/ms))
			tail = fmt.Sprintf("%d:%d", start/1000, dur/1000)
			start += dur
		}
		if len(offs) == 0 || len(offs) > 14 || start > 4000*ms {
			continue
		}
		discard := r.Chance(1, 2)
		var durs []int64
		if r.Chance(1, 3) { // one slow response puts the instance behind
			pos := r.Intn(len(offs))
			for k := 0; k < pos; k++ {
				durs = append(durs, 25*ms)
			}
			durs = append(durs, int64(r.PickInt([]int{1200, 2300, 2600}))*ms)
		}
		// planned lateness of every token must stay clear of the 2 s boundary
		t, okm, total, fired := int64(0), true, int64(0), 0
		for _, off := range offs {
			late := t - off
			x := late - window
			if x < 0 {
				x = -x
			}
			if x < margin {
				okm = false
			}
			ret := t
			if off > ret {
				ret = off
			}
			if discard && late >= window {
				t = ret
			} else {
				d := 25 * ms
				if fired < len(durs) {
					d = durs[fired]
				}
				fired++
				t = ret + d
			}
			total = t
		}
		if !okm || total > 6000*ms {
			continue
		}
		var offsUs []string
		for _, o := range offs {
			offsUs = append(offsUs, strconv.FormatInt(o/1000, 10))
		}
		line := fmt.Sprintf("%s %s %s %s %s", b(discard), strings.Join(segs, ";"), strings.Join(offsUs, ","), tail, joinMs(durs))
		out = append(out, "prof "+line)
		if tail != "-" && made%3 == 0 {
			out = append(out, "proftail "+line)
		}
		made++
	}
	// a composite profile shared by 2..4 waiters that meet the segment switches together
	nComp := 12
	if tier == "thorough" {
		nComp = 120
	}
	type cseg struct {
		ops, dur int64 // const: ops rps for dur ms (a whole number of tokens)
	}
	consts := []cseg{{10, 100}, {10, 200}, {10, 500}, {2, 500}, {2, 1000}, {4, 500}, {4, 250}, {5, 200}, {5, 400}, {5, 1000}}
	for made := 0; made < nComp; {
		n := r.Range(2, 4)
		var segs []string
		var offs []int64
		start := int64(0)
		for i, ns := 0, r.Range(2, 4); i < ns; i++ {
			switch r.Intn(6) {
			case 5:
				sg := genStepPart(r, []int{200, 500, 1000})
				o, d := partOffsets(sg, start)
				segs = append(segs, sg)
				offs = append(offs, o...)
				start += d
			case 0:
				k := r.Range(1, n)
				segs = append(segs, fmt.Sprintf("once.%d", k))
				for j := 0; j < k; j++ {
					offs = append(offs, start)
				}
			case 1:
				d := int64(r.PickInt([]int{100, 300})) * ms
				segs = append(segs, fmt.Sprintf("pause.%d", d/ms))
				start += d
			default:
				c := consts[r.Intn(len(consts))]
				segs = append(segs, fmt.Sprintf("const.%d.%d", c.ops, c.dur))
				for k := int64(0); k < c.ops*c.dur/1000; k++ {
					offs = append(offs, start+k*(1000*ms/c.ops))
				}
				start += c.dur * ms
			}
		}
		if len(offs) < 2 || len(offs) > 20 || start > 2500*ms {
			continue
		}
		var offsUs []string
		for _, o := range offs {
			offsUs = append(offsUs, strconv.FormatInt(o/1000, 10))
		}
		out = append(out, fmt.Sprintf("comp %d %s %s", n, strings.Join(segs, ";"), strings.Join(offsUs, ",")))
		made++
	}
	// whole pools: 1..4 instances started one after another, own schedules (rps-per-instance) or the shared one,
	// discard_overflow on/off, a mock token list or a real finite profile, per instance a response-time history
	nPool := 24
	if tier == "thorough" {
		nPool = 160
	}
	calm := 0
	for made := 0; made < nPool; {
		n := r.Range(1, 4)
		perinst := r.Chance(3, 5)
		discard := r.Chance(3, 4)
		var offs []int64
		var spec string
		if r.Chance(1, 2) {
			nt := r.Range(3, 8)
			t := int64(0)
			for i := 0; i < nt; i++ {
				if i > 0 {
					t += int64(r.PickInt([]int{0, 50, 100, 100, 400, 700, 900})) * ms
				}
				offs = append(offs, t)
			}
			spec = "m:" + joinMs(offs)
		} else {
			var segs []string
			start := int64(0)
			for i, ns := 0, r.Range(1, 2); i < ns; i++ {
				if r.Chance(1, 4) {
					sg := genStepPart(r, []int{500, 1000})
					o, d := partOffsets(sg, start)
					segs = append(segs, sg)
					offs = append(offs, o...)
					start += d
				} else if r.Chance(1, 3) {
					k := r.Range(1, 3)
					segs = append(segs, fmt.Sprintf("once.%d", k))
					for j := 0; j < k; j++ {
						offs = append(offs, start)
					}
				} else {
					ops := int64(r.PickInt([]int{2, 4, 5, 10}))
					dur := int64(r.PickInt([]int{500, 1000})) * ms
					segs = append(segs, fmt.Sprintf("const.%d.%d", ops, dur/ms))
					for k := int64(0); k < ops*dur/(1000*ms); k++ {
						offs = append(offs, start+k*(1000*ms/ops))
					}
					start += dur
				}
			}
			spec = "p:" + strings.Join(segs, ";")
		}
		if len(offs) == 0 || len(offs) > 12 {
			continue
		}
		identical := r.Chance(1, 3)
		var durs [][]int64
		for k := 0; k < n; k++ {
			var d []int64
			if identical && k > 0 {
				d = durs[0]
			} else if r.Chance(3, 4) { // one slow response puts the instance behind
				for j, pos := 0, r.Intn(3); j < pos; j++ {
					d = append(d, 25*ms)
				}
				d = append(d, int64(r.PickInt([]int{1200, 2300, 2600, 3000, 3200, 3500}))*ms)
			}
			durs = append(durs, d)
		}
		gap := int64(r.PickInt([]int{300, 500, 700})) * ms
		if perinst && identical && r.Chance(1, 2) {
			gap = 0 // all at once (startup once(n)): the instances are indistinguishable
		}
		var starts []int64
		for k := 0; k < n; k++ {
			starts = append(starts, int64(k)*gap)
		}
		m1, end, late := planPool(discard, perinst, starts, offs, durs, true)
		m2, _, _ := planPool(discard, perinst, starts, offs, durs, false)
		if m1 < margin || m2 < margin || end > 6500*ms {
			continue
		}
		if !late {
			if calm*3 >= nPool { // at most a third of the pool cases without an overloaded instance
				continue
			}
			calm++
		}
		var ds []string
		for _, d := range durs {
			ds = append(ds, joinMs(d))
		}
		out = append(out, fmt.Sprintf("pool %s %s %s %s %s", b(discard), b(perinst), joinMs(starts), spec, strings.Join(ds, "/")))
		made++
	}
	// several instances taking their first token from a fresh self-starting schedule at the same moment (`startup: once N`)
	nF, trialsF := 8, 400
	if tier == "thorough" {
		nF, trialsF = 40, 1500
	}
	for made := 0; made < nF; {
		n := r.Range(2, 8)
		bare := r.Chance(1, 2)
		var segs []string
		var offs []int64
		start := int64(0)
		addOnce := func() {
			k := r.Range(1, n+1)
			segs = append(segs, fmt.Sprintf("once.%d", k))
			for j := 0; j < k; j++ {
				offs = append(offs, start)
			}
		}
		addConst := func() {
			ops := int64(r.PickInt([]int{1, 2, 4, 5}))
			dur := int64(r.PickInt([]int{1000, 2000, 3000})) * ms
			segs = append(segs, fmt.Sprintf("const.%d.%d", ops, dur/ms))
			for k := int64(0); k < ops*dur/(1000*ms); k++ {
				offs = append(offs, start+k*(1000*ms/ops))
			}
			start += dur
		}
		if bare {
			if r.Chance(1, 6) {
				addOnce()
			} else {
				addConst()
			}
		} else {
			if r.Chance(1, 4) { // the profile opens with a pause: nothing is due at the start
				dur := int64(r.PickInt([]int{300, 500})) * ms
				segs = append(segs, fmt.Sprintf("pause.%d", dur/ms))
				start += dur
			}
			for i, m := 0, r.Range(1, 3); i < m; i++ {
				if r.Chance(1, 4) {
					sg := genStepPart(r, []int{1000, 2000})
					o, d := partOffsets(sg, start)
					segs = append(segs, sg)
					offs = append(offs, o...)
					start += d
				} else if r.Chance(1, 3) {
					addOnce()
				} else {
					addConst()
				}
			}
		}
		if len(offs) == 0 || len(offs) > 24 {
			continue
		}
		var offsUs []string
		for _, o := range offs {
			offsUs = append(offsUs, strconv.FormatInt(o/1000, 10))
		}
		out = append(out, fmt.Sprintf("first %d %s %s %s %d %d", n, b(bare), strings.Join(segs, ";"), strings.Join(offsUs, ","), start/1000, trialsF))
		made++
	}
	cnt := 0
	for cnt < nE {
		discard := r.Chance(3, 4)
		n := r.Range(2, 5)
		var toks, durs []int64
		t := int64(r.PickInt([]int{0, 0, -300, -500, -900})) * ms // the schedule may have started before the instance
		for i := 0; i < n; i++ {
			t += int64(r.PickInt([]int{0, 50, 100, 400, 700, 900})) * ms
			toks = append(toks, t)
			durs = append(durs, int64(r.PickInt([]int{0, 0, 300, 1200, 2300, 2600}))*ms)
		}
		e1, m1 := planEng(discard, toks, durs, true)
		_, m2 := planEng(discard, toks, durs, false)
		if m1 < margin || m2 < margin || e1[len(e1)-1] > 5000*ms {
			continue
		}
		out = append(out, fmt.Sprintf("eng %s %s %s", b(discard), joinMs(toks), joinMs(durs)))
		cnt++
	}
	return out
}

func main() {
	if len(os.Args) > 2 && os.Args[1] == "clisub" {
		cliSub(os.Args[2])
		return
	}
	go canary()
	vh.Main(gen, func(cases []string) []string {
		out := make([]string, len(cases))
		var wg sync.WaitGroup
		sem := make(chan struct{}, 64)
		for i, c := range cases {
			if strings.HasPrefix(c, "first ") {
				continue // spinning callers: one case at a time, after the timed cases
			}
			wg.Add(1)
			sem <- struct{}{}
			go func(i int, c string) {
				defer wg.Done()
				defer func() { <-sem }()
				out[i] = runCase(c, i)
			}(i, c)
		}
		wg.Wait()
		for i, c := range cases {
			if strings.HasPrefix(c, "first ") {
				out[i] = runCase(c, i)
			}
		}
		return out
	})
}
