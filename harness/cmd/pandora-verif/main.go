// pandora-verif: the real pandora command line (cli.Run: config decoding, engine, signal
// handling, exit paths) plus one registered test gun. Used by the C06 harness as a subprocess:
// the gun writes one unbuffered line to a side log for every Report it made, so that the
// result file left behind after SIGINT/SIGTERM can be compared with what was reported.
package main

import (
	"fmt"
	"os"
	"sync"
	"sync/atomic"
	"time"

	"github.com/spf13/afero"
	"github.com/yandex/pandora/cli"
	"github.com/yandex/pandora/core"
	"github.com/yandex/pandora/core/aggregator/netsample"
	coreimport "github.com/yandex/pandora/core/import"
	"github.com/yandex/pandora/core/register"
)

type GunConfig struct {
	SideLog string        `config:"sidelog" validate:"required"`
	Work    time.Duration `config:"work"` // time spent in a shot before the report
	Tag     string        `config:"tag"`
	// FailAfter > 0: the shot that draws this id panics instead of reporting (a mid-run gun
	// fault: the instance fails, the pool fails, Engine.Run returns an error).
	FailAfter uint64 `config:"failafter"`
}

var (
	sideOnce sync.Once
	sideFile *os.File
	nextID   uint64
)

type Gun struct {
	conf GunConfig
	aggr netsample.Aggregator
	deps core.GunDeps
	buf  []byte
}

func NewGun(conf GunConfig) *Gun { return &Gun{conf: conf} }

func (g *Gun) Bind(aggr core.Aggregator, deps core.GunDeps) error {
	g.aggr = netsample.UnwrapAggregator(aggr)
	g.deps = deps
	var err error
	sideOnce.Do(func() {
		sideFile, err = os.OpenFile(g.conf.SideLog, os.O_WRONLY|os.O_CREATE|os.O_APPEND, 0o644)
	})
	return err
}

// Shoot reports one sample and then appends "<id> <pre>\n" to the side log with a single
// write(2) (O_APPEND, no user-space buffer): pre=1 iff the run context was still not cancelled
// AFTER Report returned, i.e. the report was certainly complete before the cancel.
func (g *Gun) Shoot(core.Ammo) {
	if g.conf.Work > 0 {
		time.Sleep(g.conf.Work)
	}
	id := atomic.AddUint64(&nextID, 1)
	if g.conf.FailAfter > 0 && id == g.conf.FailAfter {
		panic("verif-gun: injected fault")
	}
	s := netsample.Acquire(g.conf.Tag)
	s.SetID(id)
	s.SetUserDuration(time.Duration(id%1000) * time.Microsecond)
	s.SetUserNet(0)
	s.SetUserProto(200)
	g.aggr.Report(s)
	pre := 0
	if g.deps.Ctx.Err() == nil {
		pre = 1
	}
	g.buf = fmt.Appendf(g.buf[:0], "%d %d\n", id, pre)
	_, _ = sideFile.Write(g.buf)
}

func main() {
	fs := afero.NewOsFs()
	coreimport.Import(fs)
	register.Gun("verif-gun", NewGun, func() GunConfig { return GunConfig{Tag: "verif"} })
	cli.Run()
}
