// hC03: correspondence harness for property C03 (engine shot accounting).
//
// Drives the REAL engine.Engine (one pool) with a counting provider, a recording gun, a
// recording aggregator and recording wrappers around the real RPS schedules.
//
// Case line (fields separated by one blank):
//
//	pool <perinst 0|1> <discard 0|1> <T> <A> <rps-spec> <startup-spec> <shoot_us> <past_ms> <S> <prov>
//
//	S        tokens of the startup schedule (what <startup-spec> is meant to hold)
//	prov     how the provider's Run behaves: 0 blocks until its context is done (a reader that never
//	         finishes early), 1 returns nil at once (the whole ammo set sits in the ready queue before
//	         the run), 2 returns nil a few ms into the run (reader done while instances shoot)

//	T        tokens of ONE rps profile (what <rps-spec> is meant to hold)
//	A        ammo items the provider hands out
//	spec     parts joined by '+': once:n | const:ops:ms | step:from:to:step:ms | line:from:to:ms |
//	         istep:from:to:step:ms
//	shoot_us duration of one Shoot in microseconds
//	past_ms  the rps schedule is Start()ed that many ms in the past (0: self-start at first Next);
//	         >= 2000 makes tokens overdue enough for discard_overflow
//
//	burst <perinst 0|1> <T> <A> <instances> <rps-spec> [<prov>]
//
//	(burst and cfgpool: optional last field prov = 1: the provider's Run returns nil at once; for cfgpool the
//	startup is then written as a list "pause of 30 ms, once(instances)" so that the first instance starts later
//	than t=0)
//
//	high-contention run without an operation log: <instances> instances started at once, zero-cost
//	shots, lock-free mocks, the real schedule unwrapped; thousands of simultaneous counter updates.
//	Observation: "<outcome> <started> <shots+discards> <Request-shots> <Response-shots>
//	<acquired-released> <unfired_ok 0|1> <InstanceStart-InstanceFinish>"
//
//	cfgpool <perinst 0|1> <T> <A> <instances> <form> [<prov>]
//
//	like burst, but the pool is DECODED FROM A CONFIG through the real plugin registry (coreimport.Import +
//	config.DecodeAndValidate into engine.Config, mock gun/provider/aggregator registered as plugins);
//	<form> is how the rps profile of T tokens is written: plain | list1 | list2 | list3 (with an ops:0
//	pause) | composite | composite2 | const | constlist.  Same observation as burst.
//
// Observation line (pool):
//
//	<outcome> <acquired> <released> <shots> <discarded> <Request> <Response> <InstanceStart>
//	<InstanceFinish> <drawn> <badsamples> | <log>
//
// outcome: ok | err | hang | gidmap.  The log is the global order of the operations the
// instances performed on the shared objects (each wrapper holds one mutex across the inner
// operation and the log append), with instances numbered in creation (Bind) order:
//
//	G<i> instance i created      L<i>z|L<i>n sched.Left()==0 / >0     A<i>=<a>|A<i>- Acquire
//	N<i>+|N<i>- sched.Next ok/!ok   S<i>=<a> gun.Shoot(a)   D<i> discarded sample reported
//	R<i>=<a> Release(a)          E run over
//
// and, in the same global order, what the pool's await loop received (taken from the engine's own
// debug log through a zap core that appends to the same log under the same mutex):
//
//	P provider result   Q aggregator result   T<n>n|T<n>c start loop over, n started, error nil / ctx
//	I<i>n|I<i>o|I<i>x result of instance i: nil / out of ammo / anything else
package main

import (
	"bytes"
	"context"
	"fmt"
	"runtime"
	"strconv"
	"strings"
	"sync"
	"sync/atomic"
	"time"

	"github.com/yandex/pandora/core"
	"github.com/spf13/afero"
	"github.com/yandex/pandora/core/aggregator/netsample"
	"github.com/yandex/pandora/core/config"
	coreimport "github.com/yandex/pandora/core/import"
	"github.com/yandex/pandora/core/plugin"
	"github.com/yandex/pandora/core/register"
	"github.com/yandex/pandora/core/engine"
	"github.com/yandex/pandora/core/schedule"
	"github.com/yandex/pandora/lib/monitoring"
	"go.uber.org/zap"
	"go.uber.org/zap/zapcore"

	"verifharness/internal/vh"
)

func gid() uint64 {
	var buf [64]byte
	n := runtime.Stack(buf[:], false)
	f := bytes.Fields(buf[:n])
	id, _ := strconv.ParseUint(string(f[1]), 10, 64)
	return id
}

type ev struct {
	kind byte // G L A N S D R
	gid  uint64
	arg  int // item id, or 0/1 flag; -1 none
}

type recorder struct {
	mu   sync.Mutex
	evs  []ev
	bind map[uint64]int // gid that executed the k-th Bind (k >= 1) -> k
	nb   int
	byID map[int]int // InstanceID given to the k-th Bind -> k
}

// awaitCore is a zap core that turns the await loop's debug messages into log entries.
type awaitCore struct{ rec *recorder }

func (c *awaitCore) Enabled(zapcore.Level) bool        { return true }
func (c *awaitCore) With([]zapcore.Field) zapcore.Core { return c }
func (c *awaitCore) Sync() error                       { return nil }
func (c *awaitCore) Check(e zapcore.Entry, ce *zapcore.CheckedEntry) *zapcore.CheckedEntry {
	switch e.Message {
	case "AmmoQueue awaited", "Aggregator awaited", "Instances start awaited", "Instance run awaited":
		return ce.AddCore(e, c)
	}
	return ce
}
func (c *awaitCore) Write(e zapcore.Entry, fields []zapcore.Field) error {
	enc := zapcore.NewMapObjectEncoder()
	for _, f := range fields {
		f.AddTo(enc)
	}
	errClass := 0 // nil
	if v, ok := enc.Fields["error"]; ok {
		switch fmt.Sprint(v) {
		case "Out of ammo":
			errClass = 1
		case context.Canceled.Error():
			errClass = 2
		default:
			errClass = 3
		}
	}
	num := func(k string) int {
		switch v := enc.Fields[k].(type) {
		case int64:
			return int(v)
		case int:
			return v
		}
		return -1
	}
	c.rec.mu.Lock()
	defer c.rec.mu.Unlock()
	switch e.Message {
	case "AmmoQueue awaited":
		c.rec.evs = append(c.rec.evs, ev{'P', 0, errClass})
	case "Aggregator awaited":
		c.rec.evs = append(c.rec.evs, ev{'Q', 0, errClass})
	case "Instances start awaited":
		c.rec.evs = append(c.rec.evs, ev{'T', uint64(num("started")), errClass})
	case "Instance run awaited":
		c.rec.evs = append(c.rec.evs, ev{'I', uint64(num("id")), errClass})
	}
	return nil
}

func (r *recorder) add(kind byte, arg int) {
	r.evs = append(r.evs, ev{kind, gid(), arg})
}

// ---- provider

type item struct{ id int }

type provider struct {
	rec       *recorder
	left      int
	next      int
	acquired  atomic.Int64
	released  atomic.Int64
	relUnknow atomic.Int64
	mode      int // 0: Run blocks until ctx is done; 1: returns nil at once; 2: returns nil after a few ms
}

func (p *provider) Run(ctx context.Context, _ core.ProviderDeps) error {
	switch p.mode {
	case 1:
		return nil
	case 2:
		select {
		case <-ctx.Done():
		case <-time.After(3 * time.Millisecond):
		}
		return nil
	}
	<-ctx.Done()
	return nil
}
func (p *provider) Acquire() (core.Ammo, bool) {
	p.rec.mu.Lock()
	defer p.rec.mu.Unlock()
	if p.left == 0 {
		p.rec.add('A', -1)
		return nil, false
	}
	p.left--
	it := &item{id: p.next}
	p.next++
	p.acquired.Add(1)
	p.rec.add('A', it.id)
	return it, true
}
func (p *provider) Release(a core.Ammo) {
	p.rec.mu.Lock()
	defer p.rec.mu.Unlock()
	p.released.Add(1)
	it, ok := a.(*item)
	if !ok {
		p.relUnknow.Add(1)
		p.rec.add('R', -1)
		return
	}
	p.rec.add('R', it.id)
}

// ---- schedule wrapper

type recSched struct {
	rec   *recorder
	inner core.Schedule
	drawn *atomic.Int64
}

func (s *recSched) Start(t time.Time) { s.inner.Start(t) }
func (s *recSched) Next() (time.Time, bool) {
	s.rec.mu.Lock()
	defer s.rec.mu.Unlock()
	t, ok := s.inner.Next()
	if ok {
		s.drawn.Add(1)
		s.rec.add('N', 1)
	} else {
		s.rec.add('N', 0)
	}
	return t, ok
}
func (s *recSched) Left() int {
	s.rec.mu.Lock()
	defer s.rec.mu.Unlock()
	l := s.inner.Left()
	if l == 0 {
		s.rec.add('L', 1)
	} else {
		s.rec.add('L', 0)
	}
	return l
}

// ---- gun

type gun struct {
	rec   *recorder
	shots *atomic.Int64
	sleep time.Duration
}

func (g *gun) Bind(_ core.Aggregator, deps core.GunDeps) error {
	g.rec.mu.Lock()
	defer g.rec.mu.Unlock()
	k := g.rec.nb
	g.rec.nb++
	if k >= 1 {
		g.rec.bind[gid()] = k
	}
	g.rec.byID[deps.InstanceID] = k
	g.rec.add('G', k)
	return nil
}
func (g *gun) Shoot(a core.Ammo) {
	g.rec.mu.Lock()
	id := -1
	if it, ok := a.(*item); ok {
		id = it.id
	}
	g.shots.Add(1)
	g.rec.add('S', id)
	g.rec.mu.Unlock()
	if g.sleep > 0 {
		time.Sleep(g.sleep)
	}
}

// ---- aggregator

type aggr struct {
	rec       *recorder
	discarded atomic.Int64
	other     atomic.Int64
}

func (a *aggr) Run(ctx context.Context, _ core.AggregatorDeps) error { <-ctx.Done(); return nil }
func (a *aggr) Report(s core.Sample) {
	a.rec.mu.Lock()
	defer a.rec.mu.Unlock()
	ns, ok := s.(*netsample.Sample)
	if ok && ns.Tags() == "discarded" && netCode(ns) == "777" {
		a.discarded.Add(1)
		a.rec.add('D', 0)
		return
	}
	a.other.Add(1)
}

func netCode(s *netsample.Sample) string {
	line := strings.TrimRight(s.String(), "\n")
	f := strings.Split(line, "\t")
	if len(f) < 12 {
		return "?"
	}
	return f[2+8]
}

// ---- schedule specs

func ms(s string) time.Duration {
	n, _ := strconv.Atoi(s)
	return time.Duration(n) * time.Millisecond
}

func onePart(p string) core.Schedule {
	f := strings.Split(p, ":")
	num := func(i int) float64 { v, _ := strconv.ParseFloat(f[i], 64); return v }
	in := func(i int) int64 { v, _ := strconv.ParseInt(f[i], 10, 64); return v }
	switch f[0] {
	case "once":
		return schedule.NewOnce(in(1))
	case "const":
		return schedule.NewConst(num(1), ms(f[2]))
	case "step":
		return schedule.NewStep(num(1), num(2), in(3), ms(f[4]))
	case "line":
		return schedule.NewLine(num(1), num(2), ms(f[3]))
	case "istep":
		return schedule.NewInstanceStep(in(1), in(2), in(3), ms(f[4]))
	}
	panic("bad schedule part " + p)
}

// spec: parts joined by '+'; a part is once:n | const:ops:ms | step:... | line:... | istep:... |
// rep:K:p1,p2,...  (K repetitions of the comma separated parts)
func buildSched(spec string) core.Schedule {
	var parts []core.Schedule
	for _, p := range strings.Split(spec, "+") {
		if strings.HasPrefix(p, "rep:") {
			f := strings.SplitN(p, ":", 3)
			k, _ := strconv.Atoi(f[1])
			for i := 0; i < k; i++ {
				for _, q := range strings.Split(f[2], ",") {
					parts = append(parts, onePart(q))
				}
			}
			continue
		}
		parts = append(parts, onePart(p))
	}
	return schedule.NewComposite(parts...)
}

// ---- burst: lock-free mocks

type burstProvider struct {
	left               atomic.Int64
	acquired, released atomic.Int64
	early              bool // Run returns nil at once (the whole ammo set is ready before the run)
}

func (p *burstProvider) Run(ctx context.Context, _ core.ProviderDeps) error {
	if p.early {
		return nil
	}
	<-ctx.Done()
	return nil
}
func (p *burstProvider) Acquire() (core.Ammo, bool) {
	if p.left.Add(-1) < 0 {
		return nil, false
	}
	p.acquired.Add(1)
	return struct{}{}, true
}
func (p *burstProvider) Release(core.Ammo) { p.released.Add(1) }

type burstGun struct{ shots *atomic.Int64 }

func (g *burstGun) Bind(core.Aggregator, core.GunDeps) error { return nil }
func (g *burstGun) Shoot(core.Ammo)                            { g.shots.Add(1) }

type burstAggr struct{ discarded atomic.Int64 }

func (a *burstAggr) Run(ctx context.Context, _ core.AggregatorDeps) error { <-ctx.Done(); return nil }
func (a *burstAggr) Report(core.Sample)                                   { a.discarded.Add(1) }

func runBurst(f []string) string {
	perInst := f[1] == "1"
	T, _ := strconv.Atoi(f[2])
	A, _ := strconv.Atoi(f[3])
	n, _ := strconv.Atoi(f[4])
	prov := &burstProvider{early: len(f) == 7 && f[6] == "1"}
	prov.left.Store(int64(A))
	ag := &burstAggr{}
	var shots atomic.Int64
	metrics := engine.Metrics{
		Request:        &monitoring.Counter{},
		Response:       &monitoring.Counter{},
		InstanceStart:  &monitoring.Counter{},
		InstanceFinish: &monitoring.Counter{},
	}
	conf := engine.InstancePoolConfig{
		ID:              "p",
		Provider:        prov,
		Aggregator:      ag,
		NewGun:          func() (core.Gun, error) { return &burstGun{shots: &shots}, nil },
		RPSPerInstance:  perInst,
		NewRPSSchedule:  func() (core.Schedule, error) { return buildSched(f[5]), nil },
		StartupSchedule: schedule.NewOnce(int64(n)),
	}
	eng := engine.New(zap.NewNop(), metrics, engine.Config{Pools: []engine.InstancePoolConfig{conf}})
	done := make(chan error, 1)
	go func() {
		err := eng.Run(context.Background())
		eng.Wait()
		done <- err
	}()
	outcome := "ok"
	select {
	case err := <-done:
		if err != nil {
			outcome = "err"
		}
	case <-time.After(60 * time.Second):
		return "hang"
	}
	_ = T
	return burstObs(outcome, perInst, prov, ag, &shots, metrics)
}

// ---- cfgpool: the pool is decoded from a config through the real plugin registry, the way the
// CLI builds pools (coreimport.Import + config.DecodeAndValidate into engine.Config)

var registryMu sync.Mutex // the plugin registry and the config hooks are process-wide

func rpsForm(form string, T int) interface{} {
	once := func(n int) map[string]interface{} { return map[string]interface{}{"type": "once", "times": n} }
	switch form {
	case "plain":
		return once(T)
	case "list1":
		return []interface{}{once(T)}
	case "list2":
		return []interface{}{once(T / 2), once(T - T/2)}
	case "list3":
		return []interface{}{once(T / 3), map[string]interface{}{"type": "const", "ops": 0, "duration": "2ms"}, once(T - T/3)}
	case "composite":
		return map[string]interface{}{"type": "composite", "nested": []interface{}{once(T)}}
	case "composite2":
		return map[string]interface{}{"type": "composite", "nested": []interface{}{once(T - T/2), once(T / 2)}}
	case "const":
		return map[string]interface{}{"type": "const", "ops": T * 100, "duration": "10ms"}
	case "constlist":
		return []interface{}{map[string]interface{}{"type": "const", "ops": T * 100, "duration": "10ms"}}
	}
	panic("bad rps form " + form)
}

func runCfgPool(f []string) string {
	perInst := f[1] == "1"
	T, _ := strconv.Atoi(f[2])
	A, _ := strconv.Atoi(f[3])
	n, _ := strconv.Atoi(f[4])
	prov := &burstProvider{early: len(f) == 7 && f[6] == "1"}
	prov.left.Store(int64(A))
	ag := &burstAggr{}
	var shots atomic.Int64
	var startup interface{} = map[string]interface{}{"type": "once", "times": n}
	if prov.early {
		startup = []interface{}{map[string]interface{}{"type": "const", "ops": 0, "duration": "30ms"}, startup}
	}

	registryMu.Lock()
	defer registryMu.Unlock()
	plugin.SetDefaultRegistry(plugin.NewRegistry())
	config.SetHooks(config.DefaultHooks())
	defer func() {
		plugin.SetDefaultRegistry(plugin.NewRegistry())
		config.SetHooks(config.DefaultHooks())
	}()
	coreimport.Import(afero.NewMemMapFs())
	register.Gun("verif-gun", func() core.Gun { return &burstGun{shots: &shots} })
	register.Provider("verif-ammo", func() core.Provider { return prov })
	register.Aggregator("verif-aggr", func() core.Aggregator { return ag })
	input := map[string]interface{}{
		"pools": []interface{}{
			map[string]interface{}{
				"id":               "p",
				"ammo":             map[string]interface{}{"type": "verif-ammo"},
				"result":           map[string]interface{}{"type": "verif-aggr"},
				"gun":              map[string]interface{}{"type": "verif-gun"},
				"rps-per-instance": perInst,
				"rps":              rpsForm(f[5], T),
				"startup":          startup,
				"discard_overflow": false,
			},
		},
	}
	var conf engine.Config
	if err := config.DecodeAndValidate(input, &conf); err != nil {
		return "decode-error"
	}
	metrics := engine.Metrics{
		Request:        &monitoring.Counter{},
		Response:       &monitoring.Counter{},
		InstanceStart:  &monitoring.Counter{},
		InstanceFinish: &monitoring.Counter{},
	}
	eng := engine.New(zap.NewNop(), metrics, conf)
	done := make(chan error, 1)
	go func() {
		err := eng.Run(context.Background())
		eng.Wait()
		done <- err
	}()
	outcome := "ok"
	select {
	case err := <-done:
		if err != nil {
			outcome = "err"
		}
	case <-time.After(60 * time.Second):
		return "hang"
	}
	return burstObs(outcome, perInst, prov, ag, &shots, metrics)
}

func burstObs(outcome string, perInst bool, prov *burstProvider, ag *burstAggr, shots *atomic.Int64, metrics engine.Metrics) string {
	started := metrics.InstanceStart.Get()
	total := shots.Load() + ag.discarded.Load()
	unfired := prov.acquired.Load() - total
	unfiredOK := unfired == 0
	if !perInst {
		unfiredOK = unfired >= 0 && unfired <= started-1
	}
	return fmt.Sprintf("%s %d %d %d %d %d %s %d", outcome, started, total, metrics.Request.Get()-shots.Load(),
		metrics.Response.Get()-shots.Load(), prov.acquired.Load()-prov.released.Load(), vh.B(unfiredOK || started == 0),
		started-metrics.InstanceFinish.Get())
}

func runCase(c string) string {
	f := strings.Split(c, " ")
	if f[0] == "burst" && (len(f) == 6 || len(f) == 7) {
		return runBurst(f)
	}
	if f[0] == "cfgpool" && (len(f) == 6 || len(f) == 7) {
		return runCfgPool(f)
	}
	if f[0] != "pool" || len(f) != 11 {
		return "unknown-case"
	}
	provMode, _ := strconv.Atoi(f[10])
	perInst := f[1] == "1"
	disc := f[2] == "1"
	A, _ := strconv.Atoi(f[4])
	shootUs, _ := strconv.Atoi(f[7])
	pastMs, _ := strconv.Atoi(f[8])

	rec := &recorder{bind: map[uint64]int{}, byID: map[int]int{}}
	prov := &provider{rec: rec, left: A, mode: provMode}
	ag := &aggr{rec: rec}
	var shots, drawn atomic.Int64
	metrics := engine.Metrics{
		Request:        &monitoring.Counter{},
		Response:       &monitoring.Counter{},
		InstanceStart:  &monitoring.Counter{},
		InstanceFinish: &monitoring.Counter{},
	}
	conf := engine.InstancePoolConfig{
		ID:         "p",
		Provider:   prov,
		Aggregator: ag,
		NewGun: func() (core.Gun, error) {
			return &gun{rec: rec, shots: &shots, sleep: time.Duration(shootUs) * time.Microsecond}, nil
		},
		RPSPerInstance: perInst,
		NewRPSSchedule: func() (core.Schedule, error) {
			s := buildSched(f[5])
			if pastMs > 0 {
				s.Start(time.Now().Add(-time.Duration(pastMs) * time.Millisecond))
			}
			return &recSched{rec: rec, inner: s, drawn: &drawn}, nil
		},
		StartupSchedule: buildSched(f[6]),
		DiscardOverflow: disc,
	}
	eng := engine.New(zap.New(&awaitCore{rec: rec}), metrics, engine.Config{Pools: []engine.InstancePoolConfig{conf}})
	done := make(chan error, 1)
	go func() {
		defer func() {
			if r := recover(); r != nil {
				done <- fmt.Errorf("panic: %v", r)
			}
		}()
		err := eng.Run(context.Background())
		eng.Wait()
		done <- err
	}()
	outcome := "ok"
	select {
	case err := <-done:
		if err != nil {
			outcome = "err"
		}
	case <-time.After(20 * time.Second):
		return "hang"
	}

	rec.mu.Lock()
	defer rec.mu.Unlock()
	// goroutine -> instance index: instances k >= 1 run in the goroutine that bound their gun;
	// the one remaining goroutine that performed instance operations is instance 0 (its gun is
	// bound by the start loop's goroutine).
	idx := map[uint64]int{}
	for g, k := range rec.bind {
		idx[g] = k
	}
	zero := uint64(0)
	haveZero := false
	var sb strings.Builder
	for n, e := range rec.evs {
		if n > 0 {
			sb.WriteByte(',')
		}
		if e.kind == 'G' {
			fmt.Fprintf(&sb, "G%d", e.arg)
			continue
		}
		if e.kind == 'P' || e.kind == 'Q' || e.kind == 'T' || e.kind == 'I' {
			cls := string("nocx"[e.arg])
			switch e.kind {
			case 'P', 'Q':
				sb.WriteByte(e.kind)
				if e.arg != 0 {
					sb.WriteString(cls)
				}
			case 'T':
				fmt.Fprintf(&sb, "T%d%s", int(e.gid), cls)
			case 'I':
				k, ok := rec.byID[int(e.gid)]
				if !ok {
					k = -1
					outcome = "gidmap"
				}
				fmt.Fprintf(&sb, "I%d%s", k, cls)
			}
			continue
		}
		i, ok := idx[e.gid]
		if !ok {
			if haveZero && e.gid != zero {
				outcome = "gidmap"
			}
			zero, haveZero = e.gid, true
			i = 0
		}
		switch e.kind {
		case 'L':
			if e.arg == 1 {
				fmt.Fprintf(&sb, "L%dz", i)
			} else {
				fmt.Fprintf(&sb, "L%dn", i)
			}
		case 'A':
			if e.arg < 0 {
				fmt.Fprintf(&sb, "A%d-", i)
			} else {
				fmt.Fprintf(&sb, "A%d=%d", i, e.arg)
			}
		case 'N':
			if e.arg == 1 {
				fmt.Fprintf(&sb, "N%d+", i)
			} else {
				fmt.Fprintf(&sb, "N%d-", i)
			}
		case 'S':
			fmt.Fprintf(&sb, "S%d=%d", i, e.arg)
		case 'D':
			fmt.Fprintf(&sb, "D%d", i)
		case 'R':
			fmt.Fprintf(&sb, "R%d=%d", i, e.arg)
		}
	}
	if len(rec.evs) > 0 {
		sb.WriteByte(',')
	}
	sb.WriteByte('E')
	return fmt.Sprintf("%s %d %d %d %d %d %d %d %d %d %d | %s", outcome,
		prov.acquired.Load(), prov.released.Load(), shots.Load(), ag.discarded.Load(),
		metrics.Request.Get(), metrics.Response.Get(), metrics.InstanceStart.Get(), metrics.InstanceFinish.Get(),
		drawn.Load(), ag.other.Load()+prov.relUnknow.Load(), sb.String())
}

// ---- generator

type prof struct {
	spec string
	n    int // tokens
	durM int // total duration in ms
}

func constOK(ops, msec int) bool {
	d := time.Duration(msec) * time.Millisecond
	return int64(float64(ops)*(float64(d)/1e9)) == int64(ops*msec/1000) && ops*msec%1000 == 0
}

func genConst(r *vh.Rand) prof {
	for {
		ops := r.PickInt([]int{100, 200, 400, 500, 1000, 2000})
		msec := r.PickInt([]int{10, 20, 30, 40, 50, 80, 100})
		if constOK(ops, msec) {
			return prof{fmt.Sprintf("const:%d:%d", ops, msec), ops * msec / 1000, msec}
		}
	}
}

func genStep(r *vh.Rand) prof {
	for {
		from := r.PickInt([]int{100, 200, 500})
		step := r.PickInt([]int{100, 200, 500})
		k := r.Range(1, 3)
		to := from + k*step
		msec := r.PickInt([]int{10, 20, 40})
		ok := true
		n := 0
		for v := from; v <= to; v += step {
			if !constOK(v, msec) {
				ok = false
			}
			n += v * msec / 1000
		}
		if ok {
			return prof{fmt.Sprintf("step:%d:%d:%d:%d", from, to, step, msec), n, msec * (k + 1)}
		}
	}
}

func genRPS(r *vh.Rand, tier string) prof {
	switch r.Intn(10) {
	case 0, 1, 2:
		return prof{fmt.Sprintf("once:%d", r.Range(0, 40)), 0, 0}.fixOnce()
	case 3, 4, 5, 6:
		return genConst(r)
	case 7:
		return genStep(r)
	default:
		a := genRPS(r, tier)
		b := genRPS(r, tier)
		if strings.Count(a.spec, "+")+strings.Count(b.spec, "+") > 1 {
			return a
		}
		return prof{a.spec + "+" + b.spec, a.n + b.n, a.durM + b.durM}
	}
}

func (p prof) fixOnce() prof {
	f := strings.Split(p.spec, ":")
	n, _ := strconv.Atoi(f[1])
	p.n = n
	return p
}

// a const startup part whose token count ops*ms/1000 is exact in float64 as well
func startConst(r *vh.Rand, ops, msec []int) string {
	for {
		o, m := r.PickInt(ops), r.PickInt(msec)
		if constOK(o, m) {
			return fmt.Sprintf("const:%d:%d", o, m)
		}
	}
}

func genStartup(r *vh.Rand, tier string) string {
	maxI := 12
	if tier == "thorough" && r.Chance(1, 10) {
		maxI = 64
	}
	switch r.Intn(11) {
	case 8:
		// the first instance is started later than t=0: a pause, then the instances
		return fmt.Sprintf("const:0:%d+once:%d", r.PickInt([]int{15, 30, 60}), r.Range(1, 6))
	case 9:
		return fmt.Sprintf("istep:0:%d:%d:%d", r.Range(2, 6), r.Range(1, 2), r.PickInt([]int{10, 20, 40}))
	case 10:
		return fmt.Sprintf("const:0:%d+%s", r.PickInt([]int{10, 25}), startConst(r, []int{100, 200}, []int{20, 30}))
	case 0, 1, 2, 3, 4:
		return fmt.Sprintf("once:%d", r.Range(1, maxI))
	case 5:
		return startConst(r, []int{100, 200}, []int{20, 30, 50})
	case 6:
		return fmt.Sprintf("istep:%d:%d:%d:%d", r.Range(1, 3), r.Range(3, 8), r.Range(1, 3), r.PickInt([]int{5, 10, 20}))
	default:
		return fmt.Sprintf("once:%d+%s", r.Range(1, 4), startConst(r, []int{100, 200}, []int{20, 30}))
	}
}

func startupCount(spec string) int {
	n := 0
	for _, p := range strings.Split(spec, "+") {
		f := strings.Split(p, ":")
		at := func(i int) int { v, _ := strconv.Atoi(f[i]); return v }
		switch f[0] {
		case "once":
			n += at(1)
		case "const":
			n += at(1) * at(2) / 1000
		case "istep":
			n += at(1)
			for i := at(1) + at(3); i <= at(2); i += at(3) {
				n += at(3)
			}
		}
	}
	return n
}

func gen(r *vh.Rand, tier string) []string {
	n := 220
	if tier == "thorough" {
		n = 5000
	}
	var out []string
	// high contention: many instances, zero-cost shots, 10^4..10^5 tokens
	out = append(out, "burst 0 40000 1000000 16 once:40000", "burst 1 3000 1000000 32 once:3000")
	// the provider's Run returns before the start loop has launched anything (or while it does)
	out = append(out, "burst 0 20000 1000000 16 once:20000 1", "burst 0 5000 4000 8 once:5000 1")
	// shared composite profiles of many small parts (incl. empty ones): hundreds of part boundaries
	// with several fast instances racing at each
	out = append(out, "burst 0 3000 3000 8 rep:3000:once:1", "burst 0 3000 1000000 8 rep:1500:once:2,once:0",
		"burst 0 1200 1000000 6 rep:400:once:3,const:0:0", "burst 0 2000 1999 4 rep:1000:once:1,once:1")
	// pools decoded from a config: every way of writing the profile x shared / per instance
	for _, form := range []string{"plain", "list1", "list2", "list3", "composite", "composite2", "const", "constlist"} {
		for _, per := range []string{"0", "1"} {
			out = append(out, fmt.Sprintf("cfgpool %s %d %d %d %s", per, r.Range(20, 60), 1000000, r.Range(2, 6), form))
		}
	}
	out = append(out, "cfgpool 1 25 60 4 list1", "cfgpool 0 25 10 4 list2")
	// config-built pools whose provider is done before the (delayed) first instance starts
	for _, form := range []string{"plain", "list2", "composite", "const"} {
		out = append(out, fmt.Sprintf("cfgpool %s %d %d %d %s 1", vh.B(r.Bool()), r.Range(20, 60), r.PickInt([]int{15, 1000000}), r.Range(2, 6), form))
	}
	nb := 0
	if tier == "thorough" {
		nb = 40
		for i := 0; i < 60; i++ {
			k := r.Range(300, 4000)
			inner := r.Pick([]string{"once:1", "once:2,once:0", "once:1,once:1", "once:3,const:0:0", "once:0,once:2", "once:1,const:0:0,once:0"})
			per := 0
			for _, q := range strings.Split(inner, ",") {
				if strings.HasPrefix(q, "once:") {
					v, _ := strconv.Atoi(q[5:])
					per += v
				}
			}
			T := k * per
			A := 1000000
			if r.Bool() {
				A = r.Range(T/2, T)
			}
			out = append(out, fmt.Sprintf("burst 0 %d %d %d rep:%d:%s", T, A, r.PickInt([]int{4, 8, 16}), k, inner))
		}
		forms := []string{"plain", "list1", "list2", "list3", "composite", "composite2", "const", "constlist"}
		for i := 0; i < 60; i++ {
			T := r.Range(3, 200) // every part of a split profile keeps at least one token (once: times >= 1 is validated)
			inst := r.Range(1, 12)
			A := 1000000
			if r.Chance(1, 3) {
				A = r.Range(0, T*inst+3)
			}
			line := fmt.Sprintf("cfgpool %s %d %d %d %s", vh.B(r.Bool()), T, A, inst, r.Pick(forms))
			if r.Chance(1, 3) {
				line += " 1"
			}
			out = append(out, line)
		}
	}
	for i := 0; i < nb; i++ {
		inst := r.PickInt([]int{16, 24, 32, 48, 64})
		per := r.Chance(1, 3)
		T := r.Range(10000, 100000)
		spec := fmt.Sprintf("once:%d", T)
		if r.Chance(1, 3) {
			T = 20000
			spec = "const:400000:50"
		}
		if per {
			T = T / inst
			spec = fmt.Sprintf("once:%d", T)
		}
		A := 10000000
		if !per && r.Chance(1, 3) {
			A = r.Range(T/2, T+5)
		}
		line := fmt.Sprintf("burst %s %d %d %d %s", vh.B(per), T, A, inst, spec)
		if r.Chance(1, 3) {
			line += " 1"
		}
		out = append(out, line)
	}
	for i := 0; i < n; i++ {
		p := genRPS(r, tier)
		st := genStartup(r, tier)
		perInst := r.Chance(2, 5)
		disc := r.Chance(1, 2)
		tokens := p.n
		if perInst {
			tokens = p.n * startupCount(st)
		}
		var A int
		switch r.Intn(9) {
		case 0:
			A = 0
		case 1:
			A = 1
		case 2:
			A = tokens - 1
		case 3:
			A = tokens
		case 4:
			A = tokens + 1
		case 5:
			A = tokens + startupCount(st)
		case 6:
			A = 2*tokens + 5
		case 7:
			A = tokens / 2
		default:
			A = r.Range(0, tokens+10)
		}
		if A < 0 {
			A = 0
		}
		shoot := r.PickInt([]int{0, 0, 50, 200, 1000, 3000})
		if tokens > 150 && shoot > 200 {
			shoot = 200
		}
		past := 0
		if r.Chance(1, 3) {
			// overdue tokens: all of them (>= 2 s + profile length) or only the first ones
			if r.Bool() {
				past = 2200 + p.durM
			} else {
				past = 2000 + p.durM/2
			}
		}
		// the provider's Run: still reading when the pool ends / everything queued before the run / done early in the run
		prov := r.PickInt([]int{0, 0, 1, 1, 2})
		out = append(out, fmt.Sprintf("pool %s %s %d %d %s %s %d %d %d %d", vh.B(perInst), vh.B(disc), p.n, A, p.spec, st, shoot, past,
			startupCount(st), prov))
	}
	return out
}

func main() {
	vh.Main(gen, func(cases []string) []string {
		out := make([]string, len(cases))
		workers := 6
		var wg sync.WaitGroup
		ch := make(chan int)
		for w := 0; w < workers; w++ {
			wg.Add(1)
			go func() {
				defer wg.Done()
				for i := range ch {
					out[i] = runCase(cases[i])
				}
			}()
		}
		for i := range cases {
			ch <- i
		}
		close(ch)
		wg.Wait()
		return out
	})
}
