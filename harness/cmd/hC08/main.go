// hC08: correspondence harness for property C08 (limit/passes semantics, clean end of ammo).
//
// Case lines:
//
//	cell <kind> <preload 0|1> <limit> <passes> <n> <consumers> <cancel> [<eof layout 0..3> [<fs 0|1>]]
//
// kind: uri uripost raw jsonl jsona scenhttp scengrpc grpcjson decode; <cancel> is "-" or the
// number of items after which the context is cancelled (always set when limit=passes=0), or "pre": the
// context is already cancelled when Run is called and the consumers are already waiting in Acquire; a leading
// "d" (d3, dpre): the context ends the way a deadline does (Err() = context.DeadlineExceeded). <eof>: how
// the ammo file ends (a08.EOFLayouts: final newline / none / trailing blanks+CR / blank lines); the
// entries are the same in every layout, so the model does not look at it.
// <fs>: the file system the ammo file lives on (a08.FsMem: afero mem files, a08.FsOS: a real file
// under a scratch directory through afero.NewOsFs, what the pandora binary uses: there every
// operation on a closed *os.File, Close included, is an error).
// Observation: <count> <seq> <closed|blocked> <run class> <handles>   (see internal/a08);
// <handles> = h<opens>/<closes>/<operations on an already closed handle> of the ammo file, counted by
// a pass-through wrapper of the file system once Run has returned ("-": no provider was built / hang).
//
// `run` drives the cells through worker subprocesses (one cell at a time each); a worker that
// reported a hang is killed, so a provider goroutine that spins cannot disturb later cells.
package main

import (
	"fmt"
	"os"
	"strconv"
	"strings"

	"verifharness/internal/a08"
	"verifharness/internal/vh"
)

func runCell(c string) (out string) {
	defer func() {
		if r := recover(); r != nil {
			out = "0 - blocked panic -"
		}
	}()
	f := strings.Split(c, " ")
	if (len(f) == 7 || len(f) == 8) && f[0] == "engine" {
		return runEngineCell(f, -1)
	}
	if len(f) == 9 && f[0] == "enginef" {
		// enginef <kind> <preload> <limit> <passes> <n> <instances> <fs> <tags>: the provider with a chosencases list under the engine
		return runEngineCellChosen(f[:8], -1, maskTags(f[8]))
	}
	if len(f) == 9 && f[0] == "enginec" {
		// enginec <kind> <preload> <limit> <passes> <n> <instances> <fs> <cancel at shot k | 0 = before Engine.Run>
		at, _ := strconv.Atoi(f[8])
		return runEngineCell(f[:8], at)
	}
	if len(f) == 7 && f[0] == "nofile" {
		// nofile <kind> <limit> <passes> <consumers> <- | pre> <fs>: the ammo file does not exist; grpc/json and the
		// generic JSON provider open it inside Run: Run fails, nobody stays blocked. Observation: <count> <seq> <closed|blocked> <run class>
		limit, _ := strconv.Atoi(f[2])
		passes, _ := strconv.Atoi(f[3])
		consumers, _ := strconv.Atoi(f[4])
		fsKind, _ := strconv.Atoi(f[6])
		b, err := a08.BuildFSOpt(f[1], false, limit, passes, a08.DefaultEntries(1), nil, 0, fsKind, a08.Opts{NoFile: true})
		if err != nil {
			return "0 - closed construct"
		}
		defer b.Cleanup()
		return a08.ObserveOpt(b, consumers, -1, 1000, a08.ObsOpts{Pre: f[5] == "pre"}).String()
	}
	if len(f) == 6 && f[0] == "dec" {
		return runDecCell(f)
	}
	sized := len(f) == 13 && f[0] == "sized"
	withChosen := len(f) == 11 && f[0] == "chosen"
	if !sized && !withChosen && (len(f) < 8 || len(f) > 10 || f[0] != "cell") {
		return "unknown-case"
	}
	eof, fsKind := 0, a08.FsMem
	if len(f) >= 9 {
		eof, _ = strconv.Atoi(f[8])
	}
	if len(f) >= 10 {
		fsKind, _ = strconv.Atoi(f[9])
	}
	kind := f[1]
	preload := f[2] == "1"
	limit, _ := strconv.Atoi(f[3])
	passes, _ := strconv.Atoi(f[4])
	n, _ := strconv.Atoi(f[5])
	consumers, _ := strconv.Atoi(f[6])
	deadline := strings.HasPrefix(f[7], "d")
	cs := strings.TrimPrefix(f[7], "d")
	cancel, pre := -1, cs == "pre"
	if cs != "-" && !pre {
		cancel, _ = strconv.Atoi(cs)
	}
	es := a08.DefaultEntries(n)
	var opts a08.Opts
	if sized {
		// <maxammosize> <pads> <sizes>: the entries are padded as the case says; the sizes the model is
		// given must be the sizes of the lines as rendered
		opts.MaxAmmoSize, _ = strconv.Atoi(f[10])
		pads, sizes := strings.Split(f[11], ","), strings.Split(f[12], ",")
		if len(pads) != n || len(sizes) != n {
			return "unknown-case"
		}
		for i := range es {
			es[i].Pad, _ = strconv.Atoi(pads[i])
		}
		for i, sz := range a08.EntrySizes(kind, es) {
			if strconv.Itoa(sz) != sizes[i] {
				return "unknown-case"
			}
		}
	}
	var chosen []string
	if withChosen {
		// <tags>: the chosencases filter, as indexes of tags (entry i carries tag t<i>)
		chosen = maskTags(f[10])
	}
	// grpc/json: the ammo file is named through `source.path` in every other configuration
	opts.SourcePath = kind == "grpcjson" && (n+limit+passes)%2 == 1
	b, err := a08.BuildFSOpt(kind, preload, limit, passes, es, chosen, eof, fsKind, opts)
	if err != nil {
		return "0 - closed construct -" // the constructor refused the file: there is no Run and no sink
	}
	defer b.Cleanup()
	o := a08.ObserveOpt(b, consumers, cancel, limit+passes*n+1000, a08.ObsOpts{Pre: pre, Deadline: deadline})
	h := "-"
	if o.Run != "hang" && o.Run != "panic" {
		h = b.Audit.Summary() // Run has returned: its deferred calls are done
	}
	return o.String() + " " + h
}

// dec <kind> <limit> <passes> <n> <eof>: an http decoder driven directly (Limit and Passes are the
// decoder's own), Scan until it returns an error. Observation: <count> <seq> <class of the error | ->
func runDecCell(f []string) string {
	limit, _ := strconv.Atoi(f[2])
	passes, _ := strconv.Atoi(f[3])
	n, _ := strconv.Atoi(f[4])
	eof, _ := strconv.Atoi(f[5])
	seq, cls, err := a08.ScanDecoder(f[1], limit, passes, a08.DefaultEntries(n), eof, limit+passes*n+3*n+5)
	if err != nil {
		return "0 - construct"
	}
	s := "-"
	if len(seq) > 0 {
		parts := make([]string, len(seq))
		for i, v := range seq {
			parts[i] = strconv.Itoa(v)
		}
		s = strings.Join(parts, ",")
	}
	return fmt.Sprintf("%d %s %s", len(seq), s, cls)
}

// engine <kind> <preload> <limit> <passes> <n> <instances> [<fs>]: the provider under the real engine.
// Observation: <shots> <sorted seq> <Engine.Run result> <Engine.Wait returned 0|1>
func runEngineCell(f []string, cancelAt int) string { return runEngineCellChosen(f, cancelAt, nil) }

// maskTags: "-" or a comma separated list of tag indexes -> the chosencases list (entry i carries tag t<i>)
func maskTags(mask string) []string {
	var chosen []string
	if mask != "-" {
		for _, t := range strings.Split(mask, ",") {
			chosen = append(chosen, "t"+t)
		}
	}
	return chosen
}

func runEngineCellChosen(f []string, cancelAt int, chosen []string) string {
	kind := f[1]
	preload := f[2] == "1"
	limit, _ := strconv.Atoi(f[3])
	passes, _ := strconv.Atoi(f[4])
	n, _ := strconv.Atoi(f[5])
	inst, _ := strconv.Atoi(f[6])
	fsKind := a08.FsMem
	if len(f) == 8 {
		fsKind, _ = strconv.Atoi(f[7])
	}
	b, err := a08.BuildFS(kind, preload, limit, passes, a08.DefaultEntries(n), chosen, 0, fsKind)
	if err != nil {
		return "0 - construct:" + strings.ReplaceAll(err.Error(), " ", "_") + " 0"
	}
	defer b.Cleanup()
	shots, res, waited := a08.ObserveEngineCancel(b, inst, limit+passes*n+50+2*cancelAt, cancelAt)
	s := "-"
	if len(shots) > 0 {
		parts := make([]string, len(shots))
		for i, v := range shots {
			parts[i] = strconv.Itoa(v)
		}
		s = strings.Join(parts, ",")
	}
	return fmt.Sprintf("%d %s %s %s", len(shots), s, res, vh.B(waited))
}

type provCfg struct {
	kind    string
	preload int
}

func provCfgs() []provCfg {
	var out []provCfg
	for _, k := range a08.HTTPKinds {
		out = append(out, provCfg{k, 0}, provCfg{k, 1})
	}
	for _, k := range a08.OtherKinds {
		out = append(out, provCfg{k, 0})
	}
	return out
}

func gen(r *vh.Rand, tier string) []string {
	var out []string
	ns := []int{1, 3}
	if tier == "thorough" {
		ns = []int{1, 2, 3, 5}
	}
	// the enumerated matrix, on both kinds of file system; the end-of-file layout rotates over the
	// cells (shifted by one every 4 cells so that it is not a function of (n, consumers))
	cellNo := 0
	for _, pc := range provCfgs() {
		for _, limit := range []int{0, 1, 2, 3, 5} {
			for _, passes := range []int{0, 1, 2, 3} {
				for _, n := range ns {
					for _, cons := range []int{1, 3} {
						cancel := "-"
						if limit == 0 && passes == 0 {
							cancel = strconv.Itoa(2*n + 1)
						}
						eof := (cellNo + cellNo/4) % a08.EOFLayouts
						for fs := 0; fs < a08.FsKinds; fs++ {
							out = append(out, fmt.Sprintf("cell %s %d %d %d %d %d %s %d %d", pc.kind, pc.preload, limit, passes, n, cons, cancel, eof, fs))
						}
						cellNo++
					}
				}
			}
		}
	}
	// every end-of-file layout for every file-based provider: the end of the first pass must be crossed
	for _, pc := range provCfgs() {
		if pc.kind == "scenhttp" || pc.kind == "scengrpc" {
			continue
		}
		for eof := 0; eof < a08.EOFLayouts; eof++ {
			for _, lp := range [][2]int{{0, 2}, {5, 0}, {4, 3}} {
				for _, n := range []int{1, 3} {
					out = append(out, fmt.Sprintf("cell %s %d %d %d %d 1 - %d %d", pc.kind, pc.preload, lp[0], lp[1], n, eof, len(out)%a08.FsKinds))
				}
			}
		}
	}
	// files WITHOUT entries (empty / header lines only / blanks only, by the end-of-file layout):
	// nothing is delivered, consumers are not kept blocked, Run returns what the model of the code says
	for _, pc := range provCfgs() {
		for eof := 0; eof < a08.EOFLayouts; eof++ {
			for _, lp := range [][2]int{{0, 0}, {0, 1}, {0, 2}, {3, 0}, {2, 2}} {
				cancel := "-"
				if lp[0] == 0 && lp[1] == 0 {
					cancel = "1"
				}
				for fs := 0; fs < a08.FsKinds; fs++ {
					out = append(out, fmt.Sprintf("cell %s %d %d %d 0 1 %s %d %d", pc.kind, pc.preload, lp[0], lp[1], cancel, eof, fs))
				}
			}
		}
	}
	// the run context is already cancelled when Run is called, consumers already waiting in Acquire:
	// the provider returns promptly and releases them, whatever its bounds
	for _, pc := range provCfgs() {
		for _, lp := range [][2]int{{0, 0}, {3, 0}, {0, 2}, {2, 2}} {
			for _, n := range []int{1, 3} {
				for _, cons := range []int{1, 3} {
					out = append(out, fmt.Sprintf("cell %s %d %d %d %d %d pre %d %d", pc.kind, pc.preload, lp[0], lp[1], n, cons, len(out)%a08.EOFLayouts, (len(out)/2)%a08.FsKinds))
					if cons == 1 {
						// the context ends by a deadline: before Run starts, and after n+1 items were taken
						out = append(out, fmt.Sprintf("cell %s %d %d %d %d %d dpre %d %d", pc.kind, pc.preload, lp[0], lp[1], n, 1+(n+lp[0])%3, len(out)%a08.EOFLayouts, (len(out)/2)%a08.FsKinds))
						out = append(out, fmt.Sprintf("cell %s %d %d %d %d %d d%d %d %d", pc.kind, pc.preload, lp[0], lp[1], n, 1+(n+lp[1])%3, n+1, len(out)%a08.EOFLayouts, (len(out)/2)%a08.FsKinds))
					}
				}
			}
		}
	}
	out = append(out, genSized(r, tier)...)
	out = append(out, genChosen(r, tier)...)
	// the http decoders driven directly: their own Limit / Passes counters and sentinels
	for _, k := range a08.HTTPKinds {
		for _, limit := range []int{0, 1, 2, 3, 5, 7} {
			for _, passes := range []int{0, 1, 2, 3} {
				for _, n := range []int{1, 2, 3} {
					out = append(out, fmt.Sprintf("dec %s %d %d %d %d", k, limit, passes, n, (limit+passes+n)%a08.EOFLayouts))
				}
			}
		}
	}
	// the ammo file does not exist, providers that open it inside Run: Run fails, the sink is closed all the same
	for _, k := range []string{"grpcjson", "decode"} {
		for _, lp := range [][2]int{{0, 0}, {3, 0}, {0, 2}} {
			for _, cons := range []int{1, 3} {
				for _, c := range []string{"-", "pre"} {
					out = append(out, fmt.Sprintf("nofile %s %d %d %d %s %d", k, lp[0], lp[1], cons, c, (cons+lp[0])%a08.FsKinds))
				}
			}
		}
	}
	// every provider under the real engine: instances see end of ammo, Engine.Run returns nil
	for _, pc := range provCfgs() {
		for _, lp := range [][2]int{{3, 0}, {0, 2}, {4, 3}, {7, 2}} {
			for _, n := range ns {
				for fs := 0; fs < a08.FsKinds; fs++ {
					out = append(out, fmt.Sprintf("engine %s %d %d %d %d %d %d", pc.kind, pc.preload, lp[0], lp[1], n, 1+(n+lp[0])%3, fs))
				}
			}
		}
	}
	// ... and cancelled: before Engine.Run / from inside the k-th shot, well before any bound:
	// Engine.Run returns, Engine.Wait returns (no instance stays blocked in Acquire)
	for i, pc := range provCfgs() {
		for j, lp := range [][2]int{{0, 0}, {40, 0}, {0, 30}} {
			for _, at := range []int{0, 1 + (i+j)%4} {
				out = append(out, fmt.Sprintf("enginec %s %d %d %d %d %d %d %d", pc.kind, pc.preload, lp[0], lp[1], 1+(i+j)%3, 1+(i+2*j)%3, (i+j)%a08.FsKinds, at))
			}
		}
	}
	// random cells: larger sizes, cancellation before/at/after the bound, up to 4 consumers
	extra := 150
	if tier == "thorough" {
		extra = 3000
	}
	pcs := provCfgs()
	for i := 0; i < extra; i++ {
		pc := pcs[r.Intn(len(pcs))]
		n := r.Range(1, 9)
		limit := r.PickInt([]int{0, 0, 1, 2, 4, 7, 10, 17, 40})
		passes := r.PickInt([]int{0, 0, 1, 2, 3, 4, 7})
		cancel := "-"
		if (limit == 0 && passes == 0) || r.Chance(1, 3) {
			cancel = strconv.Itoa(r.Range(0, 3*n+2))
			if r.Chance(1, 6) {
				cancel = "pre"
			}
			if r.Chance(1, 4) {
				cancel = "d" + cancel
			}
		}
		out = append(out, fmt.Sprintf("cell %s %d %d %d %d %d %s %d %d", pc.kind, pc.preload, limit, passes, n, r.Range(1, 4), cancel, r.Intn(a08.EOFLayouts), r.Intn(a08.FsKinds)))
	}
	return out
}

// chosenMasks: the chosencases lists tried on a file of n entries (entry i carries tag t<i>; a mask is a
// comma separated list of tag indexes): every non-empty subset of the tags when n <= 3 (otherwise the
// single tags, the first two, all but the first), a tag listed twice, a tag no entry carries next to one
// that occurs — and lists that match NO entry (one / two tags that do not occur, e.g. a misspelt tag).
func chosenMasks(n int) []string {
	var out []string
	if n <= 3 {
		for m := 1; m < 1<<n; m++ {
			var t []string
			for i := 0; i < n; i++ {
				if m&(1<<i) != 0 {
					t = append(t, strconv.Itoa(i))
				}
			}
			out = append(out, strings.Join(t, ","))
		}
	} else {
		var rest []string
		for i := 0; i < n; i++ {
			out = append(out, strconv.Itoa(i))
			if i > 0 {
				rest = append(rest, strconv.Itoa(i))
			}
		}
		out = append(out, "0,1", strings.Join(rest, ","))
	}
	last := strconv.Itoa(n - 1)
	absent := strconv.Itoa(n + 4)
	out = append(out, last+","+last, absent+","+last, absent, absent+","+strconv.Itoa(n+9))
	return out
}

// genChosen: the chosencases filter as a dimension of a cell (the http kinds with and without preload, grpc/json):
// the bounds count what is delivered — limit items, passes over the MATCHING entries; with a list that matches
// nothing there is nothing to deliver, whatever limit and passes say (also none at all): the provider ends by
// itself, consumers are released, Run returns. Every configuration x bounds x list is enumerated (no sampling of
// the product: a hole in it hides a whole path, e.g. full scan + passes 0 + nothing chosen), consumers alternate.
func genChosen(r *vh.Rand, tier string) []string {
	var out []string
	ns := []int{1, 3}
	if tier == "thorough" {
		ns = []int{1, 2, 3, 5}
	}
	var pcs []provCfg
	for _, pc := range provCfgs() {
		if a08.IsHTTP(pc.kind) || pc.kind == "grpcjson" {
			pcs = append(pcs, pc)
		}
	}
	no := 0
	for _, pc := range pcs {
		for _, lp := range [][2]int{{0, 0}, {0, 1}, {0, 2}, {1, 0}, {3, 0}, {5, 2}, {2, 3}} {
			for _, n := range ns {
				for m, mask := range chosenMasks(n) {
					cancel := "-"
					if lp[0] == 0 && lp[1] == 0 {
						cancel = strconv.Itoa(1 + (m+no)%(n+2))
					}
					out = append(out, fmt.Sprintf("chosen %s %d %d %d %d %d %s %d %d %s", pc.kind, pc.preload, lp[0], lp[1], n, 1+2*(no%2), cancel,
						(no+m)%a08.EOFLayouts, (no/2+m)%a08.FsKinds, mask))
					no++
				}
			}
		}
	}
	// ... and under the real engine: the instances shoot the chosen entries up to the bound and see end of ammo,
	// Engine.Run returns nil; with nothing chosen there is no shot, Engine.Run returns (the pool's provider
	// failed with "no ammo") and Engine.Wait returns — no instance is left in Acquire — whatever limit and passes
	for i, pc := range pcs {
		for j, lp := range [][2]int{{0, 0}, {3, 0}, {0, 2}, {5, 2}} {
			for _, n := range []int{1, 3} {
				for m, mask := range chosenMasks(n) {
					if lp[0] == 0 && lp[1] == 0 && m < len(chosenMasks(n))-2 {
						continue // unbounded and something chosen: never ends by itself
					}
					if tier != "thorough" && m < len(chosenMasks(n))-2 && (i+j+m)%3 != 0 {
						continue // quick: a third of the lists that choose something, every list that chooses nothing
					}
					out = append(out, fmt.Sprintf("enginef %s %d %d %d %d %d %d %s", pc.kind, pc.preload, lp[0], lp[1], n, 1+(i+j+m)%3, (i+m)%a08.FsKinds, mask))
				}
			}
		}
	}
	// random cells: larger files, any subset of the tags (1 in 4: none of them), cancellation before / at / after
	// the bound, a context that is already done, deadlines, 1-3 consumers
	extra := 150
	if tier == "thorough" {
		extra = 3000
	}
	for i := 0; i < extra; i++ {
		pc := pcs[r.Intn(len(pcs))]
		n := r.Range(1, 7)
		var t []string
		if !r.Chance(1, 4) {
			for j := 0; j < n; j++ {
				if r.Chance(1, 2) {
					t = append(t, strconv.Itoa(j))
				}
			}
		}
		if len(t) == 0 || r.Chance(1, 5) {
			t = append(t, strconv.Itoa(n+r.Range(0, 5))) // a tag no entry carries
		}
		limit := r.PickInt([]int{0, 0, 1, 2, 4, 7, 10, 17})
		passes := r.PickInt([]int{0, 0, 1, 2, 3, 4})
		cancel := "-"
		if (limit == 0 && passes == 0) || r.Chance(1, 4) {
			cancel = strconv.Itoa(r.Range(0, 2*n+2))
			if r.Chance(1, 6) {
				cancel = "pre"
			}
			if r.Chance(1, 4) {
				cancel = "d" + cancel
			}
		}
		out = append(out, fmt.Sprintf("chosen %s %d %d %d %d %d %s %d %d %s", pc.kind, pc.preload, limit, passes, n, r.Range(1, 3), cancel,
			r.Intn(a08.EOFLayouts), r.Intn(a08.FsKinds), strings.Join(t, ",")))
	}
	return out
}

// sizedLine renders a `sized` case: entry i of the file is padded so that its longest line is target[i]
// bytes long (0 = the natural size); the real sizes go into the line for the model.
func sizedLine(kind string, preload, limit, passes, n, cons int, cancel string, eof, fs, maxsz int, target []int) string {
	es := a08.DefaultEntries(n)
	for i := range es {
		if target[i] <= 0 {
			continue
		}
		es[i].Pad = 1
		base := a08.EntrySizes(kind, es[i:i+1])[0] - 1 // size with a pad of p bytes = base + p
		es[i].Pad = target[i] - base
		if es[i].Pad < 1 {
			es[i].Pad = 0
		}
	}
	sizes := a08.EntrySizes(kind, es)
	ps, ss := make([]string, n), make([]string, n)
	for i := range es {
		ps[i], ss[i] = strconv.Itoa(es[i].Pad), strconv.Itoa(sizes[i])
	}
	return fmt.Sprintf("sized %s %d %d %d %d %d %s %d %d %d %s %s", kind, preload, limit, passes, n, cons, cancel, eof, fs, maxsz,
		strings.Join(ps, ","), strings.Join(ss, ","))
}

// bufio.MaxScanTokenSize: the token limit of a line scanner that was not given a buffer
const defaultToken = 64 * 1024

// genSized: the SIZE of the entries and the `maxammosize` option as dimensions of a cell. Sizes are
// chosen around the limits readers have: bufio's 4096-byte buffer, bufio.Scanner's 64 KiB default token
// limit, the configured limit (one below = the largest entry the configuration accepts; at = the
// smallest it refuses, grpc/json only: the other kinds have no limit that follows the configuration, and
// a uri line stays below the 64 KiB a uri file may hold). The bounds always need the file to be
// re-read or re-cycled (end of the first pass crossed), the large entry moves over the positions.
func genSized(r *vh.Rand, tier string) []string {
	var out []string
	lps := [][2]int{{0, 2}, {5, 0}, {4, 3}, {3, 4}}
	no := 0
	for _, pc := range provCfgs() {
		maxs := []int{0, 300, 100000}
		if pc.kind == "grpcjson" {
			maxs = []int{0, 300, 5000, 100000, 1 << 20}
		}
		if pc.kind == "decode" {
			maxs = []int{0} // no such option
		}
		for _, mx := range maxs {
			cap := mx
			if cap == 0 {
				cap = defaultToken
			}
			var classes []int
			switch pc.kind {
			case "grpcjson":
				classes = []int{cap - 1, cap / 2, cap, cap + 100}
				if cap > defaultToken {
					classes = append(classes, defaultToken, 70000)
				}
			case "uri":
				classes = []int{200, 5000, defaultToken - 10}
			default:
				classes = []int{200, 5000, 70000}
			}
			for ci, sz := range classes {
				if tier != "thorough" && pc.kind != "grpcjson" && (ci+no)%2 == 1 {
					no++
					continue // quick: half of the classes per configuration, rotating
				}
				for li, lp := range lps {
					if tier != "thorough" && (li+ci+no)%2 == 1 {
						continue
					}
					n := 2 + (no+li)%2
					target := make([]int, n)
					target[(no+ci+li)%n] = sz
					out = append(out, sizedLine(pc.kind, pc.preload, lp[0], lp[1], n, 1+2*((no+li)%2), "-", (no+li)%2, (no/2+li)%a08.FsKinds, mx, target))
				}
				no++
			}
		}
	}
	extra := 60
	if tier == "thorough" {
		extra = 1200
	}
	pcs := provCfgs()
	for i := 0; i < extra; i++ {
		pc := pcs[r.Intn(len(pcs))]
		if r.Chance(1, 3) {
			pc = provCfg{"grpcjson", 0}
		}
		n := r.Range(1, 5)
		mx := r.PickInt([]int{0, 0, 300, 4096, 5000, 70000, 100000, 1 << 20})
		if pc.kind == "decode" {
			mx = 0
		}
		cap := mx
		if cap == 0 {
			cap = defaultToken
		}
		target := make([]int, n)
		for j := range target {
			switch {
			case r.Chance(1, 2): // natural size
			case pc.kind == "grpcjson":
				target[j] = r.PickInt([]int{cap - 1, cap - 1, cap / 2, 200, 4096, cap, cap + 1})
				if cap > defaultToken && r.Chance(1, 2) {
					target[j] = r.PickInt([]int{defaultToken - 1, defaultToken, 70000})
				}
			case pc.kind == "uri":
				target[j] = r.PickInt([]int{200, 4095, 4096, 5000, defaultToken - 10})
			default:
				target[j] = r.PickInt([]int{200, 4095, 4096, 5000, defaultToken, 70000})
			}
		}
		limit := r.PickInt([]int{0, 0, 1, 2, 4, 7, 10})
		passes := r.PickInt([]int{0, 2, 2, 3, 4})
		cancel := "-"
		if (limit == 0 && passes == 0) || r.Chance(1, 5) {
			cancel = strconv.Itoa(r.Range(0, 3*n+2))
		}
		out = append(out, sizedLine(pc.kind, pc.preload, limit, passes, n, r.Range(1, 3), cancel, r.Intn(2), r.Intn(a08.FsKinds), mx, target))
	}
	return out
}

func main() {
	if len(os.Args) > 1 && os.Args[1] == "worker" {
		a08.WorkerMain(runCell)
		return
	}
	vh.Main(gen, a08.RunAllScratch)
}
