package main

// fact cases: the profile obtained the way a user gets it - the `rps` section of a pool (single profile or
// the list form) together with `rps-per-instance: true`, decoded by the real core/config + plugin registry
// (coreimport.Import) into the real engine.InstancePoolConfig; its NewRPSSchedule factory is called once per
// instance (what the engine does with rps-per-instance), K >= 2 products of ONE factory.
//
//	fact <K> <a|s|r> <const|line|step|once|list case>
//	        a  all K products are made first, then drained alternately (one Next each in turn)
//	        s  product after product: made, started and drained before the next one is made
//	        r  all K products are made first, then drained one after the other in REVERSE order
//
// Product j is started at t0 + j hours. Observation: K sequential observations (see main.go), one per
// product, separated by " | "; a product whose construction / Start / Next / Left panics is "panic", a factory
// call that fails is "factory-error". Every product must realise the configured profile on its own.

import (
	"fmt"
	"strconv"
	"strings"
	"sync"
	"time"

	"github.com/spf13/afero"
	"github.com/yandex/pandora/core"
	"github.com/yandex/pandora/core/config"
	"github.com/yandex/pandora/core/engine"
	coreimport "github.com/yandex/pandora/core/import"

	"verifharness/internal/vh"
)

var importOnce sync.Once

// confOfPart renders one profile as the generic value a configuration file decodes to.
func confOfPart(f []string) (interface{}, bool) {
	num := func(s string) int64 { v, _ := strconv.ParseInt(s, 10, 64); return v }
	dur := func(s string) string { return s + "ns" }
	switch f[0] {
	case "const":
		if len(f) != 4 {
			return nil, false
		}
		return map[string]interface{}{"type": "const", "ops": float64(num(f[1])) / float64(num(f[2])), "duration": dur(f[3])}, true
	case "line":
		if len(f) != 5 {
			return nil, false
		}
		m := float64(num(f[3]))
		return map[string]interface{}{"type": "line", "from": float64(num(f[1])) / m, "to": float64(num(f[2])) / m, "duration": dur(f[4])}, true
	case "step":
		if len(f) != 6 {
			return nil, false
		}
		m := float64(num(f[3]))
		return map[string]interface{}{"type": "step", "from": float64(num(f[1])) / m, "to": float64(num(f[2])) / m, "step": num(f[4]), "duration": dur(f[5])}, true
	case "once":
		if len(f) != 2 {
			return nil, false
		}
		return map[string]interface{}{"type": "once", "times": num(f[1])}, true
	}
	return nil, false
}

func confOf(f []string) (interface{}, bool) {
	if f[0] != "list" {
		return confOfPart(f)
	}
	if len(f) < 2 {
		return nil, false
	}
	k, err := strconv.Atoi(f[1])
	if err != nil || k < 0 {
		return nil, false
	}
	f = f[2:]
	l := []interface{}{}
	for i := 0; i < k; i++ {
		if len(f) == 0 {
			return nil, false
		}
		a, ok := arity[f[0]]
		if !ok || len(f) < a {
			return nil, false
		}
		p, ok := confOfPart(f[:a])
		if !ok {
			return nil, false
		}
		l = append(l, p)
		f = f[a:]
	}
	return l, len(f) == 0
}

// one product of the factory while it is drained
type product struct {
	s     core.Schedule
	t0    time.Time
	left  int
	toks  []string
	fin   time.Time
	done  bool
	state string // "" | panic | factory-error | toomany
}

func (p *product) guard(what func()) {
	defer func() {
		if r := recover(); r != nil {
			p.state = "panic"
			p.done = true
		}
	}()
	what()
}

func (p *product) begin() {
	p.guard(func() {
		p.left = p.s.Left()
		p.s.Start(p.t0)
	})
}

// one Next; true once the product is exhausted (or dead)
func (p *product) step() bool {
	if p.done {
		return true
	}
	p.guard(func() {
		tx, ok := p.s.Next()
		if !ok {
			p.fin = tx
			p.done = true
			return
		}
		p.toks = append(p.toks, strconv.FormatInt(int64(tx.Sub(p.t0)), 10))
		if len(p.toks) > maxDrain {
			p.state = "toomany"
			p.done = true
		}
	})
	return p.done
}

func (p *product) obs() string {
	if p.state != "" {
		return p.state
	}
	post := "1"
	p.guard(func() {
		if p.s.Left() != 0 {
			post = "left"
		}
		for i := 0; i < 3; i++ {
			tx, ok := p.s.Next()
			if ok || !tx.Equal(p.fin) {
				post = "next"
			}
		}
	})
	if p.state != "" {
		return p.state
	}
	ts := "-"
	if len(p.toks) > 0 {
		ts = strings.Join(p.toks, ",")
	}
	return fmt.Sprintf("%d %d %s %d %s", p.left, int64(p.fin.Sub(p.t0)), post, len(p.toks), ts)
}

func runFact(c string) string {
	f := strings.Split(c, " ")
	if len(f) < 4 {
		return "unknown-case"
	}
	k, err := strconv.Atoi(f[1])
	mode := f[2]
	if err != nil || k < 1 || k > 64 || (mode != "a" && mode != "s" && mode != "r") {
		return "unknown-case"
	}
	rps, ok := confOf(f[3:])
	if !ok {
		return "unknown-case"
	}
	importOnce.Do(func() { coreimport.Import(afero.NewMemMapFs()) })
	var pool engine.InstancePoolConfig
	if err := config.Decode(map[string]interface{}{"rps-per-instance": true, "rps": rps}, &pool); err != nil {
		return "decode-error"
	}
	if !pool.RPSPerInstance || pool.NewRPSSchedule == nil {
		return "decode-error"
	}
	base := time.Unix(1700000000, 0)
	ps := make([]*product, k)
	make1 := func(j int) {
		p := &product{t0: base.Add(time.Duration(j) * time.Hour)}
		ps[j] = p
		p.guard(func() {
			s, err := pool.NewRPSSchedule() // the engine: once per instance
			if err != nil {
				p.state, p.done = "factory-error", true
				return
			}
			p.s = s
		})
	}
	switch mode {
	case "s":
		for j := 0; j < k; j++ {
			make1(j)
			if !ps[j].done {
				ps[j].begin()
			}
			for !ps[j].step() {
			}
		}
	case "r":
		for j := 0; j < k; j++ {
			make1(j)
		}
		for j := k - 1; j >= 0; j-- {
			if !ps[j].done {
				ps[j].begin()
			}
			for !ps[j].step() {
			}
		}
	default:
		for j := 0; j < k; j++ {
			make1(j)
		}
		for j := 0; j < k; j++ {
			if !ps[j].done {
				ps[j].begin()
			}
		}
		for live := true; live; {
			live = false
			for j := 0; j < k; j++ {
				if !ps[j].step() {
					live = true
				}
			}
		}
	}
	out := make([]string, k)
	for j, p := range ps {
		out[j] = p.obs()
	}
	return strings.Join(out, " | ")
}

// a part a configuration can say: once needs times >= 1, rates >= 0, durations >= 1 ms (all generated parts obey)
func genFact(r *vh.Rand, tier string) []string {
	n := 60
	cap := 300.0
	if tier == "thorough" {
		n = 600
		cap = 800.0
	}
	var out []string
	modes := []string{"a", "s", "r"}
	// fixed: the usual shapes
	for i, in := range []string{
		"list 3 once 2 const 2 1 1500000000 line 2 4 1 1000000000",
		"list 2 const 10 1 1000000000 line 10 0 1 2000000000",
		"list 2 step 1 3 1 1 1000000000 once 3",
		"list 1 once 5", "list 0",
		"const 7 2 1500000000", "line 0 20 1 1500000000", "step 1 5 1 2 500000000", "once 4",
	} {
		out = append(out, fmt.Sprintf("fact %d %s %s", 2+i%3, modes[i%3], in))
		out = append(out, fmt.Sprintf("fact %d %s %s", 2+(i+1)%3, modes[(i+1)%3], in))
	}
	for i := 0; i < n; i++ {
		k := r.Range(2, 5)
		mode := modes[r.Intn(3)]
		var in string
		if r.Chance(3, 4) {
			var parts []string
			for m := r.Range(1, 4); m > 0; m-- {
				if r.Chance(1, 4) {
					parts = append(parts, genSmallPart(r, 3))
				} else {
					parts = append(parts, genPart(r, cap/4))
				}
			}
			in = listCase(parts)
		} else {
			in = genPart(r, cap)
		}
		out = append(out, fmt.Sprintf("fact %d %s %s", k, mode, in))
	}
	return out
}
