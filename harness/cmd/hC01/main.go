// hC01: correspondence harness for property C01 (RPS schedules realise the load profile).
//
// Case kinds (fields separated by one blank; rates are rationals num/M in requests per second,
// durations in ns):
//
//	const <on> <M> <D>            schedule.NewConstConf{Ops: on/M, Duration: D}
//	line  <fn> <tn> <M> <D>       schedule.NewLineConf{From: fn/M, To: tn/M, Duration: D}
//	step  <fn> <tn> <M> <st> <D>  schedule.NewStepConf{From, To, Step: st, Duration: D}
//	once  <n>                     schedule.NewOnceConf{Times: n}
//	conc  <G> <rounds> <one of the four kinds above>
//	                              the sequential observation of the inner case, then, `rounds` times:
//	                              a fresh schedule that nobody Start()s (the engine never does: the
//	                              shared rps schedule starts itself inside the first Next) is drained by
//	                              G goroutines released together by a spinning barrier
//
// Observation: "<Left() before start> <finish offset> <post> <n> <t0,t1,...|->" where the
// t_k are the offsets (ns) from the Start instant of the tokens returned with ok=true, the
// finish offset is the instant returned with the first ok=false, and post=1 iff Left() is 0
// once exhausted ("left" otherwise) and three more Next calls return the same instant with
// ok=false ("next" otherwise).
//
// conc appends four 0/1 flags (1 = held in every round) and a detail field ("-" when all hold):
//
//	same  the multiset of token instants of the round, taken relative to ONE start instant
//	      s := reported finish - sequential finish offset, equals the sequential token offsets
//	      (every goroutine saw the same start; nothing lost, duplicated or shifted)
//	fin   every goroutine got the same finish instant with its first ok=false, and Left() is 0
//	lo    s and every token instant are not before the instant read just before the barrier release
//	hi    s is not after the earliest instant read by a goroutine right after its first Next returned
//	      (the start instant is taken inside the first Next)
package main

import (
	"fmt"
	"math"
	"runtime"
	"sort"
	"strconv"
	"strings"
	"sync"
	"sync/atomic"
	"time"

	"github.com/yandex/pandora/core"
	"github.com/yandex/pandora/core/schedule"

	"verifharness/internal/vh"
)

const maxDrain = 3000000

func build(f []string) (core.Schedule, bool) {
	num := func(s string) int64 { v, _ := strconv.ParseInt(s, 10, 64); return v }
	switch f[0] {
	case "const":
		if len(f) != 4 {
			return nil, false
		}
		m := float64(num(f[2]))
		return schedule.NewConstConf(schedule.ConstConfig{Ops: float64(num(f[1])) / m, Duration: time.Duration(num(f[3]))}), true
	case "line":
		if len(f) != 5 {
			return nil, false
		}
		m := float64(num(f[3]))
		return schedule.NewLineConf(schedule.LineConfig{From: float64(num(f[1])) / m, To: float64(num(f[2])) / m, Duration: time.Duration(num(f[4]))}), true
	case "step":
		if len(f) != 6 {
			return nil, false
		}
		m := float64(num(f[3]))
		return schedule.NewStepConf(schedule.StepConfig{From: float64(num(f[1])) / m, To: float64(num(f[2])) / m, Step: num(f[4]), Duration: time.Duration(num(f[5]))}), true
	case "once":
		if len(f) != 2 {
			return nil, false
		}
		return schedule.NewOnceConf(schedule.OnceConfig{Times: num(f[1])}), true
	}
	return nil, false
}

func runCase(c string) (res string) {
	defer func() {
		if r := recover(); r != nil {
			res = "panic"
		}
	}()
	if strings.HasPrefix(c, "conc ") {
		return runConc(c)
	}
	s, ok := build(strings.Split(c, " "))
	if !ok {
		return "unknown-case"
	}
	left := s.Left()
	t0 := time.Unix(1700000000, 0)
	s.Start(t0)
	var toks []string
	var fin time.Time
	for {
		tx, ok := s.Next()
		if !ok {
			fin = tx
			break
		}
		toks = append(toks, strconv.FormatInt(int64(tx.Sub(t0)), 10))
		if len(toks) > maxDrain {
			return "toomany"
		}
	}
	post := "1"
	if s.Left() != 0 {
		post = "left" // Left() of an exhausted schedule is not 0
	}
	for i := 0; i < 3; i++ {
		tx, ok := s.Next()
		if ok || !tx.Equal(fin) {
			post = "next" // an exhausted schedule hands out a token or another finish instant
		}
	}
	ts := "-"
	if len(toks) > 0 {
		ts = strings.Join(toks, ",")
	}
	return fmt.Sprintf("%d %d %s %d %s", left, int64(fin.Sub(t0)), post, len(toks), ts)
}

// runConc: see the package comment.
func runConc(c string) string {
	f := strings.Split(c, " ")
	if len(f) < 4 {
		return "unknown-case"
	}
	g, _ := strconv.Atoi(f[1])
	rounds, _ := strconv.Atoi(f[2])
	inner := strings.Join(f[3:], " ")
	seq := runCase(inner)
	sf := strings.Split(seq, " ")
	if len(sf) != 5 || g < 1 {
		return seq
	}
	seqFin, _ := strconv.ParseInt(sf[1], 10, 64)
	var seqToks []int64
	if sf[4] != "-" {
		for _, t := range strings.Split(sf[4], ",") {
			v, _ := strconv.ParseInt(t, 10, 64)
			seqToks = append(seqToks, v)
		}
	}
	sort.Slice(seqToks, func(i, j int) bool { return seqToks[i] < seqToks[j] })
	if mp := runtime.GOMAXPROCS(0) - 1; g > mp && mp >= 1 {
		g = mp
	}
	same, finOK, lo, hi := true, true, true, true
	detail := "-"
	note := func(flag *bool, round int, what string) {
		*flag = false
		if detail == "-" {
			detail = fmt.Sprintf("round=%d:%s", round, strings.ReplaceAll(what, " ", "_"))
		}
	}
	type result struct {
		toks       []time.Time
		fin        time.Time
		afterFirst time.Time
		panicked   bool
	}
	for round := 0; round < rounds; round++ {
		s, ok := build(strings.Split(inner, " "))
		if !ok {
			return "unknown-case"
		}
		var (
			wg      sync.WaitGroup
			ready   atomic.Int32
			release atomic.Bool
		)
		res := make([]result, g)
		for w := 0; w < g; w++ {
			wg.Add(1)
			go func(w int) {
				defer wg.Done()
				defer func() {
					if r := recover(); r != nil {
						res[w].panicked = true
					}
				}()
				ready.Add(1)
				for !release.Load() { // spin: all goroutines make their FIRST Next at the same moment
				}
				first := true
				for {
					tx, ok := s.Next()
					if first {
						res[w].afterFirst = time.Now()
						first = false
					}
					if !ok {
						res[w].fin = tx
						return
					}
					res[w].toks = append(res[w].toks, tx)
					if len(res[w].toks) > maxDrain {
						return
					}
				}
			}(w)
		}
		for int(ready.Load()) != g {
			runtime.Gosched()
		}
		before := time.Now() // the schedule cannot start earlier than this
		release.Store(true)
		wg.Wait()
		fin := res[0].fin
		firstReturn := res[0].afterFirst
		var all []time.Time
		for w := range res {
			if res[w].panicked {
				return "panic"
			}
			if !res[w].fin.Equal(fin) {
				note(&finOK, round, fmt.Sprintf("goroutines report finish instants %v apart", res[w].fin.Sub(fin)))
			}
			if res[w].afterFirst.Before(firstReturn) {
				firstReturn = res[w].afterFirst
			}
			all = append(all, res[w].toks...)
		}
		if s.Left() != 0 {
			note(&finOK, round, "Left() of the drained schedule is not 0")
		}
		start := fin.Add(-time.Duration(seqFin)) // the one start instant all answers must share
		if start.Before(before) {
			note(&lo, round, fmt.Sprintf("start instant %v before the barrier release", before.Sub(start)))
		}
		if start.After(firstReturn) {
			note(&hi, round, fmt.Sprintf("start instant %v after the first Next returned", start.Sub(firstReturn)))
		}
		offs := make([]int64, len(all))
		for i, t := range all {
			if t.Before(before) {
				note(&lo, round, fmt.Sprintf("an operation is scheduled %v before the schedule could have started", before.Sub(t)))
			}
			offs[i] = int64(t.Sub(start))
		}
		sort.Slice(offs, func(i, j int) bool { return offs[i] < offs[j] })
		if len(offs) != len(seqToks) {
			note(&same, round, fmt.Sprintf("%d tokens handed out, %d when drained by one goroutine", len(offs), len(seqToks)))
		} else {
			for i := range offs {
				if offs[i] != seqToks[i] {
					note(&same, round, fmt.Sprintf("token at offset %d from the common start, sequential drain has %d", offs[i], seqToks[i]))
					break
				}
			}
		}
	}
	return fmt.Sprintf("%s %s %s %s %s %s", seq, vh.B(same), vh.B(finOK), vh.B(lo), vh.B(hi), detail)
}

// ---- generator ---------------------------------------------------------------------

var wholeSec = []int64{1e9, 2e9, 3e9, 5e9, 10e9, 60e9, 300e9, 3600e9}
var subSec = []int64{1e6, 2e6, 7e6, 50e6, 250e6, 333e6, 500e6, 999e6, 999999999}
var fracSec = []int64{1500e6, 2250e6, 7001e6, 1000000001, 1999999999, 10500e6, 61700e6, 1009e6, 7919e6, 104729e6}
var dens = []int64{1, 1, 1, 2, 4, 8, 10, 10, 100, 1000, 3, 7}

func pickDur(r *vh.Rand) int64 {
	switch r.Intn(10) {
	case 0, 1, 2:
		return wholeSec[r.Intn(len(wholeSec))]
	case 3, 4, 5:
		return subSec[r.Intn(len(subSec))]
	case 6, 7, 8:
		return fracSec[r.Intn(len(fracSec))]
	}
	// anything between 1 ms and ~20 s
	return int64(1e6) + int64(r.U64()%uint64(20e9))
}

// a rate numerator (over M) such that rate*seconds stays below cap tokens
func pickRate(r *vh.Rand, m int64, secs float64, cap float64) int64 {
	maxRate := cap / secs // rps
	if maxRate > 2e5 {
		maxRate = 2e5
	}
	maxNum := int64(maxRate * float64(m))
	if maxNum < 1 {
		maxNum = 1
	}
	switch r.Intn(8) {
	case 0:
		return 0
	case 1:
		return 1
	case 2:
		return maxNum
	case 3:
		return int64(r.U64()%uint64(maxNum)) + 1
	}
	// log-uniform
	e := r.Intn(int(math.Log2(float64(maxNum))) + 1)
	lo := int64(1) << uint(e)
	return lo + int64(r.U64()%uint64(lo))
}

func gen(r *vh.Rand, tier string) []string {
	n := 420
	cap := 1500.0
	if tier == "thorough" {
		n = 4000
		cap = 3000.0
	}
	var out []string
	// fixed boundary grid (every tier)
	for _, d := range []int64{1e6, 500e6, 1e9, 1500e6, 2250e6, 10e9} {
		for _, ft := range [][2]int64{{0, 10}, {10, 0}, {1, 10}, {10, 1}, {5, 5}, {0, 0}, {3, 40}, {40, 3}, {0, 1}, {1, 0}} {
			out = append(out, fmt.Sprintf("line %d %d 1 %d", ft[0], ft[1], d))
			out = append(out, fmt.Sprintf("line %d %d 10 %d", ft[0]*7, ft[1]*7, d*3))
		}
		for _, o := range []int64{0, 1, 3, 10, 1000} {
			out = append(out, fmt.Sprintf("const %d 1 %d", o, d))
			out = append(out, fmt.Sprintf("const %d 10 %d", o*3, d))
		}
		out = append(out, fmt.Sprintf("step 1 5 1 1 %d", d), fmt.Sprintf("step 0 7 1 3 %d", d), fmt.Sprintf("step 5 1 1 1 %d", d),
			fmt.Sprintf("step 4 4 1 2 %d", d), fmt.Sprintf("step 5 21 2 2 %d", d), fmt.Sprintf("step 1 80 8 3 %d", d))
	}
	for _, k := range []int64{1, 2, 3, 10, 133, 1000, 10000} {
		out = append(out, fmt.Sprintf("once %d", k))
	}
	// concurrent first Next on a schedule nobody started (small profiles, many rounds)
	rounds := 250
	if tier == "thorough" {
		rounds = 2500
	}
	for _, in := range []string{"const 1000 1 1000000000", "const 37 10 2500000000", "line 0 400 1 500000000", "line 300 20 1 1500000000",
		"line 7 7 1 3000000000", "once 64", "once 5", "step 100 300 1 100 250000000", "step 0 40 1 20 1500000000", "const 0 1 1000000"} {
		out = append(out, fmt.Sprintf("conc %d %d %s", []int{2, 4, 8}[r.Intn(3)], rounds, in))
	}
	for i := 0; i < n/60; i++ {
		d := pickDur(r)
		secs := float64(d) / 1e9
		g := []int{2, 3, 4, 6, 8}[r.Intn(5)]
		switch r.Intn(4) {
		case 0:
			out = append(out, fmt.Sprintf("conc %d %d const %d 1 %d", g, rounds, pickRate(r, 1, secs, 200), d))
		case 1:
			out = append(out, fmt.Sprintf("conc %d %d line %d %d 1 %d", g, rounds, pickRate(r, 1, secs, 200), pickRate(r, 1, secs, 200), d))
		case 2:
			f := pickRate(r, 1, secs, 40)
			out = append(out, fmt.Sprintf("conc %d %d step %d %d 1 %d %d", g, rounds, f, f+int64(r.Range(0, 3))*2, 2, d))
		case 3:
			out = append(out, fmt.Sprintf("conc %d %d once %d", g, rounds, r.Range(1, 300)))
		}
	}
	for i := 0; i < n; i++ {
		d := pickDur(r)
		secs := float64(d) / 1e9
		m := dens[r.Intn(len(dens))]
		switch r.Intn(10) {
		case 0, 1:
			out = append(out, fmt.Sprintf("const %d %d %d", pickRate(r, m, secs, cap), m, d))
		case 2, 3, 4, 5, 6:
			f := pickRate(r, m, secs, cap)
			t := pickRate(r, m, secs, cap)
			switch r.Intn(8) {
			case 0:
				t = 0
			case 1:
				f = 0
			case 2:
				t = f // flat
			case 3:
				t = f + 1 // nearly flat
			case 4:
				f = t + 1
			}
			out = append(out, fmt.Sprintf("line %d %d %d %d", f, t, m, d))
		case 7, 8:
			// step rates are multiples of 1/8 so that the float loop `i += step` is exact
			m8 := []int64{1, 2, 4, 8}[r.Intn(4)]
			st := int64(r.Range(1, 5))
			levels := int64(r.Range(0, 6))
			perLevel := cap / float64(levels+1)
			f := pickRate(r, m8, secs, perLevel/2)
			span := levels*st*m8 + int64(r.Intn(int(st*m8)))
			t := f + span
			if float64(t)/float64(m8)*secs > perLevel*2 {
				t = f + int64(r.Intn(int(st*m8)))
			}
			if r.Chance(1, 10) {
				f, t = t+1, f // from > to: empty
			}
			out = append(out, fmt.Sprintf("step %d %d %d %d %d", f, t, m8, st, d))
		case 9:
			out = append(out, fmt.Sprintf("once %d", r.Range(1, int(cap))))
		}
	}
	return out
}

func main() {
	vh.Main(gen, func(cases []string) []string {
		out := make([]string, len(cases))
		for i, c := range cases {
			out[i] = runCase(c)
		}
		return out
	})
}
