// hC01: correspondence harness for property C01 (RPS schedules realise the load profile).
//
// Case kinds (fields separated by one blank; rates are rationals num/M in requests per second,
// durations in ns):
//
//	const <on> <M> <D>            schedule.NewConstConf{Ops: on/M, Duration: D}
//	line  <fn> <tn> <M> <D>       schedule.NewLineConf{From: fn/M, To: tn/M, Duration: D}
//	step  <fn> <tn> <M> <st> <D>  schedule.NewStepConf{From, To, Step: st, Duration: D}
//	once  <n>                     schedule.NewOnceConf{Times: n}
//	list  <k> <part> ... <part>   a list profile (`rps: [ {...}, {...} ]`): k parts, each one of the four kinds
//	                              above written with its fields; built as the configuration hook does:
//	                              schedule.NewCompositeConf{Nested: parts}
//	fact  <K> <a|s|r> <one of the five kinds above>
//	                              K products of the pool's rps FACTORY decoded from a configuration with
//	                              rps-per-instance (see fact.go), each judged as the inner case on its own
//	conc  <G> <rounds> [meet] <one of the five kinds above>
//	                              the sequential observation of the inner case, then, `rounds` times:
//	                              a fresh schedule that nobody Start()s (the engine never does: the
//	                              shared rps schedule starts itself inside the first Next) is drained by
//	                              G goroutines released together by a spinning barrier.
//	                              `meet` (list profiles only): the first G calls of Next on the FIRST part
//	                              wait for each other before they go on into the real part (an ordinary
//	                              interleaving of G instances, made reproducible: when the first part is a
//	                              pause all G consumers learn at the same time that it is over and hand the
//	                              list over to the following parts together)
//
// Observation: "<Left() before start> <finish offset> <post> <n> <t0,t1,...|->" where the
// t_k are the offsets (ns) from the Start instant of the tokens returned with ok=true, the
// finish offset is the instant returned with the first ok=false, and post=1 iff Left() is 0
// once exhausted ("left" otherwise) and three more Next calls return the same instant with
// ok=false ("next" otherwise).
//
// conc appends five 0/1 flags (1 = held in every round) and a detail field ("-" when all hold):
//
//	same  the multiset of token instants of the round, taken relative to ONE start instant
//	      s := reported finish - sequential finish offset, equals the sequential token offsets
//	      (every goroutine saw the same start; nothing lost, duplicated or shifted)
//	fin   every goroutine got the same finish instant with its first ok=false, and Left() is 0
//	lo    s and every token instant are not before the instant read just before the barrier release
//	hi    s is not after the earliest instant read by a goroutine right after its first Next returned
//	      (the start instant is taken inside the first Next)
//	exh   a goroutine that is told "exhausted" (ok=false) is told so at the profile's finish instant
//	      s + finish offset, Left() read right after is 0, and its next two calls of Next answer the
//	      same instant with ok=false (an exhausted profile stays exhausted; nothing is left behind)
package main

import (
	"fmt"
	"math"
	"runtime"
	"sort"
	"strconv"
	"strings"
	"sync"
	"sync/atomic"
	"time"

	"github.com/yandex/pandora/core"
	"github.com/yandex/pandora/core/schedule"

	"verifharness/internal/vh"
)

const maxDrain = 3000000

var arity = map[string]int{"const": 4, "line": 5, "step": 6, "once": 2}

// parts of a list profile: f = <k> <part> ... <part>
func buildParts(f []string) ([]core.Schedule, bool) {
	if len(f) < 1 {
		return nil, false
	}
	k, err := strconv.Atoi(f[0])
	if err != nil || k < 0 {
		return nil, false
	}
	f = f[1:]
	var parts []core.Schedule
	for i := 0; i < k; i++ {
		if len(f) == 0 {
			return nil, false
		}
		a, ok := arity[f[0]]
		if !ok || len(f) < a {
			return nil, false
		}
		p, ok := build(f[:a])
		if !ok {
			return nil, false
		}
		parts = append(parts, p)
		f = f[a:]
	}
	return parts, len(f) == 0
}

func build(f []string) (core.Schedule, bool) {
	num := func(s string) int64 { v, _ := strconv.ParseInt(s, 10, 64); return v }
	switch f[0] {
	case "list":
		parts, ok := buildParts(f[1:])
		if !ok {
			return nil, false
		}
		return schedule.NewCompositeConf(schedule.CompositeConf{Nested: parts}), true
	case "const":
		if len(f) != 4 {
			return nil, false
		}
		m := float64(num(f[2]))
		return schedule.NewConstConf(schedule.ConstConfig{Ops: float64(num(f[1])) / m, Duration: time.Duration(num(f[3]))}), true
	case "line":
		if len(f) != 5 {
			return nil, false
		}
		m := float64(num(f[3]))
		return schedule.NewLineConf(schedule.LineConfig{From: float64(num(f[1])) / m, To: float64(num(f[2])) / m, Duration: time.Duration(num(f[4]))}), true
	case "step":
		if len(f) != 6 {
			return nil, false
		}
		m := float64(num(f[3]))
		return schedule.NewStepConf(schedule.StepConfig{From: float64(num(f[1])) / m, To: float64(num(f[2])) / m, Step: num(f[4]), Duration: time.Duration(num(f[5]))}), true
	case "once":
		if len(f) != 2 {
			return nil, false
		}
		return schedule.NewOnceConf(schedule.OnceConfig{Times: num(f[1])}), true
	}
	return nil, false
}

func runCase(c string) (res string) {
	defer func() {
		if r := recover(); r != nil {
			res = "panic"
		}
	}()
	if strings.HasPrefix(c, "conc ") {
		return runConc(c)
	}
	if strings.HasPrefix(c, "fact ") {
		return runFact(c)
	}
	s, ok := build(strings.Split(c, " "))
	if !ok {
		return "unknown-case"
	}
	left := s.Left()
	t0 := time.Unix(1700000000, 0)
	s.Start(t0)
	var toks []string
	var fin time.Time
	for {
		tx, ok := s.Next()
		if !ok {
			fin = tx
			break
		}
		toks = append(toks, strconv.FormatInt(int64(tx.Sub(t0)), 10))
		if len(toks) > maxDrain {
			return "toomany"
		}
	}
	post := "1"
	if s.Left() != 0 {
		post = "left" // Left() of an exhausted schedule is not 0
	}
	for i := 0; i < 3; i++ {
		tx, ok := s.Next()
		if ok || !tx.Equal(fin) {
			post = "next" // an exhausted schedule hands out a token or another finish instant
		}
	}
	ts := "-"
	if len(toks) > 0 {
		ts = strings.Join(toks, ",")
	}
	return fmt.Sprintf("%d %d %s %d %s", left, int64(fin.Sub(t0)), post, len(toks), ts)
}

// meetFirst is a real part of a list profile; the only addition is that the first g calls of Next
// wait for each other (bounded) before going on into the real part.
type meetFirst struct {
	core.Schedule
	g       int32
	arrived atomic.Int32
	all     chan struct{}
}

func (m *meetFirst) Next() (time.Time, bool) {
	n := m.arrived.Add(1)
	if n == m.g {
		close(m.all)
	}
	if n <= m.g {
		select {
		case <-m.all:
		case <-time.After(2 * time.Second):
		}
	}
	return m.Schedule.Next()
}

func buildShared(inner []string, meet bool, g int) (core.Schedule, bool) {
	if !meet {
		return build(inner)
	}
	if inner[0] != "list" {
		return nil, false
	}
	parts, ok := buildParts(inner[1:])
	if !ok || len(parts) == 0 {
		return nil, false
	}
	parts[0] = &meetFirst{Schedule: parts[0], g: int32(g), all: make(chan struct{})}
	return schedule.NewCompositeConf(schedule.CompositeConf{Nested: parts}), true
}

// runConc: see the package comment.
func runConc(c string) string {
	f := strings.Split(c, " ")
	if len(f) < 4 {
		return "unknown-case"
	}
	g, _ := strconv.Atoi(f[1])
	rounds, _ := strconv.Atoi(f[2])
	innerF := f[3:]
	meet := false
	if innerF[0] == "meet" {
		meet = true
		innerF = innerF[1:]
		if len(innerF) == 0 {
			return "unknown-case"
		}
	}
	inner := strings.Join(innerF, " ")
	seq := runCase(inner)
	sf := strings.Split(seq, " ")
	if len(sf) != 5 || g < 1 {
		return seq
	}
	seqFin, _ := strconv.ParseInt(sf[1], 10, 64)
	var seqToks []int64
	if sf[4] != "-" {
		for _, t := range strings.Split(sf[4], ",") {
			v, _ := strconv.ParseInt(t, 10, 64)
			seqToks = append(seqToks, v)
		}
	}
	sort.Slice(seqToks, func(i, j int) bool { return seqToks[i] < seqToks[j] })
	if mp := runtime.GOMAXPROCS(0) - 1; g > mp && mp >= 1 {
		g = mp
	}
	same, finOK, lo, hi, exh := true, true, true, true, true
	detail := "-"
	note := func(flag *bool, round int, what string) {
		*flag = false
		if detail == "-" {
			detail = fmt.Sprintf("round=%d:%s", round, strings.ReplaceAll(what, " ", "_"))
		}
	}
	type result struct {
		toks       []time.Time
		fin        time.Time
		leftAtFin  int
		again      string // "" or what the two calls after the first ok=false showed
		afterFirst time.Time
		panicked   bool
	}
	for round := 0; round < rounds; round++ {
		s, ok := buildShared(innerF, meet, g)
		if !ok {
			return "unknown-case"
		}
		var (
			wg      sync.WaitGroup
			ready   atomic.Int32
			release atomic.Bool
		)
		res := make([]result, g)
		for w := 0; w < g; w++ {
			wg.Add(1)
			go func(w int) {
				defer wg.Done()
				defer func() {
					if r := recover(); r != nil {
						res[w].panicked = true
					}
				}()
				ready.Add(1)
				for !release.Load() { // spin: all goroutines make their FIRST Next at the same moment
				}
				first := true
				for {
					tx, ok := s.Next()
					if first {
						res[w].afterFirst = time.Now()
						first = false
					}
					if !ok {
						res[w].fin = tx
						res[w].leftAtFin = s.Left()
						for i := 0; i < 2; i++ {
							tx2, ok2 := s.Next()
							if ok2 {
								res[w].again = "an operation is handed out after the profile was reported exhausted"
							} else if !tx2.Equal(tx) && res[w].again == "" {
								res[w].again = fmt.Sprintf("the reported finish instant moved by %v", tx2.Sub(tx))
							}
						}
						return
					}
					res[w].toks = append(res[w].toks, tx)
					if len(res[w].toks) > maxDrain {
						return
					}
				}
			}(w)
		}
		for int(ready.Load()) != g {
			runtime.Gosched()
		}
		before := time.Now() // the schedule cannot start earlier than this
		release.Store(true)
		wg.Wait()
		// the finish instant of the profile: the latest instant reported with ok=false (a later
		// part cannot finish before an earlier one); every other answer is compared with it
		fin := res[0].fin
		firstReturn := res[0].afterFirst
		var all []time.Time
		for w := range res {
			if res[w].panicked {
				return "panic"
			}
			if res[w].fin.After(fin) {
				fin = res[w].fin
			}
			if res[w].afterFirst.Before(firstReturn) {
				firstReturn = res[w].afterFirst
			}
			all = append(all, res[w].toks...)
		}
		for w := range res {
			if !res[w].fin.Equal(fin) {
				note(&exh, round, fmt.Sprintf("a goroutine is told the profile is exhausted %v before the finish instant the others are given, Left() right after = %d",
					fin.Sub(res[w].fin), res[w].leftAtFin))
				note(&finOK, round, fmt.Sprintf("goroutines report finish instants %v apart", fin.Sub(res[w].fin)))
			}
			if res[w].leftAtFin != 0 {
				note(&exh, round, fmt.Sprintf("Left() = %d right after Next reported the profile exhausted", res[w].leftAtFin))
			}
			if res[w].again != "" {
				note(&exh, round, res[w].again)
			}
		}
		if s.Left() != 0 {
			note(&finOK, round, "Left() of the drained schedule is not 0")
		}
		start := fin.Add(-time.Duration(seqFin)) // the one start instant all answers must share
		if start.Before(before) {
			note(&lo, round, fmt.Sprintf("start instant %v before the barrier release", before.Sub(start)))
		}
		if start.After(firstReturn) {
			note(&hi, round, fmt.Sprintf("start instant %v after the first Next returned", start.Sub(firstReturn)))
		}
		offs := make([]int64, len(all))
		for i, t := range all {
			if t.Before(before) {
				note(&lo, round, fmt.Sprintf("an operation is scheduled %v before the schedule could have started", before.Sub(t)))
			}
			offs[i] = int64(t.Sub(start))
		}
		sort.Slice(offs, func(i, j int) bool { return offs[i] < offs[j] })
		if len(offs) != len(seqToks) {
			note(&same, round, fmt.Sprintf("%d tokens handed out, %d when drained by one goroutine", len(offs), len(seqToks)))
		} else {
			for i := range offs {
				if offs[i] != seqToks[i] {
					note(&same, round, fmt.Sprintf("token at offset %d from the common start, sequential drain has %d", offs[i], seqToks[i]))
					break
				}
			}
		}
	}
	return fmt.Sprintf("%s %s %s %s %s %s %s", seq, vh.B(same), vh.B(finOK), vh.B(lo), vh.B(hi), vh.B(exh), detail)
}

// ---- generator ---------------------------------------------------------------------

var wholeSec = []int64{1e9, 2e9, 3e9, 5e9, 10e9, 60e9, 300e9, 3600e9}
var subSec = []int64{1e6, 2e6, 7e6, 50e6, 250e6, 333e6, 500e6, 999e6, 999999999}
var fracSec = []int64{1500e6, 2250e6, 7001e6, 1000000001, 1999999999, 10500e6, 61700e6, 1009e6, 7919e6, 104729e6}
var dens = []int64{1, 1, 1, 2, 4, 8, 10, 10, 100, 1000, 3, 7}

func pickDur(r *vh.Rand) int64 {
	switch r.Intn(10) {
	case 0, 1, 2:
		return wholeSec[r.Intn(len(wholeSec))]
	case 3, 4, 5:
		return subSec[r.Intn(len(subSec))]
	case 6, 7, 8:
		return fracSec[r.Intn(len(fracSec))]
	}
	// anything between 1 ms and ~20 s
	return int64(1e6) + int64(r.U64()%uint64(20e9))
}

// a rate numerator (over M) such that rate*seconds stays below cap tokens
func pickRate(r *vh.Rand, m int64, secs float64, cap float64) int64 {
	maxRate := cap / secs // rps
	if maxRate > 2e5 {
		maxRate = 2e5
	}
	maxNum := int64(maxRate * float64(m))
	if maxNum < 1 {
		maxNum = 1
	}
	switch r.Intn(8) {
	case 0:
		return 0
	case 1:
		return 1
	case 2:
		return maxNum
	case 3:
		return int64(r.U64()%uint64(maxNum)) + 1
	}
	// log-uniform
	e := r.Intn(int(math.Log2(float64(maxNum))) + 1)
	lo := int64(1) << uint(e)
	return lo + int64(r.U64()%uint64(lo))
}

// one part of a list profile holding at most about cap operations
func genPart(r *vh.Rand, cap float64) string {
	d := pickDur(r)
	secs := float64(d) / 1e9
	switch r.Intn(10) {
	case 0, 1:
		return fmt.Sprintf("const %d 1 %d", pickRate(r, 1, secs, cap), d)
	case 2:
		return fmt.Sprintf("const 0 1 %d", d) // a pause
	case 3, 4, 5:
		f, t := pickRate(r, 1, secs, cap), pickRate(r, 1, secs, cap)
		if r.Chance(1, 4) {
			f = 0
		} else if r.Chance(1, 4) {
			t = 0
		}
		return fmt.Sprintf("line %d %d 1 %d", f, t, d)
	case 6, 7:
		if r.Chance(1, 2) {
			return fmt.Sprintf("once %d", r.Range(1, 3))
		}
		return fmt.Sprintf("once %d", r.Range(1, int(cap)))
	}
	f := pickRate(r, 1, secs, cap/4)
	st := int64(r.Range(1, 3))
	return fmt.Sprintf("step %d %d 1 %d %d", f, f+st*int64(r.Range(0, 2))+int64(r.Intn(int(st))), st, d)
}

// a part that holds fewer operations than g consumers (possibly none)
func genSmallPart(r *vh.Rand, g int) string {
	switch r.Intn(6) {
	case 0:
		return fmt.Sprintf("once %d", r.Range(1, g-1))
	case 1:
		return "once 1"
	case 2:
		return []string{"const 1 1 1000000000", "const 3 1 500000000", "const 1 1 1999999999", "const 2 1 750000000"}[r.Intn(4)] // one operation
	case 3:
		return fmt.Sprintf("const 0 1 %d", pickDur(r)) // a pause
	case 4:
		return []string{"line 0 2 1 1000000000", "line 2 0 1 1500000000", "line 1 1 1 1000000000"}[r.Intn(3)] // one operation
	}
	return []string{"step 0 1 1 1 1000000000", "step 1 1 1 1 1500000000", "step 0 2 1 2 500000000"}[r.Intn(3)] // levels with 0 / 1 operations
}

func genPause(r *vh.Rand) string {
	d := pickDur(r)
	switch r.Intn(4) {
	case 0:
		return fmt.Sprintf("line 0 0 1 %d", d)
	case 1:
		return fmt.Sprintf("step 0 0 1 1 %d", d)
	}
	return fmt.Sprintf("const 0 1 %d", d)
}

func listCase(parts []string) string {
	return strings.TrimSpace(fmt.Sprintf("list %d %s", len(parts), strings.Join(parts, " ")))
}

func gen(r *vh.Rand, tier string) []string {
	n := 420
	cap := 1500.0
	if tier == "thorough" {
		n = 4000
		cap = 3000.0
	}
	var out []string
	// fixed boundary grid (every tier)
	for _, d := range []int64{1e6, 500e6, 1e9, 1500e6, 2250e6, 10e9} {
		for _, ft := range [][2]int64{{0, 10}, {10, 0}, {1, 10}, {10, 1}, {5, 5}, {0, 0}, {3, 40}, {40, 3}, {0, 1}, {1, 0}} {
			out = append(out, fmt.Sprintf("line %d %d 1 %d", ft[0], ft[1], d))
			out = append(out, fmt.Sprintf("line %d %d 10 %d", ft[0]*7, ft[1]*7, d*3))
		}
		for _, o := range []int64{0, 1, 3, 10, 1000} {
			out = append(out, fmt.Sprintf("const %d 1 %d", o, d))
			out = append(out, fmt.Sprintf("const %d 10 %d", o*3, d))
		}
		out = append(out, fmt.Sprintf("step 1 5 1 1 %d", d), fmt.Sprintf("step 0 7 1 3 %d", d), fmt.Sprintf("step 5 1 1 1 %d", d),
			fmt.Sprintf("step 4 4 1 2 %d", d), fmt.Sprintf("step 5 21 2 2 %d", d), fmt.Sprintf("step 1 80 8 3 %d", d))
	}
	// NewConst around the validation: a negative rate is clamped to "no load" (const.go: if ops < 0 { ops = 0 })
	out = append(out, "const -1 1 1000000000", "const -7 2 1500000000", "const -1000 1 1000000")
	for _, k := range []int64{1, 2, 3, 10, 133, 1000, 10000} {
		out = append(out, fmt.Sprintf("once %d", k))
	}
	// concurrent first Next on a schedule nobody started (small profiles, many rounds)
	rounds := 250
	if tier == "thorough" {
		rounds = 2500
	}
	for _, in := range []string{"const 1000 1 1000000000", "const 37 10 2500000000", "line 0 400 1 500000000", "line 300 20 1 1500000000",
		"line 7 7 1 3000000000", "once 64", "once 5", "step 100 300 1 100 250000000", "step 0 40 1 20 1500000000", "const 0 1 1000000"} {
		out = append(out, fmt.Sprintf("conc %d %d %s", []int{2, 4, 8}[r.Intn(3)], rounds, in))
	}
	// list profiles (`rps: [...]`) and low step levels shared by G consumers: the hand-over from one part to
	// the next while several consumers see the current part end together, incl. parts that hold fewer
	// operations than there are consumers (pauses, once parts, 1 rps levels)
	for _, in := range []string{"step 0 2 1 1 1000000000", "step 1 3 1 1 1000000000", "step 0 6 1 2 500000000",
		"list 3 const 0 1 1000000000 once 1 const 10 1 1000000000", "list 4 const 20 1 1000000000 once 1 const 0 1 500000000 line 0 20 1 1500000000",
		"list 3 once 2 const 1 1 1000000000 const 1 1 1000000000"} {
		out = append(out, fmt.Sprintf("conc %d %d %s", []int{3, 4, 8}[r.Intn(3)], rounds, in))
		if strings.HasPrefix(in, "list") {
			out = append(out, fmt.Sprintf("conc %d %d meet %s", []int{2, 4, 8}[r.Intn(3)], rounds, in))
		}
	}
	for i := 0; i < n/35; i++ {
		g := []int{2, 3, 4, 6, 8}[r.Intn(5)]
		var parts []string
		meet := ""
		if r.Chance(1, 2) {
			// starts with a pause: every consumer's first Next finds the first part over
			meet = "meet "
			parts = append(parts, genPause(r), genSmallPart(r, g))
		} else {
			parts = append(parts, genPart(r, 40), genSmallPart(r, g))
			if r.Chance(1, 3) {
				meet = "meet "
			}
		}
		for k := r.Intn(3); k > 0; k-- {
			if r.Chance(1, 3) {
				parts = append(parts, genSmallPart(r, g))
			} else {
				parts = append(parts, genPart(r, 40))
			}
		}
		if r.Chance(2, 3) {
			parts = append(parts, genPart(r, 40)) // something is left after the small parts
		}
		out = append(out, fmt.Sprintf("conc %d %d %s%s", g, rounds, meet, listCase(parts)))
	}
	// K products of the pool's rps factory decoded from a configuration (fact.go)
	out = append(out, genFact(r, tier)...)
	// list profiles drained by one consumer (judged part by part against the integral)
	for i := 0; i < n/10; i++ {
		var parts []string
		for k := r.Range(0, 5); k > 0; k-- {
			if r.Chance(1, 4) {
				parts = append(parts, genSmallPart(r, 3))
			} else {
				parts = append(parts, genPart(r, cap/4))
			}
		}
		out = append(out, listCase(parts))
	}
	for i := 0; i < n/60; i++ {
		d := pickDur(r)
		secs := float64(d) / 1e9
		g := []int{2, 3, 4, 6, 8}[r.Intn(5)]
		switch r.Intn(4) {
		case 0:
			out = append(out, fmt.Sprintf("conc %d %d const %d 1 %d", g, rounds, pickRate(r, 1, secs, 200), d))
		case 1:
			out = append(out, fmt.Sprintf("conc %d %d line %d %d 1 %d", g, rounds, pickRate(r, 1, secs, 200), pickRate(r, 1, secs, 200), d))
		case 2:
			f := pickRate(r, 1, secs, 40)
			out = append(out, fmt.Sprintf("conc %d %d step %d %d 1 %d %d", g, rounds, f, f+int64(r.Range(0, 3))*2, 2, d))
		case 3:
			out = append(out, fmt.Sprintf("conc %d %d once %d", g, rounds, r.Range(1, 300)))
		}
	}
	for i := 0; i < n; i++ {
		d := pickDur(r)
		secs := float64(d) / 1e9
		m := dens[r.Intn(len(dens))]
		switch r.Intn(10) {
		case 0, 1:
			out = append(out, fmt.Sprintf("const %d %d %d", pickRate(r, m, secs, cap), m, d))
		case 2, 3, 4, 5, 6:
			f := pickRate(r, m, secs, cap)
			t := pickRate(r, m, secs, cap)
			switch r.Intn(8) {
			case 0:
				t = 0
			case 1:
				f = 0
			case 2:
				t = f // flat
			case 3:
				t = f + 1 // nearly flat
			case 4:
				f = t + 1
			}
			out = append(out, fmt.Sprintf("line %d %d %d %d", f, t, m, d))
		case 7, 8:
			// step rates are multiples of 1/8 so that the float loop `i += step` is exact
			m8 := []int64{1, 2, 4, 8}[r.Intn(4)]
			st := int64(r.Range(1, 5))
			levels := int64(r.Range(0, 6))
			perLevel := cap / float64(levels+1)
			f := pickRate(r, m8, secs, perLevel/2)
			span := levels*st*m8 + int64(r.Intn(int(st*m8)))
			t := f + span
			if float64(t)/float64(m8)*secs > perLevel*2 {
				t = f + int64(r.Intn(int(st*m8)))
			}
			if r.Chance(1, 10) {
				f, t = t+1, f // from > to: empty
			}
			out = append(out, fmt.Sprintf("step %d %d %d %d %d", f, t, m8, st, d))
		case 9:
			out = append(out, fmt.Sprintf("once %d", r.Range(1, int(cap))))
		}
	}
	return out
}

func main() {
	vh.Main(gen, func(cases []string) []string {
		out := make([]string, len(cases))
		for i, c := range cases {
			out[i] = runCase(c)
		}
		return out
	})
}
