// The REAL grpc gun as a component of a pool (fault kind gw-...): its warm-up talks to an in-process grpc
// server whose reflection endpoint is hand-written, so that every way the endpoint can answer is reached:
// the list of services (or a refusal), and for every listed service its descriptors or a refusal.
//
//	gw-<ver><sc>-<dial>-<list>-<svc>.<svc>...
//	  ver   a = the endpoint speaks grpc.reflection.v1alpha only, 1 = v1 and v1alpha
//	  sc    0 = no shared client, n>0 = shared-client enabled with client-number n
//	        an optional p after it: the gun's target port serves nothing, the endpoint is reached through reflect_port
//	  dial  ok | dead (the gun's target is one the resolver cannot parse: no connection can be made) |
//	        bdead (only the gun the factory makes at call k+1 (pool field k) has the dead target: its Bind fails)
//	  list  ok | e<code> (ErrorResponse) | r<code> (the RPC ends with that status)
//	  svc   ok<m> (descriptors served, m methods) | e<code> (ErrorResponse with that code) | r<code> (RPC status) |
//	        nosym (a descriptor answer that does not contain the service) | garbage (undecodable descriptor bytes) |
//	        wrongtype (an answer of the wrong kind)
//
// Facts logged into the engine's log (ordered with the engine's own entries): verif-warmup (WarmUp of the real gun
// is entered, token <p>.wu), verif-rfl (the endpoint refuses a request, token <p>.rfl.<list|svc index>.<code>).
package main

import (
	"context"
	"fmt"
	"io"
	"net"
	"reflect"
	"sort"
	"strconv"
	"strings"
	"sync"
	"time"
	"unsafe"

	grpcgun "github.com/yandex/pandora/components/guns/grpc"
	grpcammo "github.com/yandex/pandora/components/providers/grpc"
	"go.uber.org/zap"
	"google.golang.org/grpc"
	"google.golang.org/grpc/codes"
	reflv1 "google.golang.org/grpc/reflection/grpc_reflection_v1"
	refl "google.golang.org/grpc/reflection/grpc_reflection_v1alpha"
	"google.golang.org/grpc/status"
	"google.golang.org/protobuf/proto"
	"google.golang.org/protobuf/types/descriptorpb"
	"google.golang.org/protobuf/types/known/emptypb"
)

type gwPlan struct {
	v1    bool
	sc    int
	rport bool
	dial  string
	list  string
	svcs  []string
}

func parseGW(fault string) (gwPlan, bool) {
	f := strings.Split(fault, "-")
	if len(f) != 5 || f[0] != "gw" || len(f[1]) < 2 {
		return gwPlan{}, false
	}
	g := gwPlan{v1: f[1][0] == '1', dial: f[2], list: f[3]}
	g.rport = strings.HasSuffix(f[1], "p")
	g.sc, _ = strconv.Atoi(strings.TrimSuffix(f[1][1:], "p"))
	if f[4] != "" && f[4] != "none" {
		g.svcs = strings.Split(f[4], ".")
	}
	return g, true
}

func svcName(i int) string { return fmt.Sprintf("target.Svc%d", i) }

// the proto file of service i: package target; message Req<i> { string name = 1; } message Resp<i> {}
// service Svc<i> { rpc M0(Req<i>) returns (Resp<i>); ... }
func svcFile(i, methods int, withService bool) []byte {
	str := descriptorpb.FieldDescriptorProto_TYPE_STRING
	opt := descriptorpb.FieldDescriptorProto_LABEL_OPTIONAL
	fd := &descriptorpb.FileDescriptorProto{
		Name:    proto.String(fmt.Sprintf("svc%d_%v.proto", i, withService)),
		Package: proto.String("target"),
		Syntax:  proto.String("proto3"),
		MessageType: []*descriptorpb.DescriptorProto{
			{Name: proto.String(fmt.Sprintf("Req%d", i)), Field: []*descriptorpb.FieldDescriptorProto{
				{Name: proto.String("name"), Number: proto.Int32(1), Type: &str, Label: &opt, JsonName: proto.String("name")}}},
			{Name: proto.String(fmt.Sprintf("Resp%d", i))},
		},
	}
	if withService {
		sd := &descriptorpb.ServiceDescriptorProto{Name: proto.String(fmt.Sprintf("Svc%d", i))}
		for m := 0; m < methods; m++ {
			sd.Method = append(sd.Method, &descriptorpb.MethodDescriptorProto{
				Name:       proto.String(fmt.Sprintf("M%d", m)),
				InputType:  proto.String(fmt.Sprintf(".target.Req%d", i)),
				OutputType: proto.String(fmt.Sprintf(".target.Resp%d", i)),
			})
		}
		fd.Service = []*descriptorpb.ServiceDescriptorProto{sd}
	}
	b, err := proto.Marshal(fd)
	if err != nil {
		panic(err)
	}
	return b
}

// what the endpoint answers to one request
type reflAnswer struct {
	list      []string
	fds       [][]byte
	errCode   int32 // ErrorResponse
	rpcCode   int32 // the stream ends with this status
	wrongType bool
}

type reflServer struct {
	pm   *poolMocks
	plan gwPlan
}

func outcomeCode(o string) (kind byte, code int32) {
	if len(o) > 1 && (o[0] == 'e' || o[0] == 'r') {
		if v, err := strconv.Atoi(o[1:]); err == nil {
			return o[0], int32(v)
		}
	}
	return 0, 0
}

func (s *reflServer) refuse(what string, code int32) {
	s.pm.rs.log.Info("verif-rfl", zap.Int("p", s.pm.idx), zap.String("what", fmt.Sprintf("%s.%d", what, code)))
}

func (s *reflServer) answer(isList bool, symbol string) reflAnswer {
	if isList {
		if k, c := outcomeCode(s.plan.list); k != 0 {
			s.refuse("list", c)
			if k == 'e' {
				return reflAnswer{errCode: c}
			}
			return reflAnswer{rpcCode: c}
		}
		var names []string
		for i := range s.plan.svcs {
			names = append(names, svcName(i))
		}
		return reflAnswer{list: names}
	}
	for i, o := range s.plan.svcs {
		if symbol != svcName(i) {
			continue
		}
		idx := strconv.Itoa(i)
		switch {
		case strings.HasPrefix(o, "ok"):
			m, _ := strconv.Atoi(o[2:])
			return reflAnswer{fds: [][]byte{svcFile(i, m, true)}}
		case o == "nosym":
			s.refuse(idx, int32(codes.NotFound))
			return reflAnswer{fds: [][]byte{svcFile(i, 0, false)}}
		case o == "garbage":
			s.refuse(idx, int32(codes.Unknown))
			return reflAnswer{fds: [][]byte{{0xff, 0xff, 0xff, 0x01}}}
		case o == "wrongtype":
			s.refuse(idx, int32(codes.Unknown))
			return reflAnswer{wrongType: true}
		}
		if k, c := outcomeCode(o); k == 'e' {
			s.refuse(idx, c)
			return reflAnswer{errCode: c}
		} else if k == 'r' {
			s.refuse(idx, c)
			return reflAnswer{rpcCode: c}
		}
	}
	return reflAnswer{errCode: int32(codes.NotFound)}
}

type alphaSrv struct {
	refl.UnimplementedServerReflectionServer
	s *reflServer
}

func (a alphaSrv) ServerReflectionInfo(stream refl.ServerReflection_ServerReflectionInfoServer) error {
	for {
		req, err := stream.Recv()
		if err == io.EOF {
			return nil
		}
		if err != nil {
			return err
		}
		var ans reflAnswer
		switch r := req.MessageRequest.(type) {
		case *refl.ServerReflectionRequest_ListServices:
			ans = a.s.answer(true, "")
		case *refl.ServerReflectionRequest_FileContainingSymbol:
			ans = a.s.answer(false, r.FileContainingSymbol)
		default:
			ans = reflAnswer{errCode: int32(codes.NotFound)}
		}
		if ans.rpcCode != 0 {
			return status.Error(codes.Code(ans.rpcCode), "verif: the reflection call is refused")
		}
		resp := &refl.ServerReflectionResponse{ValidHost: req.Host, OriginalRequest: req}
		switch {
		case ans.errCode != 0:
			resp.MessageResponse = &refl.ServerReflectionResponse_ErrorResponse{ErrorResponse: &refl.ErrorResponse{ErrorCode: ans.errCode, ErrorMessage: "verif: refused"}}
		case ans.wrongType:
			resp.MessageResponse = &refl.ServerReflectionResponse_AllExtensionNumbersResponse{AllExtensionNumbersResponse: &refl.ExtensionNumberResponse{BaseTypeName: "x"}}
		case ans.fds != nil:
			resp.MessageResponse = &refl.ServerReflectionResponse_FileDescriptorResponse{FileDescriptorResponse: &refl.FileDescriptorResponse{FileDescriptorProto: ans.fds}}
		default:
			lr := &refl.ListServiceResponse{}
			for _, n := range ans.list {
				lr.Service = append(lr.Service, &refl.ServiceResponse{Name: n})
			}
			resp.MessageResponse = &refl.ServerReflectionResponse_ListServicesResponse{ListServicesResponse: lr}
		}
		if err := stream.Send(resp); err != nil {
			return err
		}
	}
}

type v1Srv struct {
	reflv1.UnimplementedServerReflectionServer
	s *reflServer
}

func (a v1Srv) ServerReflectionInfo(stream reflv1.ServerReflection_ServerReflectionInfoServer) error {
	for {
		req, err := stream.Recv()
		if err == io.EOF {
			return nil
		}
		if err != nil {
			return err
		}
		var ans reflAnswer
		switch r := req.MessageRequest.(type) {
		case *reflv1.ServerReflectionRequest_ListServices:
			ans = a.s.answer(true, "")
		case *reflv1.ServerReflectionRequest_FileContainingSymbol:
			ans = a.s.answer(false, r.FileContainingSymbol)
		default:
			ans = reflAnswer{errCode: int32(codes.NotFound)}
		}
		if ans.rpcCode != 0 {
			return status.Error(codes.Code(ans.rpcCode), "verif: the reflection call is refused")
		}
		resp := &reflv1.ServerReflectionResponse{ValidHost: req.Host, OriginalRequest: req}
		switch {
		case ans.errCode != 0:
			resp.MessageResponse = &reflv1.ServerReflectionResponse_ErrorResponse{ErrorResponse: &reflv1.ErrorResponse{ErrorCode: ans.errCode, ErrorMessage: "verif: refused"}}
		case ans.wrongType:
			resp.MessageResponse = &reflv1.ServerReflectionResponse_AllExtensionNumbersResponse{AllExtensionNumbersResponse: &reflv1.ExtensionNumberResponse{BaseTypeName: "x"}}
		case ans.fds != nil:
			resp.MessageResponse = &reflv1.ServerReflectionResponse_FileDescriptorResponse{FileDescriptorResponse: &reflv1.FileDescriptorResponse{FileDescriptorProto: ans.fds}}
		default:
			lr := &reflv1.ListServiceResponse{}
			for _, n := range ans.list {
				lr.Service = append(lr.Service, &reflv1.ServiceResponse{Name: n})
			}
			resp.MessageResponse = &reflv1.ServerReflectionResponse_ListServicesResponse{ListServicesResponse: lr}
		}
		if err := stream.Send(resp); err != nil {
			return err
		}
	}
}

// gwPool is what a gw pool needs during one run: the target server and the guns made for it.
type gwPool struct {
	pm   *poolMocks
	plan gwPlan
	addr string
	srv  *grpc.Server
	mu   sync.Mutex
	guns []*grpcgun.Gun
	deps []interface{} // what WarmUp returned
	// observations
	warmRes string // what WarmUp returned: nil | f.conn | f.list | f.res.<i> | f.pool | f.other
	methods string // the method table the first bound gun got
}

func startGW(pm *poolMocks, g gwPlan) *gwPool {
	lis, err := net.Listen("tcp", "127.0.0.1:0")
	if err != nil {
		panic(err)
	}
	rs := &reflServer{pm: pm, plan: g}
	srv := grpc.NewServer(grpc.UnknownServiceHandler(func(_ interface{}, stream grpc.ServerStream) error {
		if m, _ := grpc.MethodFromServerStream(stream); !strings.HasPrefix(m, "/target.") {
			return status.Error(codes.Unimplemented, "unknown service")
		}
		var in emptypb.Empty
		if err := stream.RecvMsg(&in); err != nil {
			return err
		}
		return stream.SendMsg(&emptypb.Empty{})
	}))
	refl.RegisterServerReflectionServer(srv, alphaSrv{s: rs})
	if g.v1 {
		reflv1.RegisterServerReflectionServer(srv, v1Srv{s: rs})
	}
	go func() { _ = srv.Serve(lis) }()
	return &gwPool{pm: pm, plan: g, addr: lis.Addr().String(), srv: srv, warmRes: "-", methods: "-"}
}

// newGun makes the real gun the factory hands to the engine at its call number c (1 = the warm-up gun).
func (w *gwPool) newGun(c int) (*grpcgun.Gun, bool) {
	conf := grpcgun.DefaultGunConfig()
	conf.Target = w.addr
	conf.Timeout = 2 * time.Second
	conf.DialOptions.Timeout = 30 * time.Second
	dead := w.plan.dial == "dead" || (w.plan.dial == "bdead" && c == w.pm.plan.k+1 && c > 1)
	if w.plan.rport { // the target's own port serves nothing; the reflection endpoint is on reflect_port
		_, port, _ := net.SplitHostPort(w.addr)
		conf.Target = "127.0.0.1:1"
		conf.ReflectPort, _ = strconv.ParseInt(port, 10, 64)
	}
	if dead { // a target the dns resolver cannot parse: grpc.DialContext fails
		conf.Target = "dns:///" + conf.Target + ":x"
		conf.ReflectPort = 0
	}
	if w.plan.sc > 0 {
		conf.SharedClient.Enabled = true
		conf.SharedClient.ClientNumber = w.plan.sc - 1 // sc = 1: enabled with client-number 0 (taken as 1)
	}
	g := grpcgun.NewGun(conf)
	w.mu.Lock()
	w.guns = append(w.guns, g)
	w.mu.Unlock()
	return g, dead
}

func (w *gwPool) describeWarm(err error) string {
	if err == nil {
		return "nil"
	}
	msg := err.Error()
	switch {
	case strings.Contains(msg, "failed to connect to target"):
		return "f.conn"
	case strings.Contains(msg, "ListServices err"):
		return "f.list"
	case strings.Contains(msg, "cant resolveService target.Svc"):
		rest := msg[strings.Index(msg, "cant resolveService target.Svc")+len("cant resolveService target.Svc"):]
		n := 0
		for n < len(rest) && rest[n] >= '0' && rest[n] <= '9' {
			n++
		}
		return "f.res." + rest[:n]
	case strings.Contains(msg, "makeGRPCConnect fail"), strings.Contains(msg, "create clientpool err"):
		return "f.pool"
	}
	return "f.other"
}

// methodTable renders the keys of the gun's method table as <svc>:<method> joined by '+', sorted (- = empty)
func methodTable(g *grpcgun.Gun) string {
	type key struct{ s, m int }
	var keys []key
	for k := range g.Services {
		var x key
		if _, err := fmt.Sscanf(k, "target.Svc%d.M%d", &x.s, &x.m); err != nil {
			x = key{-1, -1}
		}
		keys = append(keys, x)
	}
	sort.Slice(keys, func(i, j int) bool { return keys[i].s < keys[j].s || (keys[i].s == keys[j].s && keys[i].m < keys[j].m) })
	var out []string
	for _, k := range keys {
		out = append(out, fmt.Sprintf("%d:%d", k.s, k.m))
	}
	if len(out) == 0 {
		return "none"
	}
	return strings.Join(out, "+")
}

// the ammo of a gw pool: a call of the first method the endpoint serves descriptors for
func (w *gwPool) ammo() *grpcammo.Ammo {
	call := "target.Svc0.M0"
	for i, o := range w.plan.svcs {
		if strings.HasPrefix(o, "ok") && o != "ok0" {
			call = svcName(i) + ".M0"
			break
		}
	}
	return &grpcammo.Ammo{Tag: "t", Call: call, Payload: map[string]interface{}{"name": "x"}}
}

// unexported returns the value of an unexported field (the gun never closes its connections: the harness does,
// so that nothing of one case is left running in the next)
func unexported(v reflect.Value, name string) (reflect.Value, bool) {
	for v.Kind() == reflect.Ptr || v.Kind() == reflect.Interface {
		if v.IsNil() {
			return reflect.Value{}, false
		}
		v = v.Elem()
	}
	if v.Kind() != reflect.Struct {
		return reflect.Value{}, false
	}
	f := v.FieldByName(name)
	if !f.IsValid() {
		return reflect.Value{}, false
	}
	if !f.CanAddr() {
		cp := reflect.New(v.Type()).Elem()
		cp.Set(v)
		f = cp.FieldByName(name)
	}
	return reflect.NewAt(f.Type(), unsafe.Pointer(f.UnsafeAddr())).Elem(), true
}

func closeStub(stub reflect.Value) {
	if ch, ok := unexported(stub, "channel"); ok && ch.IsValid() && ch.Kind() == reflect.Interface && !ch.IsNil() {
		if cc, ok := ch.Interface().(*grpc.ClientConn); ok {
			_ = cc.Close()
		}
	}
}

func (w *gwPool) stop() {
	w.mu.Lock()
	defer w.mu.Unlock()
	for _, g := range w.guns {
		closeStub(reflect.ValueOf(&g.Stub))
	}
	for _, d := range w.deps {
		if cp, ok := unexported(reflect.ValueOf(d), "clientPool"); ok {
			if pool, ok := unexported(cp, "pool"); ok && pool.Kind() == reflect.Slice {
				for i := 0; i < pool.Len(); i++ {
					closeStub(pool.Index(i).Addr())
				}
			}
		}
	}
	w.srv.Stop()
}

// primeGRPC makes one connection and one call before the first case, so that whatever the grpc library starts
// once per process is not counted as something a run left behind.
func primeGRPC() {
	lis, err := net.Listen("tcp", "127.0.0.1:0")
	if err != nil {
		return
	}
	srv := grpc.NewServer(grpc.UnknownServiceHandler(func(_ interface{}, stream grpc.ServerStream) error {
		return status.Error(codes.Unimplemented, "x")
	}))
	go func() { _ = srv.Serve(lis) }()
	conn, err := grpcgun.MakeGRPCConnect(lis.Addr().String(), false, grpcgun.GrpcDialOptions{})
	if err == nil {
		ctx, cancel := context.WithTimeout(context.Background(), 2*time.Second)
		_ = conn.Invoke(ctx, "/x.Y/Z", &emptypb.Empty{}, &emptypb.Empty{})
		cancel()
		_ = conn.Close()
	}
	srv.Stop()
	time.Sleep(20 * time.Millisecond)
}
