// The pool's gun / schedule factory built by the REAL plugin registry (core/plugin: Registry.Register +
// Registry.NewFactory -> pluginConstructor / factoryConstructor -> convertFactoryOutParams), the way the config
// layer builds InstancePoolConfig.NewGun / NewRPSSchedule from the constructors components register.
//
// Fault name  pg-<gun|sched>-<shape>[n][f]  (the constructor's k+1-th call fails, like the gun / sched faults):
//
//	shape  ie    func() (core.Gun, error)                   the requested factory type itself
//	       pe    func() (*impl, error)                      concrete result + error
//	       cpe   func(conf) (*impl, error)                  the usual Go shape
//	       cie   func(conf) (core.Gun, error)
//	       cp    func(conf) *impl                           no error result (can only fail while its config is filled)
//	       fpe   func(conf) (func() (*impl, error), error)  a constructor of factories
//	       fie   func() (func() (core.Gun, error), error)
//	       fp    func(conf) (func() *impl, error)           factories without an error result (cannot fail)
//	       i1    func() core.Gun                            p1   func() *impl       (cannot fail; `fact` cases)
//	n      a failing constructor returns nil (a typed nil for the concrete shapes) instead of the half-built object
//	f      not the constructor but the filling of its config fails at that call (shapes with conf, constructors of plugins)
//
// Ground truth: the constructor / the config filler logs <p>.!gun / <p>.!sched itself when it fails. Observable F (per
// pool, first calls): what the constructor returned and what the factory the engine calls made of it,
// <c>/<f> with c, f in ok | nil (nil object, no error) | err | perr (panic carrying the error) | - (not called).
package main

import (
	"errors"
	"fmt"
	"reflect"
	"strconv"
	"strings"
	"sync"
	"time"

	"github.com/yandex/pandora/core"
	"github.com/yandex/pandora/core/plugin"
	"github.com/yandex/pandora/core/warmup"
	"go.uber.org/zap"
)


var (
	errFillGun   = errors.New("verif: gun config fill failed")
	errFillSched = errors.New("verif: schedule config fill failed")
)

type plugPlan struct {
	what    string // gun | sched
	shape   string
	nilObj  bool
	fillErr bool
}

func parsePG(fault string) (plugPlan, bool) {
	f := strings.Split(fault, "-")
	if len(f) != 3 || f[0] != "pg" || (f[1] != "gun" && f[1] != "sched") {
		return plugPlan{}, false
	}
	sh := f[2]
	pp := plugPlan{what: f[1]}
	for strings.HasSuffix(sh, "n") || strings.HasSuffix(sh, "f") {
		if strings.HasSuffix(sh, "n") {
			pp.nilObj = true
		} else {
			pp.fillErr = true
		}
		sh = sh[:len(sh)-1]
	}
	// "f" is also the first letter of the factory shapes: only trailing letters after the shape name are flags
	switch sh {
	case "ie", "pe", "cpe", "cie", "cp", "fpe", "fie", "fp", "i1", "p1":
		pp.shape = sh
		return pp, true
	}
	return plugPlan{}, false
}

// plugGun / plugSched are the concrete implementation types the constructors return. A nil *plugGun / *plugSched is
// inert (nothing to warm up, binds, shoots nothing; a schedule that is already finished).
type plugGun struct{ g core.Gun }

func (p *plugGun) WarmUp(o *warmup.Options) (interface{}, error) {
	if p == nil || p.g == nil {
		return nil, nil
	}
	if w, ok := p.g.(warmup.WarmedUp); ok {
		return w.WarmUp(o)
	}
	return nil, nil
}

func (p *plugGun) Bind(a core.Aggregator, d core.GunDeps) error {
	if p == nil || p.g == nil {
		return nil
	}
	return p.g.Bind(a, d)
}

func (p *plugGun) Shoot(am core.Ammo) {
	if p == nil || p.g == nil {
		return
	}
	p.g.Shoot(am)
}

func (p *plugGun) Close() error {
	if p == nil || p.g == nil {
		return nil
	}
	if c, ok := p.g.(interface{ Close() error }); ok {
		return c.Close()
	}
	return nil
}

type plugSched struct{ s core.Schedule }

func (p *plugSched) Start(at time.Time) {
	if p != nil && p.s != nil {
		p.s.Start(at)
	}
}

func (p *plugSched) Next() (time.Time, bool) {
	if p == nil || p.s == nil {
		return time.Time{}, false
	}
	return p.s.Next()
}

func (p *plugSched) Left() int {
	if p == nil || p.s == nil {
		return 0
	}
	return p.s.Left()
}

type plugConf struct {
	Name string
}

// plugCalls records, per call of the factory the engine uses, what the registered constructor returned and what the
// factory returned.
type plugCalls struct {
	mu    sync.Mutex
	ctor  []string
	pairs []string
	fills int
}

func describeOut(isNil bool, err error) string {
	switch {
	case err != nil:
		return "err"
	case isNil:
		return "nil"
	}
	return "ok"
}

func (pc *plugCalls) String() string {
	pc.mu.Lock()
	defer pc.mu.Unlock()
	if len(pc.pairs) == 0 {
		return "none"
	}
	n := len(pc.pairs)
	if n > 6 {
		n = 6
	}
	return strings.Join(pc.pairs[:n], ".")
}

func isNilObj(v interface{}) bool {
	if v == nil {
		return true
	}
	rv := reflect.ValueOf(v)
	return rv.Kind() == reflect.Ptr && rv.IsNil()
}

// plugFactory builds the pool's NewGun (what = gun; base = pm.newGun) or NewRPSSchedule (what = sched; base =
// pm.newSchedule) through a fresh plugin registry. The returned func has the factory type the engine's config asks for.
func plugFactory(pm *poolMocks, pp plugPlan) interface{} { return plugFactoryN(pm, pp, 2) }

// plugFactoryN: numOut = 2 gives the engine's factory types (wrapped so that every call is recorded), numOut = 1 the
// raw func() Plugin factory (the `fact` cases call and record it themselves).
func plugFactoryN(pm *poolMocks, pp plugPlan, numOut int) interface{} {
	calls := &plugCalls{}
	pm.plugCalls = calls
	k := pm.plan.k
	isGun := pp.what == "gun"
	mayFail := !pp.fillErr && pp.shape != "cp" && pp.shape != "fp" && pp.shape != "i1" && pp.shape != "p1" // no error result: cannot fail
	// one creation by the underlying mock factory; with the f flag the mock never fails (the config filling does)
	create := func() (interface{}, error) {
		var obj interface{}
		var err error
		if isGun {
			var g core.Gun
			g, err = pm.newGunBase(mayFail)
			if g != nil || !pp.nilObj {
				obj = &plugGun{g: g}
			} else {
				obj = (*plugGun)(nil)
			}
		} else {
			var s core.Schedule
			s, err = pm.newScheduleBase(mayFail)
			if s != nil || !pp.nilObj {
				obj = &plugSched{s: s}
			} else {
				obj = (*plugSched)(nil)
			}
		}
		calls.mu.Lock()
		calls.ctor = append(calls.ctor, describeOut(isNilObj(obj), err))
		calls.mu.Unlock()
		return obj, err
	}
	asIface := func(obj interface{}, err error) (interface{}, error) {
		if err != nil && pp.nilObj {
			return nil, err
		}
		return obj, err
	}
	var pluginType reflect.Type
	var factoryType reflect.Type
	var ctor interface{}
	if isGun {
		pluginType = reflect.TypeOf((*core.Gun)(nil)).Elem()
		factoryType = reflect.TypeOf((func() (core.Gun, error))(nil))
		mkP := func() (*plugGun, error) { o, err := create(); return o.(*plugGun), err }
		mkI := func() (core.Gun, error) {
			o, err := asIface(create())
			if o == nil {
				return nil, err
			}
			return o.(*plugGun), err
		}
		switch pp.shape {
		case "ie":
			ctor = mkI
		case "pe":
			ctor = mkP
		case "cpe":
			ctor = func(plugConf) (*plugGun, error) { return mkP() }
		case "cie":
			ctor = func(plugConf) (core.Gun, error) { return mkI() }
		case "cp":
			ctor = func(plugConf) *plugGun { o, _ := mkP(); return o }
		case "fpe":
			ctor = func(plugConf) (func() (*plugGun, error), error) { return mkP, nil }
		case "fie":
			ctor = func() (func() (core.Gun, error), error) { return mkI, nil }
		case "fp":
			ctor = func(plugConf) (func() *plugGun, error) { return func() *plugGun { o, _ := mkP(); return o }, nil }
		case "i1":
			ctor = func() core.Gun { o, _ := mkI(); return o }
		case "p1":
			ctor = func() *plugGun { o, _ := mkP(); return o }
		}
		if numOut == 1 {
			factoryType = reflect.TypeOf((func() core.Gun)(nil))
		}
	} else {
		pluginType = reflect.TypeOf((*core.Schedule)(nil)).Elem()
		factoryType = reflect.TypeOf((func() (core.Schedule, error))(nil))
		mkP := func() (*plugSched, error) { o, err := create(); return o.(*plugSched), err }
		mkI := func() (core.Schedule, error) {
			o, err := asIface(create())
			if o == nil {
				return nil, err
			}
			return o.(*plugSched), err
		}
		switch pp.shape {
		case "ie":
			ctor = mkI
		case "pe":
			ctor = mkP
		case "cpe":
			ctor = func(plugConf) (*plugSched, error) { return mkP() }
		case "cie":
			ctor = func(plugConf) (core.Schedule, error) { return mkI() }
		case "cp":
			ctor = func(plugConf) *plugSched { o, _ := mkP(); return o }
		case "fpe":
			ctor = func(plugConf) (func() (*plugSched, error), error) { return mkP, nil }
		case "fie":
			ctor = func() (func() (core.Schedule, error), error) { return mkI, nil }
		case "fp":
			ctor = func(plugConf) (func() *plugSched, error) { return func() *plugSched { o, _ := mkP(); return o }, nil }
		}
	}
	reg := plugin.NewRegistry()
	reg.Register(pluginType, "verif", ctor)
	var fill []func(interface{}) error
	if pp.fillErr {
		// a constructor of plugins gets a freshly filled config at every factory call (and once when the factory is made)
		fill = append(fill, func(interface{}) error {
			calls.mu.Lock()
			calls.fills++
			n := calls.fills
			calls.mu.Unlock()
			if n == k+2 {
				pm.fault(pp.what)
				if isGun {
					return errFillGun
				}
				return errFillSched
			}
			return nil
		})
	}
	f, err := reg.NewFactory(factoryType, "verif", fill...)
	if err != nil {
		panic(fmt.Sprintf("verif: plugin factory creation failed: %v", err))
	}
	if numOut == 1 {
		return f
	}
	// one factory call at a time: the constructor call it makes (if any) is the one recorded with it
	var serial sync.Mutex
	begin := func() int {
		serial.Lock()
		calls.mu.Lock()
		defer calls.mu.Unlock()
		return len(calls.ctor)
	}
	record := func(before int, isNil bool, err error, rec interface{}) {
		out := describeOut(isNil, err)
		if rec != nil {
			out = "perr"
		}
		calls.mu.Lock()
		c := "-"
		if len(calls.ctor) > before {
			c = calls.ctor[len(calls.ctor)-1]
		}
		calls.pairs = append(calls.pairs, c+"/"+out)
		calls.mu.Unlock()
		serial.Unlock()
	}
	if isGun {
		inner := f.(func() (core.Gun, error))
		return func() (g core.Gun, err error) {
			before := begin()
			defer func() {
				rec := recover()
				record(before, isNilObj(g), err, rec)
				if rec != nil {
					panic(rec)
				}
			}()
			return inner()
		}
	}
	inner := f.(func() (core.Schedule, error))
	return func() (s core.Schedule, err error) {
		before := begin()
		defer func() {
			rec := recover()
			record(before, isNilObj(s), err, rec)
			if rec != nil {
				panic(rec)
			}
		}()
		return inner()
	}
}

// runFact: case `fact <numOut> <shape> <k> <calls>` -- a gun factory of the given type (numOut 2: func() (core.Gun, error),
// 1: func() core.Gun) built by the real plugin registry from a constructor of the given shape, called <calls> times outside
// any engine; the constructor (or its config fill) fails at call k+1. Observation: F=<c>/<f>.<c>/<f>... (see above).
func runFact(f []string) string {
	if len(f) != 5 {
		return "unknown-case"
	}
	numOut, _ := strconv.Atoi(f[1])
	k, _ := strconv.Atoi(f[3])
	n, _ := strconv.Atoi(f[4])
	pp, ok := parsePG("pg-gun-" + f[2])
	if !ok || (numOut != 1 && numOut != 2) {
		return "unknown-case"
	}
	pm := &poolMocks{plan: poolPlan{fault: "pg-gun-" + f[2], k: k, pg: pp}, rs: &runState{log: zap.NewNop()}}
	fac := reflect.ValueOf(plugFactoryN(pm, pp, numOut))
	var pairs []string
	for i := 0; i < n; i++ {
		if numOut == 2 { // the typed wrapper records the call itself
			func() {
				defer func() { _ = recover() }()
				fac.Call(nil)
			}()
			continue
		}
		before := len(pm.plugCalls.ctor)
		out := func() (res string) {
			defer func() {
				if rec := recover(); rec != nil {
					res = "crash"
					if e, ok := rec.(error); ok && (errors.Is(e, errGun) || errors.Is(e, errFillGun)) {
						res = "perr"
					}
				}
			}()
			o := fac.Call(nil)
			return describeOut(isNilObj(o[0].Interface()), nil)
		}()
		c := "-"
		if len(pm.plugCalls.ctor) > before {
			c = pm.plugCalls.ctor[len(pm.plugCalls.ctor)-1]
		}
		pairs = append(pairs, c+"/"+out)
	}
	if numOut == 2 {
		return "F=" + pm.plugCalls.String()
	}
	if len(pairs) == 0 {
		return "F=none"
	}
	return "F=" + strings.Join(pairs, ".")
}
