// jsondecode.go: the REAL JSON decode provider (provider.NewJSONProvider = provider.DecodeProvider on
// provider.NewJSONAmmoDecoder) as the ammo provider of a pool, on data sources of every kind the core.DataSource
// contract allows (Model/JsonDecode.v):
//
//	fault jd-<poison>-<passes>-<limit>-<style>
//	  poison  none  k objects (white space after the first), then `ammo` more
//	          bad   ... the k objects, an object that does not decode (malformed, not truncated), `ammo` more objects
//	          blank k lines of white space only, no ammo at all (k = 0: no data at all)
//	  passes / limit  the provider's configuration (0 = unlimited)
//	  style   f  the source can be sought and reports its end on a read of its own (a file)
//	          n  cannot be sought, end on a read of its own (a pipe)
//	          e  cannot be sought, its LAST read carries io.EOF together with the data (gzip readers, http bodies,
//	             iotest.DataErrReader)
//	          s  can be sought AND its last read carries io.EOF together with the data
//	  gate 1 = the data is handed out in short reads (cut at arbitrary places)
//
// The source reports (token <p>.src) the moment it has handed the whole object that does not decode over.
package main

import (
	"io"
	"strconv"
	"strings"

	"github.com/yandex/pandora/core"
	"github.com/yandex/pandora/core/provider"
	"go.uber.org/zap"
)

type jdPlan struct {
	poison string
	passes int
	limit  int
	style  string
}

func parseJD(fault string) (jdPlan, bool) {
	f := strings.Split(fault, "-")
	if len(f) != 5 || f[0] != "jd" {
		return jdPlan{}, false
	}
	at := func(i int) int { v, _ := strconv.Atoi(f[i]); return v }
	return jdPlan{poison: f[1], passes: at(2), limit: at(3), style: f[4]}, true
}

const jdGood = "{\"a\":1}\n"
const jdBad = "{\"a\": broken}\n"

type jdReader struct {
	pm      *poolMocks
	data    []byte
	off     int
	handed  int // offset after which the broken object counts as handed over (-1: there is none)
	said    bool
	chunk   int  // longest read (0: as long as the caller takes)
	eofWith bool // the last read carries io.EOF
}

func (r *jdReader) Read(b []byte) (int, error) {
	if r.off >= len(r.data) {
		return 0, io.EOF
	}
	if r.chunk > 0 && len(b) > r.chunk {
		b = b[:r.chunk]
	}
	n := copy(b, r.data[r.off:])
	r.off += n
	if r.handed >= 0 && !r.said && r.off >= r.handed {
		r.said = true
		r.pm.rs.log.Info("verif-src", zap.Int("p", r.pm.idx))
	}
	if r.eofWith && r.off >= len(r.data) {
		return n, io.EOF
	}
	return n, nil
}

func (r *jdReader) Close() error { return nil }

// jdSeekReader: the same source, but one that can be sought
type jdSeekReader struct{ *jdReader }

func (r jdSeekReader) Seek(off int64, whence int) (int64, error) {
	if whence != io.SeekStart || off != 0 {
		return 0, errIO
	}
	r.off = 0
	r.said = false
	return 0, nil
}

type jdSource struct {
	mk func() io.ReadCloser
}

func (s jdSource) OpenSource() (io.ReadCloser, error) { return s.mk(), nil }

func jdProvider(pm *poolMocks, pl poolPlan, g jdPlan) core.Provider {
	var sb strings.Builder
	handed := -1
	if g.poison == "blank" {
		for i := 0; i < pl.k; i++ {
			sb.WriteString([]string{"\n", " \t\n", "   \n"}[i%3])
		}
	} else {
		for i := 0; i < pl.k; i++ {
			sb.WriteString(jdGood)
			if i == 0 {
				sb.WriteString(" \n")
			}
		}
		if g.poison == "bad" {
			sb.WriteString(jdBad)
			handed = sb.Len()
		}
		if pl.ammo > 0 {
			sb.WriteString(strings.Repeat(jdGood, pl.ammo))
		}
	}
	data := []byte(sb.String())
	chunk := 0
	if pl.gate {
		chunk = 11
	}
	jc := provider.DefaultJSONProviderConfig()
	jc.Decode.Passes = g.passes
	jc.Decode.Limit = g.limit
	jc.Decode.Source = jdSource{mk: func() io.ReadCloser {
		r := &jdReader{pm: pm, data: data, handed: handed, chunk: chunk, eofWith: g.style == "e" || g.style == "s"}
		if g.style == "f" || g.style == "s" {
			return jdSeekReader{r}
		}
		return r
	}}
	return provider.NewJSONProvider(func() core.Ammo { return &anAmmo{} }, jc)
}
