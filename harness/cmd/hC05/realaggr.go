// The REAL encoder aggregator (core/aggregator.NewEncoderAggregator) as the aggregator of a pool, on an encoder /
// data sink that fails:
//
//	eopen      the data sink cannot be opened (before the first sample)
//	eenc       Encode fails at the k-th sample (mid-run)
//	eflush     Flush fails (the periodic flush when gate = 1: flush-interval 20 us, in any case the final one, after the
//	           aggregator was told to stop: at the very end of the run)
//	eclose     the data sink's Close fails (at the very end)
//	eencclose  Encode fails at the k-th sample AND the sink's Close fails afterwards (two errors to report)
//	eok        nothing fails
//
// The encoder / the sink log the ground truth (<p>.!aggr) themselves at the moment they fail.
package main

import (
	"context"
	"errors"
	"io"
	"time"

	"github.com/yandex/pandora/core"
	"github.com/yandex/pandora/core/aggregator"
)

var (
	errSinkOpen  = errors.New("verif: data sink open failed")
	errSinkClose = errors.New("verif: data sink close failed")
	errEncode    = errors.New("verif: sample encode failed")
	errFlush     = errors.New("verif: flush failed")
)

type planSink struct {
	pm        *poolMocks
	openFail  bool
	closeFail bool
}

func (s *planSink) OpenSink() (io.WriteCloser, error) {
	if s.openFail {
		s.pm.fault("aggr")
		return nil, errSinkOpen
	}
	return s, nil
}

func (s *planSink) Write(b []byte) (int, error) { return len(b), nil }

func (s *planSink) Close() error {
	if s.closeFail {
		s.pm.fault("aggr")
		return errSinkClose
	}
	return nil
}

type planEncoder struct {
	pm        *poolMocks
	n         int
	encFailAt int // 0: never
	flushFail bool
}

func (e *planEncoder) Encode(core.Sample) error {
	e.n++
	if e.encFailAt > 0 && e.n == e.encFailAt {
		e.pm.fault("aggr")
		return errEncode
	}
	return nil
}

func (e *planEncoder) Flush() error {
	if e.flushFail {
		e.pm.fault("aggr")
		return errFlush
	}
	return nil
}

// reportingAggregator counts the Run call of the real aggregator like the mocks' (what is still executing when
// Engine.Wait returns).
type reportingAggregator struct {
	core.Aggregator
	pm *poolMocks
}

func (r reportingAggregator) Run(ctx context.Context, deps core.AggregatorDeps) error {
	defer r.pm.rs.enter(true)()
	return r.Aggregator.Run(ctx, deps)
}

func realAggregator(pm *poolMocks, pl poolPlan) core.Aggregator {
	sink := &planSink{pm: pm}
	enc := &planEncoder{pm: pm}
	switch pl.fault {
	case "eopen":
		sink.openFail = true
	case "eenc":
		enc.encFailAt = pl.k
	case "eflush":
		enc.flushFail = true
	case "eclose":
		sink.closeFail = true
	case "eencclose":
		enc.encFailAt = pl.k
		sink.closeFail = true
	case "eok":
	default:
		return nil
	}
	conf := aggregator.EncoderAggregatorConfig{Sink: sink, ReporterConfig: aggregator.ReporterConfig{SampleQueueSize: 4096}}
	if pl.gate {
		conf.FlushInterval = 20 * time.Microsecond
	}
	inner := aggregator.NewEncoderAggregator(func(io.Writer, func()) aggregator.SampleEncoder { return enc }, conf)
	return reportingAggregator{Aggregator: inner, pm: pm}
}
