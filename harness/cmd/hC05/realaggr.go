// The REAL encoder aggregator (core/aggregator.NewEncoderAggregator) as the aggregator of a pool, on an encoder /
// data sink that fails:
//
//	eopen      the data sink cannot be opened (before the first sample)
//	eenc       Encode fails at the k-th sample (mid-run)
//	eflush     Flush fails (the periodic flush when gate = 1: flush-interval 20 us, in any case the final one, after the
//	           aggregator was told to stop: at the very end of the run)
//	eflusht<j> ONLY the j-th Flush call fails (a transient write failure at a flush-interval tick, mid-run: flush-interval 20 us;
//	           from the k-th Shoot on the pool's instances wait until that failure has happened, so it is certainly mid-run); the final
//	           flush and the close of the sink succeed: the failing tick is the only thing that went wrong
//	eclose     the data sink's Close fails (at the very end)
//	eencclose  Encode fails at the k-th sample AND the sink's Close fails afterwards (two errors to report)
//	eok        nothing fails
//	ecloser    the encoder is an io.Closer (it is closed instead of the final flush) and its Close fails; eokc: does not fail
//	eencd      every Encode takes 300 us and the k-th (the last sample of the run) fails: usually met in the drain loop,
//	           after the aggregator was told to stop
//
// gate 1 = flush-interval 20 us (always for eflusht); ctxret 1 (with a flush interval) = the encoder tells the
// aggregator of its own flushes (the onFlush callback, as the jsonlines encoder does when its buffer runs full), so
// that a tick right after such a flush does not flush again.
//
// The encoder / the sink log the ground truth (<p>.!aggr) themselves at the moment they fail, and record every
// operation the aggregator performs on them (observable V, run-length coded: o/O sink opened / failed to open,
// e/E sample encoded / failed, f/F flushed / failed, c/C sink closed / failed). Observable E = what the real
// aggregator's Run returned (nil, or the failures it carries joined with +: open, enc, flush, final, close, dropped).
package main

import (
	"context"
	"errors"
	"fmt"
	"io"
	"strconv"
	"strings"
	"sync"
	"time"

	"github.com/yandex/pandora/core"
	"github.com/yandex/pandora/core/aggregator"
)

var (
	errSinkOpen  = errors.New("verif: data sink open failed")
	errSinkClose = errors.New("verif: data sink close failed")
	errEncode    = errors.New("verif: sample encode failed")
	errFlush     = errors.New("verif: flush failed")
)

// opTrace is the sequence of operations the aggregator performed on its encoder / sink, run-length coded.
type opTrace struct {
	mu   sync.Mutex
	ops  []byte
	cnt  []int
	done bool
}

func (t *opTrace) add(op byte) {
	t.mu.Lock()
	defer t.mu.Unlock()
	if n := len(t.ops); n > 0 && t.ops[n-1] == op {
		t.cnt[n-1]++
		return
	}
	t.ops = append(t.ops, op)
	t.cnt = append(t.cnt, 1)
}

func (t *opTrace) String() string {
	t.mu.Lock()
	defer t.mu.Unlock()
	if len(t.ops) == 0 {
		return "none"
	}
	var parts []string
	for i, op := range t.ops {
		parts = append(parts, fmt.Sprintf("%c%d", op, t.cnt[i]))
	}
	return strings.Join(parts, ".")
}

func okFail(ok bool, a, b byte) byte {
	if ok {
		return a
	}
	return b
}

type planSink struct {
	pm        *poolMocks
	tr        *opTrace
	openFail  bool
	closeFail bool
}

func (s *planSink) OpenSink() (io.WriteCloser, error) {
	s.tr.add(okFail(!s.openFail, 'o', 'O'))
	if s.openFail {
		s.pm.fault("aggr")
		return nil, errSinkOpen
	}
	return s, nil
}

func (s *planSink) Write(b []byte) (int, error) { return len(b), nil }

func (s *planSink) Close() error {
	s.tr.add(okFail(!s.closeFail, 'c', 'C'))
	if s.closeFail {
		s.pm.fault("aggr")
		return errSinkClose
	}
	return nil
}

type planEncoder struct {
	pm          *poolMocks
	tr          *opTrace
	n           int
	flushes     int
	encFailAt   int // 0: never
	flushFail   bool
	flushFailAt int           // only this Flush call fails (0: none)
	failed      chan struct{} // closed when that Flush call has failed
	slowEncode  time.Duration
	onFlush     func()        // set when the encoder reports its own flushes: it flushes at every second sample
}

func (e *planEncoder) Encode(core.Sample) error {
	e.n++
	if e.slowEncode > 0 {
		time.Sleep(e.slowEncode)
	}
	bad := e.encFailAt > 0 && e.n == e.encFailAt
	e.tr.add(okFail(!bad, 'e', 'E'))
	if bad {
		e.pm.fault("aggr")
		return errEncode
	}
	if e.onFlush != nil && e.n%2 == 0 {
		e.onFlush()
	}
	return nil
}

func (e *planEncoder) Flush() error {
	e.flushes++
	bad := e.flushFail || (e.flushFailAt > 0 && e.flushes == e.flushFailAt)
	e.tr.add(okFail(!bad, 'f', 'F'))
	if bad {
		e.pm.fault("aggr")
		if e.flushFailAt > 0 {
			close(e.failed)
		}
		return errFlush
	}
	return nil
}

// closingEncoder is an encoder that has to be closed (the aggregator closes it instead of the final flush).
type closingEncoder struct {
	*planEncoder
	closeFail bool
}

func (e closingEncoder) Close() error {
	e.tr.add(okFail(!e.closeFail, 'f', 'F')) // takes the place of the final flush
	if e.closeFail {
		e.pm.fault("aggr")
		return errFlush
	}
	return nil
}

// classifyAggr names the failures the real aggregator's error carries.
func classifyAggr(err error) string {
	if err == nil {
		return "nil"
	}
	msg := err.Error()
	var parts []string
	add := func(cond bool, name string) {
		if cond {
			parts = append(parts, name)
		}
	}
	add(strings.Contains(msg, errSinkOpen.Error()), "open")
	add(strings.Contains(msg, errEncode.Error()), "enc")
	nFlush := strings.Count(msg, errFlush.Error())
	nFinal := strings.Count(msg, "final flush failed: "+errFlush.Error()) + strings.Count(msg, "encoder close failed: "+errFlush.Error())
	add(nFlush > nFinal, "flush")
	add(nFinal > 0, "final")
	add(strings.Contains(msg, errSinkClose.Error()), "close")
	add(strings.Contains(msg, "dropped"), "dropped")
	if len(parts) == 0 {
		return "other"
	}
	return strings.Join(parts, "+")
}

// reportingAggregator counts the Run call of the real aggregator like the mocks' (what is still executing when
// Engine.Wait returns).
type reportingAggregator struct {
	core.Aggregator
	pm *poolMocks
}

func (r reportingAggregator) Run(ctx context.Context, deps core.AggregatorDeps) error {
	defer r.pm.rs.enter(true)()
	err := r.Aggregator.Run(ctx, deps)
	r.pm.aggrRes.Store(classifyAggr(err))
	return err
}

func realAggregator(pm *poolMocks, pl poolPlan) core.Aggregator {
	tr := &opTrace{}
	sink := &planSink{pm: pm, tr: tr}
	enc := &planEncoder{pm: pm, tr: tr}
	fault := pl.fault
	if strings.HasPrefix(fault, "eflusht") {
		enc.flushFailAt, _ = strconv.Atoi(fault[7:])
		if enc.flushFailAt < 1 {
			enc.flushFailAt = 1
		}
		enc.failed = make(chan struct{})
		pm.shootGate, pm.shootGateAt = enc.failed, pl.k
		pl.gate = true
		fault = "eok"
	}
	switch fault {
	case "eopen":
		sink.openFail = true
	case "eenc":
		enc.encFailAt = pl.k
	case "eflush":
		enc.flushFail = true
	case "eclose":
		sink.closeFail = true
	case "eencclose":
		enc.encFailAt = pl.k
		sink.closeFail = true
	case "eencd":
		enc.encFailAt = pl.k
		enc.slowEncode = 300 * time.Microsecond
	case "eok", "ecloser", "eokc":
	default:
		return nil
	}
	conf := aggregator.EncoderAggregatorConfig{Sink: sink, ReporterConfig: aggregator.ReporterConfig{SampleQueueSize: 4096}}
	if pl.gate {
		conf.FlushInterval = 20 * time.Microsecond
	}
	pm.aggrOps = tr
	inner := aggregator.NewEncoderAggregator(func(_ io.Writer, onFlush func()) aggregator.SampleEncoder {
		if pl.gate && pl.ctxret {
			enc.onFlush = onFlush
		}
		if fault == "ecloser" || fault == "eokc" {
			return closingEncoder{planEncoder: enc, closeFail: fault == "ecloser"}
		}
		return enc
	}, conf)
	return reportingAggregator{Aggregator: inner, pm: pm}
}
