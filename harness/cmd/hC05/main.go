// hC05: correspondence harness for property C05 (run outcome and termination).
//
// Drives the REAL engine.Engine with mock provider / aggregator / gun factory / gun /
// schedule factory controlled by a fault plan and a cancel plan, and reads the await
// loop's actual receive order from the engine's own log (zaptest/observer core).
//
// Case line:   run|guns <cancel> <pool> [<pool> ...]   (guns: same run, judged on gun Close bookkeeping)
//
//	fact <numOut> <shape> <k> <calls>       (a factory built by the real plugin registry, called outside the engine: plugfactory.go)
//
//	<cancel> = none | pre | after | shoot<k> | timed<us> | recv<k>
//	           pre: ctx cancelled before Run; shoot<k>: cancel() from inside pool 0's k-th Shoot,
//	           which then blocks until Run has returned; timed<us>: cancel() from another
//	           goroutine <us> microseconds after Run was called; after: cancel() once Run returned;
//	           recv<k>: cancel() at the moment Engine.Run has taken the k-th pool result from its channel (from inside
//	           the engine's own "Pool awaited" log call, i.e. between the receive and the look at ctx.Done that follows it).
//	<pool>   = n,shared,ammo,tokens,fault,k,gate,ctxret
//	           n instances (startup once(n)); shared 1 = one RPS schedule for the pool, 0 = per instance;
//	           ammo = number of ammo (-1 endless); tokens = once(tokens) (-1 = unlimited 1h schedule);
//	           fault = none|prov|aggr|gun|warm|sched|bind|panic|provnil|aggrnil at position k, or a REAL provider:
//	           dopen|dopenlate|ddecode|dok|dnew|dfile|jsonbad|jsonio|httpbad (see realProvider), scan-<poison> (see
//	           scanProvider), gj-<poison>-<passes>-<limit>-<coe>-<maxsize>, jd-<poison>-<passes>-<limit>-<style> (the real JSON
//	           decode provider on data sources of every kind: jsondecode.go)
//	           a REAL aggregator: eopen|eenc|eflush|eclose|eencclose|eok (see realaggr.go); the real grpc gun: gw-... (see grpcwarm.go);
//	           (the real grpc/json provider on k good lines, a broken element, `ammo` good lines; gate 1 = short reads; see gjPlan);
//	           optional 9th field: the VALUE of the prov/aggr error (plain|wdeadline|wcancel|fmtcancel|nettimeout|joined);
//	           optional later fields: slow<ms> (provider / aggregator take that long to wind down), ss<ms> (the instances
//	           are started one every <ms> milliseconds instead of all at once: the pool can run out of ammo / schedule
//	           while the start loop is still at work);
//	           gate 1 = provider/aggregator fail only once their context is cancelled
//	           ("after all instances finished"); ctxret 1 = provider/aggregator return ctx.Err() on cancel.
//
// Observation line:
//
//	R=<nil|ctx|f.<cause>|hang> W=<0|1> G=<0|1> K=<n|-> N=<n> Q=<..> A=<..> C=<guns created> L=<guns closed> T=<history tokens, comma separated>
//	K: Provider.Run / Aggregator.Run / Gun.Shoot calls of this run that had not returned when Engine.Wait returned;
//	N: Provider.Run + Aggregator.Run calls made; Q: per pool what Provider.Run returned; A: per pool number of Shoot calls
//
// History tokens (global order of the engine's log, see ocaml/C05/main.ml):
//
//	X0 / X1 the caller's cancel() is about to be called / has returned; <p>.pre.<ok|gun|warm|sched>; <p>.P.<e>.<s|u>; <p>.A.<e>.<s|u>; <p>.S.<n>.<e>.<s|u>;
//	<p>.R.<id>.<e>.<s|u>; <p>.!<cause> (a mock is about to fail); <p>.src (the ammo file handed its broken element to the
//	provider); <p>.sf; <p>.fc; <p>.fz; E.<p>; E.c; E.ret
//	<e> = nil|ctx|ooa|f.<cause>; s = error sent to Run, u = "Error suppressed after run cancel".
package main

import (
	"bufio"
	"context"
	"errors"
	"fmt"
	"io"
	"net"
	"runtime"
	"strconv"
	"strings"
	"sync"
	"sync/atomic"
	"time"

	pkgerrors "github.com/pkg/errors"
	"github.com/spf13/afero"
	grpcgun "github.com/yandex/pandora/components/guns/grpc"
	"github.com/yandex/pandora/components/providers/grpc/grpcjson"
	phttp "github.com/yandex/pandora/components/providers/http"
	phttpconf "github.com/yandex/pandora/components/providers/http/config"
	"github.com/yandex/pandora/core"
	"github.com/yandex/pandora/core/datasource"
	"github.com/yandex/pandora/core/engine"
	"github.com/yandex/pandora/core/provider"
	"github.com/yandex/pandora/core/schedule"
	"github.com/yandex/pandora/core/warmup"
	"github.com/yandex/pandora/lib/monitoring"
	"go.uber.org/zap"
	"go.uber.org/zap/zapcore"
	"go.uber.org/zap/zaptest/observer"

	"verifharness/internal/vh"
)

var (
	errProv  = errors.New("verif: provider failed")
	errAggr  = errors.New("verif: aggregator failed")
	errGun   = errors.New("verif: gun factory failed")
	errWarm  = errors.New("verif: warm-up failed")
	errSched = errors.New("verif: schedule factory failed")
	errBind  = errors.New("verif: bind failed")
)

const panicText = "verif: shoot panicked"

type netTimeout struct{}

func (netTimeout) Error() string   { return "i/o timeout" }
func (netTimeout) Timeout() bool   { return true }
func (netTimeout) Temporary() bool { return true }

// faultErr builds the error VALUE a failing provider/aggregator returns. Whatever its shape, it is a
// failure of the component itself (its message says so), not the cancellation of the context it was given.
func faultErr(base error, ev string) error {
	msg := base.Error()
	switch ev {
	case "wdeadline": // the component's OWN deadline (e.g. a flush timeout), pkg/errors cause = DeadlineExceeded
		return pkgerrors.WithMessage(context.DeadlineExceeded, msg)
	case "wcancel": // the component's own Canceled, returned while the context it was given is NOT done
		return pkgerrors.WithMessage(context.Canceled, msg)
	case "fmtcancel": // wraps Canceled with %w: errors.Is says Canceled, pkg/errors.Cause does not
		return fmt.Errorf("%s: %w", msg, context.Canceled)
	case "nettimeout":
		return pkgerrors.WithMessage(&net.OpError{Op: "write", Net: "tcp", Err: netTimeout{}}, msg)
	case "joined":
		return errors.Join(base, errors.New("verif: and a second error"))
	}
	return base
}

type poolPlan struct {
	n      int
	shared bool
	ammo   int
	tokens int
	fault  string
	k      int
	gate   bool
	ctxret bool
	ev     string // the VALUE of the provider/aggregator error: plain|wdeadline|wcancel|fmtcancel|nettimeout|joined
	slow   int    // milliseconds the provider / aggregator take to wind down once their context is done
	ss     int      // milliseconds between two instance starts (0: all at once, startup once(n))
	pg     plugPlan // the gun / schedule factory is built by the real plugin registry (fault pg-...)
}

// fails: the pool's plan makes the creation of a gun / schedule (what = gun | sched) fail.
func (pl poolPlan) fails(what string) bool { return pl.fault == what || pl.pg.what == what }

func parsePool(s string) poolPlan {
	f := strings.Split(s, ",")
	at := func(i int) int { v, _ := strconv.Atoi(f[i]); return v }
	pl := poolPlan{n: at(0), shared: f[1] == "1", ammo: at(2), tokens: at(3), fault: f[4], k: at(5), gate: f[6] == "1", ctxret: f[7] == "1", ev: "plain"}
	if len(f) > 8 {
		pl.ev = f[8]
	}
	for _, x := range f[8:] {
		if strings.HasPrefix(x, "ss") {
			pl.ss, _ = strconv.Atoi(x[2:])
		}
	}
	pl.pg, _ = parsePG(pl.fault)
	if len(f) > 9 && strings.HasPrefix(f[9], "slow") {
		pl.slow, _ = strconv.Atoi(f[9][4:])
	}
	return pl
}

// shared per-run state
type runState struct {
	log      *zap.Logger
	cancel   context.CancelFunc
	release  chan struct{} // closed when Run has returned: blocked Shoot calls go on
	cancelAt int           // pool 0's k-th Shoot triggers the cancel (0: never)
	created  atomic.Int64
	closed   atomic.Int64
	// activity of what the engine starts: Provider.Run / Aggregator.Run calls and Gun.Shoot calls that were
	// entered / have returned (the harness asks "what was still executing when Engine.Wait returned?")
	compRuns atomic.Int64 // Provider.Run + Aggregator.Run calls entered
	begun    atomic.Int64 // compRuns + Shoot calls entered
	ended    atomic.Int64 // ... that have returned
}

// enter marks that a call of a component started by the engine begins; the returned func marks its return.
func (rs *runState) enter(comp bool) func() {
	if comp {
		rs.compRuns.Add(1)
	}
	rs.begun.Add(1)
	return func() { rs.ended.Add(1) }
}

// windDown is the time a provider / aggregator takes to stop after it was told to (its context is done).
func windDown(ctx context.Context, pl poolPlan) {
	if pl.slow > 0 && ctx.Err() != nil {
		time.Sleep(time.Duration(pl.slow) * time.Millisecond)
	}
}

// ---- provider ----

type mockProvider struct {
	pm      *poolMocks
	plan    poolPlan
	mu      sync.Mutex
	calls   int
	failed  bool
	trigger chan struct{}
}

func (p *mockProvider) Run(ctx context.Context, deps core.ProviderDeps) error {
	defer p.pm.rs.enter(true)()
	err := p.run(ctx, deps)
	p.pm.provRes.Store(classifyComp(err, "prov"))
	windDown(ctx, p.plan)
	return err
}

func (p *mockProvider) run(ctx context.Context, _ core.ProviderDeps) error {
	isFault := p.plan.fault == "prov"
	if p.plan.fault == "provnil" {
		return nil // finished reading its source; Acquire goes on serving the buffered ammo
	}
	if isFault && !p.plan.gate && p.plan.k == 0 {
		if p.plan.ev != "wcancel" { // wcancel: goes on serving ammo, so that the run context is certainly not done yet
			p.mu.Lock()
			p.failed = true
			p.mu.Unlock()
		}
		p.pm.fault("prov")
		return faultErr(errProv, p.plan.ev)
	}
	select {
	case <-ctx.Done():
		select {
		case <-p.trigger: // it had already failed (and stopped serving ammo) when it was told to stop: it says so
			p.pm.fault("prov")
			return faultErr(errProv, p.plan.ev)
		default:
		}
		if isFault && p.plan.gate {
			p.pm.fault("prov")
			return faultErr(errProv, p.plan.ev)
		}
		if p.plan.ctxret {
			return ctx.Err()
		}
		return nil
	case <-p.trigger:
		p.pm.fault("prov")
		return faultErr(errProv, p.plan.ev)
	}
}

func (p *mockProvider) Acquire() (core.Ammo, bool) {
	p.mu.Lock()
	defer p.mu.Unlock()
	p.calls++
	if p.plan.fault == "prov" && !p.plan.gate && p.plan.k > 0 && p.calls == p.plan.k && !p.failed {
		p.failed = true
		close(p.trigger)
	}
	if p.failed || (p.plan.ammo >= 0 && p.calls > p.plan.ammo) {
		return nil, false
	}
	if p.pm.gw != nil {
		return p.pm.gw.ammo(), true
	}
	return p.calls, true
}

func (p *mockProvider) Release(core.Ammo) {}

// ---- real providers as components ----

var errOpen = errors.New("verif: data source open failed")
var errDecode = errors.New("verif: ammo decode failed")

// the data source / the decoder log the ground truth themselves (<p>.!prov) at the moment they fail: whether the
// provider built on them reports the failure is what is being checked
type failingSource struct {
	delay time.Duration
	pm    *poolMocks
}

func (f failingSource) OpenSource() (io.ReadCloser, error) {
	time.Sleep(f.delay)
	f.pm.fault("prov")
	return nil, errOpen
}

// missingFs reports (ground truth) that the ammo file could not be opened.
type missingFs struct {
	afero.Fs
	pm *poolMocks
}

func (m missingFs) Open(name string) (afero.File, error) {
	f, err := m.Fs.Open(name)
	if err != nil {
		m.pm.fault("prov")
	}
	return f, err
}

// failingReadSource hands out data and then fails every Read (an i/o error, not the end of the data).
type failingReadSource struct {
	data string
	pm   *poolMocks
}

type failingReader struct {
	r    *strings.Reader
	pm   *poolMocks
	said bool
}

func (f *failingReader) Read(b []byte) (int, error) {
	if f.r.Len() > 0 {
		return f.r.Read(b)
	}
	if !f.said {
		f.said = true
		f.pm.fault("prov")
	}
	return 0, errIO
}

func (f *failingReader) Close() error { return nil }

func (f failingReadSource) OpenSource() (io.ReadCloser, error) {
	return &failingReader{r: strings.NewReader(f.data), pm: f.pm}, nil
}

type countingDecoder struct {
	n      int
	good   int  // items decoded fine
	failAt bool // then: an error (true) or io.EOF (false)
	pm     *poolMocks
}

func (d *countingDecoder) Decode(core.Ammo) error {
	if d.n >= d.good {
		if d.failAt {
			d.pm.fault("prov")
			return errDecode
		}
		return io.EOF
	}
	d.n++
	return nil
}

// reportingProvider logs the ground truth "this provider failed" when the real provider's Run returns an error
// that is not the cancellation of the context it was given.
type reportingProvider struct {
	core.Provider
	pm *poolMocks
}

func (r reportingProvider) Run(ctx context.Context, deps core.ProviderDeps) error {
	defer r.pm.rs.enter(true)()
	err := r.Provider.Run(ctx, deps)
	if err != nil && !(ctx.Err() != nil && pkgerrors.Cause(err) == ctx.Err()) {
		r.pm.fault("prov")
	}
	r.pm.provRes.Store(classifyComp(err, "prov"))
	return err
}

// ---- the grpc/json provider on a file with a broken element ----

// gjPlan is the fault name gj-<poison>-<passes>-<limit>-<coe>-<maxsize> of a pool whose provider is the REAL
// grpcjson.Provider reading a file of k good lines, the poison, then `ammo` more good lines:
//
//	poison  none | json (a line that does not decode) | io (the file's Read fails at that offset, on every pass) |
//	        long (a line longer than the scanner's buffer: maxsize bytes, 0 = bufio.MaxScanTokenSize)
type gjPlan struct {
	poison  string
	passes  int
	limit   int
	coe     bool
	maxSize int
}

func parseGJ(fault string) (gjPlan, bool) {
	f := strings.Split(fault, "-")
	if len(f) != 6 || f[0] != "gj" {
		return gjPlan{}, false
	}
	at := func(i int) int { v, _ := strconv.Atoi(f[i]); return v }
	return gjPlan{poison: f[1], passes: at(2), limit: at(3), coe: f[4] == "1", maxSize: at(5)}, true
}

var errIO = errors.New("verif: read of the ammo file failed")

const gjGoodLine = "{\"tag\":\"t\",\"call\":\"pkg.Service.Method\",\"metadata\":{\"k\":\"v\"},\"payload\":{\"a\":1}}\n"

// poisonFile is the ammo file as the provider sees it. It reports (into the engine's log: token <p>.src) the
// moment at which the broken element is handed over to the reader: the Read that fails (io), the Read after which
// the reader holds more of the over-long line than its buffer takes (long), the whole undecodable line (json).
type poisonFile struct {
	afero.File
	pm      *poolMocks
	kind    string
	off     int64
	at      int64 // offset of the broken element
	handed  int64 // offset after which it counts as handed over (long, json)
	said    bool  // reported in this pass
	chunked bool  // hand the data out in small pieces (reads end at arbitrary places)
	asFault bool  // the broken element is a failure of the provider whatever its configuration: logged as <p>.!prov
}

func (f *poisonFile) say() {
	if f.asFault {
		f.pm.fault("prov")
		return
	}
	f.pm.rs.log.Info("verif-src", zap.Int("p", f.pm.idx))
}

func (f *poisonFile) Read(b []byte) (int, error) {
	if f.kind == "io" {
		if f.off >= f.at {
			f.say()
			return 0, errIO
		}
		if int64(len(b)) > f.at-f.off {
			b = b[:f.at-f.off]
		}
	}
	if f.chunked && len(b) > 37 {
		b = b[:37]
	}
	n, err := f.File.Read(b)
	f.off += int64(n)
	if (f.kind == "long" || f.kind == "json") && !f.said && f.off >= f.handed {
		f.said = true
		f.say()
	}
	return n, err
}

func (f *poisonFile) Seek(off int64, whence int) (int64, error) {
	r, err := f.File.Seek(off, whence)
	if err == nil {
		f.off = r
		f.said = r >= f.handed && f.said
	}
	return r, err
}

type poisonFs struct {
	afero.Fs
	mk func(afero.File) afero.File
}

func (p poisonFs) Open(name string) (afero.File, error) {
	f, err := p.Fs.Open(name)
	if err != nil {
		return nil, err
	}
	return p.mk(f), nil
}

func gjProvider(pm *poolMocks, pl poolPlan, g gjPlan) core.Provider {
	maxTok := 64 * 1024
	if g.maxSize > 0 {
		maxTok = g.maxSize
	}
	var sb strings.Builder
	sb.WriteString(strings.Repeat(gjGoodLine, pl.k))
	at := int64(sb.Len())
	handed := at
	switch g.poison {
	case "json":
		sb.WriteString("{\"tag\": broken\n")
		handed = int64(sb.Len())
	case "long":
		sb.WriteString("{\"tag\":\"" + strings.Repeat("x", maxTok+maxTok/8) + "\"}\n")
		handed = at + int64(maxTok)
	}
	if pl.ammo > 0 {
		sb.WriteString(strings.Repeat(gjGoodLine, pl.ammo))
	}
	mem := afero.NewMemMapFs()
	_ = afero.WriteFile(mem, "ammo.json", []byte(sb.String()), 0o644)
	fs := poisonFs{Fs: mem, mk: func(f afero.File) afero.File {
		return &poisonFile{File: f, pm: pm, kind: g.poison, at: at, handed: handed, chunked: pl.gate}
	}}
	conf := grpcjson.Config{File: "ammo.json", Limit: g.limit, Passes: g.passes, ContinueOnError: g.coe, MaxAmmoSize: g.maxSize}
	return grpcjson.NewProvider(fs, conf)
}

// ---- provider.DecodeProvider on provider.NewScanDecoder (a line scanner + a chunk decoder) ----

// lineChunkDecoder: lines starting with # carry no ammo (headers), a line starting with "bad" cannot be decoded,
// every other line is one ammo.
type lineChunkDecoder struct{ pm *poolMocks }

func (d lineChunkDecoder) DecodeChunk(chunk []byte, _ core.Ammo) error {
	switch {
	case len(chunk) == 0 || chunk[0] == '#':
		return provider.ErrNoAmmoDecoded
	case strings.HasPrefix(string(chunk), "bad"):
		d.pm.fault("prov")
		return errDecode
	}
	return nil
}

// scanProvider: fault scan-<poison> (none | io | long | bad): a file of a header line, k ammo lines (a header line in
// between), the broken element, `ammo` more ammo lines, read once through bufio.Scanner + lineChunkDecoder.
func scanProvider(pm *poolMocks, pl poolPlan, poison string) core.Provider {
	var sb strings.Builder
	sb.WriteString("# header\n")
	for i := 0; i < pl.k; i++ {
		sb.WriteString("ammo\n")
		if i == 0 {
			sb.WriteString("# another header\n")
		}
	}
	at := int64(sb.Len())
	handed := at
	switch poison {
	case "long":
		sb.WriteString(strings.Repeat("x", 70*1024) + "\n")
		handed = at + 64*1024
	case "bad":
		sb.WriteString("bad line\n")
	}
	if pl.ammo > 0 {
		sb.WriteString(strings.Repeat("ammo\n", pl.ammo))
	}
	mem := afero.NewMemMapFs()
	_ = afero.WriteFile(mem, "ammo.txt", []byte(sb.String()), 0o644)
	kind := poison
	if poison == "bad" || poison == "none" {
		kind = "none" // the chunk decoder reports it / nothing is broken
		handed = int64(sb.Len()) + 1
	}
	fs := poisonFs{Fs: mem, mk: func(f afero.File) afero.File {
		return &poisonFile{File: f, pm: pm, kind: kind, at: at, handed: handed, chunked: pl.gate, asFault: true}
	}}
	dconf := provider.DefaultDecodeProviderConfig()
	dconf.Passes = 1
	dconf.Source = datasource.NewFile(fs, datasource.FileConfig{Path: "ammo.txt"})
	return provider.NewDecodeProvider(func() core.Ammo { return &anAmmo{} }, func(_ core.ProviderDeps, r io.Reader) (provider.AmmoDecoder, error) {
		return provider.NewScanDecoder(bufio.NewScanner(r), lineChunkDecoder{pm: pm}), nil
	}, dconf)
}

type anAmmo struct {
	A int `json:"a"`
}

// realProvider builds the real provider a plan asks for (nil: the plan uses the mock provider):
//
//	dopen / dopenlate  provider.DecodeProvider whose DataSource fails to open (at once / 30 ms later, when the
//	                   instances are already blocked in Acquire)
//	ddecode / dok      DecodeProvider whose decoder fails / reports EOF after k items
//	jsonbad            provider.NewJSONProvider on k good objects followed by garbage
//	httpbad            the http provider (jsonline decoder) on a file with k good lines and a broken one
func realProvider(pm *poolMocks, pl poolPlan) core.Provider {
	newAmmo := func() core.Ammo { return &anAmmo{} }
	dconf := provider.DefaultDecodeProviderConfig()
	dconf.Passes = 1
	dec := func(d *countingDecoder) provider.NewAmmoDecoder {
		return func(core.ProviderDeps, io.Reader) (provider.AmmoDecoder, error) { return d, nil }
	}
	var inner core.Provider
	switch pl.fault {
	case "dopen":
		dconf.Source = failingSource{pm: pm}
		inner = provider.NewDecodeProvider(newAmmo, dec(&countingDecoder{}), dconf)
	case "dopenlate":
		dconf.Source = failingSource{delay: 30 * time.Millisecond, pm: pm}
		inner = provider.NewDecodeProvider(newAmmo, dec(&countingDecoder{}), dconf)
	case "ddecode":
		dconf.Source = datasource.NewString("x")
		inner = provider.NewDecodeProvider(newAmmo, dec(&countingDecoder{good: pl.k, failAt: true, pm: pm}), dconf)
	case "dok":
		dconf.Source = datasource.NewString("x")
		inner = provider.NewDecodeProvider(newAmmo, dec(&countingDecoder{good: pl.k}), dconf)
	case "dnew": // the decoder cannot be constructed
		dconf.Source = datasource.NewString("x")
		inner = provider.NewDecodeProvider(newAmmo, func(core.ProviderDeps, io.Reader) (provider.AmmoDecoder, error) {
			pm.fault("prov")
			return nil, errDecode
		}, dconf)
	case "dfile": // datasource.NewFile on a file that is not there
		dconf.Source = datasource.NewFile(missingFs{Fs: afero.NewMemMapFs(), pm: pm}, datasource.FileConfig{Path: "no-such-ammo"})
		inner = provider.NewDecodeProvider(newAmmo, dec(&countingDecoder{}), dconf)
	case "jsonio": // the JSON provider on a source whose Read fails after k objects
		jc := provider.DefaultJSONProviderConfig()
		jc.Decode.Passes = 1
		jc.Decode.Source = failingReadSource{data: strings.Repeat("{\"a\":1}\n", pl.k), pm: pm}
		inner = provider.NewJSONProvider(newAmmo, jc)
	case "jsonbad":
		jc := provider.DefaultJSONProviderConfig()
		jc.Decode.Passes = 1
		jc.Decode.Source = datasource.NewString(strings.Repeat("{\"a\":1}\n", pl.k) + "{\"a\": broken")
		inner = provider.NewJSONProvider(newAmmo, jc)
	case "httpbad":
		fs := afero.NewMemMapFs()
		line := "{\"host\":\"h\",\"method\":\"GET\",\"uri\":\"/\",\"tag\":\"t\",\"headers\":{}}\n"
		_ = afero.WriteFile(fs, "ammo.jsonline", []byte(strings.Repeat(line, pl.k)+"{\"host\": broken\n"), 0o644)
		p, err := phttp.NewProvider(fs, phttpconf.Config{Decoder: phttpconf.DecoderJSONLine, File: "ammo.jsonline", Passes: 1})
		if err != nil {
			panic(err)
		}
		inner = p
	default:
		if strings.HasPrefix(pl.fault, "scan-") {
			inner = scanProvider(pm, pl, pl.fault[5:])
			break
		}
		if j, ok := parseJD(pl.fault); ok {
			inner = jdProvider(pm, pl, j)
			break
		}
		g, ok := parseGJ(pl.fault)
		if !ok {
			return nil
		}
		inner = gjProvider(pm, pl, g)
	}
	return reportingProvider{Provider: inner, pm: pm}
}

// ---- aggregator ----

type mockAggregator struct {
	pm      *poolMocks
	plan    poolPlan
	mu      sync.Mutex
	reports int
	fired   bool
	trigger chan struct{}
}

func (a *mockAggregator) Run(ctx context.Context, deps core.AggregatorDeps) error {
	defer a.pm.rs.enter(true)()
	err := a.run(ctx, deps)
	windDown(ctx, a.plan)
	return err
}

func (a *mockAggregator) run(ctx context.Context, _ core.AggregatorDeps) error {
	isFault := a.plan.fault == "aggr"
	if a.plan.fault == "aggrnil" {
		return nil
	}
	if isFault && !a.plan.gate && a.plan.k == 0 {
		a.pm.fault("aggr")
		return faultErr(errAggr, a.plan.ev)
	}
	select {
	case <-ctx.Done():
		select {
		case <-a.trigger: // it had already failed when it was told to stop: it says so
			a.pm.fault("aggr")
			return faultErr(errAggr, a.plan.ev)
		default:
		}
		if isFault && a.plan.gate {
			a.pm.fault("aggr")
			return faultErr(errAggr, a.plan.ev)
		}
		if a.plan.ctxret {
			return ctx.Err()
		}
		return nil
	case <-a.trigger:
		a.pm.fault("aggr")
		return faultErr(errAggr, a.plan.ev)
	}
}

func (a *mockAggregator) Report(core.Sample) {
	a.mu.Lock()
	defer a.mu.Unlock()
	a.reports++
	if a.plan.fault == "aggr" && !a.plan.gate && a.plan.k > 0 && a.reports == a.plan.k && !a.fired {
		a.fired = true
		close(a.trigger)
	}
}

// ---- gun (closable, with warm-up) ----

// fault logs (into the engine's own log, so that it is ordered with the engine's steps) that a
// mock is about to fail: the ground truth of "a component failed" does not depend on what the
// engine makes of the failure.
func (pm *poolMocks) fault(what string) {
	pm.rs.log.Info("verif-fault", zap.Int("p", pm.idx), zap.String("what", what))
}

type poolMocks struct {
	idx        int
	plan       poolPlan
	rs         *runState
	gunCalls   atomic.Int64
	schedCalls atomic.Int64
	bindCalls  atomic.Int64
	shoots     atomic.Int64
	provRes    atomic.Value // what Provider.Run returned (class), unset while it has not returned
	gw         *gwPool      // the pool's gun is the REAL grpc gun against this target (fault gw-...)
	aggrRes    atomic.Value // what the REAL aggregator's Run returned (the failures its error carries)
	aggrOps    *opTrace     // the operations the real aggregator performed on its encoder / sink
	plugCalls  *plugCalls   // calls of the factory built by the real plugin registry
	factCalls  [2]atomic.Int64
	// from its shootGateAt-th Shoot on, the pool's Shoot calls wait (bounded) until shootGate is closed
	shootGate   chan struct{}
	shootGateAt int
}

type mockGun struct {
	pm    *poolMocks
	aggr  core.Aggregator
	inner *grpcgun.Gun // the real grpc gun this one wraps (gw pools): WarmUp / Bind / Shoot are its own
	dead  bool         // the real gun was configured so that it cannot connect
}

func (g *mockGun) WarmUp(o *warmup.Options) (interface{}, error) {
	if g.inner != nil {
		w := g.pm.gw
		g.pm.rs.log.Info("verif-warmup", zap.Int("p", g.pm.idx))
		deps, err := g.inner.WarmUp(o)
		w.mu.Lock()
		w.warmRes = w.describeWarm(err)
		if err == nil {
			w.deps = append(w.deps, deps)
		}
		w.mu.Unlock()
		if err != nil { // what the real gun said, as a step of the history (the ground truth is the endpoint's plan)
			g.pm.rs.log.Info("verif-pre-fail", zap.Int("p", g.pm.idx), zap.String("what", "warm"))
		}
		return deps, err
	}
	if g.pm.plan.fault == "warm" {
		g.pm.fault("warm")
		return nil, errWarm
	}
	return nil, nil
}

func (g *mockGun) Bind(aggr core.Aggregator, deps core.GunDeps) error {
	c := int(g.pm.bindCalls.Add(1))
	if g.inner != nil {
		if g.dead && g.pm.gw.plan.sc == 0 { // a gun that has to, but cannot, connect to its target cannot be bound
			g.pm.fault("bind")
		}
		err := g.inner.Bind(aggr, deps)
		if err == nil {
			w := g.pm.gw
			w.mu.Lock()
			if w.methods == "-" {
				w.methods = methodTable(g.inner)
			}
			w.mu.Unlock()
		}
		g.aggr = aggr
		return err
	}
	if g.pm.plan.fault == "bind" && c == g.pm.plan.k+1 {
		g.pm.fault("bind")
		return errBind
	}
	g.aggr = aggr
	return nil
}

func (g *mockGun) Shoot(am core.Ammo) {
	c := int(g.pm.shoots.Add(1))
	rs := g.pm.rs
	defer rs.enter(false)()
	if g.pm.idx == 0 && rs.cancelAt > 0 && c == rs.cancelAt {
		rs.log.Info("verif-cancel-begin")
		rs.cancel()
		rs.log.Info("verif-cancel-end")
		<-rs.release
	}
	if g.pm.shootGate != nil && c >= g.pm.shootGateAt { // from that shot on, every instance waits for the gate
		select {
		case <-g.pm.shootGate:
		case <-time.After(2 * time.Second):
		}
	}
	if g.pm.plan.fault == "panic" && c == g.pm.plan.k {
		g.pm.fault("panic")
		panic(panicText)
	}
	if g.inner != nil {
		g.inner.Shoot(am)
		return
	}
	g.aggr.Report(c)
}

func (g *mockGun) Close() error {
	g.pm.rs.closed.Add(1)
	return nil
}

func (pm *poolMocks) newGun() (core.Gun, error) { return pm.newGunBase(true) }

func (pm *poolMocks) newGunBase(mayFail bool) (core.Gun, error) {
	c := int(pm.gunCalls.Add(1))
	if mayFail && pm.plan.fails("gun") && c == pm.plan.k+1 { // k = 0: the warm-up call
		pm.fault("gun")
		return nil, errGun
	}
	pm.rs.created.Add(1)
	if pm.gw != nil {
		inner, dead := pm.gw.newGun(c)
		return &mockGun{pm: pm, inner: inner, dead: dead}, nil
	}
	return &mockGun{pm: pm}, nil
}

func (pm *poolMocks) newSchedule() (core.Schedule, error) { return pm.newScheduleBase(true) }

func (pm *poolMocks) newScheduleBase(mayFail bool) (core.Schedule, error) {
	c := int(pm.schedCalls.Add(1))
	if mayFail && pm.plan.fails("sched") && c == pm.plan.k+1 {
		pm.fault("sched")
		return nil, errSched
	}
	if pm.plan.tokens < 0 {
		return schedule.NewUnlimited(time.Hour), nil
	}
	return schedule.NewOnce(int64(pm.plan.tokens)), nil
}

// cancelCore passes every entry on and, right after the k-th "Pool awaited" entry of Engine.Run was written, makes
// the caller's cancel() -- a deterministic schedule of "the caller cancels just when a pool's result arrives".
type cancelCore struct {
	zapcore.Core
	st *cancelAtRecv
}

type cancelAtRecv struct {
	at  int
	n   atomic.Int64
	rs  *runState
	log *zap.Logger
}

func (c *cancelCore) With(f []zapcore.Field) zapcore.Core {
	return &cancelCore{Core: c.Core.With(f), st: c.st}
}

func (c *cancelCore) Check(e zapcore.Entry, ce *zapcore.CheckedEntry) *zapcore.CheckedEntry {
	if c.Enabled(e.Level) {
		return ce.AddCore(e, c)
	}
	return ce
}

func (c *cancelCore) Write(e zapcore.Entry, f []zapcore.Field) error {
	err := c.Core.Write(e, f)
	if e.Message == "Pool awaited" && c.st.at > 0 && int(c.st.n.Add(1)) == c.st.at {
		c.st.log.Info("verif-cancel-begin")
		c.st.rs.cancel()
		c.st.log.Info("verif-cancel-end")
	}
	return err
}

// ---- classification of errors ----

func classify(err error) string {
	switch {
	case err == nil:
		return "nil"
	// a failure of a component says so in its message, whatever the error wraps
	case strings.Contains(err.Error(), errProv.Error()):
		return "f.prov"
	case strings.Contains(err.Error(), errAggr.Error()):
		return "f.aggr"
	case errors.Is(err, errGun), errors.Is(err, errFillGun):
		return "f.gun"
	case errors.Is(err, errWarm):
		return "f.warm"
	case errors.Is(err, errSched), errors.Is(err, errFillSched):
		return "f.sched"
	case errors.Is(err, errBind):
		return "f.bind"
	// the engine's wrapper around what the real gun's WarmUp returned / the real gun's own Bind error
	case strings.Contains(err.Error(), "gun warm up failed"):
		return "f.warm"
	case strings.Contains(err.Error(), "makeGRPCConnect fail"):
		return "f.bind"
	case strings.Contains(err.Error(), "shoot panic"):
		return "f.panic"
	case strings.Contains(err.Error(), "Out of ammo"):
		return "ooa"
	// the engine's own wrappers around what Provider.Run / Aggregator.Run returned (real components)
	case strings.Contains(err.Error(), "provider failed"):
		return "f.prov"
	case strings.Contains(err.Error(), "aggregator failed"):
		return "f.aggr"
	case pkgerrors.Cause(err) == context.Canceled || err == context.Canceled:
		return "ctx"
	}
	return "f.other"
}

// classifyComp classifies what a provider ("prov") / aggregator ("aggr") returned from Run, as logged by the
// await loop: nil, the cancellation of its context (pkg/errors cause is context.Canceled and the error is not one
// of the mocks' own failures), or a failure of that component.
func classifyComp(err error, comp string) string {
	c := classify(err)
	if strings.HasPrefix(c, "f.") || c == "ooa" {
		return "f." + comp
	}
	return c
}

func fieldErr(e observer.LoggedEntry) error {
	for _, f := range e.Context {
		if f.Type == zapcore.ErrorType {
			if err, ok := f.Interface.(error); ok {
				return err
			}
		}
	}
	return nil
}

func fieldInt(e observer.LoggedEntry, key string) int {
	for _, f := range e.Context {
		if f.Key == key {
			return int(f.Integer)
		}
	}
	return -1
}

func fieldStr(e observer.LoggedEntry, key string) string {
	for _, f := range e.Context {
		if f.Key == key && f.Type == zapcore.StringType {
			return f.String
		}
	}
	return ""
}

// history reconstructs the token sequence from the engine's log.
func history(all []observer.LoggedEntry, npools int, plans []poolPlan) []string {
	poolIdx := func(e observer.LoggedEntry) int {
		id := fieldStr(e, "pool")
		if id == "" {
			id = fieldStr(e, "id")
		}
		if strings.HasPrefix(id, "pool_") {
			v, err := strconv.Atoi(id[5:])
			if err == nil {
				return v
			}
		}
		return -1
	}
	// did the await loop of this pool log "Error suppressed" before its next "awaited" entry?
	suppressedAfter := func(i, p int) bool {
		for j := i + 1; j < len(all); j++ {
			if poolIdx(all[j]) != p {
				continue
			}
			switch all[j].Message {
			case "Error suppressed after run cancel":
				return true
			case "AmmoQueue awaited", "Aggregator awaited", "Instances start awaited", "Instance run awaited", "Pool wait finished":
				return false
			}
		}
		return false
	}
	preDone := make([]bool, npools)
	var out []string
	pre := func(p int) {
		if p >= 0 && p < npools && !preDone[p] {
			preDone[p] = true
			out = append(out, fmt.Sprintf("%d.pre.ok", p))
		}
	}
	// a result whose error ends up suppressed is placed where the select of onErrAwaited fired
	// (the "Error suppressed" entry), not where the result was received: the choice is made there
	held := map[int]string{}
	cancels := 0
	for i, e := range all {
		p := poolIdx(e)
		emit := func(tok string) {
			pre(p)
			if suppressedAfter(i, p) {
				held[p] = tok + ".u"
				return
			}
			out = append(out, tok+".s")
		}
		switch e.Message {
		case "verif-cancel-begin":
			if cancels == 0 {
				out = append(out, "X0")
			}
		case "verif-cancel-end":
			if cancels == 0 {
				out = append(out, "X1")
			}
			cancels++
		case "verif-fault":
			out = append(out, fmt.Sprintf("%d.!%s", fieldInt(e, "p"), fieldStr(e, "what")))
		case "verif-src":
			out = append(out, fmt.Sprintf("%d.src", fieldInt(e, "p")))
		case "verif-warmup":
			out = append(out, fmt.Sprintf("%d.wu", fieldInt(e, "p")))
		case "verif-rfl":
			out = append(out, fmt.Sprintf("%d.rfl.%s", fieldInt(e, "p"), fieldStr(e, "what")))
		case "verif-pre-fail":
			pp := fieldInt(e, "p")
			preDone[pp] = true
			out = append(out, fmt.Sprintf("%d.pre.%s", pp, fieldStr(e, "what")))
		case "AmmoQueue awaited":
			emit(fmt.Sprintf("%d.P.%s", p, classifyComp(fieldErr(e), "prov")))
		case "Aggregator awaited":
			emit(fmt.Sprintf("%d.A.%s", p, classifyComp(fieldErr(e), "aggr")))
		case "Instances start awaited":
			emit(fmt.Sprintf("%d.S.%d.%s", p, fieldInt(e, "started"), classify(fieldErr(e))))
		case "Instance run awaited":
			emit(fmt.Sprintf("%d.R.%d.%s", p, fieldInt(e, "id"), classify(fieldErr(e))))
		case "Error suppressed after run cancel":
			if tok, ok := held[p]; ok {
				out = append(out, tok)
				delete(held, p)
			}
		case "RPS schedule has been finished. Canceling instance start.":
			pre(p)
			out = append(out, fmt.Sprintf("%d.sf", p))
		case "Pool execution canceled":
			pre(p)
			out = append(out, fmt.Sprintf("%d.fc", p))
		case "Pool run finished successfully":
			pre(p)
			out = append(out, fmt.Sprintf("%d.fz", p))
		case "Pool awaited":
			out = append(out, fmt.Sprintf("E.%d", p))
		case "Engine run canceled":
			out = append(out, "E.c")
		case "Engine finished":
			out = append(out, "E.ret")
		}
	}
	return out
}

func runCase(line string) string {
	f := strings.Split(line, " ")
	if f[0] == "fact" {
		return runFact(f)
	}
	if len(f) < 3 || (f[0] != "run" && f[0] != "guns") {
		return "unknown-case"
	}
	cancelPlan := f[1]
	var plans []poolPlan
	for _, s := range f[2:] {
		plans = append(plans, parsePool(s))
	}
	obsCore, logs := observer.New(zap.DebugLevel)
	recvSt := &cancelAtRecv{}
	var log *zap.Logger
	if strings.HasPrefix(cancelPlan, "recv") {
		recvSt.at, _ = strconv.Atoi(cancelPlan[4:])
		recvSt.log = zap.New(obsCore)
		log = zap.New(&cancelCore{Core: obsCore, st: recvSt})
	} else {
		log = zap.New(obsCore)
	}
	ctx, cancel := context.WithCancel(context.Background())
	defer cancel()
	runtime.GC()
	time.Sleep(200 * time.Microsecond)
	base := runtime.NumGoroutine()

	rs := &runState{log: log, cancel: cancel, release: make(chan struct{})}
	recvSt.rs = rs
	if strings.HasPrefix(cancelPlan, "shoot") {
		rs.cancelAt, _ = strconv.Atoi(cancelPlan[5:])
	}
	var conf engine.Config
	var pms []*poolMocks
	for i, pl := range plans {
		pm := &poolMocks{idx: i, plan: pl, rs: rs}
		pms = append(pms, pm)
		if g, ok := parseGW(pl.fault); ok {
			pm.gw = startGW(pm, g)
		}
		idx := i
		prov := &mockProvider{pm: pm, plan: pl, trigger: make(chan struct{})}
		aggr := &mockAggregator{pm: pm, plan: pl, trigger: make(chan struct{})}
		var provComp core.Provider = prov
		if rp := realProvider(pm, pl); rp != nil {
			provComp = rp
		}
		var aggrComp core.Aggregator = aggr
		if ra := realAggregator(pm, pl); ra != nil {
			aggrComp = ra
		}
		pc := engine.InstancePoolConfig{
			Provider:        provComp,
			Aggregator:      aggrComp,
			RPSPerInstance:  !pl.shared,
			StartupSchedule: schedule.NewOnce(int64(pl.n)),
		}
		if pl.ss > 0 && pl.n > 0 { // one instance every ss milliseconds
			pc.StartupSchedule = schedule.NewConst(1000/float64(pl.ss), time.Duration(pl.n*pl.ss)*time.Millisecond)
		}
		gunFactory, schedFactory := pm.newGun, pm.newSchedule
		switch pl.pg.what {
		case "gun":
			gunFactory = plugFactory(pm, pl.pg).(func() (core.Gun, error))
		case "sched":
			schedFactory = plugFactory(pm, pl.pg).(func() (core.Schedule, error))
		}
		pc.NewGun = func() (core.Gun, error) {
			first := pm.factCalls[0].Add(1) == 1
			g, err := gunFactory()
			if g == nil && err == nil { // nothing and no error (recorded in F): an inert gun keeps the process alive
				g = (*plugGun)(nil)
			}
			if err != nil && first {
				log.Info("verif-pre-fail", zap.Int("p", idx), zap.String("what", "gun"))
			}
			if err == nil && first && pm.plan.fault == "warm" {
				log.Info("verif-pre-fail", zap.Int("p", idx), zap.String("what", "warm"))
			}
			return g, err
		}
		pc.NewRPSSchedule = func() (core.Schedule, error) {
			first := pm.factCalls[1].Add(1) == 1
			s, err := schedFactory()
			if s == nil && err == nil { // nothing and no error (recorded in F): a finished schedule keeps the process alive
				s = (*plugSched)(nil)
			}
			if err != nil && first && pm.plan.shared {
				log.Info("verif-pre-fail", zap.Int("p", idx), zap.String("what", "sched"))
			}
			return s, err
		}
		conf.Pools = append(conf.Pools, pc)
	}
	metrics := engine.Metrics{Request: &monitoring.Counter{}, Response: &monitoring.Counter{}, InstanceStart: &monitoring.Counter{}, InstanceFinish: &monitoring.Counter{}}
	eng := engine.New(log, metrics, conf)

	if cancelPlan == "pre" {
		log.Info("verif-cancel-begin")
		cancel()
		log.Info("verif-cancel-end")
	}
	if strings.HasPrefix(cancelPlan, "timed") {
		us, _ := strconv.Atoi(cancelPlan[5:])
		go func() {
			time.Sleep(time.Duration(us) * time.Microsecond)
			log.Info("verif-cancel-begin")
			cancel()
			log.Info("verif-cancel-end")
		}()
	}
	runErr := make(chan error, 1)
	go func() { runErr <- eng.Run(ctx) }()
	var res string
	select {
	case err := <-runErr:
		res = classify(err)
	case <-time.After(5 * time.Second):
		res = "hang"
		log.Info("verif-cancel-begin")
		cancel()
		log.Info("verif-cancel-end")
	}
	if cancelPlan == "after" {
		cancel()
	}
	close(rs.release)
	waited := make(chan struct{})
	go func() { eng.Wait(); close(waited) }()
	w := false
	var endedAtWait int64
	select {
	case <-waited:
		w = true
		endedAtWait = rs.ended.Load()
	case <-time.After(2 * time.Second):
	}
	cancel()
	for _, pm := range pms { // the real grpc guns never close their connections; the target goes away
		if pm.gw != nil {
			pm.gw.stop()
		}
	}
	// goroutines settle: everything the run started has ended (our own Wait() goroutine is
	// still blocked when Wait hangs and is not counted)
	extra := 0
	if !w {
		extra = 1
	}
	settled := false
	deadline := time.Now().Add(2 * time.Second)
	for {
		if runtime.NumGoroutine() <= base+extra {
			settled = true
			break
		}
		if time.Now().After(deadline) {
			break
		}
		time.Sleep(200 * time.Microsecond)
	}
	toks := history(logs.All(), len(plans), plans)
	// K: calls of Provider.Run / Aggregator.Run / Gun.Shoot made by this run (all of them, counted once the
	// goroutines have settled) that had not returned yet at the moment Engine.Wait returned
	k := "-"
	if w {
		k = strconv.FormatInt(rs.begun.Load()-endedAtWait, 10)
	}
	// Q: what each pool's Provider.Run returned; A: the number of Shoot calls of each pool
	var q, a, u, m, ea, ev, fc []string
	for _, pm := range pms {
		if v, ok := pm.aggrRes.Load().(string); ok {
			ea = append(ea, v)
		} else {
			ea = append(ea, "-")
		}
		if pm.aggrOps != nil {
			ev = append(ev, pm.aggrOps.String())
		} else {
			ev = append(ev, "-")
		}
		if pm.plugCalls != nil {
			fc = append(fc, pm.plugCalls.String())
		} else {
			fc = append(fc, "-")
		}
		if pm.gw != nil {
			pm.gw.mu.Lock()
			u = append(u, pm.gw.warmRes)
			m = append(m, pm.gw.methods)
			pm.gw.mu.Unlock()
		} else {
			u = append(u, "-")
			m = append(m, "-")
		}
		if v, ok := pm.provRes.Load().(string); ok {
			q = append(q, v)
		} else {
			q = append(q, "-")
		}
		a = append(a, strconv.FormatInt(pm.shoots.Load(), 10))
	}
	return fmt.Sprintf("R=%s W=%s G=%s K=%s N=%d Q=%s A=%s U=%s M=%s E=%s V=%s F=%s C=%d L=%d T=%s", res, vh.B(w), vh.B(settled), k, rs.compRuns.Load(),
		strings.Join(q, ","), strings.Join(a, ","), strings.Join(u, ","), strings.Join(m, ","), strings.Join(ea, ","), strings.Join(ev, ","), strings.Join(fc, ","),
		rs.created.Load(), rs.closed.Load(), strings.Join(toks, ","))
}

// ---- generator ----

func poolStr(p poolPlan) string {
	s := fmt.Sprintf("%d,%s,%d,%d,%s,%d,%s,%s", p.n, vh.B(p.shared), p.ammo, p.tokens, p.fault, p.k, vh.B(p.gate), vh.B(p.ctxret))
	if (p.ev != "" && p.ev != "plain") || p.slow > 0 || p.ss > 0 {
		ev := p.ev
		if ev == "" {
			ev = "plain"
		}
		s += "," + ev
	}
	if p.slow > 0 {
		s += fmt.Sprintf(",slow%d", p.slow)
	}
	if p.ss > 0 {
		s += fmt.Sprintf(",ss%d", p.ss)
	}
	return s
}

func gen(r *vh.Rand, tier string) []string {
	var out []string
	healthy := poolPlan{n: 2, shared: true, ammo: 6, tokens: 4, fault: "none"}
	faults := []string{"prov", "aggr", "gun", "warm", "sched", "bind", "panic", "provnil", "aggrnil"}
	reps := 1
	if tier == "thorough" {
		reps = 20
	}
	for rep := 0; rep < reps; rep++ {
		// systematic plan: component x position x {1,2 pools} x cancel
		for _, ft := range faults {
			for _, pos := range []int{0, 1, 2} { // before first ammo / mid-run / at the very end
				for _, np := range []int{1, 2} {
					for _, cp := range []string{"none", "shoot2", "after", "pre"} {
						if cp == "pre" && (pos != 0 || np != 1) {
							continue
						}
						p := poolPlan{n: 3, shared: r.Bool(), ammo: 8, tokens: 6, fault: ft, ctxret: r.Bool()}
						if !p.shared {
							p.tokens = 2
						}
						switch ft {
						case "prov", "aggr":
							switch pos {
							case 0:
								p.k = 0
							case 1:
								p.k = 3
							case 2:
								p.gate = true
							}
						case "gun", "bind":
							p.k = pos // 0: warm-up call / first bind; 1,2: later instances
						case "sched":
							p.k = pos
							if pos > 0 {
								p.shared = false
								p.tokens = 2
							}
						case "panic":
							p.k = []int{1, 3, 6}[pos]
						case "warm", "provnil", "aggrnil":
							if pos != 0 {
								continue
							}
						}
						if cp == "shoot2" {
							p.tokens = -1
							p.ammo = -1
							if ft == "prov" || ft == "aggr" || ft == "panic" {
								if p.k > 1 {
									p.k = 1 + r.Intn(4)
								}
							}
						}
						line := "run " + cp + " " + poolStr(p)
						if np == 2 {
							h := healthy
							if cp == "shoot2" && r.Bool() {
								h.tokens, h.ammo = -1, -1
							}
							line += " " + poolStr(h)
						}
						out = append(out, line)
					}
				}
			}
		}
		// components that take a while to wind down once told to stop: on every early-return path of the pool
		// (failure before / at / after the start of the components, cancel) Engine.Wait has to outlast them
		for _, ft := range []string{"gun", "warm", "sched", "sched", "bind", "panic", "prov", "aggr", "none"} {
			for _, np := range []int{1, 2} {
				p := poolPlan{n: r.Range(1, 3), shared: true, ammo: 8, tokens: r.Range(2, 6), fault: ft, ctxret: r.Bool(), slow: r.Range(15, 40)}
				cp := "none"
				switch ft {
				case "bind", "panic":
					p.k = r.Range(1, 2)
					p.shared = r.Bool()
				case "prov", "aggr":
					p.k = r.Range(0, 2)
				case "none":
					cp = r.Pick([]string{"pre", "shoot1", "shoot2", "timed200"})
					p.ammo, p.tokens = -1, -1
				}
				line := "run " + cp + " " + poolStr(p)
				if np == 2 {
					h := healthy
					h.slow = r.Range(15, 40)
					line += " " + poolStr(h)
				}
				out = append(out, line)
			}
		}
		// the instances are started one by one (every 3-6 ms): the pool runs out of ammo / its shared schedule finishes /
		// something fails / the caller cancels while the start loop is still at work
		for _, ft := range []string{"none", "none", "none", "none", "panic", "bind", "gun", "prov", "aggr"} {
			p := poolPlan{n: r.Range(3, 5), shared: true, ammo: r.Range(1, 2), tokens: 8, fault: ft, ctxret: r.Bool(), ss: r.Range(3, 6)}
			cp := "none"
			switch ft {
			case "none":
				switch r.Intn(3) {
				case 0: // the schedule finishes first
					p.ammo, p.tokens = 8, r.Range(1, 2)
				case 1:
					cp = r.Pick([]string{"shoot1", "timed4000", "after"})
				}
			case "panic", "bind", "gun":
				p.k = 1
				p.ammo = 8
			case "prov", "aggr":
				p.k = r.Range(0, 1)
				p.ammo = 8
			}
			line := "run " + cp + " " + poolStr(p)
			if r.Chance(1, 3) {
				line += " " + poolStr(healthy)
			}
			out = append(out, line)
		}
		// healthy runs of various shapes, ends by ammo or by schedule
		for i := 0; i < 12; i++ {
			p := poolPlan{n: r.Range(0, 5), shared: r.Bool(), ammo: r.Range(0, 12), tokens: r.Range(0, 8), fault: "none", ctxret: r.Bool()}
			line := "run " + r.Pick([]string{"none", "none", "after"}) + " " + poolStr(p)
			if r.Bool() {
				q := poolPlan{n: r.Range(1, 4), shared: r.Bool(), ammo: r.Range(0, 12), tokens: r.Range(0, 8), fault: "none", ctxret: r.Bool()}
				line += " " + poolStr(q)
			}
			out = append(out, line)
		}
		// forced order: a provider/aggregator that fails only after all instances finished, repeated so
		// that both arms of the select in onErrAwaited are seen
		for i := 0; i < 24; i++ {
			p := poolPlan{n: r.Range(1, 3), shared: true, ammo: r.Range(1, 6), tokens: r.Range(1, 6), fault: r.Pick([]string{"prov", "aggr"}), gate: true, ctxret: r.Bool()}
			out = append(out, "run none "+poolStr(p))
		}
		// the VALUE of the failing component's error varies, at every position incl. after all instances finished
		for _, ft := range []string{"prov", "aggr"} {
			for _, ev := range []string{"wdeadline", "fmtcancel", "nettimeout", "joined"} {
				for pos := 0; pos < 3; pos++ {
					p := poolPlan{n: r.Range(1, 3), shared: r.Bool(), ammo: 8, tokens: r.Range(2, 6), fault: ft, ctxret: r.Bool(), ev: ev}
					switch pos {
					case 1:
						p.k = r.Range(1, 3)
					case 2:
						p.gate = true
					}
					line := "run none " + poolStr(p)
					if r.Chance(1, 3) {
						line += " " + poolStr(healthy)
					}
					out = append(out, line)
					if pos == 2 { // the after-all-finished position once more
						out = append(out, "run none "+poolStr(p))
					}
				}
			}
			// the component's own Canceled while the context it was given is not done: a failure
			out = append(out, "run none "+poolStr(poolPlan{n: 2, shared: true, ammo: -1, tokens: -1, fault: ft, ev: "wcancel"}))
		}
		// real providers as components
		for _, ft := range []string{"dopen", "dopenlate", "ddecode", "dok", "jsonbad", "httpbad", "dnew", "dfile", "jsonio"} {
			for _, k := range []int{0, 2} {
				p := poolPlan{n: r.Range(1, 3), shared: r.Bool(), ammo: 0, tokens: r.Range(3, 6), fault: ft, k: k}
				line := "run " + r.Pick([]string{"none", "none", "after"}) + " " + poolStr(p)
				if r.Chance(1, 3) {
					line += " " + poolStr(healthy)
				}
				out = append(out, line)
			}
		}
		// provider.DecodeProvider on provider.NewScanDecoder (line scanner + chunk decoder): a read failure, an over-long
		// line, a chunk that does not decode, at the start / in the middle / at the end of the file; and healthy files,
		// where only the end of the file ends the pool (unlimited schedule)
		for _, poison := range []string{"io", "long", "bad", "none", "none"} {
			for _, k := range []int{0, r.Range(1, 4)} {
				p := poolPlan{n: r.Range(1, 3), shared: r.Bool(), ammo: r.Range(0, 2), tokens: -1, fault: "scan-" + poison, k: k, gate: r.Bool()}
				if poison == "none" && k+p.ammo == 0 {
					p.ammo = 1
				}
				line := "run " + r.Pick([]string{"none", "none", "after"}) + " " + poolStr(p)
				if r.Chance(1, 4) {
					line += " " + poolStr(healthy)
				}
				out = append(out, line)
			}
		}
		// the REAL JSON decode provider (provider.NewJSONProvider) on data sources of every kind: one that can be sought /
		// cannot / hands its last data out together with io.EOF (and cannot / can be sought), long and short reads; data that is healthy, holds an
		// object that does not decode (first / in the middle / the very last thing), or holds white space only (or
		// nothing); every passes (0 = unlimited) and limit; the schedule is unlimited: only the provider ends the pool
		jdCase := func(poison string, passes, limit int, style string, k, m int) {
			ft := fmt.Sprintf("jd-%s-%d-%d-%s", poison, passes, limit, style)
			p := poolPlan{n: r.Range(1, 3), shared: r.Bool(), ammo: m, tokens: -1, fault: ft, k: k, gate: r.Bool()}
			line := "run " + r.Pick([]string{"none", "none", "none", "after"}) + " " + poolStr(p)
			if r.Chance(1, 5) {
				line += " " + poolStr(healthy)
			}
			out = append(out, line)
		}
		for _, style := range []string{"f", "n", "e", "s"} {
			// white space only / nothing at all: under every passes, with and without a limit
			for _, passes := range []int{0, 0, 1, 2, r.Range(3, 5)} {
				jdCase("blank", passes, r.PickInt([]int{0, 0, r.Range(1, 4)}), style, r.PickInt([]int{0, 1, 1, 2, 3, 7}), 0)
			}
			// an object that does not decode: before the first ammo, in the middle, the very last thing of the data
			for _, pos := range []int{0, 1, 2, 2, 2} {
				k, m := 0, r.Range(1, 3)
				switch pos {
				case 1:
					k = r.Range(1, 5)
				case 2:
					k, m = r.Range(0, 5), 0
				}
				jdCase("bad", r.PickInt([]int{0, 1, 1, 2, 3}), 0, style, k, m)
			}
			// healthy data: the end of the data (after `passes` passes) or the limit ends the pool
			for i := 0; i < 5; i++ {
				k, m := r.Range(0, 5), r.Range(0, 3)
				if k+m == 0 {
					k = 1
				}
				passes := r.PickInt([]int{0, 1, 1, 2, 3})
				limit := 0
				switch {
				case passes == 0 && (style == "f" || style == "s"):
					limit = r.Range(1, 14)
				case r.Chance(1, 3):
					limit = r.PickInt([]int{1, k, k + m, k + m + 1, 2*(k+m) + 1, r.Range(1, 14)})
					if limit == 0 {
						limit = 1
					}
				}
				jdCase("none", passes, limit, style, k, m)
			}
		}
		// the real grpc/json provider on a file with a broken element (an undecodable line, a failing Read, a line
		// longer than the scanner's buffer) at every position, under every way the configuration ends the reading
		// (passes 1..3, a limit below / at / above the position, both); the schedule is unlimited: only the
		// provider decides when the pool is out of ammo
		gjCase := func(poison string, passes, limit, k, m int) {
			maxSize := 0
			if poison == "long" && r.Bool() {
				maxSize = r.PickInt([]int{256, 1024})
			}
			ft := fmt.Sprintf("gj-%s-%d-%d-%s-%d", poison, passes, limit, vh.B(poison == "json" && r.Chance(1, 3)), maxSize)
			p := poolPlan{n: r.Range(1, 3), shared: r.Bool(), ammo: m, tokens: -1, fault: ft, k: k, gate: r.Bool()}
			line := "run " + r.Pick([]string{"none", "none", "none", "after"}) + " " + poolStr(p)
			if r.Chance(1, 4) {
				line += " " + poolStr(healthy)
			}
			out = append(out, line)
		}
		for _, poison := range []string{"io", "long", "json", "none"} {
			for _, passes := range []int{1, 1, 2, 3, 0} {
				k, m := r.Range(0, 5), r.Range(0, 3)
				if poison == "none" && k+m == 0 {
					k = 1
				}
				limit := 0
				switch {
				case passes == 0:
					limit = r.Range(1, 8)
				case r.Chance(1, 3):
					limit = r.PickInt([]int{k, k + 1, k + m + 1, r.Range(1, 12)})
				}
				gjCase(poison, passes, limit, k, m)
			}
			// position 0 (before the first ammo) and the very end of the file
			gjCase(poison, 1, 0, 0, r.Range(1, 3))
			gjCase(poison, r.Range(1, 2), 0, r.Range(1, 5), 0)
		}
		// the REAL grpc gun as a component: its warm-up against a reflection endpoint that refuses a request -- the
		// connection, the list of services, the descriptors of a listed service (first / in the middle / last of the
		// list) -- in every way an endpoint can refuse (an ErrorResponse or an RPC status, NOT_FOUND or another code, an
		// answer without the service, undecodable descriptors, an answer of the wrong kind), and against healthy ones
		gwCase := func(cp, dial, list string, svcs []string, k int) {
			ver := r.Pick([]string{"a", "1"})
			sc := r.PickInt([]int{0, 0, 0, 1, 2, 3})
			if dial == "bdead" {
				sc = 0
			}
			rp := ""
			if dial == "ok" && r.Chance(1, 5) {
				rp = "p"
			}
			sv := "none"
			if len(svcs) > 0 {
				sv = strings.Join(svcs, ".")
			}
			ft := fmt.Sprintf("gw-%s%d%s-%s-%s-%s", ver, sc, rp, dial, list, sv)
			p := poolPlan{n: r.Range(1, 3), shared: r.Bool(), ammo: r.Range(2, 6), tokens: r.Range(2, 5), fault: ft, k: k, ctxret: r.Bool()}
			if dial == "bdead" {
				p.n = 3
			}
			if strings.HasPrefix(cp, "shoot") {
				p.ammo, p.tokens = -1, -1
			}
			line := "run " + cp + " " + poolStr(p)
			if r.Chance(1, 4) {
				line += " " + poolStr(healthy)
			}
			out = append(out, line)
		}
		okSvc := func() string { return fmt.Sprintf("ok%d", r.Range(1, 3)) }
		for _, refusal := range []string{"e5", "r5", "nosym", "e7", "e14", "e13", "e2", "e16", "r7", "r13", "r14", "r12", "garbage", "wrongtype"} {
			for pos := 0; pos < 3; pos++ {
				var svcs []string
				before, after := 0, 0
				switch pos {
				case 0:
					after = r.Range(0, 2)
				case 1:
					before, after = r.Range(1, 2), r.Range(1, 2)
				case 2:
					before = r.Range(1, 3)
				}
				for i := 0; i < before; i++ {
					svcs = append(svcs, okSvc())
				}
				svcs = append(svcs, refusal)
				for i := 0; i < after; i++ {
					svcs = append(svcs, okSvc())
				}
				gwCase(r.Pick([]string{"none", "none", "none", "none", "after", "pre"}), "ok", "ok", svcs, 0)
			}
		}
		for _, l := range []string{"e7", "e5", "r14", "r13", "e12", "r5"} { // the list of services itself is refused
			gwCase("none", "ok", l, []string{okSvc(), okSvc()}, 0)
		}
		gwCase("none", "dead", "ok", []string{okSvc()}, 0) // no connection can be made
		gwCase(r.Pick([]string{"none", "after"}), "dead", "ok", []string{okSvc(), "e7"}, 0)
		gwCase("none", "bdead", "ok", []string{okSvc()}, 1) // the first / second instance's gun cannot connect: Bind fails
		gwCase("none", "bdead", "ok", []string{okSvc(), "e5"}, 2)
		// healthy endpoints (1..4 services, one without methods, none at all), several refusals in one list (the first
		// that counts is the one to report), cancels during the run
		gwCase("none", "ok", "ok", []string{okSvc()}, 0)
		gwCase("after", "ok", "ok", []string{okSvc(), okSvc(), "ok0", okSvc()}, 0)
		gwCase("none", "ok", "ok", nil, 0)
		gwCase("none", "ok", "ok", []string{"e5", r.Pick([]string{"e7", "r13", "garbage"}), okSvc(), r.Pick([]string{"e14", "wrongtype"})}, 0)
		gwCase("none", "ok", "ok", []string{okSvc(), "nosym", "r5", "e5"}, 0)
		gwCase("shoot2", "ok", "ok", []string{okSvc(), okSvc()}, 0)
		gwCase(r.Pick([]string{"shoot1", "timed300"}), "ok", "ok", []string{"e5", okSvc()}, 0)
		gwCase("pre", "ok", "ok", []string{okSvc()}, 0)
		// the REAL encoder aggregator as a component, on an encoder / data sink that fails before the first sample, at a
		// sample mid-run, at the periodic or the final flush, at the close of the sink (the very end), or twice
		for _, ft := range []string{"eopen", "eenc", "eenc", "eflush", "eflush", "eclose", "eencclose", "eencclose", "eok",
			"ecloser", "ecloser", "eokc", "eencd", "eencd"} {
			p := poolPlan{n: r.Range(1, 3), shared: r.Bool(), ammo: r.Range(3, 8), tokens: r.Range(3, 6), fault: ft, k: r.Range(1, 3), gate: r.Bool(), ctxret: r.Bool()}
			if ft == "eencd" { // the last sample of the run cannot be encoded: the pool ends by ammo after k shots
				p.shared, p.tokens = true, 8
				p.ammo = r.Range(2, 6)
				p.k = p.ammo
			}
			line := "run " + r.Pick([]string{"none", "none", "none", "after"}) + " " + poolStr(p)
			if r.Chance(1, 3) {
				line += " " + poolStr(healthy)
			}
			out = append(out, line)
		}
		// a transient failure of a periodic (flush-interval) flush, mid-run: only that one Flush call fails -- the 1st /
		// 2nd / a later one --, everything after it (the final flush, the close of the sink) succeeds; with and without an
		// encoder that reports its own flushes; ended by ammo, by schedule, or not at all unless the failure ends the run
		for i, j := range []int{1, 2, r.Range(3, 9), r.Range(1, 4), r.Range(1, 40), r.Range(1, 3)} {
			p := poolPlan{n: r.Range(1, 3), shared: r.Bool(), ammo: r.Range(3, 8), tokens: r.Range(3, 6), fault: fmt.Sprintf("eflusht%d", j), gate: true, ctxret: r.Bool()}
			p.k = r.Range(1, 3)
			if !p.shared {
				p.k = 1
			}
			cp := "none"
			switch i {
			case 3:
				p.ammo = -1
			case 4:
				cp = "after"
			case 5:
				p.ammo, p.tokens = -1, -1
				p.shared = true
			}
			line := "run " + cp + " " + poolStr(p)
			if i%3 == 2 {
				line += " " + poolStr(healthy)
			}
			out = append(out, line)
		}
		// the gun / schedule factory the engine calls is built by the REAL plugin registry from a registered constructor
		// of every supported shape (interface or concrete result, with / without config, with / without an error result,
		// constructor of plugins or of factories); the constructor (or the filling of its config) fails at the warm-up
		// call / for a later instance / never
		for _, what := range []string{"gun", "sched"} {
			for _, shape := range []string{"ie", "pe", "cpe", "cie", "fpe", "fie", "cpen", "pen", "cien", "fpen", "cpef", "cief", "cpf", "cp", "fp"} {
				for _, pos := range []int{0, r.Range(1, 2)} {
					p := poolPlan{n: 3, shared: r.Bool(), ammo: 8, tokens: r.Range(3, 6), fault: "pg-" + what + "-" + shape, k: pos, ctxret: r.Bool()}
					if what == "sched" {
						p.shared = pos == 0
						if !p.shared {
							p.tokens = 2
						}
					}
					if (shape == "cp" || shape == "fp") && pos > 0 {
						continue
					}
					line := "run " + r.Pick([]string{"none", "none", "none", "after"}) + " " + poolStr(p)
					if r.Chance(1, 4) {
						line += " " + poolStr(healthy)
					}
					out = append(out, line)
				}
			}
		}
		// the caller cancels at the very moment Engine.Run has taken a pool's result (failing or nil) from its channel
		for _, ft := range []string{"gun", "warm", "sched", "bind", "panic", "prov", "aggr", "none"} {
			p := poolPlan{n: r.Range(1, 3), shared: true, ammo: r.Range(2, 8), tokens: r.Range(2, 6), fault: ft, ctxret: r.Bool()}
			switch ft {
			case "bind", "panic":
				p.k = r.Range(1, 2)
				p.shared = r.Bool()
			case "prov", "aggr":
				p.k = r.Range(0, 2)
			}
			np := r.Range(1, 2)
			line := fmt.Sprintf("run recv%d %s", r.Range(1, np), poolStr(p))
			if np == 2 {
				line += " " + poolStr(healthy)
			}
			out = append(out, line)
		}
		// random plans
		nr := 40
		for i := 0; i < nr; i++ {
			np := r.Range(1, 3)
			cp := r.Pick([]string{"none", "none", "none", "after", "pre", "shoot1", "shoot3", "timed50", "timed300"})
			line := "run " + cp
			for j := 0; j < np; j++ {
				p := poolPlan{n: r.Range(0, 4), shared: r.Bool(), ammo: r.Range(0, 10), tokens: r.Range(0, 8), ctxret: r.Bool()}
				p.fault = r.Pick(append([]string{"none", "none"}, faults...))
				p.k = r.Range(0, 4)
				p.gate = r.Chance(1, 4)
				if p.fault == "panic" && p.k == 0 {
					p.k = 1
				}
				if strings.HasPrefix(cp, "shoot") && j == 0 && r.Bool() {
					p.tokens, p.ammo = -1, -1
					if p.n == 0 {
						p.n = 1
					}
				}
				line += " " + poolStr(p)
			}
			out = append(out, line)
		}
	}
	// gun bookkeeping (is every created closable gun closed?) is judged on a sample of the same plans
	var guns []string
	for i, l := range out {
		if i%6 == 0 || strings.Contains(l, ",bind,") || (strings.Contains(l, ",pg-gun-") && i%2 == 0) {
			guns = append(guns, "guns"+l[3:])
		}
	}
	out = append(out, guns...)
	// factories of both factory types (with / without an error result) built by the real plugin registry from every
	// constructor shape, called outside the engine; the constructor / its config fill fails at the 1st, 2nd, 3rd call or never
	for _, numOut := range []int{1, 2} {
		for _, shape := range []string{"ie", "pe", "cpe", "cie", "cp", "fpe", "fie", "fp", "i1", "p1", "pen", "cien", "cpef", "cpf"} {
			out = append(out, fmt.Sprintf("fact %d %s %d 3", numOut, shape, r.PickInt([]int{0, 1, 2, 9})))
		}
	}
	return out
}

func main() {
	vh.Main(gen, func(cases []string) []string {
		out := make([]string, len(cases))
		primeGRPC()
		for i, c := range cases {
			out[i] = runCase(c)
		}
		return out
	})
}
