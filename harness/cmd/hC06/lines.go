package main

import (
	"fmt"
	"math"
	"strconv"
	"strings"
	"time"

	"github.com/yandex/pandora/core/aggregator/netsample"

	"verifharness/internal/vh"
)

func parseFields(s string) (out [10]int) {
	p := strings.Split(s, ",")
	for i := 0; i < 10 && i < len(p); i++ {
		v, _ := strconv.ParseInt(p[i], 10, 64)
		out[i] = int(v)
	}
	return
}

// line <withid> <unix-ns> <tag-hex> <id> <f0,...,f9>  ->  hex of the rendered line | panic
func runLine(f []string) (obs string) {
	defer func() {
		if r := recover(); r != nil {
			obs = "panic"
		}
	}()
	ns, _ := strconv.ParseInt(f[2], 10, 64)
	id, _ := strconv.ParseUint(f[4], 10, 64)
	b := netsample.VerifAppendPhout(time.Unix(0, ns), string(vh.UnHex(f[3])), id, parseFields(f[5]), f[1] == "1")
	return vh.Hex(b)
}

// setters <unix-ns> <tag-hex> <id> <rtt-ns> <connect-ns> <send-ns> <latency-ns> <receive-ns> <req> <resp> <net> <proto>
// The sample is filled through the public setters only; observation = Sample.String() (ids on).
func runSetters(f []string) (obs string) {
	defer func() {
		if r := recover(); r != nil {
			obs = "panic"
		}
	}()
	ns, _ := strconv.ParseInt(f[1], 10, 64)
	id, _ := strconv.ParseUint(f[3], 10, 64)
	var v [9]int64
	for i := range v {
		v[i], _ = strconv.ParseInt(f[4+i], 10, 64)
	}
	s := netsample.VerifNewSample(time.Unix(0, ns), "", 0, [10]int{})
	s.AddTag(string(vh.UnHex(f[2])))
	s.SetID(id)
	s.SetUserDuration(time.Duration(v[0]))
	s.SetConnectTime(time.Duration(v[1]))
	s.SetSendTime(time.Duration(v[2]))
	s.SetLatency(time.Duration(v[3]))
	s.SetReceiveTime(time.Duration(v[4]))
	s.SetRequestBytes(int(v[5]))
	s.SetResponseBytes(int(v[6]))
	s.SetUserNet(int(v[7]))
	s.SetUserProto(int(v[8]))
	return vh.HexS(s.String())
}

var tagAlphabet = []string{"a", "b", "Z", "0", "9", "_", "-", "|", "/", ".", " ", "#", "%", "\xd0\xb6", "\xff", "\x00", "\x7f"}

func genTag(r *vh.Rand) string {
	switch r.Intn(12) {
	case 0:
		return ""
	case 1:
		return "tag1|tag2"
	case 2:
		return "__EMPTY__"
	case 3:
		return "with#hash#es"
	case 4: // outside the guard: TAB / LF inside the tag
		return r.Pick([]string{"a\tb", "a\nb", "\t", "x\n"})
	}
	n := r.Range(1, 12)
	var b strings.Builder
	for i := 0; i < n; i++ {
		b.WriteString(r.Pick(tagAlphabet))
	}
	return b.String()
}

func genField(r *vh.Rand) int64 {
	switch r.Intn(10) {
	case 0:
		return 0
	case 1:
		return -1
	case 2:
		return math.MaxInt64
	case 3:
		return math.MinInt64
	case 4:
		return int64(r.PickInt([]int{1, 9, 10, 99, 100, 999, 1000, 110, 200, 404, 777}))
	case 5:
		return -int64(r.Intn(100000))
	case 6:
		return int64(r.U64())
	}
	return int64(r.Intn(5000000))
}

func genNs(r *vh.Rand) int64 {
	var ms int64
	switch r.Intn(10) {
	case 0: // below the guard
		ms = int64(r.PickInt([]int{0, 1, 9, 10, 99, 100, 101, 999, 1000, 1001, 1009, 1010, 1099, 1100, 1999, 10000}))
	case 1:
		ms = -int64(r.PickInt([]int{1, 9, 10, 99, 100, 999, 1000, 1234, 123456}))
	case 2:
		ms = int64(r.Intn(3000))
	default:
		ms = 1400000000000 + int64(r.U64()%600000000000)
		if r.Chance(2, 3) {
			ms = ms - ms%1000 + int64(r.PickInt([]int{0, 1, 9, 10, 99, 100, 999, 500, 5, 50}))
		}
	}
	sub := int64(0)
	if r.Chance(2, 3) {
		sub = int64(r.PickInt([]int{1, 499999, 500000, 999999, r.Intn(1000000)}))
	}
	if ms < 0 {
		return ms*1000000 - sub
	}
	return ms*1000000 + sub
}

func genID(r *vh.Rand) uint64 {
	switch r.Intn(8) {
	case 0:
		return 0
	case 1:
		return math.MaxUint64
	case 2:
		return 1 << 63
	case 3:
		return 1<<63 - 1
	case 4:
		return r.U64()
	}
	return uint64(r.Intn(100000))
}

func genLines(r *vh.Rand, tier string) []string {
	n := 1500
	if tier == "thorough" {
		n = 30000
	}
	var out []string
	// the sample of phout_test.go
	out = append(out, fmt.Sprintf("line 1 1484660999002000000 %s 42 333333,0,0,0,0,0,0,0,13,999", vh.HexS("tag1|tag2")))
	out = append(out, fmt.Sprintf("line 0 1484660999002000000 %s 42 333333,0,0,0,0,0,0,0,13,999", vh.HexS("tag1|tag2")))
	for i := 0; i < n; i++ {
		var fs []string
		for k := 0; k < 10; k++ {
			fs = append(fs, strconv.FormatInt(genField(r), 10))
		}
		out = append(out, fmt.Sprintf("line %s %d %s %d %s", vh.B(r.Chance(2, 3)), genNs(r), vh.HexS(genTag(r)), genID(r), strings.Join(fs, ",")))
	}
	for i := 0; i < n/5; i++ {
		ns := genNs(r)
		var v []string
		for k := 0; k < 5; k++ { // durations in ns, non-negative
			d := int64(r.Intn(3000000000))
			if r.Chance(1, 5) {
				d = int64(r.PickInt([]int{0, 1, 999, 1000, 1001, 1999}))
			}
			v = append(v, strconv.FormatInt(d, 10))
		}
		v = append(v, strconv.Itoa(r.Intn(100000)), strconv.Itoa(r.Intn(10000000)))
		v = append(v, strconv.Itoa(r.PickInt([]int{0, 110, 111, 104, 32, 999, 777, r.Intn(200)})))
		v = append(v, strconv.Itoa(r.PickInt([]int{0, 200, 204, 301, 404, 500, 503, 999, r.Intn(600)})))
		out = append(out, fmt.Sprintf("setters %d %s %d %s", ns, vh.HexS(genTag(r)), genID(r), strings.Join(v, " ")))
	}
	return out
}
