package main

import (
	"context"
	"fmt"
	"strconv"
	"strings"
	"sync"
	"sync/atomic"
	"time"

	"github.com/c2h5oh/datasize"
	"github.com/spf13/afero"
	"github.com/yandex/pandora/core"
	"github.com/yandex/pandora/core/aggregator"
	"github.com/yandex/pandora/core/aggregator/netsample"
	"github.com/yandex/pandora/core/coreutil"
	"github.com/yandex/pandora/core/datasink"
	"github.com/yandex/pandora/core/engine"
	"github.com/yandex/pandora/core/schedule"
	"github.com/yandex/pandora/lib/monitoring"
	"go.uber.org/zap"

	"verifharness/internal/vh"
)

// limitedProvider hands out n ammo, then reports "out of ammo".
type limitedProvider struct{ left int64 }

func (p *limitedProvider) Run(ctx context.Context, _ core.ProviderDeps) error {
	<-ctx.Done()
	return nil
}
func (p *limitedProvider) Acquire() (core.Ammo, bool) {
	if atomic.AddInt64(&p.left, -1) < 0 {
		return nil, false
	}
	return struct{}{}, true
}
func (p *limitedProvider) Release(core.Ammo) {}

// watchAggregator wraps the real aggregator: it remembers the context Run was given and
// counts the Reports that START after that context was cancelled ("late" reports).
type watchAggregator struct {
	inner  core.Aggregator
	mu     sync.Mutex
	ctx    context.Context
	late   int64
	runErr error
	done   chan struct{}
}

func (w *watchAggregator) Run(ctx context.Context, deps core.AggregatorDeps) error {
	w.mu.Lock()
	w.ctx = ctx
	w.mu.Unlock()
	err := w.inner.Run(ctx, deps)
	w.runErr = err
	close(w.done)
	return err
}

func (w *watchAggregator) Report(s core.Sample) {
	w.mu.Lock()
	c := w.ctx
	w.mu.Unlock()
	if c != nil && c.Err() != nil {
		atomic.AddInt64(&w.late, 1)
	}
	w.inner.Report(s)
}

// engStats: shots per instance (instances register at Bind).
type engStats struct {
	mu     sync.Mutex
	counts map[int]int64
}

func (st *engStats) add(inst int, n int64) {
	st.mu.Lock()
	st.counts[inst] += n
	st.mu.Unlock()
}

type engGun struct {
	json  bool
	aggr  core.Aggregator
	inst  int
	n     uint64
	shot  time.Duration
	stats *engStats
}

func (g *engGun) Bind(a core.Aggregator, deps core.GunDeps) error {
	g.aggr = a
	g.inst = deps.InstanceID
	g.stats.add(g.inst, 0)
	return nil
}

// Shoot takes <shot> (a slow exchange that does not watch the context), then reports.
func (g *engGun) Shoot(core.Ammo) {
	if g.shot > 0 {
		time.Sleep(g.shot)
	}
	id := uint64(g.inst)<<idShift | g.n
	g.n++
	g.stats.add(g.inst, 1)
	if g.json {
		g.aggr.Report(mkJSONSample(id))
	} else {
		g.aggr.Report(mkSample(id))
	}
}

// engine <fmt> <instances> <ammo> <Q> <bufsize> [<ramp-per-sec> <shot-us>]
//
// With the two optional fields the startup profile is composite(once <instances>, const <ramp>/s
// for a minute) - instances keep being started while the run goes on, until the ammo runs out -
// and every shot takes <shot-us> before it reports.
//
// The real engine runs one pool to its normal end (out of ammo): <instances> instances of a gun that
// reports one sample per shot into the REAL aggregator (phout | phoutid | json; destination
// in a memory file system), wrapped only to count late reports.
//
// observation:  <engine-err> late=<n> counts=<c0,c1,...> <aggr-err> - <payload>     (payload as in aggr cases)
func runEngine(f []string) (obs string) {
	defer func() {
		if r := recover(); r != nil {
			obs = strings.ReplaceAll(fmt.Sprintf("panic %v", r), "\n", " ")
		}
	}()
	format := f[1]
	instances, _ := strconv.Atoi(f[2])
	ammo, _ := strconv.Atoi(f[3])
	q, _ := strconv.Atoi(f[4])
	bufsize, _ := strconv.Atoi(f[5])
	ramp, shotUs := 0, 0
	if len(f) > 7 {
		ramp, _ = strconv.Atoi(f[6])
		shotUs, _ = strconv.Atoi(f[7])
	}
	fs := afero.NewMemMapFs()
	var inner core.Aggregator
	switch format {
	case "phout", "phoutid":
		a, err := netsample.NewPhout(fs, netsample.PhoutConfig{Destination: "out", ID: format == "phoutid", SampleQueueSize: q,
			Buffer: coreutil.BufferSizeConfig{BufferSize: datasize.ByteSize(bufsize)}})
		if err != nil {
			return "open-failed"
		}
		inner = netsample.WrapAggregator(a)
	case "json":
		conf := aggregator.DefaultJSONLinesAggregatorConfig()
		conf.Sink = datasink.NewFile(fs, datasink.FileConfig{Path: "out"})
		conf.ReporterConfig.SampleQueueSize = q
		conf.FlushInterval = time.Millisecond
		conf.JSONLineEncoderConfig.BufferSizeConfig.BufferSize = datasize.ByteSize(bufsize)
		inner = aggregator.NewJSONLinesAggregator(conf)
	default:
		return "unknown-format"
	}
	w := &watchAggregator{inner: inner, done: make(chan struct{})}
	stats := &engStats{counts: map[int]int64{}}
	var startup core.Schedule = schedule.NewOnce(int64(instances))
	if ramp > 0 {
		startup = schedule.NewComposite(schedule.NewOnce(int64(instances)), schedule.NewConst(float64(ramp), time.Minute))
	}
	conf := engine.InstancePoolConfig{
		ID:              "p",
		Provider:        &limitedProvider{left: int64(ammo)},
		Aggregator:      w,
		NewGun: func() (core.Gun, error) {
			return &engGun{json: format == "json", stats: stats, shot: time.Duration(shotUs) * time.Microsecond}, nil
		},
		RPSPerInstance:  false,
		NewRPSSchedule:  func() (core.Schedule, error) { return schedule.NewUnlimited(time.Hour), nil },
		StartupSchedule: startup,
	}
	metrics := engine.Metrics{Request: &monitoring.Counter{}, Response: &monitoring.Counter{}, InstanceStart: &monitoring.Counter{}, InstanceFinish: &monitoring.Counter{}}
	eng := engine.New(zap.NewNop(), metrics, engine.Config{Pools: []engine.InstancePoolConfig{conf}})
	res := make(chan error, 1)
	go func() { res <- eng.Run(context.Background()) }()
	var runErr error
	select {
	case runErr = <-res:
	case <-time.After(10 * time.Second):
		return "hang"
	}
	waited := make(chan struct{})
	go func() { eng.Wait(); close(waited) }()
	select {
	case <-waited:
	case <-time.After(5 * time.Second):
		return "wait-hang"
	}
	select {
	case <-w.done:
	default:
		return "aggregator-still-running-after-Wait"
	}
	engErr := "nil"
	if runErr != nil {
		engErr = "err"
	}
	aggErr := "nil"
	if w.runErr != nil {
		if d, ok := w.runErr.(*aggregator.SomeSamplesDropped); ok {
			aggErr = fmt.Sprintf("dropped:%d", d.Dropped)
		} else {
			aggErr = "other"
		}
	}
	var cs []string
	stats.mu.Lock()
	maxInst := -1
	for i := range stats.counts {
		if i > maxInst {
			maxInst = i
		}
	}
	for i := 0; i <= maxInst; i++ {
		cs = append(cs, strconv.FormatInt(stats.counts[i], 10))
	}
	stats.mu.Unlock()
	if len(cs) == 0 {
		cs = []string{"-"}
	}
	data, err := afero.ReadFile(fs, "out")
	if err != nil {
		return "unreadable"
	}
	payload := "hex:" + vh.Hex(data)
	if format == "json" {
		payload = jsonPayload(data)
	}
	return fmt.Sprintf("%s late=%d counts=%s %s - %s", engErr, atomic.LoadInt64(&w.late), strings.Join(cs, ","), aggErr, payload)
}

func genEngine(r *vh.Rand, tier string) []string {
	n := 12
	if tier == "thorough" {
		n = 200
	}
	var out []string
	for i := 0; i < n; i++ {
		format := []string{"phout", "phoutid", "json"}[i%3]
		instances := r.Range(1, 8)
		ammo := r.Range(0, 400)
		q := r.Range(1, 64)
		if format == "json" {
			q = ammo + 1 // no drops: the engine's handling of an aggregator error is not this property's subject
		}
		out = append(out, fmt.Sprintf("engine %s %d %d %d %d", format, instances, ammo, q, r.PickInt([]int{0, 4096, 5000, 65536})))
	}
	// instances started over time, slow shots, ammo far below what the schedules would allow:
	// the ammo runs out while the start is still going on and other shots are in flight
	m := 6
	if tier == "thorough" {
		m = 60
	}
	for i := 0; i < m; i++ {
		format := []string{"phout", "json", "phoutid"}[i%3]
		instances := r.Range(1, 4)
		ammo := r.Range(instances, 30)
		q := r.Range(1, 64)
		if format == "json" {
			q = ammo + 1
		}
		out = append(out, fmt.Sprintf("engine %s %d %d %d %d %d %d", format, instances, ammo, q, r.PickInt([]int{0, 4096}),
			r.PickInt([]int{20, 50, 100, 300}), r.PickInt([]int{2000, 5000, 20000, 50000})))
	}
	return out
}
