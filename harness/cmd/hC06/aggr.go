package main

import (
	"bufio"
	"context"
	"encoding/json"
	"errors"
	"fmt"
	"io"
	"os"
	"runtime"
	"strconv"
	"strings"
	"sync"
	"sync/atomic"
	"time"

	"github.com/c2h5oh/datasize"
	"github.com/spf13/afero"
	"github.com/yandex/pandora/core"
	"github.com/yandex/pandora/core/aggregator"
	"github.com/yandex/pandora/core/aggregator/netsample"
	"github.com/yandex/pandora/core/coreutil"
	"github.com/yandex/pandora/core/datasink"
	"github.com/yandex/pandora/lib/ioutil2"
	"go.uber.org/zap"
	"go.uber.org/zap/zapcore"
	"go.uber.org/zap/zaptest/observer"

	"verifharness/internal/vh"
)

// Samples are identified by id = goroutine<<20 | index; everything else is a fixed function
// of the id (the OCaml driver computes the same function, see ocaml/C06/main.ml).
const idShift = 20

func sampleNs(id uint64) int64 { return 1600000000000000000 + int64(id)*1000003 }
func sampleTag(id uint64) string { return "t" + strconv.FormatUint(id>>idShift, 10) }
func sampleFields(id uint64) (f [10]int) {
	for k := 0; k < 10; k++ {
		f[k] = int((id*uint64(k+1))%1009) - 100
	}
	f[7] = int(id)
	return
}

func mkSample(id uint64) *netsample.Sample {
	return netsample.VerifNewSample(time.Unix(0, sampleNs(id)), sampleTag(id), id, sampleFields(id))
}

type jsonSample struct {
	ID   uint64  `json:"id"`
	Tag  string  `json:"tag"`
	Ns   int64   `json:"ns"`
	Vals [10]int `json:"vals"`
}

// Return makes the sample a core.BorrowedSample: the aggregator hands it back after encoding it
// (coreutil.ReturnSampleIfBorrowed); like a pool would, Return wipes it - a sample handed back
// before it was encoded would give a wrong line.
func (s *jsonSample) Return() { *s = jsonSample{} }

func mkJSONSample(id uint64) *jsonSample {
	return &jsonSample{ID: id, Tag: sampleTag(id), Ns: sampleNs(id), Vals: sampleFields(id)}
}

// tabEncoder: a SampleEncoder for NewEncoderAggregator writing the sample's phout line
// (Sample.String(), ids on) through its own bufio buffer.
type tabEncoder struct{ w *bufio.Writer }

func (e *tabEncoder) Encode(s core.Sample) error {
	_, err := e.w.WriteString(s.(*netsample.Sample).String())
	if err == nil {
		err = e.w.WriteByte('\n')
	}
	return err
}
func (e *tabEncoder) Flush() error { return e.w.Flush() }

// tabCloserEncoder: a SampleEncodeCloser ("REQUIRES a Close call to finish encoding"): the LF that ends a
// line is written lazily, by the next Encode or by Close; Flush cannot finish the last line.
type tabCloserEncoder struct {
	w       *bufio.Writer
	pending bool
}

func (e *tabCloserEncoder) Encode(s core.Sample) error {
	if e.pending {
		if err := e.w.WriteByte('\n'); err != nil {
			return err
		}
	}
	e.pending = true
	_, err := e.w.WriteString(s.(*netsample.Sample).String())
	return err
}
func (e *tabCloserEncoder) Flush() error { return e.w.Flush() }
func (e *tabCloserEncoder) Close() error {
	if e.pending {
		e.pending = false
		if err := e.w.WriteByte('\n'); err != nil {
			return err
		}
	}
	return e.w.Flush()
}

type reporter func(id uint64)

// failFs: a memory file system whose files accept `left` more bytes and then fail every Write
// (disk full, broken pipe). The failing Write stores the part that still fits (a short write).
type failFs struct {
	afero.Fs
	left int64
}

var errInjected = errors.New("injected write failure")

type failFile struct {
	afero.File
	fs *failFs
}

func (f *failFile) Write(p []byte) (int, error) {
	left := atomic.LoadInt64(&f.fs.left)
	if int64(len(p)) <= left {
		atomic.AddInt64(&f.fs.left, -int64(len(p)))
		return f.File.Write(p)
	}
	atomic.StoreInt64(&f.fs.left, 0)
	if left > 0 {
		_, _ = f.File.Write(p[:left])
	}
	return int(left), errInjected
}

func (f *failFile) WriteString(s string) (int, error) { return f.Write([]byte(s)) }

func (s *failFs) Create(name string) (afero.File, error) {
	f, err := s.Fs.Create(name)
	if err != nil {
		return nil, err
	}
	return &failFile{File: f, fs: s}, nil
}

func (s *failFs) OpenFile(name string, flag int, perm os.FileMode) (afero.File, error) {
	f, err := s.Fs.OpenFile(name, flag, perm)
	if err != nil {
		return nil, err
	}
	return &failFile{File: f, fs: s}, nil
}

// stallFs: a memory file system whose files block in their FIRST Write for the given time
// (an output that stalls: slow disk, blocked pipe). Everything else is afero's MemMapFs.
type stallFs struct {
	afero.Fs
	stall time.Duration
}

type stallFile struct {
	afero.File
	stall time.Duration
	once  sync.Once
}

func (f *stallFile) Write(p []byte) (int, error) {
	f.once.Do(func() { time.Sleep(f.stall) })
	return f.File.Write(p)
}

func (s *stallFs) Create(name string) (afero.File, error) {
	f, err := s.Fs.Create(name)
	if err != nil {
		return nil, err
	}
	return &stallFile{File: f, stall: s.stall}, nil
}

func (s *stallFs) OpenFile(name string, flag int, perm os.FileMode) (afero.File, error) {
	f, err := s.Fs.OpenFile(name, flag, perm)
	if err != nil {
		return nil, err
	}
	return &stallFile{File: f, stall: s.stall}, nil
}

// aggr <fmt> <Q> <G> <per> <mode> <delay-ms> <bufsize> <salt> [<stall-ms> [<old>]]
//
//	fmt   phout | phoutid | json | tab
//	mode  pre   all reports are made (by one goroutine, round robin over the G reporters) BEFORE Run starts
//	      ser   Run is running; G goroutines report; a harness mutex is held across "Report + log append",
//	            so the global order of the completed Reports is known
//	      free  Run is running; G goroutines report with no extra synchronisation
//	delay  ms between the last completed Report and the cancel; -1 (pre only): cancel before Run starts
//	stall  (optional, 0 = none) the destination's first Write blocks for that long: the queue runs full
//	       while the output stalls; cases with a stall are run concurrently with the other cases (main.go)
//	old    (optional) the destination exists before the aggregator is built (a re-run with the same
//	       config): e = empty, s = 3 old lines, l = more old lines than this run can write,
//	       m = like l but ending in the middle of a line, g = 10 kB of bytes that are not lines.
//	       After Run the destination must consist of exactly this run's lines.
//	       x<hex> (only with a stream destination): the bytes the stream holds before the aggregator is built.
//	dest   (optional, default file) where the results go:
//	       file    a named file on the (memory) file system: Destination / sink: file
//	       stdout  the process' standard output: phout WITHOUT a destination (the zero value of the
//	               config, DefaultPhoutConfig), datasink.NewStdout() for the encoder aggregators
//	       stderr  datasink.NewStderr() (encoder aggregators only)
//	       buffer  datasink.NewBuffer() already holding <old> (encoder aggregators only; appended to, never closed)
//	       ro      a destination that cannot be opened (read-only file system; for tab a DataSinkFunc
//	               returning the error): building / running the aggregator must fail, not report success
//	       For the stream destinations os.Stdout / os.Stderr point to a scratch file while the
//	       aggregator is built (the constructors read the variable once); after Run the stream must
//	       hold what it held before followed by exactly this run's lines.
//
//	fail   (optional, -1 = never; dest file only) the destination accepts that many bytes, then every
//	       Write fails (short write + error). Reports are made before Run (mode pre).
//
// fmt also: tabc = tab with an encoder that implements io.Closer and NEEDS its Close (the LF of the last
// line is written by the next Encode or by Close); log = aggregator.NewLog() (queue of 128, one log
// record "Sample reported: <line>" per sample; the records are the destination).
//
// observation:  <err> <order> <payload>
//
//	err      nil | dropped:<n> | ioerr (the injected write failure, possibly joined with drops) | openerr | other | hang | panic
//	order    ids of the Reports in completion order (pre, ser) or "-" (free)
//	payload  hex:<destination bytes>  (phout, phoutid, tab)  |  ids:<id,...>;bad=<n>  (json: every line parsed with encoding/json)
//	         json on a stream: the payload describes the bytes after the first len(old) ones, and a
//	         fourth field head:<hex> gives those first bytes (judged by the model's this_run)
var stdMu sync.Mutex // os.Stdout / os.Stderr are swapped only under this lock

// withStd runs build() while os.Stdout (or os.Stderr) is the given file.
func withStd(dest string, stream *os.File, build func()) {
	stdMu.Lock()
	defer stdMu.Unlock()
	switch dest {
	case "stdout":
		old := os.Stdout
		os.Stdout = stream
		defer func() { os.Stdout = old }()
	case "stderr":
		old := os.Stderr
		os.Stderr = stream
		defer func() { os.Stderr = old }()
	}
	build()
}

func runAggr(f []string) (obs string) {
	defer func() {
		if r := recover(); r != nil {
			obs = fmt.Sprintf("panic - %v", r)
			obs = strings.ReplaceAll(obs, "\n", " ")
		}
	}()
	format := f[1]
	q, _ := strconv.Atoi(f[2])
	g, _ := strconv.Atoi(f[3])
	per, _ := strconv.Atoi(f[4])
	mode := f[5]
	delay, _ := strconv.Atoi(f[6])
	bufsize, _ := strconv.Atoi(f[7])
	salt, _ := strconv.ParseUint(f[8], 10, 64)
	rnd := vh.NewRand(salt)

	var fs afero.Fs = afero.NewMemMapFs()
	hangAfter := 5 * time.Second
	dest := "file"
	if len(f) > 11 {
		dest = f[11]
	}
	var stream *os.File
	var oldStream []byte
	failAt := int64(-1)
	if len(f) > 12 {
		failAt, _ = strconv.ParseInt(f[12], 10, 64)
	}
	var buffer *datasink.Buffer
	if dest == "ro" {
		fs = afero.NewReadOnlyFs(fs)
	} else if dest == "buffer" {
		if len(f[10]) < 2 || f[10][0] != 'x' {
			return "other - unknown-dest"
		}
		oldStream = vh.UnHex(f[10][1:])
		buffer = datasink.NewBuffer()
		buffer.Write(oldStream)
	} else if dest != "file" {
		if (dest != "stdout" && dest != "stderr") || len(f[10]) < 2 || f[10][0] != 'x' {
			return "other - unknown-dest"
		}
		var err error
		oldStream = vh.UnHex(f[10][1:])
		if stream, err = os.CreateTemp("", "hC06-stream-*"); err != nil {
			return "other - setup"
		}
		defer os.Remove(stream.Name())
		defer stream.Close()
		if _, err = stream.Write(oldStream); err != nil {
			return "other - setup"
		}
	} else if len(f) > 10 {
		if err := afero.WriteFile(fs, "out", oldContent(f[10], format, g*per), 0o644); err != nil {
			return "other - setup"
		}
	}
	if failAt >= 0 {
		fs = &failFs{Fs: fs, left: failAt}
	}
	if len(f) > 9 {
		if ms, _ := strconv.Atoi(f[9]); ms > 0 {
			fs = &stallFs{Fs: fs, stall: time.Duration(ms) * time.Millisecond}
			hangAfter += time.Duration(ms) * time.Millisecond
		}
	}
	var run func(ctx context.Context) error
	var report reporter
	deps := core.AggregatorDeps{Log: zap.NewNop()}
	var records *observer.ObservedLogs
	var sink core.DataSink
	withStd(dest, stream, func() {
		switch dest {
		case "buffer":
			sink = buffer
		case "file", "ro":
			sink = datasink.NewFile(fs, datasink.FileConfig{Path: "out"})
			if dest == "ro" && (format == "tab" || format == "tabc") {
				sink = coreutil.DataSinkFunc(func() (io.WriteCloser, error) { return nil, errors.New("sink cannot be opened") })
			}
		case "stdout":
			sink = datasink.NewStdout()
		case "stderr":
			sink = datasink.NewStderr()
		}
	})
	switch format {
	case "phout", "phoutid":
		conf := netsample.DefaultPhoutConfig() // no destination, no ids, 8 MB buffer
		conf.Destination, conf.ID, conf.SampleQueueSize = "out", format == "phoutid", q
		if bufsize != 0 {
			conf.Buffer = coreutil.BufferSizeConfig{BufferSize: datasize.ByteSize(bufsize)}
		}
		switch dest {
		case "file", "ro":
		case "stdout":
			conf.Destination = "" // no destination: results go to standard output
		default:
			return "other - unknown-dest"
		}
		var a netsample.Aggregator
		var err error
		withStd(dest, stream, func() { a, err = netsample.NewPhout(fs, conf) })
		if err != nil {
			if dest == "ro" && a == nil {
				return "openerr - -"
			}
			return "other - open:" + err.Error()
		}
		run = func(ctx context.Context) error { return a.Run(ctx, deps) }
		report = func(id uint64) { a.Report(mkSample(id)) }
	case "json":
		conf := aggregator.DefaultJSONLinesAggregatorConfig()
		conf.Sink = sink
		conf.ReporterConfig.SampleQueueSize = q
		conf.FlushInterval = time.Duration(1+rnd.Intn(3)) * time.Millisecond
		conf.JSONLineEncoderConfig.BufferSizeConfig.BufferSize = datasize.ByteSize(bufsize)
		a := aggregator.NewJSONLinesAggregator(conf)
		run = func(ctx context.Context) error { return a.Run(ctx, deps) }
		report = func(id uint64) { a.Report(mkJSONSample(id)) }
	case "log":
		if dest != "file" {
			return "other - unknown-dest"
		}
		var zc zapcore.Core
		zc, records = observer.New(zap.InfoLevel)
		deps = core.AggregatorDeps{Log: zap.New(zc)}
		a := aggregator.NewLog()
		run = func(ctx context.Context) error { return a.Run(ctx, deps) }
		report = func(id uint64) { a.Report(mkSample(id)) }
	case "tab", "tabc":
		conf := aggregator.DefaultEncoderAggregatorConfig()
		conf.Sink = sink
		conf.ReporterConfig.SampleQueueSize = q
		conf.FlushInterval = time.Duration(rnd.Intn(3)) * time.Millisecond // 0 = no periodic flush
		a := aggregator.NewEncoderAggregator(func(w io.Writer, onFlush func()) aggregator.SampleEncoder {
			size := bufsize
			if size < 16 {
				size = 16
			}
			if format == "tabc" {
				return &tabCloserEncoder{w: bufio.NewWriterSize(ioutil2.NewCallbackWriter(w, onFlush), size)}
			}
			return &tabEncoder{w: bufio.NewWriterSize(ioutil2.NewCallbackWriter(w, onFlush), size)}
		}, conf)
		run = func(ctx context.Context) error { return a.Run(ctx, deps) }
		report = func(id uint64) { a.Report(mkSample(id)) }
	default:
		return "other - unknown-format"
	}

	ctx, cancel := context.WithCancel(context.Background())
	defer cancel()
	runErr := make(chan error, 1)
	startRun := func() {
		go func() {
			defer func() {
				if r := recover(); r != nil {
					runErr <- fmt.Errorf("panic: %v", r)
				}
			}()
			runErr <- run(ctx)
		}()
	}

	var order []uint64
	switch mode {
	case "pre":
		for j := 0; j < per; j++ {
			for i := 0; i < g; i++ {
				id := uint64(i)<<idShift | uint64(j)
				report(id)
				order = append(order, id)
			}
		}
		if delay < 0 {
			cancel()
		}
		startRun()
	case "ser", "free":
		startRun()
		var mu sync.Mutex
		var wg sync.WaitGroup
		seeds := make([]uint64, g)
		for i := range seeds {
			seeds[i] = rnd.U64()
		}
		for i := 0; i < g; i++ {
			wg.Add(1)
			go func(i int) {
				defer wg.Done()
				r := vh.NewRand(seeds[i])
				for j := 0; j < per; j++ {
					id := uint64(i)<<idShift | uint64(j)
					switch r.Intn(8) { // bursts, yields and short pauses: the queue runs empty and full
					case 0:
						runtime.Gosched()
					case 1:
						time.Sleep(time.Duration(r.Intn(300)) * time.Microsecond)
					}
					if mode == "ser" {
						mu.Lock()
						report(id)
						order = append(order, id)
						mu.Unlock()
					} else {
						report(id)
					}
				}
			}(i)
		}
		wg.Wait()
	default:
		return "other - unknown-mode"
	}
	if delay > 0 {
		time.Sleep(time.Duration(delay) * time.Millisecond)
	}
	cancel()
	var err error
	select {
	case err = <-runErr:
	case <-time.After(hangAfter):
		return "hang - -"
	}
	errField := "nil"
	if err != nil {
		var dropped *aggregator.SomeSamplesDropped
		if d, ok := err.(*aggregator.SomeSamplesDropped); ok {
			dropped = d
		}
		switch {
		case strings.Contains(err.Error(), errInjected.Error()):
			errField = "ioerr"
		case dest == "ro":
			errField = "openerr"
		case dropped != nil && err.Error() == fmt.Sprintf("%d samples were dropped", dropped.Dropped):
			errField = fmt.Sprintf("dropped:%d", dropped.Dropped)
		case strings.HasPrefix(err.Error(), "panic:"):
			errField = "panic"
		default:
			errField = "other"
		}
	}
	orderField := "-"
	if mode != "free" && len(order) > 0 {
		var sb strings.Builder
		for i, id := range order {
			if i > 0 {
				sb.WriteByte(',')
			}
			sb.WriteString(strconv.FormatUint(id, 10))
		}
		orderField = sb.String()
	}
	var data []byte
	var rerr error
	if stream != nil {
		data, rerr = os.ReadFile(stream.Name())
	} else if buffer != nil {
		data = buffer.Bytes()
	} else if records != nil {
		for _, e := range records.All() {
			data = append(data, strings.TrimPrefix(e.Message, "Sample reported: ")...)
			data = append(data, '\n')
		}
	} else if dest == "ro" {
		if ok, _ := afero.Exists(fs, "out"); ok {
			rerr = errors.New("exists")
		}
	} else {
		data, rerr = afero.ReadFile(fs, "out")
	}
	if rerr != nil {
		return errField + " " + orderField + " unreadable"
	}
	if (stream != nil || buffer != nil) && format == "json" {
		n := len(oldStream)
		if n > len(data) {
			n = len(data)
		}
		return fmt.Sprintf("%s %s %s head:%s", errField, orderField, jsonPayload(data[n:]), vh.Hex(data[:n]))
	}
	if format != "json" {
		return errField + " " + orderField + " hex:" + vh.Hex(data)
	}
	return fmt.Sprintf("%s %s %s", errField, orderField, jsonPayload(data))
}

// jsonlines: every line must be one valid JSON value (encoding/json is the oracle) that
// decodes to the reported sample; the unterminated rest of the file, if any, is bad.
func jsonPayload(data []byte) string {
	var ids []string
	bad := 0
	rest := string(data)
	for len(rest) > 0 {
		nl := strings.IndexByte(rest, '\n')
		if nl < 0 {
			bad++
			break
		}
		line := rest[:nl]
		rest = rest[nl+1:]
		var s jsonSample
		dec := json.NewDecoder(strings.NewReader(line))
		dec.DisallowUnknownFields()
		if !json.Valid([]byte(line)) || dec.Decode(&s) != nil || s != *mkJSONSample(s.ID) {
			bad++
			continue
		}
		ids = append(ids, strconv.FormatUint(s.ID, 10))
	}
	return fmt.Sprintf("ids:%s;bad=%d", strings.Join(ids, ","), bad)
}

// oldContent: what an earlier run left at the destination. Old lines are well-formed lines of
// the same format for samples of reporters 900.. (never used by a case), so that anything
// surviving from them is recognisable as not belonging to this run.
func oldContent(kind, format string, reports int) []byte {
	var b []byte
	line := func(i int) {
		id := uint64(900+i%50)<<idShift | uint64(i)
		if format == "json" {
			j, _ := json.Marshal(mkJSONSample(id))
			b = append(b, j...)
		} else {
			b = append(b, netsample.VerifAppendPhout(time.Unix(0, sampleNs(id)), sampleTag(id), id, sampleFields(id), format != "phout")...)
		}
		b = append(b, '\n')
	}
	switch kind {
	case "e":
	case "s":
		for i := 0; i < 3; i++ {
			line(i)
		}
	case "l", "m":
		for i := 0; i < 2*reports+50; i++ {
			line(i)
		}
		if kind == "m" {
			b = b[:len(b)-17]
		}
	case "g":
		for i := 0; i < 10240; i++ {
			b = append(b, byte(33+i%90))
		}
	}
	return b
}

func genAggr(r *vh.Rand, tier string) []string {
	n := 60
	if tier == "thorough" {
		n = 1200
	}
	var out []string
	formats := []string{"phout", "phoutid", "json", "tab"}
	for i := 0; i < n; i++ {
		format := formats[i%4]
		q := r.Range(1, 64)
		if r.Chance(1, 4) {
			q = r.PickInt([]int{1, 2, 3, 64})
		}
		g := r.Range(1, 8)
		per := r.Range(0, 60)
		if tier == "thorough" && r.Chance(1, 6) {
			g = r.Range(8, 32)
			per = r.Range(50, 150)
		}
		mode := r.Pick([]string{"pre", "ser", "ser", "free"})
		delay := r.PickInt([]int{0, 0, 0, 1, 3})
		if mode == "pre" {
			if format == "phout" || format == "phoutid" {
				// a blocking Report on a full queue without Run would never return
				for g*per > q {
					if per > 0 {
						per--
					}
					if g*per > q && g > 1 {
						g--
					}
				}
			}
			delay = r.PickInt([]int{-1, 0, 2, 5, 10})
		}
		bufsize := r.PickInt([]int{0, 1, 4096, 4097, 5000, 65536})
		c := fmt.Sprintf("aggr %s %d %d %d %s %d %d %d", format, q, g, per, mode, delay, bufsize, r.U64()%1000000)
		if r.Chance(1, 3) { // the destination already exists
			c += " 0 " + r.Pick([]string{"e", "s", "l", "l", "m", "m", "g"})
		}
		out = append(out, c)
	}
	// the results go to a stream the process shares (standard output / standard error): phout without a
	// destination, sink: stdout / stderr. The stream may hold earlier output.
	ns := 24
	if tier == "thorough" {
		ns = 400
	}
	for i := 0; i < ns; i++ {
		format := formats[i%4]
		dest := "stdout"
		if format == "json" || format == "tab" {
			dest = r.Pick([]string{"stdout", "stdout", "stderr", "buffer"})
			if format == "tab" && r.Chance(1, 2) {
				format = "tabc"
			}
		}
		q := r.Range(1, 64)
		g := r.Range(1, 8)
		per := r.Range(0, 60)
		mode := r.Pick([]string{"pre", "ser", "ser", "free"})
		delay := r.PickInt([]int{0, 0, 0, 1, 3})
		if mode == "pre" {
			if format == "phout" || format == "phoutid" {
				for g*per > q {
					if per > 0 {
						per--
					}
					if g*per > q && g > 1 {
						g--
					}
				}
			}
			delay = r.PickInt([]int{-1, 0, 2, 5, 10})
		}
		bufsize := r.PickInt([]int{0, 1, 4096, 4097, 5000, 65536})
		var old []byte
		switch r.Intn(4) {
		case 0: // nothing was written to the stream before
		case 1, 2: // earlier result lines (another pool, an earlier run appended to the same log)
			old = oldContent("s", format, 0)
		case 3: // earlier output that is not a line of the format, not even LF-terminated
			old = []byte("pandora: results follow")
		}
		out = append(out, fmt.Sprintf("aggr %s %d %d %d %s %d %d %d 0 x%s %s", format, q, g, per, mode, delay, bufsize, r.U64()%1000000, vh.Hex(old), dest))
	}
	// more aggregator / encoder kinds: the log aggregator (queue of 128), an encoder that needs its Close
	nk := 20
	if tier == "thorough" {
		nk = 200
	}
	for i := 0; i < nk; i++ {
		format := []string{"log", "tabc"}[i%2]
		q := r.Range(1, 64)
		if format == "log" {
			q = 128
		}
		g := r.Range(1, 8)
		per := r.Range(0, 60)
		mode := r.Pick([]string{"pre", "pre", "ser", "ser", "free"})
		delay := r.PickInt([]int{0, 0, 0, 1, 3})
		if mode == "pre" {
			if format == "log" {
				for g*per > q {
					per--
				}
			}
			delay = r.PickInt([]int{-1, -1, 0, 2, 5, 10}) // -1: the queue is full of samples when Run sees the cancel
		}
		c := fmt.Sprintf("aggr %s %d %d %d %s %d %d %d", format, q, g, per, mode, delay, r.PickInt([]int{0, 1, 4096, 65536}), r.U64()%1000000)
		if format == "tabc" && r.Chance(1, 3) {
			c += " 0 " + r.Pick([]string{"e", "s", "l", "m"})
		}
		out = append(out, c)
	}
	// a destination that cannot be opened; a destination that fails after some bytes (reports before Run)
	for _, format := range []string{"phout", "json", "tab", "tabc"} {
		out = append(out, fmt.Sprintf("aggr %s %d %d %d pre 0 4096 %d 0 e ro", format, r.Range(4, 16), r.Range(1, 2), r.Range(1, 2), r.U64()%1000000))
	}
	nf := 16
	if tier == "thorough" {
		nf = 300
	}
	for i := 0; i < nf; i++ {
		format := []string{"phout", "phoutid", "json", "tab", "tabc", "phoutid", "json", "tab"}[i%8]
		g := r.Range(1, 4)
		per := r.Range(1, 12)
		if i%2 == 1 { // more bytes than the smallest write buffer (4 kB): the failure hits while samples are handled
			per = r.Range(30, 60)
		}
		q := g*per + r.Intn(3)
		if (format == "json" || strings.HasPrefix(format, "tab")) && r.Chance(1, 3) {
			q = r.Range(1, g*per) // some reports are dropped before Run starts
		}
		total := 60 * g * per // roughly the bytes of all lines
		failAt := r.PickInt([]int{0, 1, r.Intn(70), r.Intn(total + 1), r.Intn(total + 1), total / 2, 1 << 20})
		out = append(out, fmt.Sprintf("aggr %s %d %d %d pre %d %d %d 0 e file %d", format, q, g, per,
			r.PickInt([]int{0, 2, 5}), r.PickInt([]int{1, 1, 16, 100, 4096}), r.U64()%1000000, failAt))
	}
	// a stalling destination: the queue is full for seconds; a blocking Report must keep waiting,
	// a dropping one must count. (Run concurrently, so the wall time is that of the longest stall.)
	stalls := []int{4000, 1500}
	if tier == "thorough" {
		stalls = []int{500, 1000, 2000, 3000, 4000, 6000, 8000, 12000}
	}
	// Run idle for more than a second before the cancel (the idle flush of phout, the flush ticker of the others);
	// the 1 ms "stall" only makes the case run concurrently with the others
	out = append(out, fmt.Sprintf("aggr %s %d 2 3 pre 1200 4096 %d 1", r.Pick([]string{"phout", "phoutid", "json", "tabc"}), r.Range(6, 16), r.U64()%1000000))
	for i, ms := range stalls {
		format := []string{"phoutid", "json", "phout", "tab"}[i%4]
		out = append(out, fmt.Sprintf("aggr %s %d %d %d free 0 4096 %d %d", format, r.Range(1, 4), r.Range(2, 4), r.Range(80, 120), r.U64()%1000000, ms))
	}
	return out
}
