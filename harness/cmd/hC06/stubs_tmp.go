package main

import "verifharness/internal/vh"

func runAggr(f []string) string                   { return "todo" }
func runEngine(f []string) string                 { return "todo" }
func runSignal(f []string) string                 { return "todo" }
func genAggr(r *vh.Rand, tier string) []string   { return nil }
func genEngine(r *vh.Rand, tier string) []string { return nil }
func genSignal(r *vh.Rand, tier string) []string { return nil }
