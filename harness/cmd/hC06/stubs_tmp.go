package main

import "verifharness/internal/vh"

func runEngine(f []string) string                 { return "todo" }
func runSignal(f []string) string                 { return "todo" }
func genEngine(r *vh.Rand, tier string) []string { return nil }
func genSignal(r *vh.Rand, tier string) []string { return nil }
