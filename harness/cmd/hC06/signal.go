package main

import (
	"bufio"
	"bytes"
	"fmt"
	"os"
	"os/exec"
	"path/filepath"
	"regexp"
	"strconv"
	"strings"
	"sync/atomic"
	"syscall"
	"time"

	"verifharness/internal/vh"
)

var shotSeq int64

// One well-formed phout line with ids on, as a regular expression (used to count; a sample of
// the lines is additionally handed to the Coq parser by the driver).
var phoutLineRe = regexp.MustCompile(`^[0-9]+\.[0-9]{3}\t[^\t\n#]*#([0-9]+)(\t-?[0-9]+){10}$`)

// signal <INT|TERM> <delay-ms> <instances> <work-us> <buffer-bytes>
//
// Runs the pandora-verif binary ($PANDORA_VERIF_BIN: the real cli.Run + one test gun) on a
// config with a phout result file (ids on), sends the signal <delay-ms> after the first report, waits for the
// process to exit and compares the result file with the gun's unbuffered side log.
//
// observation:  <exit> missing=<n> dup=<n> malformed=<n> tail=<0|1> foreign=<0|1> had=<0|1> lines:<hex>,<hex>,<hex> info:<free text without blanks>
//
//	exit       interrupted | timeout | second-signal | rc<N> | hang   (from the process' own last words / exit status)
//	missing    reports that were complete BEFORE the run context was cancelled (side log flag 1) and are not in the file
//	dup        ids occurring more than once in the file
//	malformed  complete lines that are not phout lines
//	tail       1 iff the file is empty or ends with LF (no cut line)
//	foreign    1 iff more ids are in the file but not in the side log than there are instances
//	           (a report can be in the file while its side-log write had not happened yet: at most one per instance)
//	had        1 iff at least one report was complete before the cancel
//	lines      first, middle and last complete line of the file (hex), for the model's parser
func runSignal(f []string) (obs string) {
	delay, _ := strconv.Atoi(f[2])
	instances, _ := strconv.Atoi(f[3])
	workUs, _ := strconv.Atoi(f[4])
	bufBytes, _ := strconv.Atoi(f[5])
	return runProc(f[1], delay, instances, workUs, bufBytes, 0, 0, destField(f, 6))
}

// destField: optional last field of the subprocess cases: "file" (default: destination: <file>) or
// "stdout" (phout WITHOUT a destination: the results are the process' standard output, which the harness
// connects to a file that already holds one line of earlier output).
func destField(f []string, i int) string {
	if len(f) > i {
		return f[i]
	}
	return "file"
}

// end <shots> <instances> <work-us> <buffer-bytes> <dest>
//
// The same subprocess, no signal, no fault: the schedule holds <shots> tokens, the run ends normally and the
// process exits by itself (exit "ok" = status 0). Every report is made before the pool finishes, so every id
// of the side log must be in the result output.
func runEnd(f []string) (obs string) {
	shots, _ := strconv.Atoi(f[1])
	instances, _ := strconv.Atoi(f[2])
	workUs, _ := strconv.Atoi(f[3])
	bufBytes, _ := strconv.Atoi(f[4])
	return runProc("", 0, instances, workUs, bufBytes, 0, shots, destField(f, 5))
}

// fail <after-shots> <instances> <work-us> <buffer-bytes>
//
// The same subprocess, no signal: the shot that draws id <after-shots> panics (gun fault), the
// instance fails, Engine.Run returns an error and the cli takes its failed-run branch
// ("Engine run failed. Awaiting started tasks."). Observation as for signal cases; the orderly
// exit is "failed" (log.Fatal after pandora.Wait() returned), "timeout" = the await timeout fired.
func runFail(f []string) (obs string) {
	after, _ := strconv.Atoi(f[1])
	instances, _ := strconv.Atoi(f[2])
	workUs, _ := strconv.Atoi(f[3])
	bufBytes, _ := strconv.Atoi(f[4])
	return runProc("", 0, instances, workUs, bufBytes, after, 0, destField(f, 5))
}

// stalled fires when the process made no progress for 45 s: its side log (one unbuffered line per report) did not
// grow.  A fixed wall-clock bound would call a long run on a loaded machine a hang (thorough tier: 280000 shots
// of 50 us took more than 45 s next to twenty other jobs); "no report for 45 s and no exit" is load independent:
// after a signal or a failure the reports stop and the process has at most its own await timeouts left.
func stalled(side string, stop <-chan struct{}) <-chan struct{} {
	ch := make(chan struct{})
	go func() {
		last := int64(-1)
		idle := 0
		for {
			select {
			case <-stop:
				return
			case <-time.After(time.Second):
			}
			var sz int64
			if st, err := os.Stat(side); err == nil {
				sz = st.Size()
			}
			if sz != last {
				last = sz
				idle = 0
				continue
			}
			idle++
			if idle >= 45 {
				close(ch)
				return
			}
		}
	}()
	return ch
}

// what the standard output of the subprocess holds before pandora starts (stdout cases)
const stdoutBanner = "# results of pandora-verif follow\n"

func runProc(sigName string, delay, instances, workUs, bufBytes, failAfter, shots int, dest string) (obs string) {
	bin := os.Getenv("PANDORA_VERIF_BIN")
	if bin == "" {
		return "nobinary"
	}
	dir := filepath.Join(filepath.Dir(bin), fmt.Sprintf("shot-%d", atomic.AddInt64(&shotSeq, 1)))
	if err := os.MkdirAll(dir, 0o755); err != nil {
		return "setup-failed"
	}
	defer os.RemoveAll(dir)
	side := filepath.Join(dir, "side.log")
	phout := filepath.Join(dir, "phout.log")
	buffer := ""
	if bufBytes > 0 {
		buffer = fmt.Sprintf("      buffer-size: %d\n", bufBytes)
	}
	destLine := "      destination: " + phout + "\n"
	var stdout *os.File
	if dest == "stdout" {
		destLine = ""
		phout = filepath.Join(dir, "stdout.log")
		var err error
		if stdout, err = os.OpenFile(phout, os.O_WRONLY|os.O_CREATE|os.O_APPEND, 0o644); err != nil {
			return "setup-failed"
		}
		defer stdout.Close()
		if _, err = stdout.WriteString(stdoutBanner); err != nil {
			return "setup-failed"
		}
	} else if dest != "file" {
		return "setup-failed"
	}
	rps := "      type: unlimited\n      duration: 600s\n"
	if shots > 0 {
		rps = fmt.Sprintf("      type: once\n      times: %d\n", shots)
	}
	// discard_overflow off: every report comes from the gun (and is in its side log); with it on the engine itself
	// reports "discarded" samples for overdue schedule tokens, which the side log cannot see
	conf := fmt.Sprintf(`pools:
  - id: p0
    discard_overflow: false
    gun:
      type: verif-gun
      sidelog: %s
      work: %dus
      failafter: %d
    ammo:
      type: dummy
    result:
      type: phout
%s      id: true
%s    rps:
%s    startup:
      type: once
      times: %d
log:
  level: error
  file: stderr
`, side, workUs, failAfter, destLine, buffer, rps, instances)
	confPath := filepath.Join(dir, "load.yaml")
	if err := os.WriteFile(confPath, []byte(conf), 0o644); err != nil {
		return "setup-failed"
	}
	var out bytes.Buffer
	cmd := exec.Command(bin, confPath)
	cmd.Dir = dir
	cmd.Stdout = &out
	cmd.Stderr = &out
	if stdout != nil {
		cmd.Stdout = stdout
	}
	if err := cmd.Start(); err != nil {
		return "start-failed"
	}
	if sigName != "" {
		// the delay counts from the first report (the signal handler is installed right after the
		// engine was started; a signal during process start-up would just kill it by default action)
		for i := 0; i < 3000; i++ {
			if st, err := os.Stat(side); err == nil && st.Size() > 0 {
				break
			}
			time.Sleep(5 * time.Millisecond)
		}
		time.Sleep(time.Duration(delay) * time.Millisecond)
		sig := syscall.SIGINT
		if sigName == "TERM" {
			sig = syscall.SIGTERM
		}
		_ = cmd.Process.Signal(sig)
	}
	done := make(chan error, 1)
	go func() { done <- cmd.Wait() }()
	done2 := make(chan struct{})
	exit := ""
	select {
	case err := <-done:
		rc := 0
		if ee, ok := err.(*exec.ExitError); ok {
			rc = ee.ExitCode()
		}
		text := out.String()
		switch {
		case strings.Contains(text, "Interrupt timeout exceeded") || strings.Contains(text, "Engine tasks timeout exceeded"):
			exit = "timeout"
		case strings.Contains(text, "Pandora graceful shutdown successfully finished") && rc == 1:
			exit = "failed"
		case strings.Contains(text, "Another signal received"):
			exit = "second-signal"
		case strings.Contains(text, "Engine interrupted") && rc == 1:
			exit = "interrupted"
		case rc == 0 && err == nil:
			exit = "ok"
		default:
			exit = fmt.Sprintf("rc%d", rc)
		}
	case <-stalled(side, done2):
		_ = cmd.Process.Kill()
		<-done
		exit = "hang"
	}
	close(done2)

	// side log: "<id> <pre>"
	pre := map[uint64]bool{}
	all := map[uint64]bool{}
	if sf, err := os.Open(side); err == nil {
		sc := bufio.NewScanner(sf)
		for sc.Scan() {
			p := strings.Fields(sc.Text())
			if len(p) != 2 {
				continue
			}
			id, err := strconv.ParseUint(p[0], 10, 64)
			if err != nil {
				continue
			}
			all[id] = true
			if p[1] == "1" {
				pre[id] = true
			}
		}
		sf.Close()
	}
	data, _ := os.ReadFile(phout)
	tail := 1
	if len(data) > 0 && data[len(data)-1] != '\n' {
		tail = 0
	}
	inFile := map[uint64]bool{}
	dup, malformed, foreignN := 0, 0, 0
	var complete [][]byte
	rest := data
	if stdout != nil { // the stream must still begin with what it held before
		if bytes.HasPrefix(data, []byte(stdoutBanner)) {
			rest = data[len(stdoutBanner):]
		} else {
			malformed++
		}
	}
	for len(rest) > 0 {
		nl := bytes.IndexByte(rest, '\n')
		if nl < 0 {
			break // the cut tail is reported through tail=0
		}
		line := rest[:nl]
		rest = rest[nl+1:]
		complete = append(complete, line)
		m := phoutLineRe.FindSubmatch(line)
		if m == nil {
			malformed++
			continue
		}
		id, err := strconv.ParseUint(string(m[1]), 10, 64)
		if err != nil {
			malformed++
			continue
		}
		if inFile[id] {
			dup++
		}
		inFile[id] = true
		if !all[id] {
			foreignN++
		}
	}
	missing := 0
	for id := range pre {
		if !inFile[id] {
			missing++
		}
	}
	foreign := 0
	if foreignN > instances {
		foreign = 1
	}
	var sample []string
	if n := len(complete); n > 0 {
		for _, i := range []int{0, n / 2, n - 1} {
			sample = append(sample, vh.Hex(complete[i]))
		}
	}
	linesField := "-"
	if len(sample) > 0 {
		linesField = strings.Join(sample, ",")
	}
	return fmt.Sprintf("%s missing=%d dup=%d malformed=%d tail=%d foreign=%d had=%s lines:%s info:pre=%d,sidelog=%d,filelines=%d,filebytes=%d,notinsidelog=%d",
		exit, missing, dup, malformed, tail, foreign, vh.B(len(pre) > 0), linesField, len(pre), len(all), len(complete), len(data), foreignN)
}

// failed-run shots: quick 1 (in the corpus), thorough 30 (C06_FAIL_SHOTS overrides)
func genFail(r *vh.Rand, tier string) []string {
	if os.Getenv("PANDORA_VERIF_BIN") == "" {
		return nil
	}
	shots := 0 // quick: the one shot of corpus/C06/seeds.txt
	if tier == "thorough" {
		shots = 30
	}
	if v, err := strconv.Atoi(os.Getenv("C06_FAIL_SHOTS")); err == nil {
		shots = v
	}
	var out []string
	for i := 0; i < shots; i++ {
		if i%3 == 0 { // full-speed reporters: the fault hits with a large unflushed buffer
			out = append(out, fmt.Sprintf("fail %d 4 0 0", 150000+r.Intn(500000)))
		} else {
			out = append(out, fmt.Sprintf("fail %d %d %d %d %s", 1000+r.Intn(300000), r.PickInt([]int{1, 2, 4, 8}), r.PickInt([]int{0, 0, 5, 50}), r.PickInt([]int{0, 0, 65536, 1 << 20}), r.Pick([]string{"file", "file", "stdout"})))
		}
	}
	return out
}

// normal-end shots (the run ends by itself): quick 2, thorough 40 (C06_END_SHOTS overrides); half of them with
// the results on standard output; mostly runs shorter than the aggregator's flush period.
func genEnd(r *vh.Rand, tier string) []string {
	if os.Getenv("PANDORA_VERIF_BIN") == "" {
		return nil
	}
	shots := 2
	if tier == "thorough" {
		shots = 40
	}
	if v, err := strconv.Atoi(os.Getenv("C06_END_SHOTS")); err == nil {
		shots = v
	}
	var out []string
	for i := 0; i < shots; i++ {
		dest := []string{"stdout", "file"}[i%2]
		n := r.PickInt([]int{1, 7, 500, 20000, 200000})
		work := 0
		instances := r.PickInt([]int{1, 2, 4, 8})
		if r.Chance(1, 2) { // shots that take time (a sleep of some us takes up to a ms): fewer of them
			n, work = r.PickInt([]int{1, 7, 200, 1000}), r.PickInt([]int{5, 50})
		}
		if i >= 2 && r.Chance(1, 4) { // a run longer than the flush period
			n, work, instances = 2000+r.Intn(2000), 1000, 4
		}
		out = append(out, fmt.Sprintf("end %d %d %d %d %s", n, instances, work, r.PickInt([]int{0, 0, 4096, 65536}), dest))
	}
	return out
}

func genSignal(r *vh.Rand, tier string) []string {
	if os.Getenv("PANDORA_VERIF_BIN") == "" {
		return nil
	}
	// number of shots: quick 3, thorough 120 (60 instants x 2 signals); C06_SIGNAL_SHOTS overrides
	shots := 3
	if tier == "thorough" {
		shots = 120
	}
	if v, err := strconv.Atoi(os.Getenv("C06_SIGNAL_SHOTS")); err == nil {
		shots = v
	}
	var out []string
	// (corpus/C06/seeds.txt holds one more shot: SIGINT, 4 full-speed reporters)
	if shots > 1 { // full-speed reporters: a large unflushed buffer at the signal
		out = append(out, fmt.Sprintf("signal TERM %d 4 0 0", 350+r.Intn(300)))
	}
	if shots > 2 { // the results on standard output
		out = append(out, fmt.Sprintf("signal INT %d 2 20 65536 stdout", 300+r.Intn(900)))
	}
	for i := 3; i < shots; i++ {
		s := []string{"INT", "TERM"}[i%2]
		delay := 300 + r.Intn(2200)
		instances := r.PickInt([]int{1, 2, 4, 8})
		work := r.PickInt([]int{0, 0, 0, 5, 50, 500, 5000})
		buf := r.PickInt([]int{0, 0, 4096, 65536, 1 << 20})
		out = append(out, fmt.Sprintf("signal %s %d %d %d %d %s", s, delay, instances, work, buf, r.Pick([]string{"file", "file", "stdout"})))
	}
	return out
}
