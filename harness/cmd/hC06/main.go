// hC06: correspondence harness for property C06 (result completeness).
//
// Case kinds (fields separated by one blank; see the per-kind files):
//
//	line <withid> <unix-ns> <tag-hex> <id> <f0,...,f9>        lines.go   real appendPhout (verif hook)
//	setters <unix-ns> <tag-hex> <id> <9 values>               lines.go   public setters + Sample.String()
//	aggr <fmt> <Q> <G> <per> <mode> <delay-ms> <buf> <salt> [<stall-ms> [<old> [<dest>]]]   aggr.go   real aggregators under G reporters
//	engine <fmt> <instances> <ammo> <Q> <buf> [<ramp/s> <shot-us>]  engine.go  real engine, normal end of run (optionally instances started over time, slow shots)
//	signal <INT|TERM> <delay-ms> <instances> <work-us> <buf> [<dest>]  signal.go  pandora-verif subprocess + signal
//	fail <after-shots> <instances> <work-us> <buf> [<dest>]   signal.go  pandora-verif subprocess, gun fault mid-run (failed-run exit path)
//	end <shots> <instances> <work-us> <buf> <dest>            signal.go  pandora-verif subprocess, the run ends by itself (normal exit path)
//
// dest (aggr, signal, fail, end): file | stdout (| stderr for the encoder aggregators): where the results go.
package main

import (
	"strings"
	"sync"

	"verifharness/internal/vh"
)

func runCase(c string) string {
	f := strings.Split(c, " ")
	switch f[0] {
	case "line":
		return runLine(f)
	case "setters":
		return runSetters(f)
	case "aggr":
		return runAggr(f)
	case "engine":
		return runEngine(f)
	case "signal":
		return runSignal(f)
	case "fail":
		return runFail(f)
	case "end":
		return runEnd(f)
	}
	return "unknown-case"
}

func gen(r *vh.Rand, tier string) []string {
	var out []string
	out = append(out, genLines(r, tier)...)
	out = append(out, genAggr(r, tier)...)
	out = append(out, genEngine(r, tier)...)
	out = append(out, genSignal(r, tier)...)
	out = append(out, genFail(r, tier)...)
	out = append(out, genEnd(r, tier)...)
	return out
}

func main() {
	stalling := func(c string) bool {
		f := strings.Split(c, " ")
		return f[0] == "aggr" && len(f) > 9 && f[9] != "0"
	}
	vh.Main(gen, func(cases []string) []string {
		out := make([]string, len(cases))
		// aggr cases with a stalling destination mostly sleep: they run concurrently with the rest
		var wg sync.WaitGroup
		for i, c := range cases {
			if stalling(c) {
				wg.Add(1)
				go func(i int, c string) {
					defer wg.Done()
					out[i] = runCase(c)
				}(i, c)
			}
		}
		for i, c := range cases {
			if stalling(c) {
				continue
			}
			out[i] = runCase(c)
		}
		wg.Wait()
		return out
	})
}
