package main

// Case kind `csv` (round 8): the real file/csv variable source (vs.NewVSCSV + Init + GetVariables) on a
// generated file with generated options.
//
//	csv <delim> <fields> <i|n> <filed> <lines> <filehex>
//	    delim   = hex of the `delimiter` option as written | ~ (not written)
//	    fields  = ~ (no `fields` option) | hex[,hex...] (- = an empty name)
//	    i|n     = ignore_first_line true | false
//	    filed   = hex of the byte that separates the cells of the file
//	    lines   = ~ (raw file: no cell structure is claimed) | line[;line...], line = hexcell[,hexcell...]
//	    filehex = the bytes of the file
//
// observation: err | ok <row>;<row>...   row = hexkey=hexvalue[,...] sorted by key ("-" = no row / empty row)

import (
	"fmt"
	"sort"
	"strings"

	"github.com/spf13/afero"
	"github.com/yandex/pandora/components/providers/scenario/vs"

	"verifharness/internal/vh"
)

func runCsv(f []string) (res string) {
	defer func() {
		if r := recover(); r != nil {
			res = "panic"
		}
	}()
	caseSeq++
	name := fmt.Sprintf("csv%d.csv", caseSeq)
	_ = afero.WriteFile(fs, name, vh.UnHex(f[6]), 0o644)
	cfg := vs.VariableSourceCsv{Name: "t", File: name, IgnoreFirstLine: f[3] == "i"}
	if f[1] != "~" {
		cfg.Delimiter = string(vh.UnHex(f[1]))
	}
	if f[2] != "~" {
		for _, h := range strings.Split(f[2], ",") {
			cfg.Fields = append(cfg.Fields, string(vh.UnHex(h)))
		}
	}
	src, err := vs.NewVSCSV(cfg, fs)
	if err != nil {
		return "err"
	}
	if err := src.Init(); err != nil {
		return "err"
	}
	rows, ok := src.GetVariables().([]map[string]string)
	if !ok {
		return "badtype"
	}
	var out []string
	for _, row := range rows {
		var kv []string
		for k, v := range row {
			kv = append(kv, vh.HexS(k)+"="+vh.HexS(v))
		}
		sort.Strings(kv)
		if len(kv) == 0 {
			out = append(out, "-")
		} else {
			out = append(out, strings.Join(kv, ","))
		}
	}
	if len(out) == 0 {
		return "ok -"
	}
	return "ok " + strings.Join(out, ";")
}

func genCsvCase(r *vh.Rand) string {
	delims := []string{",", ";", "\t", " ", "|"}
	d := r.Pick(delims)
	if r.Chance(1, 12) {
		d = r.Pick([]string{":", "#", "a", "_", "-", "=", "\x01", "~"})
	}
	// the option: usually the delimiter of the file; sometimes absent, another one, padded, several bytes, invalid
	opt := vh.HexS(d)
	switch {
	case d == "," && r.Chance(1, 2):
		opt = "~"
	case r.Chance(1, 10):
		opt = r.Pick([]string{"~", vh.HexS(r.Pick(delims)), vh.HexS(d + " "), vh.HexS(" " + d), vh.HexS(d + d), vh.HexS("\""), vh.HexS("\n"), vh.HexS("\r"), vh.HexS("\x00")})
	}
	// cells: plain words, blanks and the OTHER delimiters inside, empty cells, non-ASCII
	cell := func() string {
		words := []string{"u1", "n0", "John", "7", "", "a b", "x,y", "p;q", "t\tu", "v|w", "\xc3\xbc", "id", "user id", " lead", "trail ", "0", "a_b", "-"}
		for {
			c := r.Pick(words)
			if !strings.Contains(c, d) {
				return c
			}
		}
	}
	w := r.Range(1, 4)
	nl := r.Range(0, 5)
	if r.Chance(1, 10) {
		nl = 0
	}
	var lines [][]string
	for i := 0; i < nl; i++ {
		n := w
		if r.Chance(1, 25) {
			n = r.Range(1, 5) // a ragged line (another number of cells: the reader reports an error)
		}
		l := make([]string, n)
		for j := range l {
			l[j] = cell()
		}
		if n == 1 && l[0] == "" {
			l[0] = "z" // an empty line is no line
		}
		lines = append(lines, l)
	}
	// field names: none, as many as cells, fewer, more; blanks, empty names, duplicates
	fields := "~"
	if r.Chance(3, 5) {
		n := w
		if r.Chance(1, 4) {
			n = r.Range(1, 5)
		}
		var fs []string
		for j := 0; j < n; j++ {
			fs = append(fs, vh.HexS(r.Pick([]string{"id", "name", "user id", "full  name", "", "x", "id", "c" + fmt.Sprint(j), "1", "a b c"})))
		}
		fields = strings.Join(fs, ",")
	}
	ign := r.Pick([]string{"i", "n"})
	var file strings.Builder
	var ls []string
	for _, l := range lines {
		file.WriteString(strings.Join(l, d) + "\n")
		var hs []string
		for _, c := range l {
			hs = append(hs, vh.HexS(c))
		}
		ls = append(ls, strings.Join(hs, ","))
	}
	structure := "~"
	if len(ls) > 0 {
		structure = strings.Join(ls, ";")
	}
	content := file.String()
	if r.Chance(1, 7) {
		// raw flavours the printer does not produce: CRLF line ends, empty lines, no final newline
		structure = "~"
		switch r.Intn(3) {
		case 0:
			content = strings.ReplaceAll(content, "\n", "\r\n")
		case 1:
			content = strings.ReplaceAll(content, "\n", "\n\n")
		default:
			content = strings.TrimSuffix(content, "\n")
		}
	}
	return fmt.Sprintf("csv %s %s %s %s %s %s", opt, fields, ign, vh.HexS(d), structure, vh.HexS(content))
}
