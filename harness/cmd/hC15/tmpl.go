package main

// Case kind `tmpl`: the real scenario templaters (text and html) on a history of Apply calls.
//
//	tmpl <t|h> <tree>[;<tree>...] <call>[;<call>...]
//	  tree     = variable tree (grammar: internal/a15/tree.go; o3 = nil is the only opaque value used)
//	  call     = <treeidx>:<scenhex>:<stephex>:<url>:<hdrs>:<body>
//	  url      = template        hdrs = - | <keyhex>=<template>[+...]        body = - | template
//	  template = E (empty text) | U<hex raw text> (a text template.Parse rejects) | piece[_piece...]
//	  piece    = L<hex>                      literal text (never contains '{' or '<')
//	           | C[<hexfield>[/<hexfield>...]]   {{.f1.f2...}}   ({{.}} without fields)
//	           | F<hex action>~<hex result|!>    an action calling a template function with a
//	                                            deterministic result ('!' = it returns an error)
//
// All calls of a case go to ONE fresh templater, one after the other, on one goroutine.
// Observation per call: ok:<urlhex>:<keyhex=valhex+...|~>:<bodyhex|~>   |  err:<u|h|b>  |  panic

import (
	"fmt"
	"sort"
	"strconv"
	"strings"

	httpscenario "github.com/yandex/pandora/components/guns/http_scenario"
	"github.com/yandex/pandora/components/providers/scenario/http/templater"

	"verifharness/internal/a15"
	"verifharness/internal/vh"
)

func tmplText(t string) string {
	if t == "E" {
		return ""
	}
	if strings.HasPrefix(t, "U") {
		return string(vh.UnHex(t[1:]))
	}
	var b strings.Builder
	for _, p := range strings.Split(t, "_") {
		switch p[0] {
		case 'L':
			b.Write(vh.UnHex(p[1:]))
		case 'C':
			b.WriteString("{{")
			if len(p) == 1 {
				b.WriteString(".")
			} else {
				for _, f := range strings.Split(p[1:], "/") {
					b.WriteString(".")
					b.Write(vh.UnHex(f))
				}
			}
			b.WriteString("}}")
		case 'F':
			b.Write(vh.UnHex(p[1:strings.IndexByte(p, '~')]))
		}
	}
	return b.String()
}

func runTmpl(f []string) string {
	var tp templater.Templater
	if f[1] == "h" {
		tp = templater.NewHTMLTemplater()
	} else {
		tp = templater.NewTextTemplater()
	}
	var trees []map[string]any
	for _, t := range strings.Split(f[2], ";") {
		trees = append(trees, a15.ParseTree(t))
	}
	var out []string
	for _, c := range strings.Split(f[3], ";") {
		cf := strings.Split(c, ":")
		ti, _ := strconv.Atoi(cf[0])
		parts := &httpscenario.RequestParts{Method: "GET", URL: tmplText(cf[3]), Headers: map[string]string{}}
		if cf[4] != "-" {
			for _, h := range strings.Split(cf[4], "+") {
				kv := strings.SplitN(h, "=", 2)
				parts.Headers[string(vh.UnHex(kv[0]))] = tmplText(kv[1])
			}
		}
		if cf[5] != "-" {
			parts.Body = []byte(tmplText(cf[5]))
		}
		res := func() (res string) {
			defer func() {
				if r := recover(); r != nil {
					res = "panic"
				}
			}()
			err := tp.Apply(parts, trees[ti], string(vh.UnHex(cf[1])), string(vh.UnHex(cf[2])))
			if err != nil {
				msg := err.Error()
				switch {
				case strings.Contains(msg, "template.Execute Header"):
					return "err:h"
				case strings.Contains(msg, "template.Execute body"):
					return "err:b"
				default:
					return "err:u"
				}
			}
			hs := "~"
			if len(parts.Headers) > 0 {
				var l []string
				for k, v := range parts.Headers {
					l = append(l, vh.HexS(k)+"="+vh.HexS(v))
				}
				sort.Strings(l)
				hs = strings.Join(l, "+")
			}
			body := "~"
			if parts.Body != nil {
				body = vh.HexS(string(parts.Body))
			}
			return "ok:" + vh.HexS(parts.URL) + ":" + hs + ":" + body
		}()
		out = append(out, res)
	}
	return strings.Join(out, " ")
}

// ---- generator ----

type gval struct {
	kind byte // 's' string, 'n' nil, 'm' map, 'l' list
	s    string
	keys []string
	m    map[string]*gval
	l    []*gval
	lt   byte
}

func (v *gval) print() string {
	switch v.kind {
	case 's':
		return "s" + vh.HexS(v.s)
	case 'n':
		return "o3"
	case 'm':
		var parts []string
		for _, k := range v.keys {
			parts = append(parts, vh.HexS(k)+"="+v.m[k].print())
		}
		return "m(" + strings.Join(parts, ",") + ")"
	default:
		var parts []string
		for _, e := range v.l {
			parts = append(parts, e.print())
		}
		return "l" + string(v.lt) + "(" + strings.Join(parts, ",") + ")"
	}
}

var tmplStrings = []string{"va", "7", "tok-1", "a b", "x<y", "q&r", "it's", "say \"hi\"", "1+1", "", "ü", "k=v;w", "100%", "a/b?c=d"}

func gstr(r *vh.Rand) *gval { return &gval{kind: 's', s: r.Pick(tmplStrings)} }

func gmap(r *vh.Rand, names []string, depth int) *gval {
	v := &gval{kind: 'm', m: map[string]*gval{}}
	for _, k := range names {
		if r.Chance(1, 6) {
			continue
		}
		v.keys = append(v.keys, k)
		switch x := r.Intn(12); {
		case x < 6 || depth <= 0:
			v.m[k] = gstr(r)
		case x < 7:
			v.m[k] = &gval{kind: 'n'}
		case x < 10:
			v.m[k] = gmap(r, []string{"id", "name", "tok", "sub"}, depth-1)
		default:
			l := &gval{kind: 'l', lt: 's'}
			n := r.Intn(4)
			if r.Chance(1, 3) {
				l.lt = 'a'
			}
			for i := 0; i < n; i++ {
				if l.lt == 'a' && r.Chance(1, 4) {
					l.l = append(l.l, &gval{kind: 'n'})
				} else {
					l.l = append(l.l, gstr(r))
				}
			}
			v.m[k] = l
		}
	}
	return v
}

// the tree a gun hands to the templater: source.<src>.<var>, request.<step>.{preprocessor,postprocessor}.<var>
func genTmplTree(r *vh.Rand, steps []string) *gval {
	top := &gval{kind: 'm', m: map[string]*gval{}, keys: []string{"source", "request"}}
	src := &gval{kind: 'm', m: map[string]*gval{}}
	for _, s := range []string{"g", "users"} {
		src.keys = append(src.keys, s)
		src.m[s] = gmap(r, []string{"a", "b", "user", "list"}, 2)
	}
	top.m["source"] = src
	req := &gval{kind: 'm', m: map[string]*gval{}}
	for _, st := range steps {
		if r.Chance(1, 4) {
			continue // the step has not been executed in this shot
		}
		sv := &gval{kind: 'm', m: map[string]*gval{}}
		sv.keys = append(sv.keys, "preprocessor")
		sv.m["preprocessor"] = gmap(r, []string{"x", "y"}, 1)
		if r.Chance(3, 4) {
			sv.keys = append(sv.keys, "postprocessor")
			sv.m["postprocessor"] = gmap(r, []string{"tok", "user", "k"}, 2)
		}
		req.keys = append(req.keys, st)
		req.m[st] = sv
	}
	top.m["request"] = req
	return top
}

// genChain walks a tree and returns a field chain; mode 0 = ends at an existing value, 1 = may
// run through a missing key, 2 = tries to step through a string / nil / list (execution error
// where that happens in the tree at hand)
func genChain(r *vh.Rand, v *gval, mode int) []string {
	var fs []string
	for depth := 0; depth < 6; depth++ {
		if v == nil || v.kind != 'm' || len(v.keys) == 0 {
			break
		}
		if depth > 0 && v.kind == 'm' && r.Chance(1, 12) {
			return fs // a whole map is printed
		}
		if mode == 1 && r.Chance(1, 4) {
			fs = append(fs, r.Pick([]string{"nokey", "missing", "zz"}))
			if r.Bool() {
				fs = append(fs, "deeper")
			}
			return fs
		}
		k := v.keys[r.Intn(len(v.keys))]
		fs = append(fs, k)
		v = v.m[k]
	}
	if mode == 2 && (v == nil || v.kind != 'm') {
		fs = append(fs, r.Pick([]string{"id", "f", "tok"}))
	}
	return fs
}

type funcAct struct{ text, res string }

var funcActs = []funcAct{
	{`{{randString 3 "a"}}`, "aaa"}, {`{{randString 2 "+"}}`, "++"}, {`{{randInt 7 7}}`, "7"}, {`{{ randInt -4 -4 }}`, "-4"},
	{`{{randInt 5 6}}`, "5"}, {`{{randString 1 "<"}}`, "<"},
}
var funcFails = []string{`{{randInt "x"}}`, `{{randString "zz"}}`, `{{randInt 1 2 3}}`}
var badTexts = []string{"/x{{.a", "{{end}}", "/p{{.a | nofunc}}", "{{ \"unterminated }}", "a{{{.b}}", "{{range .x}}"}
var tmplLits = []string{"/q", "/user/", "?a=", "&b=", "/orders", "-", "x y", "{\"k\":\"", "\"}", "'", "v=", "}", "é", "Bearer "}

func printPieces(ps []string) string {
	if len(ps) == 0 {
		return "E"
	}
	return strings.Join(ps, "_")
}

// genTemplate: fail = 0 no failing piece on purpose, 1 a piece that fails at execution is placed
// AFTER pieces that produce output, 2 the text does not parse
func genTemplate(r *vh.Rand, tree *gval, lead string, fail int) string {
	if fail == 2 {
		return "U" + vh.HexS(r.Pick(badTexts))
	}
	var ps []string
	if lead != "" {
		ps = append(ps, "L"+vh.HexS(lead))
	}
	n := r.Range(0, 4)
	if lead == "" && n == 0 && r.Chance(3, 4) {
		n = 1
	}
	for i := 0; i < n; i++ {
		switch x := r.Intn(10); {
		case x < 3:
			ps = append(ps, "L"+vh.HexS(r.Pick(tmplLits)))
		case x < 9:
			mode := 0
			if r.Chance(1, 5) {
				mode = 1
			}
			fs := genChain(r, tree, mode)
			var hx []string
			for _, f := range fs {
				hx = append(hx, vh.HexS(f))
			}
			ps = append(ps, "C"+strings.Join(hx, "/"))
		default:
			a := funcActs[r.Intn(len(funcActs))]
			ps = append(ps, "F"+vh.HexS(a.text)+"~"+vh.HexS(a.res))
		}
	}
	if fail == 1 {
		if len(ps) == 0 || r.Chance(4, 5) {
			ps = append(ps, "L"+vh.HexS(r.Pick(tmplLits)))
		}
		if r.Chance(1, 4) {
			ps = append(ps, "F"+vh.HexS(r.Pick(funcFails))+"~!")
		} else {
			fs := genChain(r, tree, 2)
			var hx []string
			for _, f := range fs {
				hx = append(hx, vh.HexS(f))
			}
			ps = append(ps, "C"+strings.Join(hx, "/"))
		}
		if r.Bool() {
			ps = append(ps, "L"+vh.HexS(r.Pick(tmplLits)))
		}
	}
	return printPieces(ps)
}

func genTmplCase(r *vh.Rand) string {
	kind := "t"
	if r.Chance(1, 3) {
		kind = "h"
	}
	nsteps := r.Range(1, 4)
	var steps []string
	for i := 0; i < nsteps; i++ {
		steps = append(steps, fmt.Sprintf("r%d", i))
	}
	ntrees := r.Range(1, 3)
	var trees []*gval
	var tp []string
	for i := 0; i < ntrees; i++ {
		t := genTmplTree(r, steps)
		trees = append(trees, t)
		tp = append(tp, t.print())
	}
	scens := []string{"s0", "s0", "s1"}
	// the parts of every (scenario, step): fixed by the description
	type stepParts struct{ scen, step, url, hdrs, body string }
	var defs []stepParts
	for _, st := range steps {
		sc := r.Pick(scens)
		failAt := -1 // which part carries a failing template: 0 url, 1 a header, 2 body
		failKind := 1
		if r.Chance(2, 5) {
			failAt = r.Intn(3)
			if r.Chance(1, 5) {
				failKind = 2
			}
		}
		fk := func(part int) int {
			if part == failAt {
				return failKind
			}
			return 0
		}
		tree := trees[r.Intn(len(trees))]
		url := genTemplate(r, tree, r.Pick([]string{"/q", "/user/", "/", ""}), fk(0))
		var hs []string
		nh := r.Intn(4)
		if failAt == 1 && nh == 0 {
			nh = 1
		}
		names := []string{"X-Vars", "X-Ref", "Authorization", "url", "body", "X-A"}
		bad := r.Intn(nh + 1)
		for h := 0; h < nh; h++ {
			j := r.Intn(len(names))
			k := 0
			if h == bad || nh == 1 {
				k = fk(1)
			}
			hs = append(hs, vh.HexS(names[j])+"="+genTemplate(r, tree, "", k))
			names = append(names[:j], names[j+1:]...)
		}
		hdrs := "-"
		if len(hs) > 0 {
			hdrs = strings.Join(hs, "+")
		}
		body := "-"
		if r.Bool() || failAt == 2 {
			body = genTemplate(r, tree, "", fk(2))
		}
		defs = append(defs, stepParts{sc, st, url, hdrs, body})
	}
	ncalls := r.Range(3, 10)
	var calls []string
	for i := 0; i < ncalls; i++ {
		d := defs[r.Intn(len(defs))]
		calls = append(calls, fmt.Sprintf("%d:%s:%s:%s:%s:%s", r.Intn(ntrees), vh.HexS(d.scen), vh.HexS(d.step), d.url, d.hdrs, d.body))
	}
	return fmt.Sprintf("tmpl %s %s %s", kind, strings.Join(tp, ";"), strings.Join(calls, ";"))
}
