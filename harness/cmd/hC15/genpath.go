package main

// Generator of the `path` cases: variable trees in which the same list name occurs under several
// parents, and sequences of path expressions evaluated on one iterator.

import (
	"fmt"
	"strings"

	"verifharness/internal/vh"
)

type listAddr struct {
	addr   string // canonical path of the list, e.g. source.eu.users or source.j.groups[1].users
	n      int
	maps   bool // elements are maps with fields id, name
	parent string
}

type pathGen struct {
	r     *vh.Rand
	lists []listAddr
}

func (g *pathGen) str(s string) string { return "s" + vh.HexS(s) }

func (g *pathGen) entry(k, v string) string { return vh.HexS(k) + "=" + v }

// list builds a list value living at addr and records its address.
func (g *pathGen) list(addr string) string {
	r := g.r
	n := r.Range(1, 5)
	if r.Chance(1, 14) {
		n = 0
	}
	short := strings.NewReplacer("source.", "", ".", "", "[", "", "]", "").Replace(addr)
	var elems []string
	kind := r.Intn(6)
	maps := kind >= 3
	for i := 0; i < n; i++ {
		switch kind {
		case 0, 1: // strings
			elems = append(elems, g.str(fmt.Sprintf("%s#%d", short, i)))
		case 2: // ints
			elems = append(elems, g.str(fmt.Sprint(100*len(g.lists)+i)))
		default:
			elems = append(elems, "m("+g.entry("id", g.str(fmt.Sprintf("%s#%d", short, i)))+","+g.entry("name", g.str(fmt.Sprintf("n%d", i)))+")")
		}
	}
	t := map[int]string{0: "s", 1: "a", 2: "i", 3: "m", 4: "z", 5: "a"}[kind]
	if kind == 5 && n > 1 && r.Chance(1, 3) { // a mixed []any
		elems[r.Intn(n)] = r.Pick([]string{"o0", "o1", "o3", g.str("plain"), "la(" + g.str("in") + ")"})
	}
	g.lists = append(g.lists, listAddr{addr: addr, n: n, maps: maps})
	return "l" + t + "(" + strings.Join(elems, ",") + ")"
}

func (g *pathGen) tree() string {
	r := g.r
	var src []string
	for _, p := range []string{"eu", "us", "ru"} {
		if r.Chance(3, 4) {
			var ks []string
			for _, l := range []string{"users", "items"} {
				if r.Chance(3, 4) {
					ks = append(ks, g.entry(l, g.list("source."+p+"."+l)))
				}
			}
			if r.Chance(1, 4) {
				ks = append(ks, g.entry("note", r.Pick([]string{g.str("x"), "o0", "o1", "o2", "o3"})))
			}
			src = append(src, g.entry(p, "m("+strings.Join(ks, ",")+")"))
		}
	}
	for _, l := range []string{"users", "items"} {
		if r.Chance(1, 2) {
			src = append(src, g.entry(l, g.list("source."+l)))
		}
	}
	if r.Chance(2, 3) {
		ng := r.Range(1, 3)
		var gs []string
		for i := 0; i < ng; i++ {
			gs = append(gs, "m("+g.entry("users", g.list(fmt.Sprintf("source.j.groups[%d].users", i)))+","+g.entry("name", g.str(fmt.Sprintf("g%d", i)))+")")
		}
		src = append(src, g.entry("j", "m("+g.entry("groups", "l"+r.Pick([]string{"m", "a"})+"("+strings.Join(gs, ",")+")")+")"))
	}
	src = append(src, g.entry("g", "m("+g.entry("a", g.str("va"))+","+g.entry("b", g.str("vb"))+")"))
	top := []string{g.entry("source", "m("+strings.Join(src, ",")+")")}
	if r.Chance(1, 2) {
		top = append(top, g.entry("request", "m("+g.entry("r0", "m("+g.entry("postprocessor", "m("+g.entry("items", g.list("request.r0.postprocessor.items"))+")")+")")+","+
			g.entry("r1", "m("+g.entry("postprocessor", "m("+g.entry("items", g.list("request.r1.postprocessor.items"))+")")+")")+")"))
	}
	return "m(" + strings.Join(top, ",") + ")"
}

func lastName(addr string) string { return addr[strings.LastIndexByte(addr, '.')+1:] }

// nextPath: the canonical [next] path of a list, with a field when the elements are maps
func (g *pathGen) nextPath(l listAddr) string {
	p := l.addr + "[next]"
	if l.maps && g.r.Chance(3, 4) {
		p += "." + g.r.Pick([]string{"id", "id", "name", "id", "zz"})
	}
	return p
}

func (g *pathGen) noisy(l listAddr) string {
	r := g.r
	segs := strings.Split(l.addr, ".")
	last := segs[len(segs)-1]
	ix := r.Pick([]string{"next", "next", "NEXT", " next ", "Next", "last", "LAST", "rand", "rand", "0", "1", "-1", "+1", "7", "-9", "99",
		"9223372036854775807", "9223372036854775808", "x", "", "1 ", "ne xt", "0x1", "1_0"})
	segs[len(segs)-1] = last + "[" + ix + "]"
	switch r.Intn(8) {
	case 0:
		for i := range segs {
			segs[i] = r.Pick([]string{"", " ", "\t"}) + segs[i] + r.Pick([]string{"", " ", "  "})
		}
	case 1:
		segs[0] = "." + segs[0]
	case 2:
		segs[len(segs)-1] = last + r.Pick([]string{"[next", "next]", "[", "]", "[next]]", "[[next]", "[next] x"})
	case 3:
		segs[r.Intn(len(segs))] = r.Pick([]string{"nope", "", "Users", "g"})
	}
	p := strings.Join(segs, ".")
	if l.maps && r.Chance(1, 2) {
		p += "." + r.Pick([]string{"id", "name", "id.more", "zz", " id"})
	} else if r.Chance(1, 6) {
		p += "." + r.Pick([]string{"id", "x[next]", "[0]"})
	}
	return p
}

func genPathCase(r *vh.Rand) string {
	g := &pathGen{r: r}
	var tree string
	for {
		g.lists = nil
		tree = g.tree()
		if len(g.lists) >= 2 {
			break
		}
	}
	// prefer lists that share their last name
	name := lastName(g.lists[r.Intn(len(g.lists))].addr)
	var chosen []listAddr
	for _, l := range g.lists {
		if lastName(l.addr) == name || r.Chance(1, 4) {
			chosen = append(chosen, l)
		}
	}
	if len(chosen) > 4 {
		chosen = chosen[:4]
	}
	canonical := r.Chance(3, 5)
	var pool []string
	for _, l := range chosen {
		pool = append(pool, g.nextPath(l))
	}
	if r.Chance(1, 2) {
		l := g.lists[r.Intn(len(g.lists))]
		pool = append(pool, r.Pick([]string{l.addr + "[0]", l.addr + "[1]", l.addr + "[3]", l.addr + "[12]", l.addr, "source.g.a", "source.g", "source.g.zz", "source.g.a.b"}))
	}
	// a nested list reached through another index
	for _, l := range g.lists {
		if strings.Contains(l.addr, "groups[") && r.Chance(1, 3) {
			pool = append(pool, "source.j.groups["+r.Pick([]string{"next", "last", "0", "-1", "rand", "1"})+"].users[next]")
			break
		}
	}
	if !canonical {
		for i, k := 0, r.Range(1, 4); i < k; i++ {
			pool = append(pool, g.noisy(g.lists[r.Intn(len(g.lists))]))
		}
		if r.Chance(1, 5) {
			pool = append(pool, r.Pick([]string{"", ".", "..", "source", " source ", ".source.g.a", "..source", "source..g"}))
		}
	}
	n := r.Range(6, 24)
	var paths []string
	for i := 0; i < n; i++ {
		paths = append(paths, vh.HexS(pool[r.Intn(len(pool))]))
	}
	var draws []string
	for i := 0; i < 2*n+2; i++ {
		d := r.Intn(3)
		if r.Chance(1, 12) {
			d = r.Range(3, 7)
		}
		draws = append(draws, fmt.Sprint(d))
	}
	return fmt.Sprintf("path %s %s %s", tree, strings.Join(draws, ","), strings.Join(paths, ","))
}
