// hC15: correspondence harness for property C15 (scenario execution).
//
// Case kinds (blank separated fields; grammar of the description fields in internal/a15/spec.go):
//
//	parse <hex>                                       real config.ParseShootName on the string
//	pp <form> <name> <n> <s> <b0>..<b6>               (hex fields) print the documented form, parse it
//	gcd <a> <b> | gcdm <w,w,...>                      real lib/math GCD / GCDM
//	build <nacq> <tables> <reqs> <scens>              real http.NewProvider; ring order over nacq acquisitions,
//	                                                  expansion (request, pause) of every delivered scenario
//	shot <nshots> <script> <tables> <reqs> <scens> [gun:d|gun:f]
//	                                                  provider + ONE gun against the scripted target; per shot:
//	                                                  request log with the variables each template saw, samples.
//	                                                  The gun is built from the `gun:` section of a pool config
//	                                                  through the plugin registry (registered defaults): gun:d =
//	                                                  type and target only, gun:f = `redirect: false` written too,
//	                                                  gun:2 = http2/scenario (type, target) over TLS + HTTP/2
//	inst <instances> <total> <tables> <reqs> <scens>  provider + several guns concurrently; rows seen per scenario
//	iter <goroutines> <per> <len> <rounds>            real mp.NextIterator / GetMapValue from several goroutines;
//	                                                  <rounds> start-ups per arena with simultaneous first calls
//	path <tree> <draws|-> <hexpath>[,<hexpath>...]    real mp.GetMapValue on a variable tree (grammar: internal/a15/tree.go),
//	                                                  the listed paths one after the other on ONE real NextIterator
//	                                                  (iter.Rand answers the listed draws); one result per path
//	csv <delim> <fields> <i|n> <filed> <lines> <file>  real file/csv variable source on a generated file (grammar: csvsrc.go)
//	tmpl <t|h> <trees> <calls>                        real TextTemplater / HTMLTemplater: a history of Apply calls on ONE
//	                                                  templater (grammar: tmpl.go); one result per call
package main

import (
	"context"
	"fmt"
	"io"
	"os"
	"os/exec"
	"reflect"
	"runtime"
	"sort"
	"strconv"
	"strings"
	"sync"
	"sync/atomic"
	"time"

	"github.com/spf13/afero"
	httpscenario "github.com/yandex/pandora/components/guns/http_scenario"
	ammo "github.com/yandex/pandora/components/providers/scenario"
	sconfig "github.com/yandex/pandora/components/providers/scenario/config"
	httpammo "github.com/yandex/pandora/components/providers/scenario/http"
	_import "github.com/yandex/pandora/components/providers/scenario/import"
	"github.com/yandex/pandora/core"
	"github.com/yandex/pandora/core/aggregator/netsample"
	coreconfig "github.com/yandex/pandora/core/config"
	"github.com/yandex/pandora/core/plugin/pluginconfig"
	pmath "github.com/yandex/pandora/lib/math"
	"github.com/yandex/pandora/lib/mp"
	"go.uber.org/zap"

	"verifharness/internal/a15"
	"verifharness/internal/vh"
)

var (
	fs      afero.Fs
	target  *a15.Target
	caseSeq int
)

type recAggr struct {
	mu      sync.Mutex
	samples []*netsample.Sample
}

func (r *recAggr) Run(ctx context.Context, deps core.AggregatorDeps) error { return nil }
func (r *recAggr) Report(s *netsample.Sample) {
	r.mu.Lock()
	r.samples = append(r.samples, s)
	r.mu.Unlock()
}
func (r *recAggr) n() int {
	r.mu.Lock()
	defer r.mu.Unlock()
	return len(r.samples)
}

// newProvider writes the description into the shared in-memory fs and calls the real
// constructor; outcome "ok", "err" or "panic".
func newProvider(spec a15.Spec) (p core.Provider, outcome string, detail string) {
	caseSeq++
	prefix := fmt.Sprintf("c%d_", caseSeq)
	for _, t := range spec.Tables {
		_ = afero.WriteFile(fs, prefix+t.Name+".csv", []byte(t.CSV()), 0o644)
	}
	file := prefix + "scenario.yaml"
	_ = afero.WriteFile(fs, file, spec.YAML(prefix), 0o644)
	defer func() {
		if r := recover(); r != nil {
			p, outcome, detail = nil, "panic", fmt.Sprint(r)
		}
	}()
	pr, err := httpammo.NewProvider(fs, ammo.ProviderConfig{File: file})
	if err != nil {
		return nil, "err", err.Error()
	}
	return pr, "ok", ""
}

type acquired struct {
	sc *httpscenario.Scenario
	ok bool
}

// acquire with a bounded wait (a provider that stops delivering is observed as "hang")
func acquire(p core.Provider) (*httpscenario.Scenario, string) {
	ch := make(chan acquired, 1)
	go func() {
		am, ok := p.Acquire()
		if !ok {
			ch <- acquired{nil, false}
			return
		}
		sc, _ := am.(*httpscenario.Scenario)
		ch <- acquired{sc, sc != nil}
	}()
	select {
	case a := <-ch:
		if !a.ok {
			return nil, "closed"
		}
		return a.sc, ""
	case <-time.After(5 * time.Second):
		return nil, "hang"
	}
}

func reqID(uri string) string {
	// "/q<id>?a=..."
	s := strings.TrimPrefix(uri, "/q")
	if i := strings.IndexByte(s, '?'); i >= 0 {
		s = s[:i]
	}
	return s
}

func expansion(sc *httpscenario.Scenario) string {
	var parts []string
	for _, r := range sc.Requests {
		ms := "x" // not a whole number of milliseconds
		if r.Sleep%time.Millisecond == 0 {
			ms = strconv.FormatInt(int64(r.Sleep/time.Millisecond), 10)
		}
		parts = append(parts, reqID(r.URI)+"/"+ms)
	}
	// the scenario-level pause the gun will honour for this (cloned) ammo
	mw := "x"
	if sc.MinWaitingTime%time.Millisecond == 0 {
		mw = strconv.FormatInt(int64(sc.MinWaitingTime/time.Millisecond), 10)
	}
	if len(parts) == 0 {
		return "-@" + mw
	}
	return strings.Join(parts, ".") + "@" + mw
}

func runProvider(p core.Provider) context.CancelFunc {
	ctx, cancel := context.WithCancel(context.Background())
	go func() { _ = p.Run(ctx, core.ProviderDeps{Log: zap.NewNop(), PoolID: "verif"}) }()
	return cancel
}

// regGun: a gun built the way an instance pool builds it: the `gun:` section of a pool config decoded
// through the plugin registry (the registered constructor and its registered DEFAULT config), so
// every option the description does not write has the value a user gets.
type regGun struct{ g core.Gun }

func (r regGun) Shoot(a core.Ammo) { r.g.Shoot(a) }
func (r regGun) Close() {
	// the registered wrapper does not expose Close; its exported field Gun does
	v := reflect.ValueOf(r.g)
	if v.Kind() == reflect.Ptr && v.Elem().Kind() == reflect.Struct {
		if f := v.Elem().FieldByName("Gun"); f.IsValid() && f.CanInterface() {
			if c, ok := f.Interface().(io.Closer); ok {
				_ = c.Close()
			}
		}
	}
}

// gunOpt: "d" = only type and target are written; "f" = `redirect: false` is written as well;
// "2" = the http2/scenario gun (type and target only) against the TLS + HTTP/2 side of the target
func newGun(ag netsample.Aggregator, id int, gunOpt string) regGun {
	section := map[string]interface{}{"type": "http/scenario", "target": target.Addr()}
	if gunOpt == "f" {
		section["redirect"] = false
	}
	if gunOpt == "2" {
		section = map[string]interface{}{"type": "http2/scenario", "target": target.AddrTLS()}
	}
	var d struct {
		Gun func() (core.Gun, error)
	}
	if err := coreconfig.DecodeAndValidate(map[string]interface{}{"gun": section}, &d); err != nil {
		panic("gun section rejected: " + err.Error())
	}
	g, err := d.Gun()
	if err != nil {
		panic("gun constructor: " + err.Error())
	}
	_ = g.Bind(netsample.WrapAggregator(ag), core.GunDeps{Ctx: context.Background(), Log: zap.NewNop(), PoolID: "verif", InstanceID: id})
	return regGun{g}
}

func runBuild(f []string) string {
	nacq, _ := strconv.Atoi(f[1])
	spec := a15.ParseSpec(f[2], f[3], f[4])
	p, outcome, _ := newProvider(spec)
	if outcome != "ok" {
		return outcome
	}
	cancel := runProvider(p)
	defer cancel()
	var ring []string
	var exps []string
	seen := map[string]bool{}
	for i := 0; i < nacq; i++ {
		sc, why := acquire(p)
		if sc == nil {
			return "ok ring=" + strings.Join(ring, ",") + " " + why
		}
		ring = append(ring, sc.Name)
		if !seen[sc.Name] {
			seen[sc.Name] = true
			exps = append(exps, sc.Name+":"+expansion(sc))
		}
	}
	return "ok ring=" + strings.Join(ring, ",") + " exp=" + strings.Join(exps, ";")
}

func sampleStr(s *netsample.Sample) string {
	e := "0"
	if s.Err() != nil {
		e = "1"
	}
	return fmt.Sprintf("%s/%d/%s", vh.HexS(s.Tags()), s.ProtoCode(), e)
}

func runShot(f []string) (result string) {
	defer func() {
		if r := recover(); r != nil {
			result = "gun-construction-failed"
		}
	}()
	nshots, _ := strconv.Atoi(f[1])
	script := a15.ParseScript(f[2])
	spec := a15.ParseSpec(f[3], f[4], f[5])
	p, outcome, _ := newProvider(spec)
	if outcome != "ok" {
		return outcome
	}
	target.Reset(script)
	cancel := runProvider(p)
	defer cancel()
	ag := &recAggr{}
	gunOpt := "d"
	if len(f) > 6 {
		gunOpt = strings.TrimPrefix(f[6], "gun:")
	}
	g := newGun(ag, 1, gunOpt)
	defer g.Close()
	var out []string
	for i := 0; i < nshots; i++ {
		sc, why := acquire(p)
		if sc == nil {
			out = append(out, why)
			break
		}
		a0, s0 := target.Len(), ag.n()
		begin := time.Now()
		res := make(chan string, 1)
		go func() {
			defer func() {
				if r := recover(); r != nil {
					res <- "panic"
				}
			}()
			g.Shoot(sc)
			res <- ""
		}()
		select {
		case r := <-res:
			if r != "" {
				out = append(out, "["+sc.Name+" "+r+"]")
				continue
			}
		case <-time.After(20 * time.Second):
			out = append(out, "["+sc.Name+" hang]")
			return "ok " + strings.Join(out, " ")
		}
		end := time.Now()
		arr := target.Log()[a0:]
		var sends []string
		for _, a := range arr {
			ref := "~"
			if a.HasRef {
				ref = vh.HexS(a.Ref)
			}
			bodyOK := (a.Method == "POST" && a.Body == a.Vars) || (a.Method != "POST" && a.Body == "")
			sends = append(sends, fmt.Sprintf("%s/%s/%s/%s/%s", strings.TrimPrefix(a.Path, "/q"), vh.HexS(a.Vars), ref, a.A, vh.B(bodyOK)))
		}
		ag.mu.Lock()
		var samples []string
		nOK := 0
		for _, s := range ag.samples[s0:] {
			samples = append(samples, sampleStr(s))
			if s.Err() == nil {
				nOK++
			}
		}
		ag.mu.Unlock()
		// pauses: the gap after arrival i is at least Requests[i].Sleep (arrival i = step i)
		pauseOK := true
		for j := range arr {
			if j >= len(sc.Requests) {
				pauseOK = false
				break
			}
			want := sc.Requests[j].Sleep
			if want <= 0 {
				continue
			}
			if j+1 < len(arr) {
				if arr[j+1].At.Sub(arr[j].At) < want {
					pauseOK = false
				}
			} else if j < nOK { // the last request that arrived belongs to a step that succeeded
				if end.Sub(arr[j].At) < want {
					pauseOK = false
				}
			}
		}
		j := func(x []string) string {
			if len(x) == 0 {
				return "-"
			}
			return strings.Join(x, ",")
		}
		// min_waiting_time as WRITTEN in the description (not the field of the acquired ammo): a shot
		// whose steps all succeeded lasts at least that long, and not much longer than
		// max(min_waiting_time, sum of the step pauses) when the steps are fast
		minOK := true
		var written, sumSleep time.Duration
		for _, s := range spec.Scens {
			if s.Name == sc.Name {
				written = time.Duration(s.MinWait) * time.Millisecond
			}
		}
		for _, r := range sc.Requests {
			if r.Sleep > 0 {
				sumSleep += r.Sleep
			}
		}
		if nOK == len(samples) && len(samples) == len(sc.Requests) {
			wall := end.Sub(begin)
			lim := written
			if sumSleep > lim {
				lim = sumSleep
			}
			if wall < written || wall > lim+5*time.Second {
				minOK = false
			}
		}
		out = append(out, fmt.Sprintf("[%s exp=%s sends=%s samples=%s pause=%s minw=%s]", sc.Name, expansion(sc), j(sends), j(samples), vh.B(pauseOK), vh.B(minOK)))
	}
	return "ok " + strings.Join(out, " ")
}

func runInst(f []string) string {
	inst, _ := strconv.Atoi(f[1])
	total, _ := strconv.Atoi(f[2])
	spec := a15.ParseSpec(f[3], f[4], f[5])
	p, outcome, _ := newProvider(spec)
	if outcome != "ok" {
		return outcome
	}
	target.Reset(a15.Script{})
	cancel := runProvider(p)
	defer cancel()
	ag := &recAggr{}
	var taken int64
	var wg sync.WaitGroup
	var bad atomic.Value
	for i := 0; i < inst; i++ {
		wg.Add(1)
		go func(id int) {
			defer wg.Done()
			defer func() {
				if r := recover(); r != nil {
					bad.Store("panic")
				}
			}()
			g := newGun(ag, id, "d")
			defer g.Close()
			for {
				if atomic.AddInt64(&taken, 1) > int64(total) {
					return
				}
				sc, why := acquire(p)
				if sc == nil {
					bad.Store(why)
					return
				}
				g.Shoot(sc)
			}
		}(i)
	}
	done := make(chan struct{})
	go func() { wg.Wait(); close(done) }()
	select {
	case <-done:
	case <-time.After(60 * time.Second):
		return "ok hang"
	}
	if b := bad.Load(); b != nil {
		return "ok " + b.(string)
	}
	// rows seen, grouped by the scenario that owns the request (request names are <scen>r<j>)
	owner := map[string]string{}
	for i, r := range spec.Reqs {
		owner[strconv.Itoa(i)] = r.Name[:strings.IndexByte(r.Name, 'r')]
	}
	rows := map[string][]string{}
	for _, a := range target.Log() {
		sc := owner[strings.TrimPrefix(a.Path, "/q")]
		rows[sc] = append(rows[sc], a.X)
	}
	var names []string
	for k := range rows {
		names = append(names, k)
	}
	sort.Strings(names)
	var out []string
	for _, k := range names {
		sort.Strings(rows[k])
		out = append(out, k+"="+strings.Join(rows[k], ","))
	}
	nerr := 0
	ag.mu.Lock()
	for _, s := range ag.samples {
		if s.Err() != nil {
			nerr++
		}
	}
	ns := len(ag.samples)
	ag.mu.Unlock()
	return fmt.Sprintf("ok samples=%d failed=%d %s", ns, nerr, strings.Join(out, " "))
}

func runIter(f []string) string {
	g, _ := strconv.Atoi(f[1])
	per, _ := strconv.Atoi(f[2])
	ln, _ := strconv.Atoi(f[3])
	it := mp.NewNextIterator(1)
	segs := []string{".a[next]", ".b[next]"}
	res := make([][][]int, g)
	var wg sync.WaitGroup
	for t := 0; t < g; t++ {
		res[t] = make([][]int, len(segs))
		wg.Add(1)
		go func(t int) {
			defer wg.Done()
			for j := 0; j < per; j++ {
				s := (j + t) % len(segs)
				res[t][s] = append(res[t][s], it.Next(segs[s]))
			}
		}(t)
	}
	wg.Wait()
	exact, mono := true, true
	for s := range segs {
		var all []int
		for t := 0; t < g; t++ {
			for i, v := range res[t][s] {
				if i > 0 && v <= res[t][s][i-1] {
					mono = false
				}
				all = append(all, v)
			}
		}
		sort.Ints(all)
		for i, v := range all {
			if v != i {
				exact = false
			}
		}
	}
	// start-up: fresh iterators, all racers make their FIRST calls at the same moment
	rounds := 0
	if len(f) > 4 {
		rounds, _ = strconv.Atoi(f[4])
	}
	startups := startupRounds(rounds)
	// rows through the real path evaluation: three lists, all called `users`, under different
	// parents (lengths ln, ln+1, ln+2); goroutine t uses list (j+t) mod 3 in its j-th evaluation
	mkRows := func(n int, tag string) []map[string]string {
		out := make([]map[string]string, n)
		for i := range out {
			out[i] = map[string]string{"id": tag + strconv.Itoa(i)}
		}
		return out
	}
	tags := []string{"p", "e", "u"}
	paths := []string{"source.users[next].id", "source.eu.users[next].id", "source.us.users[next].id"}
	tree := map[string]any{"source": map[string]any{
		"users": mkRows(ln, tags[0]),
		"eu":    map[string]any{"users": mkRows(ln+1, tags[1])},
		"us":    map[string]any{"users": mkRows(ln+2, tags[2])},
	}}
	it2 := mp.NewNextIterator(1)
	counts := make([][]int64, len(paths))
	for p := range counts {
		counts[p] = make([]int64, ln+p)
	}
	var errs int64
	for t := 0; t < g; t++ {
		wg.Add(1)
		go func(t int) {
			defer wg.Done()
			defer func() {
				if r := recover(); r != nil {
					atomic.AddInt64(&errs, 1)
				}
			}()
			for j := 0; j < per; j++ {
				p := (j + t) % len(paths)
				v, err := mp.GetMapValue(tree, paths[p], it2)
				if err != nil {
					atomic.AddInt64(&errs, 1)
					continue
				}
				id, _ := v.(string)
				i, aerr := strconv.Atoi(strings.TrimPrefix(id, tags[p]))
				if aerr != nil || !strings.HasPrefix(id, tags[p]) || i < 0 || i >= len(counts[p]) {
					atomic.AddInt64(&errs, 1) // an element of another list
					continue
				}
				atomic.AddInt64(&counts[p][i], 1)
			}
		}(t)
	}
	wg.Wait()
	var cs []string
	for p := range counts {
		var one []string
		for _, c := range counts[p] {
			one = append(one, strconv.FormatInt(c, 10))
		}
		cs = append(cs, strings.Join(one, ","))
	}
	return fmt.Sprintf("%s %s startups=%s errs=%d rows=%s", vh.B(exact), vh.B(mono), vh.B(startups), errs, strings.Join(cs, ";"))
}

// startupRounds: `rounds` start-ups per arena. In every round a FRESH NextIterator is published and
// startupRacers long-lived goroutines, released together by a spinning generation barrier, make
// their first two Next calls on it; the 2*racers values must be exactly 0..2*racers-1.
// Arenas run in parallel (as many as the cores allow).
// The number of rounds is a detector's effort, not part of the property: on a machine that is busy
// with other work a round can take milliseconds (every racer must get a time slice), so after
// startupMinRounds rounds the loop also stops when startupBudget of wall time is used up.
const startupRacers = 8
const startupMinRounds = 300
const startupBudget = 2500 * time.Millisecond

func startupRounds(rounds int) bool {
	if rounds <= 0 {
		return true
	}
	arenas := runtime.GOMAXPROCS(0) / (startupRacers + 1)
	if arenas < 1 {
		arenas = 1
	}
	if arenas > 4 {
		arenas = 4
	}
	var bad int64
	var awg sync.WaitGroup
	for a := 0; a < arenas; a++ {
		awg.Add(1)
		go func() {
			defer awg.Done()
			var gen, done atomic.Int64
			var cur atomic.Pointer[mp.NextIterator]
			vals := make([][2]int, startupRacers)
			var rwg sync.WaitGroup
			spin := func(cond func() bool) {
				for n := 0; !cond(); n++ {
					if n%4096 == 4095 {
						runtime.Gosched() // never starve goroutines that are not running
					}
				}
			}
			for t := 0; t < startupRacers; t++ {
				rwg.Add(1)
				go func(t int) {
					defer rwg.Done()
					last := int64(0)
					for {
						spin(func() bool { return gen.Load() != last })
						last = gen.Load()
						if last < 0 {
							return
						}
						it := cur.Load()
						vals[t][0] = it.Next(".s[next]")
						vals[t][1] = it.Next(".s[next]")
						done.Add(1)
					}
				}(t)
			}
			seen := make([]bool, 2*startupRacers)
			begin := time.Now()
			for r := 1; r <= rounds && atomic.LoadInt64(&bad) == 0; r++ {
				if r > startupMinRounds && r%64 == 0 && time.Since(begin) > startupBudget {
					break
				}
				cur.Store(mp.NewNextIterator(1))
				done.Store(0)
				gen.Store(int64(r))
				spin(func() bool { return done.Load() == startupRacers })
				for i := range seen {
					seen[i] = false
				}
				ok := true
				for t := 0; t < startupRacers; t++ {
					for _, v := range vals[t] {
						if v < 0 || v >= len(seen) || seen[v] {
							ok = false
						} else {
							seen[v] = true
						}
					}
				}
				if !ok {
					atomic.AddInt64(&bad, 1)
					if os.Getenv("HC15_MEASURE") != "" {
						fmt.Fprintf(os.Stderr, "startup: first bad round %d\n", r)
					}
				}
			}
			gen.Store(-1)
			rwg.Wait()
		}()
	}
	awg.Wait()
	return bad == 0
}

// scriptIter: the real NextIterator for Next, scripted draws for Rand (Iterator is an interface).
type scriptIter struct {
	real  *mp.NextIterator
	draws []int
}

func (s *scriptIter) Next(segment string) int { return s.real.Next(segment) }
func (s *scriptIter) Rand(length int) int {
	if len(s.draws) == 0 {
		panic("no draw left")
	}
	d := s.draws[0]
	s.draws = s.draws[1:]
	return d
}

func runPath(f []string) string {
	tree := a15.ParseTree(f[1])
	it := &scriptIter{real: mp.NewNextIterator(1)}
	if f[2] != "-" {
		for _, d := range strings.Split(f[2], ",") {
			n, _ := strconv.Atoi(d)
			it.draws = append(it.draws, n)
		}
	}
	var out []string
	for _, hp := range strings.Split(f[3], ",") {
		path := string(vh.UnHex(hp))
		res := func() (res string) {
			defer func() {
				if r := recover(); r != nil {
					res = "panic"
				}
			}()
			v, err := mp.GetMapValue(tree, path, it)
			if err != nil {
				return "err"
			}
			return "v:" + a15.PrintVal(v)
		}()
		out = append(out, res)
	}
	return strings.Join(out, " ")
}

func runCase(c string) string {
	f := strings.Split(c, " ")
	switch f[0] {
	case "path":
		return runPath(f)
	case "tmpl":
		return runTmpl(f)
	case "csv":
		return runCsv(f)
	case "parse":
		name, cnt, sl, err := sconfig.ParseShootName(string(vh.UnHex(f[1])))
		if err != nil {
			return "err"
		}
		return fmt.Sprintf("ok %s %d %d", vh.HexS(name), cnt, sl)
	case "pp":
		u := func(i int) string { return string(vh.UnHex(f[i])) }
		var s string
		switch f[1] {
		case "0":
			s = u(2)
		case "1":
			s = u(5) + u(2) + u(6) + "(" + u(7) + u(3) + u(8) + ")" + u(11)
		default:
			s = u(5) + u(2) + u(6) + "(" + u(7) + u(3) + u(8) + "," + u(9) + u(4) + u(10) + ")" + u(11)
		}
		name, cnt, sl, err := sconfig.ParseShootName(s)
		if err != nil {
			return "err"
		}
		return fmt.Sprintf("ok %s %d %d", vh.HexS(name), cnt, sl)
	case "gcd":
		a, _ := strconv.ParseInt(f[1], 10, 64)
		b, _ := strconv.ParseInt(f[2], 10, 64)
		return strconv.FormatInt(pmath.GCD(a, b), 10)
	case "gcdm":
		var ws []int64
		if f[1] != "-" {
			for _, x := range strings.Split(f[1], ",") {
				w, _ := strconv.ParseInt(x, 10, 64)
				ws = append(ws, w)
			}
		}
		return strconv.FormatInt(pmath.GCDM(ws...), 10)
	case "build":
		return runBuild(f)
	case "shot":
		return runShot(f)
	case "inst":
		// several guns run concurrently: a fatal runtime error (concurrent map write) would kill
		// the whole run, so the case is executed in a child process
		if os.Getenv("HC15_CHILD") == "" {
			return runChild(c)
		}
		return runInst(f)
	case "iter":
		if os.Getenv("HC15_CHILD") == "" {
			return runChild(c)
		}
		return runIter(f)
	}
	return "unknown-case"
}

func runChild(c string) string {
	ctx, cancel := context.WithTimeout(context.Background(), 90*time.Second)
	defer cancel()
	cmd := exec.CommandContext(ctx, os.Args[0], "one", c)
	cmd.Env = append(os.Environ(), "HC15_CHILD=1")
	out, err := cmd.Output()
	if ctx.Err() != nil {
		return "ok hang"
	}
	if err != nil {
		return "crash"
	}
	return strings.TrimRight(string(out), "\n")
}

func main() {
	if len(os.Args) > 2 && os.Args[1] == "one" {
		fs = afero.NewMemMapFs()
		httpscenario.Import(fs)
		_import.Import(fs)
		pluginconfig.AddHooks()
		target = a15.NewTarget()
		fmt.Println(runCase(os.Args[2]))
		return
	}
	if len(os.Args) > 1 && os.Args[1] == "run" {
		fs = afero.NewMemMapFs()
		httpscenario.Import(fs)
		_import.Import(fs)
		pluginconfig.AddHooks()
		target = a15.NewTarget()
		defer target.Close()
	}
	vh.Main(gen, func(cases []string) []string {
		out := make([]string, len(cases))
		for i, c := range cases {
			out[i] = runCase(c)
		}
		return out
	})
}
