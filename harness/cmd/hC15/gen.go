package main

import (
	"fmt"
	"strings"

	"verifharness/internal/vh"
)

func gcd64(a, b int64) int64 {
	for b != 0 {
		a, b = b, a%b
	}
	if a < 0 {
		return -a
	}
	return a
}

var blanks = []string{"", "", "", " ", " ", "  ", "\t", " \t ", "\n"}

func genShootString(r *vh.Rand) string {
	alpha := []string{"a", "b", "r", "0", "1", "2", "9", "(", ")", ",", " ", "\t", "-", "+", "_", "s", "l", "e", "p", "\xc3\xbc", "x"}
	n := r.Intn(13)
	var b strings.Builder
	for i := 0; i < n; i++ {
		b.WriteString(r.Pick(alpha))
	}
	return b.String()
}

func genPP(r *vh.Rand) string {
	names := []string{"", "a", "r0", "order_req", "a b", "\xc3\xbc", "x,y", "sleep", "req-1", "A.b", "r(", " r", "r)"}
	lits := []string{"", "0", "1", "1", "2", "3", "007", "+2", "-1", "12", "40", "9223372036854775807", "9223372036854775808",
		"-9223372036854775808", "-9223372036854775809", "99999999999999999999", "1_0", "x", "1 2", "+", "-", "0x10"}
	form := r.Intn(3)
	name := r.Pick(names)
	if r.Chance(3, 4) {
		name = r.Pick(names[1:10])
	}
	n := r.Pick(lits)
	s := r.Pick(lits)
	if r.Chance(2, 3) {
		n = r.Pick(lits[:12])
		s = r.Pick(lits[:12])
	}
	f := []string{"pp", fmt.Sprint(form), vh.HexS(name), vh.HexS(n), vh.HexS(s)}
	for i := 0; i < 7; i++ {
		f = append(f, vh.HexS(r.Pick(blanks)))
	}
	return strings.Join(f, " ")
}

type genOpts struct {
	failures bool
	bigW     bool
}

type genInfo struct {
	ringLen int
}

// shootForm returns the entry and the number of copies it stands for.
func shootForm(r *vh.Rand, name string) (string, int) {
	ns := []string{"0", "1", "1", "1", "2", "3"}
	n := r.Pick(ns)
	cnt := int(n[0] - '0')
	ss := []string{"0", "1", "2", "5", "-3", ""}
	b := func() string { return r.Pick(blanks[:8]) }
	switch r.Intn(6) {
	case 0, 1:
		return name, 1
	case 2:
		return name + "(" + n + ")", cnt
	case 3:
		return b() + name + b() + "(" + b() + n + b() + ")" + b(), cnt
	case 4:
		return name + "(" + n + ", " + r.Pick(ss) + ")", cnt
	default:
		return b() + name + b() + "(" + b() + n + b() + "," + b() + r.Pick(ss) + b() + ")" + b(), cnt
	}
}

// genVLists picks list variables "src.list"; most of the time several sources have a list of
// the same name.
func genVLists(r *vh.Rand) []string {
	var out []string
	if r.Chance(1, 5) {
		return out
	}
	name := r.Pick([]string{"users", "users", "items", "rows"})
	for _, src := range []string{"eu", "us", "ru"} {
		if r.Chance(2, 3) {
			out = append(out, src+"."+name)
		}
		if r.Chance(1, 4) {
			out = append(out, src+"."+r.Pick([]string{"users", "items", "rows"}))
		}
	}
	// no duplicates
	seen := map[string]bool{}
	var u []string
	for _, v := range out {
		if !seen[v] {
			seen[v] = true
			u = append(u, v)
		}
	}
	return u
}

// genCsvOpts: the options of a file/csv source: delimiter among "," ";" tab blank "|" (or not written),
// field names from the `fields` option or from the first line of the file, ignore_first_line.
// A third of the tables keep the plain form (fields, comma, no first line to ignore).
// No `fields` option together with ignore_first_line: true = the first line names the fields and is no row
// (pinned by pandora's own vs_csv_test "empty fields and skip header"; the sentence of the documentation about
// ordinal numbers only holds for EMPTY names in that line; see design/C15.md).
func genCsvOpts(r *vh.Rand) string {
	if r.Chance(1, 3) {
		return ""
	}
	d := r.Pick([]string{"2c", "3b", "09", "09", "20", "20", "7c", "--"})
	switch r.Intn(4) {
	case 0:
		return "~" + d + "fn"
	case 1:
		return "~" + d + "fi"
	case 2:
		return "~" + d + "hi"
	default:
		return "~" + d + "hn"
	}
}

func genSpec(r *vh.Rand, o genOpts) (tables, reqs, scens string, info genInfo) {
	tables = fmt.Sprintf("users=%d%s,items=%d%s", r.Range(1, 4), genCsvOpts(r), r.Range(1, 3), genCsvOpts(r))
	// list variables of `variables` sources: the same list name under several sources (and the
	// name of a csv table)
	vlists := genVLists(r)
	for _, v := range vlists {
		tables += fmt.Sprintf(",%s=%d", v, r.Range(1, 4))
	}
	// scalar variables of source g written as template functions (computed when the source is
	// initialised) or as plain text; `a` is the variable every URI uses
	gkeys := []string{"a", "b"}
	if r.Chance(2, 5) {
		type gw struct{ w, v string }
		vals := []gw{{"randString(3, a)", "aaa"}, {"randInt(7,7)", "7"}, {"randInt(5, 6)", "5"}, {"plain", "plain"},
			{"randString(2, q)", "qq"}, {"randInt(-3,-3)", "-3"}, {"nofunc(1)", "nofunc(1)"}, {"randString(1,Z)", "Z"}}
		for _, k := range []string{"a", "f1", "f2", "f3"} {
			if r.Chance(1, 2) {
				x := vals[r.Intn(len(vals))]
				tables += fmt.Sprintf(",g:%s=%s:%s", k, vh.HexS(x.w), vh.HexS(x.v))
				if k != "a" {
					gkeys = append(gkeys, k)
				}
			}
		}
	}
	nreq := r.Range(1, 5)
	names := make([]string, nreq)
	for i := range names {
		names[i] = fmt.Sprintf("r%d", i)
		if i > 0 && r.Chance(1, 14) {
			names[i] = names[r.Intn(i)]
		}
	}
	var rs []string
	for i := 0; i < nreq; i++ {
		method := "GET"
		if r.Bool() {
			method = "POST"
		}
		var pre []string
		other := func() string {
			if i > 0 && r.Chance(3, 4) {
				return names[r.Intn(i)]
			}
			return names[r.Intn(nreq)]
		}
		switch r.Intn(4) {
		case 0: // row mappings (never fail)
			if r.Chance(3, 4) {
				pre = append(pre, "x:N:users:id")
			}
			if r.Chance(1, 3) {
				pre = append(pre, "y:N:items:name")
			}
			if r.Chance(1, 3) {
				pre = append(pre, "z:G:"+r.Pick(gkeys))
			}
			if r.Chance(1, 6) {
				// a template function as the mapping's value; arguments: literals or source variables
				type fw struct{ w, v string }
				fs := []fw{{"randInt(source.g.k7, source.g.k7)", "7"}, {"randString(source.g.k2, q)", "qq"}, {"randInt(5, 6)", "5"},
					{"randString(3, Z)", "ZZZ"}, {"randInt(source.g.k2,2)", "2"}, {"randString(1, source.g.k7)", "7"}}
				x := fs[r.Intn(len(fs))]
				pre = append(pre, "f:F:"+vh.HexS(x.w)+":"+vh.HexS(x.v))
			}
			if r.Chance(1, 5) {
				pre = append(pre, "l:L:users:id")
			}
			// [next] on list variables: distinct variables v, w, u take distinct lists (the
			// mapping is a Go map: evaluation order is not fixed, so no list twice per request)
			if len(vlists) > 0 && r.Chance(2, 3) {
				vs := append([]string(nil), vlists...)
				for k, name := range []string{"v", "w", "u"} {
					if len(vs) == 0 || (k > 0 && r.Chance(1, 3)) {
						break
					}
					j := r.Intn(len(vs))
					pre = append(pre, name+":V:"+strings.Replace(vs[j], ".", ":", 1))
					vs = append(vs[:j], vs[j+1:]...)
				}
			}
			if r.Chance(1, 5) {
				pre = append(pre, fmt.Sprintf("i:I:users:%d:name", r.Range(-5, 7)))
			}
		case 1: // captured variables of other requests (fail when that request was not executed)
			pre = append(pre, "p:P:"+other()+":"+r.Pick([]string{"tok", "tok", "h", "k2"}))
			if r.Chance(1, 3) {
				pre = append(pre, "q:Q:"+other()+":"+r.Pick([]string{"x", "p", "z"}))
			}
			if r.Chance(1, 4) {
				pre = append(pre, "z:G:a")
			}
		case 2:
			// a failing mapping stands alone: the mapping is a Go map, so which [next] mappings of the
			// same preprocessor are evaluated before the failing one is not fixed
			if o.failures && r.Chance(1, 6) {
				pre = append(pre, "m:G:missing")
			} else if o.failures && r.Chance(1, 6) {
				pre = append(pre, "f:F:"+vh.HexS(r.Pick([]string{"randInt(x)", "randString(source.g.b, q)", "randInt(1,2,3)"}))+":!")
			}
		}
		var post []string
		if r.Chance(2, 3) {
			post = append(post, "J:tok:tok")
		}
		if r.Chance(1, 4) {
			post = append(post, "J:k2:k")
		}
		if r.Chance(1, 3) {
			post = append(post, "H:h")
		}
		if r.Chance(1, 3) {
			post = append(post, "A:200")
		}
		if r.Chance(1, 5) {
			post = append(post, "B")
		}
		if r.Chance(1, 8) {
			post = append(post, "J:tok:k") // overrides tok with another field
		}
		if o.failures && r.Chance(1, 25) {
			post = append(post, "J:zz:nofield")
		}
		if r.Chance(1, 8) {
			post = append(post, r.Pick([]string{"J0", "H0"}))
		}
		if o.failures && r.Chance(1, 30) {
			post = append(post, "HE:hh")
		}
		if len(post) > 1 && r.Bool() {
			i, j := r.Intn(len(post)), r.Intn(len(post))
			post[i], post[j] = post[j], post[i]
		}
		tmpl := "-"
		if r.Chance(1, 4) {
			tmpl = "R:" + other()
		} else if r.Chance(1, 8) {
			tmpl = "X:" + other() // fails once that request has captured tok in this shot
		} else if o.failures && r.Chance(1, 9) {
			tmpl = r.Pick([]string{"E", "EH", "EU", "EU", "EB", "EB"})
		}
		if r.Chance(1, 5) {
			tmpl += "!h"
		} else if r.Chance(1, 10) {
			tmpl += "!t"
		}
		j := func(x []string) string {
			if len(x) == 0 {
				return "-"
			}
			return strings.Join(x, "+")
		}
		rs = append(rs, fmt.Sprintf("%s,%s,%s,%s,%s", names[i], method, j(pre), j(post), tmpl))
	}
	reqs = strings.Join(rs, ";")
	nscen := r.Range(1, 3)
	weights := []int64{0, 1, 1, 2, 2, 3, 4, 6, 10}
	if o.bigW {
		weights = append(weights, 50, 12, 18, 100000, 50000, 7, 0)
	}
	var ss []string
	var ws []int64
	for i := 0; i < nscen; i++ {
		w := weights[r.Intn(len(weights))]
		wf := fmt.Sprint(w)
		if w == 0 && r.Bool() {
			wf = "-"
		}
		nw := w
		if nw == 0 {
			nw = 1
		}
		ws = append(ws, nw)
		k := r.Range(1, 5)
		var shoots []string
		copies := 0 // a sleep entry before any request copy is the construction panic owned by C13: never generated
		for e := 0; e < k; e++ {
			switch {
			case copies > 0 && r.Chance(1, 5):
				shoots = append(shoots, r.Pick([]string{"sleep(3)", " sleep ( 2 ) ", "sleep()", "sleep(4, 9)", "sleep(1)", "sleep"}))
			case o.failures && r.Chance(1, 40):
				shoots = append(shoots, r.Pick([]string{"nope", "r0(", "r0)", "r0(x)", " r0"}))
			default:
				sh, c := shootForm(r, names[r.Intn(nreq)])
				shoots = append(shoots, sh)
				copies += c
			}
		}
		var hx []string
		for _, s := range shoots {
			hx = append(hx, vh.HexS(s))
		}
		name := fmt.Sprintf("s%d", i)
		mw := ""
		if r.Chance(1, 3) {
			mw = fmt.Sprintf(",%d", r.PickInt([]int{3, 10, 25, 40}))
		}
		ss = append(ss, fmt.Sprintf("%s,%s,%s%s", name, wf, strings.Join(hx, ":"), mw))
	}
	scens = strings.Join(ss, ";")
	if nscen == 1 {
		info.ringLen = 1
	} else {
		g := int64(0)
		for _, w := range ws {
			g = gcd64(g, w)
		}
		for _, w := range ws {
			info.ringLen += int(w / g)
		}
	}
	return
}

func genScript(r *vh.Rand, n int) string {
	var parts []string
	for k := 0; k < n; k++ {
		if r.Chance(1, 7) {
			parts = append(parts, fmt.Sprintf("%d:%s", k, r.Pick([]string{"s500", "s404", "s201", "g", "t", "t", "n", "m", "h", "r302", "r301", "r303", "r307", "r308"})))
		}
	}
	if len(parts) == 0 {
		return "-"
	}
	return strings.Join(parts, ",")
}

func genInst(r *vh.Rand) string {
	tables := fmt.Sprintf("users=%d%s,items=%d%s", r.Range(1, 5), genCsvOpts(r), r.Range(1, 3), genCsvOpts(r))
	vlists := genVLists(r)
	for _, v := range vlists {
		tables += fmt.Sprintf(",%s=%d", v, r.Range(1, 5))
	}
	xs, ws := vlists, []string(nil)
	if len(vlists) > 1 {
		k := r.Range(1, len(vlists)-1)
		xs, ws = vlists[:k], vlists[k:]
	}
	nscen := r.Range(1, 2)
	var rs, ss []string
	for i := 0; i < nscen; i++ {
		nreq := r.Range(1, 2)
		var shoots []string
		for j := 0; j < nreq; j++ {
			name := fmt.Sprintf("s%dr%d", i, j)
			pre := "x:N:users:id"
			if len(xs) > 0 && r.Chance(1, 2) {
				// the row the target sees comes from a list variable; another list (often of the
				// same name under another source) is advanced by the same request.  Lists whose
				// rows are observed (xs) are never advanced unobserved (ws): the multiset of
				// observed rows must not depend on the interleaving of the instances.
				pre = "x:V:" + strings.Replace(xs[r.Intn(len(xs))], ".", ":", 1)
				if len(ws) > 0 && r.Chance(2, 3) {
					pre += "+w:V:" + strings.Replace(ws[r.Intn(len(ws))], ".", ":", 1)
				}
			}
			if r.Chance(1, 4) {
				pre += "+y:N:items:id"
			}
			post := "-"
			if r.Bool() {
				post = "J:tok:tok"
			}
			rs = append(rs, fmt.Sprintf("%s,%s,%s,%s,-", name, r.Pick([]string{"GET", "POST"}), pre, post))
			sh := name
			if r.Chance(1, 3) {
				sh = fmt.Sprintf("%s(%d)", name, r.Range(1, 3))
			}
			shoots = append(shoots, vh.HexS(sh))
		}
		ss = append(ss, fmt.Sprintf("s%d,%d,%s", i, r.PickInt([]int{1, 1, 2, 3, 4}), strings.Join(shoots, ":")))
	}
	return fmt.Sprintf("inst %d %d %s %s %s", r.Range(1, 6), r.Range(4, 30), tables, strings.Join(rs, ";"), strings.Join(ss, ";"))
}

func gen(r *vh.Rand, tier string) []string {
	mul := 1
	if tier == "thorough" {
		mul = 20
	}
	var out []string
	for i := 0; i < 150*mul; i++ {
		out = append(out, "parse "+vh.HexS(genShootString(r)))
	}
	for i := 0; i < 200*mul; i++ {
		out = append(out, genPP(r))
	}
	for i := 0; i < 60*mul; i++ {
		a, b := int64(r.Range(-3, 60)), int64(r.Range(-3, 60))
		if r.Chance(1, 5) {
			a, b = int64(r.Intn(100000)), int64(r.Intn(100000))
		}
		out = append(out, fmt.Sprintf("gcd %d %d", a, b))
	}
	for i := 0; i < 40*mul; i++ {
		n := r.Intn(6)
		var ws []string
		for j := 0; j < n; j++ {
			ws = append(ws, fmt.Sprint(r.PickInt([]int{1, 2, 3, 4, 6, 8, 9, 10, 12, 50, 100, 35, 21, 7, -2, 0})))
		}
		w := "-"
		if n > 0 {
			w = strings.Join(ws, ",")
		}
		out = append(out, "gcdm "+w)
	}
	for i := 0; i < 60*mul; i++ {
		t, rq, sc, info := genSpec(r, genOpts{failures: r.Chance(1, 3), bigW: true})
		n := 3 * info.ringLen
		if n > 240 {
			n = 240
		}
		out = append(out, fmt.Sprintf("build %d %s %s %s", n, t, rq, sc))
	}
	for i := 0; i < 140*mul; i++ {
		t, rq, sc, info := genSpec(r, genOpts{failures: r.Chance(2, 3)})
		n := r.Range(1, 3) * info.ringLen
		if n > 8 {
			n = 8
		}
		script := "-"
		if r.Chance(2, 3) {
			script = genScript(r, 40)
		}
		gun := r.Pick([]string{"d", "d", "d", "f", "f", "2"})
		if gun == "2" {
			// the HTTP/2 side of the target cannot hijack the connection: no garbage / truncated answers there
			script = strings.NewReplacer(":g", ":s503", ":t", ":s502").Replace(script)
		}
		out = append(out, fmt.Sprintf("shot %d %s %s %s %s gun:%s", n, script, t, rq, sc, gun))
	}
	// fault sweep: the same description, one fault of every kind at every arrival position
	for i := 0; i < 12*mul; i++ {
		t, rq, sc, info := genSpec(r, genOpts{})
		n := info.ringLen
		if n > 3 {
			n = 3
		}
		if n < 2 {
			n = 2
		}
		for k := 0; k < 5; k++ {
			for _, act := range []string{"g", "t", "s500", "n", "h", r.Pick([]string{"r302", "r301", "r303", "r307", "r308"})} {
				out = append(out, fmt.Sprintf("shot %d %d:%s %s %s %s gun:d", n, k, act, t, rq, sc))
			}
			if k < 3 {
				out = append(out, fmt.Sprintf("shot %d %d:%s %s %s %s gun:2", n, k, r.Pick([]string{"r302", "r301", "r303", "r307", "r308"}), t, rq, sc))
			}
		}
	}
	for i := 0; i < 12*mul; i++ {
		out = append(out, genInst(r))
	}
	for i := 0; i < 160*mul; i++ {
		out = append(out, genPathCase(r))
	}
	for i := 0; i < 150*mul; i++ {
		out = append(out, genTmplCase(r))
	}
	for i := 0; i < 150*mul; i++ {
		out = append(out, genCsvCase(r))
	}
	for i := 0; i < 6*mul; i++ {
		rounds := 10000 // start-up rounds per case; a racy first call shows within ~5 (16 cores) to ~300 (2 cores) rounds
		if tier == "thorough" {
			rounds = 3000
		}
		out = append(out, fmt.Sprintf("iter %d %d %d %d", r.Range(2, 6), r.Range(1, 200), r.Range(1, 7), rounds))
	}
	return out
}
