// Case kind `prv`: the AMMO of the scenario providers, from the two renderings of one description.
//
// Case line:   prv <h|g> <tree>      h: http scenario provider, g: grpc scenario provider
// The description is written as scenario.yaml, scenario.hcl and scenario.hcl-with-locals (same printers as `scn`), the
// files its variable sources name are created, and the REAL provider constructor (scenario/http.NewProvider,
// scenario/grpc.NewProvider: ReadAmmoConfig + ExtractVariableStorage + decodeAmmo: SpreadNames by the weights,
// ParseShootName, sleep(), templater defaults) is run with passes = 1; every ammo it hands out is dumped (exported
// fields, pointers followed, maps sorted, the variable storage through its Variables() method).
//
// Observation:  y=<ok:<number of ammo>|err> h=<=|diff> hl=<=|diff> yl=<=|diff> hh=<=|diff>   (= : the same ammo, or refused as well)
// (yl, hh: the description in another LAYOUT of the YAML / HCL file, see layout.go)
package main

import (
	"context"
	"fmt"
	"os"
	"reflect"
	"sort"
	"strconv"
	"strings"
	"time"

	"github.com/spf13/afero"
	"github.com/yandex/pandora/components/providers/scenario"
	scngrpc "github.com/yandex/pandora/components/providers/scenario/grpc"
	scnhttp "github.com/yandex/pandora/components/providers/scenario/http"
	"github.com/yandex/pandora/core"
	"go.uber.org/zap"

	s "verifharness/internal/a16schema"
	"verifharness/internal/vh"
)

func dumpAny(b *strings.Builder, v reflect.Value, depth int) {
	if depth > 12 {
		b.WriteString("...")
		return
	}
	if !v.IsValid() {
		b.WriteString("N")
		return
	}
	switch v.Kind() {
	case reflect.Ptr:
		if v.IsNil() {
			b.WriteString("N")
			return
		}
		dumpAny(b, v.Elem(), depth+1)
	case reflect.Interface:
		if v.IsNil() {
			b.WriteString("N")
			return
		}
		if m := v.MethodByName("Variables"); m.IsValid() && m.Type().NumIn() == 0 && m.Type().NumOut() == 1 {
			b.WriteString("vars")
			dumpAny(b, m.Call(nil)[0], depth+1)
			return
		}
		e := v.Elem()
		for e.Kind() == reflect.Ptr && !e.IsNil() {
			e = e.Elem()
		}
		b.WriteString(e.Type().String())
		dumpAny(b, v.Elem(), depth+1)
	case reflect.Struct:
		b.WriteByte('{')
		t := v.Type()
		for i := 0; i < t.NumField(); i++ {
			if t.Field(i).PkgPath != "" {
				continue // unexported: iterators seeded by the clock, ids, file systems
			}
			b.WriteString(t.Field(i).Name + ":")
			dumpAny(b, v.Field(i), depth+1)
			b.WriteByte(';')
		}
		b.WriteByte('}')
	case reflect.Map:
		if v.Len() == 0 {
			b.WriteString("N")
			return
		}
		keys := v.MapKeys()
		sort.Slice(keys, func(i, j int) bool { return fmt.Sprint(keys[i].Interface()) < fmt.Sprint(keys[j].Interface()) })
		b.WriteByte('<')
		for _, k := range keys {
			b.WriteString(strconv.Quote(fmt.Sprint(k.Interface())) + "=")
			dumpAny(b, v.MapIndex(k), depth+1)
			b.WriteByte(';')
		}
		b.WriteByte('>')
	case reflect.Slice, reflect.Array:
		if v.Len() == 0 {
			b.WriteString("N")
			return
		}
		if v.Type().Elem().Kind() == reflect.Uint8 {
			b.WriteString(strconv.Quote(string(v.Bytes())))
			return
		}
		b.WriteByte('[')
		for i := 0; i < v.Len(); i++ {
			dumpAny(b, v.Index(i), depth+1)
			b.WriteByte(';')
		}
		b.WriteByte(']')
	case reflect.String:
		b.WriteString(strconv.Quote(v.String()))
	case reflect.Bool:
		b.WriteString(strconv.FormatBool(v.Bool()))
	case reflect.Int, reflect.Int8, reflect.Int16, reflect.Int32, reflect.Int64:
		b.WriteString(strconv.FormatInt(v.Int(), 10))
	case reflect.Uint, reflect.Uint8, reflect.Uint16, reflect.Uint32, reflect.Uint64:
		b.WriteString(strconv.FormatUint(v.Uint(), 10))
	case reflect.Float32, reflect.Float64:
		b.WriteString(strconv.FormatFloat(v.Float(), 'g', -1, 64))
	default:
		b.WriteString("?" + v.Kind().String())
	}
}

const prvMaxAmmo = 5000

// the ammo of one provider built on one file: "err" or the dumps of everything it hands out in one pass
func provide(kind, file string) (res string, n int) {
	defer func() {
		if r := recover(); r != nil {
			res, n = "panic", 0
		}
	}()
	var p core.Provider
	var err error
	conf := scenario.ProviderConfig{File: file, Passes: 1}
	if kind == "g" {
		p, err = scngrpc.NewProvider(s.Fs, conf)
	} else {
		p, err = scnhttp.NewProvider(s.Fs, conf)
	}
	if err != nil {
		if os.Getenv("A16_DEBUG") != "" {
			fmt.Fprintln(os.Stderr, file, "ERR:", err)
		}
		return "err", 0
	}
	ctx, cancel := context.WithTimeout(context.Background(), 5*time.Second)
	defer cancel()
	done := make(chan error, 1)
	go func() { done <- p.Run(ctx, core.ProviderDeps{Log: zap.NewNop()}) }()
	var b strings.Builder
	for n < prvMaxAmmo {
		a, ok := p.Acquire()
		if !ok {
			break
		}
		v := reflect.ValueOf(a)
		for v.Kind() == reflect.Ptr && !v.IsNil() {
			v = v.Elem()
		}
		// the id is the position in the stream; it is an exported field of the http ammo only
		dumpAny(&b, v, 0)
		b.WriteByte('\n')
		n++
	}
	cancel()
	select {
	case rerr := <-done:
		if rerr != nil && n == 0 {
			return "err", 0 // no ammo at all (ErrNoAmmo)
		}
	case <-time.After(5 * time.Second):
		return "hang", n
	}
	return b.String(), n
}

// the files the variable sources of the description name
func writeSourceFiles(tree *s.V) {
	for _, src := range listOf(tree.Get("variable_sources")) {
		f := src.Get("file")
		if f == nil || f.S == "" || src.Get("type") == nil {
			continue
		}
		switch src.Get("type").S {
		case "file/csv":
			d := ","
			if x := src.Get("delimiter"); x != nil && x.S != "" {
				d = x.S
			}
			afero.WriteFile(s.Fs, f.S, []byte("id"+d+"name"+d+"token\n1"+d+"ann"+d+"t-1\n2"+d+"bob"+d+"t-2\n"), 0o644)
		case "file/json":
			afero.WriteFile(s.Fs, f.S, []byte(`[{"id": 1, "name": "ann"}, {"id": 2, "name": "bob"}]`), 0o644)
		}
	}
}

func (rn *runner) runPrv(f []string, i int) string {
	if len(f) != 3 || (f[1] != "h" && f[1] != "g") {
		return "badcase"
	}
	tree, err := s.ParseToken(f[2])
	if err != nil {
		return "badcase"
	}
	writeSourceFiles(tree)
	r := vh.NewRand(uint64(i)*7919 + 17)
	write := func(ext, text string) string {
		name := "/a16scn/scenario" + ext
		afero.WriteFile(s.Fs, name, []byte(text), 0o644)
		return name
	}
	ry, n := provide(f[1], write(".yaml", toYAML(tree)))
	hText := toHCL(tree, false, r)
	rh, _ := provide(f[1], write(".hcl", hText))
	hlText := toHCL(tree, true, r)
	rhl, _ := provide(f[1], write(".hcl", hlText))
	cmp := func(a, text string) string {
		if a == ry {
			return "="
		}
		if os.Getenv("A16_DEBUG") != "" {
			fmt.Fprintln(os.Stderr, "---- provider ammo differs; yaml:\n"+ry+"---- hcl:\n"+a+"---- text:\n"+text)
		}
		if a == "panic" || a == "hang" {
			return a
		}
		return "diff"
	}
	y := "err"
	switch ry {
	case "err":
	case "panic", "hang":
		y = ry
	default:
		y = "ok:" + strconv.Itoa(n)
	}
	// the same description in another layout of each syntax (layout.go): key / block order, literal block scalars and
	// heredocs, another end of file
	ylText, _ := toYAMLLay(tree, r)
	ryl, _ := provide(f[1], write(".yaml", ylText))
	hhText := toHCLLay(tree, false, r, &hclLay{r: r})
	rhh, _ := provide(f[1], write(".hcl", hhText))
	return fmt.Sprintf("y=%s h=%s hl=%s yl=%s hh=%s", y, cmp(rh, hText), cmp(rhl, hlText), cmp(ryl, ylText), cmp(rhh, hhText))
}

// the description of a `prv` case: the steps of every scenario name only requests (h) / only calls (g), so that most
// descriptions are accepted by the provider; weights as everywhere
func genPrv(r *vh.Rand) string {
	kind := []string{"h", "g"}[r.Intn(2)]
	d := genDesc(r, 1+r.Intn(4))
	if r.Bool() {
		withBodyStrings(d, r) // bodies and payloads that end in line breaks
	}
	var names []string
	key := map[string]string{"h": "requests", "g": "calls"}[kind]
	for _, x := range listOf(d.Get(key)) {
		names = append(names, x.Get("name").S)
	}
	for _, sc := range listOf(d.Get("scenarios")) {
		for i, kv := range sc.M {
			if kv.Key != "requests" {
				continue
			}
			steps := s.List()
			for j, m := 0, r.Intn(4); j < m && len(names) > 0; j++ {
				st := names[r.Intn(len(names))]
				switch r.Intn(4) {
				case 0:
					st += "(2)"
				case 1:
					st += "(1, 100)"
				}
				steps.L = append(steps.L, s.Str(st))
				if r.Intn(4) == 0 {
					steps.L = append(steps.L, s.Str("sleep(50)"))
				}
			}
			if r.Intn(15) == 0 {
				steps.L = append(steps.L, s.Str("nobody(3)")) // a step nobody defines: refused by both
			}
			sc.M[i].Val = steps
		}
	}
	return "prv " + kind + " " + d.Token()
}
