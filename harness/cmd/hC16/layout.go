// Case kind `lay`: the LAYOUT of the file is a generated dimension.
//
// Case line:   lay <seed> <tree>
// One description is written in several layouts of each syntax, every choice drawn from vh.NewRand(seed):
//   YAML: the order of the sections and of the keys of every map, the indentation width, sequences indented under
//         their key or not, strings double-quoted / single-quoted / plain / as LITERAL BLOCK SCALARS (`|`, `|-`, `|+`,
//         explicit indentation indicator), `---`, comments and blank lines between nodes, and the END OF THE FILE: the
//         last node is whatever the key order makes it (often a block scalar), followed by its final line break only,
//         by nothing, by blank lines or by a comment -- whichever the model of Model/BlockScalar.v allows for that node.
//   HCL:  the order of the blocks (blocks of one type keep their order; locals blocks anywhere), the order of the
//         attributes, strings quoted or as HEREDOCS, comments (#, //, /* */), blank lines, a final line break or none.
//
// Observation:  y=<dump|err> y1= y2= y3= h1= h2=<=|dump|err>  bs=<audit>
// (y: the fixed layout of `scn`; h2: locals + layout).  bs lists every block scalar / heredoc the printers wrote as
// <style>:<hex of its text in the file, indentation and template escapes removed>:<hex of the string it stands for>;
// the driver checks each entry with the extracted read_block / heredoc_value, so the printer is held to the model.
package main

import (
	"fmt"
	"os"
	"strconv"
	"strings"
	"unicode/utf8"

	s "verifharness/internal/a16schema"
	"verifharness/internal/vh"
)

// strings that end in line breaks, begin with white space, hold blank lines: what block scalars and heredocs are for
var bodyStrings = []string{
	"{\"item\": \"ünï — \\\"q\\\"\", \"n\": 1}\n", "line1\nline2\n", "one line\n", "keep two\n\n", "keep three\n\n\n", "\n", "\n\n",
	"no final break\nsecond", "  indented first\nrest\n", "\ttab first\n", "a\n\n\nb\n", "\nleading break\n", "trailing space \n",
	"# not a comment\nkey: value\n", "- a\n- b\n", "EOF \n", "x ${y %{ z\n", "<a b=\"c\">\n  <d/>\n</a>\n", " \n", "a\n \nb", "crlf\r\nbody\r\n", "break then spaces\n  ", "\n\nbody after two breaks",
}

func blockable(x string) bool {
	if x == "" || !utf8.ValidString(x) {
		return false
	}
	for _, c := range x {
		if (c < 0x20 && c != '\n' && c != '\t') || c == 0x7f || c == 0x85 || c == 0x2028 || c == 0x2029 || c == 0xfeff {
			return false
		}
	}
	return true
}

// ---------------------------------------------------------------------------------------------
// YAML

type yLay struct {
	r     *vh.Rand
	w     int // indentation width
	b     strings.Builder
	audit []string
	alt   *yamlAlt
	// the block scalar written last and not yet closed by a following node
	open *openBlock
}

type openBlock struct {
	style byte // s strip, c clip, k keep
	want  string
	ind   string
}

func trailingBreaks(x string) int {
	n := 0
	for n < len(x) && x[len(x)-1-n] == '\n' {
		n++
	}
	return n
}

// the text of a block scalar is the string itself; the header says what becomes of the line breaks at its end
func (y *yLay) styleFor(x string) byte {
	n := trailingBreaks(x)
	switch {
	case n == 0:
		return 's'
	case n == 1 && len(x) > 1:
		if y.r.Intn(4) == 0 {
			return 'k'
		}
		return 'c'
	}
	return 'k'
}

// close the open block scalar: `more` = another node follows (the text must end with a line break)
func (y *yLay) closeBlock(more bool) {
	o := y.open
	if o == nil {
		return
	}
	y.open = nil
	text := o.want
	switch o.style {
	case 's':
		// the break that ends the last line is not content; neither are blank lines
		switch k := y.r.Intn(4); {
		case k == 0 && !more:
		case k == 1:
			text += "\n\n"
		case k == 2:
			text += "\n\n\n"
		default:
			text += "\n"
		}
	case 'c':
		switch y.r.Intn(3) {
		case 0:
			text += "\n"
		case 1:
			text += "\n\n"
		}
	}
	pieces := strings.Split(text, "\n")
	for i, p := range pieces {
		if i == len(pieces)-1 {
			if p != "" {
				y.b.WriteString(o.ind + p)
			}
			break
		}
		if p != "" {
			y.b.WriteString(o.ind + p)
		}
		y.b.WriteByte('\n')
	}
	y.audit = append(y.audit, string(o.style)+":"+vh.HexS(text)+":"+vh.HexS(o.want))
}

func (y *yLay) line(x string) {
	afterKeep := y.open != nil && y.open.style == 'k' // a blank line after it would be content
	y.closeBlock(true)
	if y.r.Intn(12) == 0 {
		k := y.r.Intn(3)
		if afterKeep {
			k = 0
		}
		y.b.WriteString([]string{"# a comment: with a colon\n", "\n", "#\n\n"}[k])
	}
	y.b.WriteString(x + "\n")
}

func sp(n int) string { return strings.Repeat(" ", n) }

func (y *yLay) key(k string) string {
	if plainSafe(k) && y.r.Bool() {
		return k
	}
	return yq(k)
}

func (y *yLay) order(kvs []s.KV) []s.KV {
	out := append([]s.KV{}, kvs...)
	if y.r.Intn(3) == 0 {
		return out
	}
	for i := len(out) - 1; i > 0; i-- {
		j := y.r.Intn(i + 1)
		out[i], out[j] = out[j], out[i]
	}
	return out
}

// prefix: the line so far (`  key:` or `  -`); parent: the column of the collection the node sits in
func (y *yLay) node(prefix string, v *s.V, parent int) { y.nodeAt(prefix, v, parent, false) }

// moves an entry that satisfies `want` to the end (the last one that does)
func moveLast(kvs []s.KV, want func(kv s.KV) bool) []s.KV {
	for i := len(kvs) - 1; i >= 0; i-- {
		if want(kvs[i]) {
			kv := kvs[i]
			kvs = append(append(kvs[:i:i], kvs[i+1:]...), kv)
			break
		}
	}
	return kvs
}

// last: the node is the last one of the file and the layout is steered towards ending inside a block scalar
func (y *yLay) nodeAt(prefix string, v *s.V, parent int, last bool) {
	switch v.K {
	case 'n':
		y.line(prefix + " " + []string{"null", "~"}[y.r.Intn(2)])
	case 't':
		y.line(prefix + " true")
	case 'f':
		y.line(prefix + " false")
	case 'i':
		y.line(prefix + " " + strconv.FormatInt(v.I, 10))
	case 's':
		x := v.S
		if blockable(x) && (last || y.r.Bool() || (strings.Contains(x, "\n") && y.r.Bool())) {
			first := x[0]
			inc := 1 + y.r.Intn(4)
			hdr := "|"
			explicit := first == ' ' || first == '\t' || first == '\n' || y.r.Intn(4) == 0
			if explicit {
				hdr += strconv.Itoa(inc)
			}
			st := y.styleFor(x)
			switch st {
			case 's':
				hdr += "-"
			case 'k':
				hdr += "+"
			}
			if explicit && y.r.Bool() && st != 'c' { // the two indicators in the other order
				hdr = "|" + hdr[len(hdr)-1:] + strconv.Itoa(inc)
			}
			y.line(prefix + " " + hdr)
			y.open = &openBlock{style: st, want: x, ind: sp(parent + inc)}
			return
		}
		y.line(prefix + " " + y.alt.scalar(x))
	case 'l':
		if len(v.L) == 0 {
			y.line(prefix + " []")
			return
		}
		y.line(prefix)
		c := parent
		if y.r.Bool() {
			c = parent + y.w
		}
		for n, x := range v.L {
			lastItem := last && n == len(v.L)-1
			if x.K == 'm' && len(x.M) > 0 {
				kvs := y.order(x.M)
				if lastItem {
					kvs = moveLast(kvs, func(kv s.KV) bool { return kv.Val.K == 's' && blockable(kv.Val.S) })
				}
				for i, kv := range kvs {
					if i == 0 {
						y.nodeAt(sp(c)+"- "+y.key(kv.Key)+":", kv.Val, c+2, lastItem && i == len(kvs)-1)
					} else {
						y.nodeAt(sp(c+2)+y.key(kv.Key)+":", kv.Val, c+2, lastItem && i == len(kvs)-1)
					}
				}
				continue
			}
			y.nodeAt(sp(c)+"-", x, c, lastItem)
		}
	case 'm':
		if len(v.M) == 0 {
			y.line(prefix + " {}")
			return
		}
		y.line(prefix)
		c := parent + y.w
		for _, kv := range y.order(v.M) {
			y.node(sp(c)+y.key(kv.Key)+":", kv.Val, c)
		}
	}
}

func toYAMLLay(v *s.V, r *vh.Rand) (string, []string) {
	y := &yLay{r: r, w: 2 + r.Intn(3), alt: &yamlAlt{r: r}}
	if r.Intn(4) == 0 {
		y.b.WriteString([]string{"---\n", "# scenario\n---\n", "\n\n", "--- # one document\n"}[r.Intn(4)])
	}
	if v.K != 'm' || len(v.M) == 0 {
		return toYAML(v), nil
	}
	top := y.order(v.M)
	steer := r.Intn(3) == 0
	if steer {
		// a section of steps (requests / calls) is written last, its last step ends with one of its strings
		top = moveLast(top, func(kv s.KV) bool {
			return kv.Val.K == 'l' && len(kv.Val.L) > 0 && kv.Val.L[0].K == 'm' && kv.Key != "scenarios" && r.Intn(3) != 0
		})
	}
	for i, kv := range top {
		y.nodeAt(y.key(kv.Key)+":", kv.Val, 0, steer && i == len(top)-1)
	}
	if y.open != nil {
		// the file ends inside a block scalar
		y.closeBlock(false)
		if t := y.b.String(); strings.HasSuffix(t, "\n") && r.Intn(4) == 0 {
			y.b.WriteString([]string{"# end\n", "# end", "...\n"}[r.Intn(3)])
		}
		return y.b.String(), y.audit
	}
	t := strings.TrimSuffix(y.b.String(), "\n")
	return t + []string{"\n", "", "\n\n\n", "\n# end\n", "\n# end", "\n...\n", "  \n"}[r.Intn(7)], y.audit
}

// ---------------------------------------------------------------------------------------------
// HCL

type hclLay struct {
	r     *vh.Rand
	audit []string
	marks []hmark
}

type hmark struct{ kind, at int }

func (c *hclCtx) mark(b *strings.Builder, kind int) {
	if c.lay != nil {
		c.lay.marks = append(c.lay.marks, hmark{kind, b.Len()})
	}
}

func (c *hclCtx) keys(ks []string) []string {
	if c.lay == nil || c.lay.r.Intn(3) == 0 {
		return ks
	}
	out := append([]string{}, ks...)
	for i := len(out) - 1; i > 0; i-- {
		j := c.lay.r.Intn(i + 1)
		out[i], out[j] = out[j], out[i]
	}
	return out
}

// the template escapes of a heredoc line ($${ and %%{); nothing else is special inside a heredoc
func heredocEscape(x string) string {
	var b strings.Builder
	for i := 0; i < len(x); i++ {
		if (x[i] == '$' || x[i] == '%') && i+1 < len(x) && x[i+1] == '{' {
			b.WriteByte(x[i])
		}
		b.WriteByte(x[i])
	}
	return b.String()
}

func (l *hclLay) str(x string) string {
	if !strings.HasSuffix(x, "\n") || !blockable(x) || l.r.Intn(3) == 0 {
		return hq(x)
	}
	marker := []string{"EOF", "EOT", "BODY_1"}[l.r.Intn(3)]
	for _, ln := range strings.Split(x, "\n") {
		if strings.Trim(ln, " \t") == marker {
			return hq(x)
		}
	}
	l.audit = append(l.audit, "h:"+vh.HexS(x)+":"+vh.HexS(x))
	return "<<" + marker + "\n" + heredocEscape(x) + sp(l.r.Intn(3)*2) + marker
}

// the blocks in an order that keeps the blocks of one type (and the locals blocks) in theirs
func (l *hclLay) assemble(body string, locals [][]string) string {
	r := l.r
	queues := make([][]string, 5)
	for _, blk := range locals {
		var t strings.Builder
		t.WriteString("locals {\n")
		for _, a := range blk {
			t.WriteString("  " + a + "\n")
		}
		t.WriteString("}\n")
		queues[0] = append(queues[0], t.String())
	}
	for i, m := range l.marks {
		end := len(body)
		if i+1 < len(l.marks) {
			end = l.marks[i+1].at
		}
		queues[m.kind] = append(queues[m.kind], body[m.at:end])
	}
	l.marks = nil
	var out strings.Builder
	if r.Intn(4) == 0 {
		out.WriteString([]string{"# scenario\n", "// scenario\n\n", "/* a scenario\n   description */\n", "\n\n"}[r.Intn(4)])
	}
	keepOrder := r.Intn(4) == 0
	for {
		var live []int
		for k, q := range queues {
			if len(q) > 0 {
				live = append(live, k)
			}
		}
		if len(live) == 0 {
			break
		}
		k := live[0]
		if !keepOrder {
			k = live[r.Intn(len(live))]
		}
		out.WriteString(queues[k][0])
		queues[k] = queues[k][1:]
		if r.Intn(6) == 0 {
			out.WriteString([]string{"\n", "# between blocks\n", "/* c */\n", "\n\n"}[r.Intn(4)])
		}
	}
	t := strings.TrimSuffix(out.String(), "\n")
	return t + []string{"\n", "", "\n\n\n", "\n# end\n", "\n// end", " // end", "\n/* end */"}[r.Intn(7)]
}

// ---------------------------------------------------------------------------------------------
// generator, run

// a description whose strings are more often the ones block scalars and heredocs exist for
func withBodyStrings(d *s.V, r *vh.Rand) {
	var visit func(v *s.V)
	visit = func(v *s.V) {
		switch v.K {
		case 'l':
			for _, x := range v.L {
				visit(x)
			}
		case 'm':
			for i, kv := range v.M {
				switch kv.Key {
				case "body", "payload":
					if kv.Val.K == 's' && r.Intn(3) != 0 {
						v.M[i].Val = s.Str(bodyStrings[r.Intn(len(bodyStrings))])
					}
				case "tag", "uri":
					if kv.Val.K == 's' && r.Intn(6) == 0 {
						v.M[i].Val = s.Str(kv.Val.S + bodyStrings[r.Intn(len(bodyStrings))])
					}
				case "headers", "metadata", "variables", "mapping":
					if kv.Val.K == 'm' {
						for j, e := range kv.Val.M {
							if e.Val.K == 's' && r.Intn(4) == 0 {
								kv.Val.M[j].Val = s.Str(bodyStrings[r.Intn(len(bodyStrings))])
							}
						}
					}
				default:
					visit(kv.Val)
				}
			}
		}
	}
	visit(d)
	// a request with a body, so that few descriptions are without one
	if reqs := d.Get("requests"); reqs != nil && len(reqs.L) > 0 && r.Bool() {
		q := reqs.L[r.Intn(len(reqs.L))]
		if q.Get("body") == nil {
			q.M = append(q.M, s.KV{Key: "body", Val: s.Str(bodyStrings[r.Intn(len(bodyStrings))])})
		}
	}
}

func genLay(r *vh.Rand) string {
	d := genDesc(r, 1+r.Intn(3))
	withBodyStrings(d, r)
	return "lay " + strconv.FormatUint(r.U64()>>1, 10) + " " + d.Token()
}

func (rn *runner) runLay(f []string) string {
	if len(f) != 3 {
		return "badcase"
	}
	seed, err := strconv.ParseUint(f[1], 10, 64)
	tree, err2 := s.ParseToken(f[2])
	if err != nil || err2 != nil {
		return "badcase"
	}
	r := vh.NewRand(seed)
	var audit []string
	dbg := func(what, res, ref, text string) {
		if res != ref && os.Getenv("A16_DEBUG") != "" {
			fmt.Fprintln(os.Stderr, "---- "+what+" differs ("+res+"):\n"+text+"<EOF>")
		}
	}
	ry := rn.read(toYAML(tree), ".yaml")
	out := "y=" + ry
	for i := 1; i <= 3; i++ {
		text, a := toYAMLLay(tree, r)
		audit = append(audit, a...)
		ext := ".yaml"
		if i == 3 {
			ext = ".yml"
		}
		res := rn.read(text, ext)
		dbg("yaml layout", res, ry, text)
		out += fmt.Sprintf(" y%d=%s", i, same(res, ry))
	}
	for i := 1; i <= 2; i++ {
		lay := &hclLay{r: r}
		text := toHCLLay(tree, i == 2, r, lay)
		audit = append(audit, lay.audit...)
		res := rn.read(text, ".hcl")
		dbg("hcl layout", res, ry, text)
		out += fmt.Sprintf(" h%d=%s", i, same(res, ry))
	}
	if len(audit) == 0 {
		return out + " bs=-"
	}
	return out + " bs=" + strings.Join(audit, ",")
}

func showLay(seed, tok string) {
	tree, err := s.ParseToken(tok)
	if err != nil {
		fmt.Println(err)
		return
	}
	n, _ := strconv.ParseUint(seed, 10, 64)
	r := vh.NewRand(n)
	for i := 1; i <= 3; i++ {
		text, a := toYAMLLay(tree, r)
		fmt.Printf("---- yaml %d %v\n%s<EOF>\n", i, a, text)
	}
	for i := 1; i <= 2; i++ {
		lay := &hclLay{r: r}
		fmt.Printf("---- hcl %d\n%s<EOF>\n", i, toHCLLay(tree, i == 2, r, lay))
	}
}
