// Case kind `loc`: the locals stage of the HCL front-end (hcl.go decodeLocals) against Model/HclLocals.v.
//
// Case line:   loc <blocks> <body>
//   <blocks>  l(m(name:expr,...),...)   the locals blocks in file order (a name may occur twice in a block: rejected)
//   <body>    m(reqs:l(m(uri:expr,headers:expr[,tag:expr][,body:expr]),...),steps:expr)
//   expr      s<hex> | l(s..,..) | m(key:s..,..) | n    literal string / list of strings / map of strings / null
//             l(i0,s<name>)  local.<name>      l(i1,a,b)  "${a}${b}"      l(i2,a,b)  concat(a, b)     l(i3,a,b)  merge(a, b)
//             l(i4,a,b)  coalesce(a, b)
// null is a value: a local set to null exists and hides the definitions above it; an attribute of the body that
// evaluates to null leaves its field out (headers, tag, body, the scenario's requests) -- uri, a plain string field,
// refuses it.
// The description it denotes: requests r0.. (method GET, uri/headers/tag/body = the values of the expressions) and one
// scenario "s" whose requests are the value of `steps`.
//
// The harness prints the program as HCL with its locals blocks (hl), as HCL with every reference replaced by its
// defining expression and no locals block (hi), and -- the values computed by a direct reading of the rule "a reference
// means the nearest definition above it" -- as YAML (y); all three go through the real config.ReadAmmoConfig.
//
// Observation:  y=<dump|err|-> hl=<=|dump|err> hi=<=|dump|err|->     (- : the program has no YAML twin / cannot be inlined)
package main

import (
	"fmt"
	"os"
	"strconv"
	"strings"

	s "verifharness/internal/a16schema"
	"verifharness/internal/vh"
)

// ---- expressions as trees

func exRef(name string) *s.V  { return s.List(s.Int(0), s.Str(name)) }
func exOp(op int, a, b *s.V) *s.V { return s.List(s.Int(int64(op)), a, b) }

// 'v' literal, 'r' reference, 'c' interpolation, 'k' concat, 'g' merge, 'o' coalesce, 0 malformed
func exKind(e *s.V) byte {
	if e.K == 'l' && len(e.L) > 0 && e.L[0].K == 'i' {
		switch {
		case e.L[0].I == 0 && len(e.L) == 2 && e.L[1].K == 's':
			return 'r'
		case e.L[0].I == 1 && len(e.L) == 3:
			return 'c'
		case e.L[0].I == 2 && len(e.L) == 3:
			return 'k'
		case e.L[0].I == 3 && len(e.L) == 3:
			return 'g'
		case e.L[0].I == 4 && len(e.L) == 3:
			return 'o'
		}
		return 0
	}
	switch e.K {
	case 's', 'n':
		return 'v'
	case 'l':
		if len(e.L) == 0 || isStrList(e) {
			return 'v'
		}
	case 'm':
		if len(e.M) == 0 || isStrMap(e) {
			return 'v'
		}
	}
	return 0
}

// the nearest definition of name in blocks[0:idx], with the index of its block
func nearestAbove(blocks []*s.V, idx int, name string) (*s.V, int) {
	for j := idx - 1; j >= 0; j-- {
		if d := blocks[j].Get(name); d != nil {
			return d, j
		}
	}
	return nil, -1
}

// the value of e for a reader below blocks[0:idx] (nil: no value)
func locEval(blocks []*s.V, idx int, e *s.V) *s.V {
	switch exKind(e) {
	case 'v':
		return e
	case 'r':
		d, j := nearestAbove(blocks, idx, e.L[1].S)
		if d == nil {
			return nil
		}
		return locEval(blocks, j, d)
	case 'c', 'k', 'g', 'o':
		a, b := locEval(blocks, idx, e.L[1]), locEval(blocks, idx, e.L[2])
		if a == nil || b == nil {
			return nil
		}
		switch exKind(e) {
		case 'o':
			// every argument is evaluated; one type (null has any); the first that is not null; none: an error
			switch {
			case a.K == 'n' && b.K == 'n':
				return nil
			case a.K == 'n':
				return b
			case b.K == 'n' || a.K == b.K:
				return a
			}
			return nil
		case 'c':
			if a.K == 's' && b.K == 's' {
				return s.Str(a.S + b.S)
			}
		case 'k':
			if a.K == 'l' && b.K == 'l' {
				return s.List(append(append([]*s.V{}, a.L...), b.L...)...)
			}
		default:
			// merge skips null arguments
			if a.K == 'n' {
				a = s.Map()
			}
			if b.K == 'n' {
				b = s.Map()
			}
			if a.K == 'm' && b.K == 'm' {
				out := s.Map()
				for _, kv := range a.M {
					if b.Get(kv.Key) == nil {
						out.M = append(out.M, kv)
					}
				}
				out.M = append(out.M, b.M...)
				return out
			}
		}
	}
	return nil
}

// every definition has a value at its place and no block sets a name twice
func locDefsOK(blocks []*s.V) bool {
	for i, b := range blocks {
		seen := map[string]bool{}
		for _, kv := range b.M {
			if seen[kv.Key] || locEval(blocks, i, kv.Val) == nil {
				return false
			}
			seen[kv.Key] = true
		}
	}
	return true
}

// ---- HCL printer of expressions; inline: references are replaced by their defining expressions

func locExpr(blocks []*s.V, idx int, e *s.V, inline bool) (string, bool) {
	switch exKind(e) {
	case 'v':
		switch e.K {
		case 'n':
			return "null", true
		case 's':
			return hq(e.S), true
		case 'l':
			items := make([]string, 0, len(e.L))
			for _, x := range e.L {
				items = append(items, x.S)
			}
			return tuple(items), true
		default:
			return objOf(e.M), true
		}
	case 'r':
		if !inline {
			return "local." + e.L[1].S, true
		}
		d, j := nearestAbove(blocks, idx, e.L[1].S)
		if d == nil {
			return "", false
		}
		return locExpr(blocks, j, d, true)
	case 'c':
		var parts []*s.V
		var flat func(x *s.V)
		flat = func(x *s.V) {
			if exKind(x) == 'c' {
				flat(x.L[1])
				flat(x.L[2])
				return
			}
			parts = append(parts, x)
		}
		flat(e)
		var b strings.Builder
		b.WriteByte('"')
		for _, p := range parts {
			// (an empty literal part is written as ${""}: a template that is ONE interpolation and nothing else is not a
			// string template, it hands the value through as it is)
			if exKind(p) == 'v' && p.K == 's' && p.S != "" && !strings.HasSuffix(p.S, "$") && !strings.HasSuffix(p.S, "%") {
				q := hq(p.S)
				b.WriteString(q[1 : len(q)-1])
				continue
			}
			x, ok := locExpr(blocks, idx, p, inline)
			if !ok {
				return "", false
			}
			b.WriteString("${" + x + "}")
		}
		b.WriteByte('"')
		return b.String(), true
	case 'k', 'g', 'o':
		a, ok1 := locExpr(blocks, idx, e.L[1], inline)
		c, ok2 := locExpr(blocks, idx, e.L[2], inline)
		if !ok1 || !ok2 {
			return "", false
		}
		switch exKind(e) {
		case 'k':
			return "concat(" + a + ", " + c + ")", true
		case 'o':
			return "coalesce(" + a + ", " + c + ")", true
		}
		return "merge(" + a + ", " + c + ")", true
	}
	return "", false
}

var locReqKeys = []string{"uri", "headers", "tag", "body"}

func locHCL(blocks []*s.V, body *s.V, inline bool) (string, bool) {
	var b strings.Builder
	if !inline {
		for i, blk := range blocks {
			b.WriteString("locals {\n")
			for _, kv := range blk.M {
				x, ok := locExpr(blocks, i, kv.Val, false)
				if !ok {
					return "", false
				}
				b.WriteString("  " + kv.Key + " = " + x + "\n")
			}
			b.WriteString("}\n")
		}
	}
	n := len(blocks)
	for i, req := range listOf(body.Get("reqs")) {
		fmt.Fprintf(&b, "request %s {\n  method = \"GET\"\n", hq("r"+strconv.Itoa(i)))
		for _, k := range locReqKeys {
			if e := req.Get(k); e != nil {
				x, ok := locExpr(blocks, n, e, inline)
				if !ok {
					return "", false
				}
				b.WriteString("  " + k + " = " + x + "\n")
			}
		}
		b.WriteString("}\n")
	}
	x, ok := locExpr(blocks, n, body.Get("steps"), inline)
	if !ok {
		return "", false
	}
	b.WriteString("scenario \"s\" {\n  requests = " + x + "\n}\n")
	return b.String(), true
}

// the description the program denotes (nil: none)
func locDesc(blocks []*s.V, body *s.V) *s.V {
	if !locDefsOK(blocks) {
		return nil
	}
	n := len(blocks)
	reqs := s.List()
	for i, req := range listOf(body.Get("reqs")) {
		r := s.Map(s.KV{"name", s.Str("r" + strconv.Itoa(i))}, s.KV{"method", s.Str("GET")})
		for _, k := range locReqKeys {
			if e := req.Get(k); e != nil {
				v := locEval(blocks, n, e)
				if v == nil || (v.K == 'n' && k == "uri") { // uri is a plain string field: null is refused
					return nil
				}
				if v.K == 'n' {
					continue // the field is left out
				}
				r.M = append(r.M, s.KV{k, v})
			}
		}
		reqs.L = append(reqs.L, r)
	}
	steps := locEval(blocks, n, body.Get("steps"))
	if steps == nil {
		return nil
	}
	sc := s.Map(s.KV{"name", s.Str("s")})
	if steps.K != 'n' {
		sc.M = append(sc.M, s.KV{"requests", steps})
	}
	return s.Map(s.KV{"requests", reqs}, s.KV{"scenarios", s.List(sc)})
}

func wellFormedLoc(blocks, body *s.V) bool {
	if blocks.K != 'l' || body.K != 'm' || body.Get("steps") == nil || exKind(body.Get("steps")) == 0 {
		return false
	}
	var okExpr func(e *s.V) bool
	okExpr = func(e *s.V) bool {
		switch exKind(e) {
		case 0:
			return false
		case 'c', 'k', 'g', 'o':
			return okExpr(e.L[1]) && okExpr(e.L[2])
		}
		return true
	}
	for _, b := range blocks.L {
		if b.K != 'm' {
			return false
		}
		for _, kv := range b.M {
			if !okExpr(kv.Val) {
				return false
			}
		}
	}
	for _, r := range listOf(body.Get("reqs")) {
		if r.K != 'm' || r.Get("uri") == nil || r.Get("headers") == nil {
			return false
		}
		for _, kv := range r.M {
			if !okExpr(kv.Val) {
				return false
			}
		}
	}
	return okExpr(body.Get("steps"))
}

func (rn *runner) runLoc(f []string) string {
	if len(f) != 3 {
		return "badcase"
	}
	blocks, err1 := s.ParseToken(f[1])
	body, err2 := s.ParseToken(f[2])
	if err1 != nil || err2 != nil || !wellFormedLoc(blocks, body) {
		return "badcase"
	}
	hlText, _ := locHCL(blocks.L, body, false)
	rhl := rn.read(hlText, ".hcl")
	desc := locDesc(blocks.L, body)
	if desc == nil {
		if os.Getenv("A16_DEBUG") != "" && rhl != "err" {
			fmt.Fprintln(os.Stderr, "---- accepted although a local has no value:\n"+hlText)
		}
		return fmt.Sprintf("y=- hl=%s hi=-", rhl)
	}
	ry := rn.read(toYAML(desc), ".yaml")
	if rhl != ry && os.Getenv("A16_DEBUG") != "" {
		fmt.Fprintln(os.Stderr, "---- locals blocks differ from the yaml twin:\n"+hlText+"---- yaml\n"+toYAML(desc))
	}
	rhi := "-"
	if hiText, ok := locHCL(blocks.L, body, true); ok {
		rhi = same(rn.read(hiText, ".hcl"), ry)
	}
	return fmt.Sprintf("y=%s hl=%s hi=%s", ry, same(rhl, ry), rhi)
}

// ---- generator: typed programs over 1..6 locals blocks; a reference picks uniformly among ALL names visible above
// (so most references skip blocks), names are redefined in later blocks (often in terms of their own earlier value);
// a minority of programs is broken on purpose (undefined name, name of the same or of a later block only, attribute
// set twice).

var locKeys = []string{"Content-Type", "x", "User Agent", "ключ", "a.b", "with space", "123", "true", "null", "k-1", "k"}
var locNames = []string{"common_headers", "auth_headers", "admin_headers", "api", "base", "host", "token", "steps", "warmup", "main_flow", "suffix", "v2"}

type locGen struct {
	r      *vh.Rand
	nreq   int
	types  map[string]byte // name -> 's','l','m' (a name keeps its type when it is redefined, also when it is set to null)
	n      int
	blocks []*s.V // the blocks completed so far (what the block being written, or the body, sees)
}

func (g *locGen) lit(t byte) *s.V {
	r := g.r
	switch t {
	case 's':
		return s.Str(pickStr(r))
	case 'l':
		l := s.List()
		for i, n := 0, r.Intn(3); i < n; i++ {
			st := "r" + strconv.Itoa(r.Intn(g.nreq))
			switch r.Intn(5) {
			case 0:
				st += "(2)"
			case 1:
				st += "(1, 100)"
			case 2:
				st = "sleep(50)"
			}
			l.L = append(l.L, s.Str(st))
		}
		return l
	default:
		m := s.Map()
		for i, n := 0, r.Intn(3); i < n; i++ {
			k := locKeys[r.Intn(len(locKeys))]
			if m.Get(k) == nil {
				m.M = append(m.M, s.KV{Key: k, Val: s.Str(pickStr(r))})
			}
		}
		return m
	}
}

// the value of e where the generator stands (below the completed blocks)
func (g *locGen) isNull(e *s.V) bool {
	v := locEval(g.blocks, len(g.blocks), e)
	return v != nil && v.K == 'n'
}

// an expression of type t that is not null here: a null one gets a default through coalesce()
func (g *locGen) nonNull(t byte, visible []string, depth int) *s.V {
	e := g.expr(t, visible, depth, false)
	if g.isNull(e) {
		return exOp(4, e, g.lit(t))
	}
	return e
}

// visible: names with a definition above, in order of first definition.  mayNull: the place takes a null value
// (a definition, an argument of coalesce/merge, an attribute of a field that can be left out)
func (g *locGen) expr(t byte, visible []string, depth int, mayNull bool) *s.V {
	r := g.r
	var cands []string
	for _, n := range visible {
		if g.types[n] == t {
			cands = append(cands, n)
		}
	}
	if mayNull && r.Intn(8) == 0 {
		return s.Null()
	}
	c := r.Intn(10)
	switch {
	case c < 5 && len(cands) > 0:
		e := exRef(cands[r.Intn(len(cands))])
		if !mayNull && g.isNull(e) {
			return exOp(4, e, g.lit(t))
		}
		return e
	case c < 8 && depth > 0:
		if r.Intn(4) == 0 {
			// coalesce: the first argument may well be null; the second one too where the place takes null
			a := g.expr(t, visible, depth-1, true)
			b := g.expr(t, visible, depth-1, mayNull)
			if g.isNull(a) && g.isNull(b) {
				b = g.lit(t) // "no non-null arguments" is an error, not null
			}
			return exOp(4, a, b)
		}
		switch t {
		case 's':
			return exOp(1, g.nonNull(t, visible, depth-1), g.nonNull(t, visible, depth-1))
		case 'l':
			return exOp(2, g.nonNull(t, visible, depth-1), g.nonNull(t, visible, depth-1))
		default:
			return exOp(3, g.expr(t, visible, depth-1, true), g.expr(t, visible, depth-1, true)) // merge skips null
		}
	}
	return g.lit(t)
}

func (g *locGen) newName(t byte) string {
	for try := 0; try < 8; try++ {
		n := locNames[g.r.Intn(len(locNames))]
		if _, used := g.types[n]; !used {
			g.types[n] = t
			return n
		}
	}
	g.n++
	n := "l" + strconv.Itoa(g.n)
	g.types[n] = t
	return n
}

func genLoc(r *vh.Rand) string {
	g := &locGen{r: r, nreq: 1 + r.Intn(3), types: map[string]byte{}}
	nb := r.PickInt([]int{1, 2, 3, 3, 4, 4, 5, 6})
	blocks := s.List()
	var visible []string
	firstBlock := map[string]int{}
	for i := 0; i < nb; i++ {
		blk := s.Map()
		for j, n := 0, 1+r.Intn(3); j < n; j++ {
			var name string
			redef := false
			if len(visible) > 0 && r.Intn(4) == 0 {
				name = visible[r.Intn(len(visible))] // redefinition; the expression may use the name's value above
				redef = true
			} else {
				name = g.newName([]byte{'s', 'l', 'm'}[r.Intn(3)])
			}
			if blk.Get(name) != nil {
				continue
			}
			if redef && r.Intn(3) == 0 {
				blk.M = append(blk.M, s.KV{Key: name, Val: s.Null()}) // a default of a block above switched off
				continue
			}
			blk.M = append(blk.M, s.KV{Key: name, Val: g.expr(g.types[name], visible, 2, true)})
		}
		for _, kv := range blk.M {
			if _, ok := firstBlock[kv.Key]; !ok {
				firstBlock[kv.Key] = i
				visible = append(visible, kv.Key)
			}
		}
		blocks.L = append(blocks.L, blk)
		g.blocks = blocks.L
	}
	reqs := s.List()
	for i := 0; i < g.nreq; i++ {
		req := s.Map(s.KV{"uri", g.nonNull('s', visible, 1)}, s.KV{"headers", g.expr('m', visible, 1, true)})
		if r.Intn(2) == 0 {
			req.M = append(req.M, s.KV{"tag", g.expr('s', visible, 1, true)})
		}
		if r.Intn(2) == 0 {
			req.M = append(req.M, s.KV{"body", g.expr('s', visible, 1, true)})
		}
		reqs.L = append(reqs.L, req)
	}
	body := s.Map(s.KV{"reqs", reqs}, s.KV{"steps", g.expr('l', visible, 1, true)})
	if r.Intn(8) == 0 {
		// broken on purpose
		bi := r.Intn(nb)
		blk := blocks.L[bi]
		switch r.Intn(7) {
		case 0: // a name nobody defines, in the body
			reqs.L[0].M[0].Val = exOp(1, s.Str("/"), exRef("nowhere"))
		case 1: // a name of the same block only
			name := g.newName('s')
			blk.M = append(blk.M, s.KV{Key: name, Val: s.Str("x")}, s.KV{Key: g.newName('s'), Val: exRef(name)})
		case 2: // a name that only a later block defines
			name := g.newName('s')
			blk.M = append(blk.M, s.KV{Key: g.newName('s'), Val: exRef(name)})
			blocks.L = append(blocks.L, s.Map(s.KV{Key: name, Val: s.Str("late")}))
		case 3: // null handed to a plain string field
			name := g.newName('s')
			blk.M = append(blk.M, s.KV{Key: name, Val: s.Null()})
			reqs.L[0].M[0].Val = exRef(name)
		case 4: // null inside a string template
			name := g.newName('s')
			blk.M = append(blk.M, s.KV{Key: name, Val: s.Null()})
			reqs.L[0].M[0].Val = exOp(1, s.Str("/"), exRef(name))
		case 5: // coalesce without a non-null argument
			name := g.newName('s')
			blk.M = append(blk.M, s.KV{Key: name, Val: s.Null()})
			bad := exOp(4, exRef(name), s.Null())
			if reqs.L[0].Get("tag") == nil {
				reqs.L[0].M = append(reqs.L[0].M, s.KV{Key: "tag", Val: bad})
			} else {
				for i := range reqs.L[0].M {
					if reqs.L[0].M[i].Key == "tag" {
						reqs.L[0].M[i].Val = bad
					}
				}
			}
		default: // an attribute set twice in one block
			if len(blk.M) > 0 {
				blk.M = append(blk.M, s.KV{Key: blk.M[0].Key, Val: blk.M[0].Val})
			}
		}
	}
	return "loc " + blocks.Token() + " " + body.Token()
}
