// hC16: correspondence harness for property C16 (a scenario means the same in HCL and in YAML).
//
// Case line:   scn <tree>          (and `loc <blocks> <body>`: the locals stage, see locals.go; `ext <name> <how> <tree>`:
//                                  format selection by the file name, see genExt; `prv <h|g> <tree>`: the ammo of
//                                  the providers, see prv.go)
// <tree> is the scenario description as a generic value tree with the DOCUMENTED keys
// (variable_sources/requests/calls/scenarios, name, type, file, ..., see docs/eng/scenario-*.md), in the token
// syntax of harness/internal/a16schema/value.go.  The harness prints it as YAML and as HCL (plain, and a variant
// that routes values through `locals` and the collection functions), writes .yaml, .yml and two .hcl files on an
// in-memory file system and runs the real config.ReadAmmoConfig on each.
//
// Observation:  y=<dump|err> yml=<=|dump|err> h=<=|dump|err> hl=<=|dump|err> e=<=|dump|err> ya=<=|dump|err>
// (ya: a second YAML spelling: plain/single-quoted scalars, flow collections, anchors under `locals:` merged with <<: and overridden)
// (e: the description after an edit, written over the same .yaml/.hcl files: its HCL reading against its YAML reading)
// (`=`: identical to the .yaml result; dumps are canonical renderings of the whole AmmoConfig with every
// plugin instance opened: registered name + the fields of its config).
package main

import (
	"fmt"
	"os"
	"reflect"
	"sort"
	"strconv"
	"strings"
	"unicode/utf8"

	"github.com/spf13/afero"
	scnconfig "github.com/yandex/pandora/components/providers/scenario/config"

	s "verifharness/internal/a16schema"
	"verifharness/internal/vh"
)

func main() {
	if len(os.Args) > 1 && os.Args[1] == "show" {
		show(os.Args[2])
		return
	}
	if len(os.Args) > 3 && os.Args[1] == "showlay" {
		showLay(os.Args[2], os.Args[3])
		return
	}
	vh.Main(gen, run)
}

// ---------------------------------------------------------------------------------------------
// printers (written from the documentation, independent of the struct tags)

func yq(x string) string {
	var b strings.Builder
	b.WriteByte('"')
	for _, r := range x {
		switch {
		case r == '"':
			b.WriteString(`\"`)
		case r == '\\':
			b.WriteString(`\\`)
		case r == '\n':
			b.WriteString(`\n`)
		case r == '\t':
			b.WriteString(`\t`)
		case r == '\r':
			b.WriteString(`\r`)
		case r < 0x20 || r == 0x7f:
			fmt.Fprintf(&b, `\x%02x`, r)
		default:
			b.WriteRune(r)
		}
	}
	b.WriteByte('"')
	return b.String()
}

func yamlOf(v *s.V, ind string, b *strings.Builder) {
	switch v.K {
	case 'n':
		b.WriteString("null")
	case 't':
		b.WriteString("true")
	case 'f':
		b.WriteString("false")
	case 'i':
		b.WriteString(strconv.FormatInt(v.I, 10))
	case 's':
		b.WriteString(yq(v.S))
	case 'l':
		if len(v.L) == 0 {
			b.WriteString("[]")
			return
		}
		for _, x := range v.L {
			b.WriteString("\n" + ind + "- ")
			yamlInline(x, ind+"  ", b)
		}
	case 'm':
		if len(v.M) == 0 {
			b.WriteString("{}")
			return
		}
		for _, kv := range v.M {
			b.WriteString("\n" + ind + yq(kv.Key) + ": ")
			yamlOf(kv.Val, ind+"  ", b)
		}
	}
}

// after "- ": a map continues on the same line with its first key
func yamlInline(v *s.V, ind string, b *strings.Builder) {
	if v.K == 'm' && len(v.M) > 0 {
		for i, kv := range v.M {
			if i > 0 {
				b.WriteString("\n" + ind)
			}
			b.WriteString(yq(kv.Key) + ": ")
			yamlOf(kv.Val, ind+"  ", b)
		}
		return
	}
	yamlOf(v, ind, b)
}

func toYAML(v *s.V) string {
	var b strings.Builder
	yamlOf(v, "", &b)
	return strings.TrimPrefix(b.String(), "\n") + "\n"
}

// ---- the second YAML spelling: plain / single-quoted scalars where YAML allows them, flow collections, and repeated
// string maps factored into anchors under `locals:` that are merged with `<<:` and partly overridden (the documented
// YAML counterpart of HCL's merge(local.x, {...}))

var yamlReserved = map[string]bool{"true": true, "false": true, "null": true, "yes": true, "no": true, "on": true, "off": true, "y": true, "n": true, "~": true}

func plainSafe(x string) bool {
	if x == "" || yamlReserved[strings.ToLower(x)] {
		return false
	}
	for i, c := range x {
		ok := (c >= 'a' && c <= 'z') || (c >= 'A' && c <= 'Z') || c == '_' || c == '/'
		if i > 0 {
			ok = ok || c == '-' || (c >= '0' && c <= '9')
		}
		if !ok {
			return false
		}
	}
	return true
}

type yamlAlt struct {
	r       *vh.Rand
	anchors []string // rendered entries of the locals map
	n       int
}

func (y *yamlAlt) scalar(x string) string {
	switch {
	case plainSafe(x) && y.r.Intn(3) != 0:
		return x
	case !strings.ContainsAny(x, "'\n\r\t\\") && utf8.ValidString(x) && !hasControl(x) && y.r.Bool():
		return "'" + x + "'"
	}
	return yq(x)
}

func hasControl(x string) bool {
	for _, c := range x {
		if c < 0x20 || c == 0x7f {
			return true
		}
	}
	return false
}

func isStrMap(v *s.V) bool {
	if v.K != 'm' || len(v.M) == 0 {
		return false
	}
	for _, kv := range v.M {
		if kv.Val.K != 's' {
			return false
		}
	}
	return true
}

func isStrList(v *s.V) bool {
	if v.K != 'l' || len(v.L) == 0 {
		return false
	}
	for _, x := range v.L {
		if x.K != 's' {
			return false
		}
	}
	return true
}

func (y *yamlAlt) emit(v *s.V, ind string, b *strings.Builder) {
	switch v.K {
	case 'n':
		b.WriteString("~")
	case 't':
		b.WriteString("true")
	case 'f':
		b.WriteString("false")
	case 'i':
		b.WriteString(strconv.FormatInt(v.I, 10))
	case 's':
		b.WriteString(y.scalar(v.S))
	case 'l':
		if len(v.L) == 0 {
			b.WriteString("[]")
			return
		}
		if isStrList(v) && y.r.Bool() {
			items := make([]string, 0, len(v.L))
			for _, x := range v.L {
				items = append(items, yq(x.S))
			}
			b.WriteString("[" + strings.Join(items, ", ") + "]")
			return
		}
		for _, x := range v.L {
			b.WriteString("\n" + ind + "- ")
			y.inline(x, ind+"  ", b)
		}
	case 'm':
		if len(v.M) == 0 {
			b.WriteString("{}")
			return
		}
		if isStrMap(v) {
			switch y.r.Intn(3) {
			case 0: // flow style
				items := make([]string, 0, len(v.M))
				for _, kv := range v.M {
					items = append(items, yq(kv.Key)+": "+yq(kv.Val.S))
				}
				b.WriteString("{" + strings.Join(items, ", ") + "}")
				return
			case 1: // anchor with every key, the last one carrying a value that is overridden at the use
				y.n++
				name := "m" + strconv.Itoa(y.n)
				var a strings.Builder
				a.WriteString("  " + name + ": &" + name)
				for i, kv := range v.M {
					val := kv.Val.S
					if i == len(v.M)-1 {
						val = "overridden at the use"
					}
					a.WriteString("\n    " + yq(kv.Key) + ": " + yq(val))
				}
				y.anchors = append(y.anchors, a.String())
				last := v.M[len(v.M)-1]
				b.WriteString("\n" + ind + "<<: *" + name)
				b.WriteString("\n" + ind + yq(last.Key) + ": " + y.scalar(last.Val.S))
				return
			}
		}
		for _, kv := range v.M {
			key := yq(kv.Key)
			if plainSafe(kv.Key) {
				key = kv.Key
			}
			b.WriteString("\n" + ind + key + ": ")
			y.emit(kv.Val, ind+"  ", b)
		}
	}
}

func (y *yamlAlt) inline(v *s.V, ind string, b *strings.Builder) {
	if v.K == 'm' && len(v.M) > 0 && !isStrMap(v) {
		for i, kv := range v.M {
			if i > 0 {
				b.WriteString("\n" + ind)
			}
			key := yq(kv.Key)
			if plainSafe(kv.Key) {
				key = kv.Key
			}
			b.WriteString(key + ": ")
			y.emit(kv.Val, ind+"  ", b)
		}
		return
	}
	y.emit(v, ind, b)
}

func toYAMLAlt(v *s.V, r *vh.Rand) string {
	y := &yamlAlt{r: r}
	var b strings.Builder
	y.emit(v, "", &b)
	body := strings.TrimPrefix(b.String(), "\n") + "\n"
	if len(y.anchors) > 0 {
		return "locals:\n" + strings.Join(y.anchors, "\n") + "\n" + body
	}
	return body
}

func hq(x string) string {
	var b strings.Builder
	b.WriteByte('"')
	for i := 0; i < len(x); {
		r, n := utf8.DecodeRuneInString(x[i:])
		switch {
		case r == '"':
			b.WriteString(`\"`)
		case r == '\\':
			b.WriteString(`\\`)
		case r == '\n':
			b.WriteString(`\n`)
		case r == '\t':
			b.WriteString(`\t`)
		case r == '\r':
			b.WriteString(`\r`)
		case (r == '$' || r == '%') && i+1 < len(x) && x[i+1] == '{':
			b.WriteRune(r)
			b.WriteRune(r)
		default:
			b.WriteString(x[i : i+n])
		}
		i += n
	}
	b.WriteByte('"')
	return b.String()
}

// locals routing
type hclCtx struct {
	useLocals bool
	r         *vh.Rand
	blocks    [][]string // rendered attributes of the locals blocks, in file order (2..5 blocks)
	n         int
	usedFns   map[string]int
	// collection attributes that the block being printed does not have (the HCL struct of a plugin block is the union
	// of the options of all types; a `*[]string` / `*map` field handed null becomes an EMPTY collection, not a nil
	// pointer, and is written as a key the type does not know)
	skipNull map[string]bool
	// layout of the file as a generated dimension (layout.go; nil: the fixed layout)
	lay *hclLay
}

func (c *hclCtx) local(expr string) string {
	if c.blocks == nil {
		c.blocks = make([][]string, 2+c.r.Intn(4))
	}
	nb := len(c.blocks)
	c.n++
	name := "l" + strconv.Itoa(c.n)
	switch c.r.Intn(4) {
	case 0:
		// the same name is defined in an earlier locals block with another value: the later block wins
		decoy := `"decoy"`
		switch {
		case strings.HasPrefix(expr, "["):
			decoy = `["decoy"]`
		case strings.HasPrefix(expr, "{"):
			decoy = `{decoy = "decoy"}`
		}
		at := 1 + c.r.Intn(nb-1)
		early := c.r.Intn(at)
		c.blocks[early] = append(c.blocks[early], name+" = "+decoy)
		c.blocks[at] = append(c.blocks[at], name+" = "+expr)
	case 1:
		// defined under another name in some block, and handed on by a block any number of blocks below it
		at := c.r.Intn(nb - 1)
		below := at + 1 + c.r.Intn(nb-1-at)
		c.blocks[at] = append(c.blocks[at], name+"_def = "+expr)
		c.blocks[below] = append(c.blocks[below], name+" = local."+name+"_def")
	default:
		at := c.r.Intn(nb)
		c.blocks[at] = append(c.blocks[at], name+" = "+expr)
	}
	return "local." + name
}

// Every function the HCL context registers (hcl.go buildHclContext) is used by the locals variant, with
// arguments chosen so that the expression denotes exactly the described value and a wrongly bound function
// would denote another one (empty lists first, decoys around the wanted element, ...).
var hclFunctions = []string{"coalesce", "coalescelist", "compact", "concat", "distinct", "element", "flatten", "index",
	"keys", "lookup", "merge", "reverse", "slice", "sort", "split", "values", "zipmap"}

func (c *hclCtx) used(fn string) { c.usedFns[fn]++ }

func (c *hclCtx) str(x string) string {
	if !c.useLocals || c.r.Intn(3) != 0 {
		if c.lay != nil {
			return c.lay.str(x)
		}
		return hq(x)
	}
	switch c.r.Intn(8) {
	case 7:
		// cty's index(collection, key): the element under the key
		c.used("index")
		if c.r.Bool() {
			return `index(["decoy-a", ` + hq(x) + `, "decoy-b"], 1)`
		}
		return `index(` + c.local(`["decoy-a", "decoy-b", `+hq(x)+`]`) + `, 2)`
	case 0:
		return c.local(hq(x))
	case 1:
		return `"${` + c.local(hq(x)) + `}"`
	case 2:
		// split in two and interpolate the second half
		h := len(x) / 2
		for h > 0 && !utf8.RuneStart(x[h]) {
			h--
		}
		if h == 0 || (x[h-1] == '$' || x[h-1] == '%') {
			return c.local(hq(x))
		}
		return hq(x[:h])[:len(hq(x[:h]))-1] + `${` + c.local(hq(x[h:])) + `}"`
	case 3:
		c.used("element")
		if c.r.Bool() {
			return `element(["decoy-a", ` + hq(x) + `, "decoy-b"], 1)`
		}
		return `element(` + c.local(`["decoy-a", "decoy-b", `+hq(x)+`]`) + `, 5)` // wraps around: 5 mod 3 = 2
	case 4:
		c.used("lookup")
		if c.r.Bool() {
			return `lookup({"wanted" = ` + hq(x) + `, "other" = "decoy"}, "wanted", "default-decoy")`
		}
		return `lookup({"other" = "decoy"}, "wanted", ` + hq(x) + `)`
	case 5:
		c.used("coalesce")
		if c.r.Bool() {
			return `coalesce(null, ` + hq(x) + `, "decoy")`
		}
		return `coalesce(` + c.local(hq(x)) + `, "decoy")`
	default:
		c.used("values")
		return `element(values({"a" = ` + hq(x) + `, "b" = "decoy"}), 0)`
	}
}

func quoteAll(items []string) []string {
	out := make([]string, 0, len(items))
	for _, x := range items {
		out = append(out, hq(x))
	}
	return out
}

func tuple(items []string) string { return "[" + strings.Join(quoteAll(items), ", ") + "]" }

func isSortedDistinct(items []string) bool {
	for i := 1; i < len(items); i++ {
		if !(items[i-1] < items[i]) {
			return false
		}
	}
	return true
}

func (c *hclCtx) strList(v *s.V) string {
	items := make([]string, 0, len(v.L))
	for _, x := range v.L {
		items = append(items, x.S)
	}
	plain := tuple(items)
	if !c.useLocals || c.r.Intn(2) != 0 {
		return plain
	}
	n := len(items)
	hasEmpty, hasComma, distinct := false, false, true
	seen := map[string]bool{}
	for _, x := range items {
		if x == "" {
			hasEmpty = true
		}
		if strings.Contains(x, ",") {
			hasComma = true
		}
		if seen[x] {
			distinct = false
		}
		seen[x] = true
	}
	for try := 0; try < 6; try++ {
		switch c.r.Intn(11) {
		case 0:
			if n == 0 {
				continue
			}
			c.used("concat")
			h := n / 2
			return "concat(" + c.local(tuple(items[:h])) + ", " + tuple(items[h:]) + ")"
		case 1:
			c.used("reverse")
			rev := make([]string, n)
			for i, x := range items {
				rev[n-1-i] = x
			}
			return "reverse(" + c.local(tuple(rev)) + ")"
		case 2:
			if n == 0 {
				continue
			}
			c.used("flatten")
			h := (n + 1) / 2
			return "flatten([" + tuple(items[:h]) + ", [" + tuple(items[h:]) + "]])"
		case 3:
			c.used("slice")
			return "slice(" + tuple(append(append([]string{"decoy-head"}, items...), "decoy-tail")) + ", 1, " + strconv.Itoa(n+1) + ")"
		case 4:
			if n == 0 {
				continue
			}
			c.used("coalescelist")
			if c.r.Bool() {
				return "coalescelist([], " + c.local(plain) + `, ["decoy"])` // the empty list must be skipped
			}
			return "coalescelist(" + plain + `, ["decoy"])`
		case 5:
			if n == 0 || hasEmpty {
				continue
			}
			c.used("compact")
			with := append(append([]string{""}, items...), "")
			return "compact(" + tuple(with) + ")"
		case 6:
			if n == 0 || !distinct {
				continue
			}
			c.used("distinct")
			return "distinct(" + tuple(append(append([]string{}, items...), items[0], items[n-1])) + ")"
		case 7:
			if n < 2 || !isSortedDistinct(items) {
				continue
			}
			c.used("sort")
			rev := make([]string, n)
			for i, x := range items {
				rev[n-1-i] = x
			}
			return "sort(" + tuple(rev) + ")"
		case 8:
			if n == 0 || hasComma {
				continue
			}
			c.used("split")
			return "split(\",\", " + hq(strings.Join(items, ",")) + ")"
		case 9:
			if n == 0 || n > 9 {
				continue
			}
			c.used("values")
			var kv []string
			for i := n - 1; i >= 0; i-- { // written in reverse: values() orders by key
				kv = append(kv, hq("k"+strconv.Itoa(i))+" = "+hq(items[i]))
			}
			return "values({" + strings.Join(kv, ", ") + "})"
		default:
			if n == 0 || !isSortedDistinct(items) {
				continue
			}
			c.used("keys")
			var kv []string
			for i := n - 1; i >= 0; i-- {
				kv = append(kv, hq(items[i])+" = \"v\"")
			}
			return "keys({" + strings.Join(kv, ", ") + "})"
		}
	}
	return plain
}

func objOf(kvs []s.KV) string {
	items := make([]string, 0, len(kvs))
	for _, kv := range kvs {
		items = append(items, hq(kv.Key)+" = "+hq(kv.Val.S))
	}
	return "{" + strings.Join(items, ", ") + "}"
}

func (c *hclCtx) strMap(v *s.V) string {
	plain := objOf(v.M)
	if !c.useLocals || len(v.M) == 0 || c.r.Intn(2) != 0 {
		return plain
	}
	switch c.r.Intn(4) {
	case 0:
		c.used("merge")
		h := len(v.M) / 2
		return "merge(" + c.local(objOf(v.M[:h])) + ", " + objOf(v.M[h:]) + ")"
	case 1:
		// a later argument of merge overrides an earlier one
		c.used("merge")
		decoy := []s.KV{{Key: v.M[0].Key, Val: s.Str("decoy")}}
		return "merge(" + objOf(decoy) + ", " + c.local(plain) + ")"
	case 2:
		c.used("zipmap")
		var ks, vs []string
		for _, kv := range v.M {
			ks = append(ks, kv.Key)
			vs = append(vs, kv.Val.S)
		}
		return "zipmap(" + c.local(tuple(ks)) + ", " + tuple(vs) + ")"
	default:
		return c.local(plain)
	}
}

// A field that is left out of the description: the locals variant sometimes writes the attribute all the same, with a
// value that is null -- the literal, a local that is null, or a local that had a value in a block above and is set to
// null below it (hcl.go: every field that can be left out is a pointer, a map or a slice: null leaves it nil).
func (c *hclCtx) absent(b *strings.Builder, ind, key string) {
	if !c.useLocals || c.r.Intn(4) != 0 {
		return
	}
	if plainStringKeys[key] || c.skipNull[key] {
		return
	}
	e := "null"
	if c.r.Intn(4) != 0 {
		e = c.local("null")
	}
	b.WriteString(ind + key + " = " + e + "\n")
}

// plain string fields of the HCL structs: they cannot be left out
var plainStringKeys = map[string]bool{"method": true, "uri": true, "call": true, "payload": true, "type": true}

func (c *hclCtx) attr(b *strings.Builder, ind, key string, v *s.V) {
	if v == nil {
		c.absent(b, ind, key)
		return
	}
	var e string
	switch v.K {
	case 's':
		e = c.str(v.S)
	case 'i':
		e = strconv.FormatInt(v.I, 10)
	case 't':
		e = "true"
	case 'f':
		e = "false"
	case 'l':
		e = c.strList(v)
	case 'm':
		e = c.strMap(v)
	default:
		return
	}
	b.WriteString(ind + key + " = " + e + "\n")
}

func label(v *s.V, key string) string {
	if x := v.Get(key); x != nil {
		return hq(x.S)
	}
	return `""`
}

// fnUse counts how often each HCL function was used by the printers of this process
var fnUse = map[string]int{}

func toHCL(v *s.V, useLocals bool, r *vh.Rand) string { return toHCLLay(v, useLocals, r, nil) }

func toHCLLay(v *s.V, useLocals bool, r *vh.Rand, lay *hclLay) string {
	c := &hclCtx{useLocals: useLocals, r: r, usedFns: fnUse, lay: lay}
	var b strings.Builder
	for _, src := range listOf(v.Get("variable_sources")) {
		c.mark(&b, 1)
		fmt.Fprintf(&b, "variable_source %s %s {\n", label(src, "name"), label(src, "type"))
		c.skipNull = map[string]bool{"fields": src.Get("type").S != "file/csv", "variables": src.Get("type").S != "variables"}
		for _, k := range c.keys([]string{"file", "fields", "ignore_first_line", "delimiter", "variables"}) {
			c.attr(&b, "  ", k, src.Get(k))
		}
		b.WriteString("}\n")
	}
	c.skipNull = nil
	for _, req := range listOf(v.Get("requests")) {
		c.mark(&b, 2)
		fmt.Fprintf(&b, "request %s {\n", label(req, "name"))
		for _, k := range c.keys([]string{"method", "uri", "headers", "tag", "body"}) {
			c.attr(&b, "  ", k, req.Get(k))
		}
		if p := req.Get("preprocessor"); p != nil {
			b.WriteString("  preprocessor {\n")
			c.attr(&b, "    ", "mapping", p.Get("mapping"))
			b.WriteString("  }\n")
		}
		for _, p := range listOf(req.Get("postprocessors")) {
			fmt.Fprintf(&b, "  postprocessor %s {\n", label(p, "type"))
			isAssert := p.Get("type") != nil && p.Get("type").S == "assert/response"
			c.skipNull = map[string]bool{"mapping": isAssert, "headers": !isAssert, "body": !isAssert}
			for _, k := range c.keys([]string{"mapping", "headers", "body", "status_code"}) {
				c.attr(&b, "    ", k, p.Get(k))
			}
			if sz := p.Get("size"); sz != nil {
				b.WriteString("    size {\n")
				c.attr(&b, "      ", "val", sz.Get("val"))
				c.attr(&b, "      ", "op", sz.Get("op"))
				b.WriteString("    }\n")
			}
			b.WriteString("  }\n")
			c.skipNull = nil
		}
		if t := req.Get("templater"); t != nil {
			b.WriteString("  templater {\n")
			c.attr(&b, "    ", "type", t.Get("type"))
			b.WriteString("  }\n")
		}
		b.WriteString("}\n")
	}
	for _, call := range listOf(v.Get("calls")) {
		c.mark(&b, 3)
		fmt.Fprintf(&b, "call %s {\n", label(call, "name"))
		for _, k := range c.keys([]string{"tag", "call", "metadata", "payload"}) {
			c.attr(&b, "  ", k, call.Get(k))
		}
		for _, p := range listOf(call.Get("preprocessors")) {
			fmt.Fprintf(&b, "  preprocessor %s {\n", label(p, "type"))
			c.attr(&b, "    ", "mapping", p.Get("mapping"))
			b.WriteString("  }\n")
		}
		for _, p := range listOf(call.Get("postprocessors")) {
			fmt.Fprintf(&b, "  postprocessor %s {\n", label(p, "type"))
			c.attr(&b, "    ", "payload", p.Get("payload"))
			c.attr(&b, "    ", "status_code", p.Get("status_code"))
			b.WriteString("  }\n")
		}
		b.WriteString("}\n")
	}
	for _, sc := range listOf(v.Get("scenarios")) {
		c.mark(&b, 4)
		fmt.Fprintf(&b, "scenario %s {\n", label(sc, "name"))
		for _, k := range c.keys([]string{"weight", "min_waiting_time", "requests"}) {
			c.attr(&b, "  ", k, sc.Get(k))
		}
		b.WriteString("}\n")
	}
	if c.lay != nil {
		return c.lay.assemble(b.String(), c.blocks)
	}
	if c.blocks != nil {
		// several locals blocks: a block may refer to any block above it and overrides the names of those blocks
		var l strings.Builder
		for _, blk := range c.blocks {
			l.WriteString("locals {\n")
			for _, a := range blk {
				l.WriteString("  " + a + "\n")
			}
			l.WriteString("}\n")
		}
		return l.String() + b.String()
	}
	return b.String()
}

func listOf(v *s.V) []*s.V {
	if v == nil || v.K != 'l' {
		return nil
	}
	return v.L
}

// ---------------------------------------------------------------------------------------------
// generator

var trickyStrings = []string{
	"plain", "with space", "Ünïcödé-текст-日本", `quote"inside`, `back\slash`, "line1\nline2", "tab\there",
	"${notclosed", "a${b", "%{directive", "%{ if x }", "$${escaped", "100%", "$", "{{.request.a.postprocessor.token}}",
	"123", "-7", "1.5", "1e3", "0x1F", "true", "false", "null", "~", "yes", "no", "on", "off", "y", "n",
	"", " leading", "trailing ", ": colon", "- dash", "# hash", "[x]", "{x}", "a: b", "'single'", "&anchor", "*alias", "!tag", "|", ">",
	"2001-12-14", "12:30:45", "1_000", ".inf", ".nan", "0o17", "+1", "ends with a break\n", "two\nlines\n", "cr\r\nlf",
}

var keyStrings = []string{"Content-Type", "x", "User Agent", "ключ", "a.b", "with space", "123", "true", "null", "k-1", "K", "k"}

func pickStr(r *vh.Rand) string { return trickyStrings[r.Intn(len(trickyStrings))] }

func strMap(r *vh.Rand, max int) *s.V {
	m := s.Map()
	n := r.Intn(max + 1)
	seen := map[string]bool{}
	for i := 0; i < n; i++ {
		k := keyStrings[r.Intn(len(keyStrings))]
		if seen[strings.ToLower(k)] {
			continue
		}
		seen[strings.ToLower(k)] = true
		m.M = append(m.M, s.KV{Key: k, Val: s.Str(pickStr(r))})
	}
	return m
}

func strList(r *vh.Rand, max int) *s.V {
	l := s.List()
	for i, n := 0, r.Intn(max+1); i < n; i++ {
		l.L = append(l.L, s.Str(pickStr(r)))
	}
	return l
}

func opt(r *vh.Rand, m *s.V, key string, f func() *s.V) {
	if r.Intn(2) == 0 {
		m.M = append(m.M, s.KV{Key: key, Val: f()})
	}
}

func genDesc(r *vh.Rand, size int) *s.V {
	d := s.Map()
	name := func(p string, i int) string {
		if r.Intn(4) == 0 {
			return p + strconv.Itoa(i) + " " + pickStr(r)
		}
		return p + strconv.Itoa(i)
	}
	// variable sources
	if n := r.Intn(size + 1); n > 0 {
		l := s.List()
		for i := 0; i < n; i++ {
			src := s.Map(s.KV{"name", s.Str(name("src", i))})
			switch r.Intn(3) {
			case 0:
				src.M = append(src.M, s.KV{"type", s.Str("file/csv")})
				opt(r, src, "file", func() *s.V { return s.Str("data/" + pickStr(r) + ".csv") })
				opt(r, src, "fields", func() *s.V { return strList(r, 3) })
				opt(r, src, "ignore_first_line", func() *s.V { return s.Bool(r.Bool()) })
				opt(r, src, "delimiter", func() *s.V { return s.Str([]string{",", ";", "\t", "|", ""}[r.Intn(5)]) })
			case 1:
				src.M = append(src.M, s.KV{"type", s.Str("file/json")})
				opt(r, src, "file", func() *s.V { return s.Str(pickStr(r)) })
			default:
				src.M = append(src.M, s.KV{"type", s.Str("variables")})
				opt(r, src, "variables", func() *s.V { return strMap(r, 3) })
			}
			l.L = append(l.L, src)
		}
		d.M = append(d.M, s.KV{"variable_sources", l})
	}
	var stepNames []string
	if n := r.Intn(size + 1); n > 0 {
		l := s.List()
		for i := 0; i < n; i++ {
			nm := name("req", i)
			stepNames = append(stepNames, nm)
			req := s.Map(s.KV{"name", s.Str(nm)}, s.KV{"method", s.Str([]string{"GET", "POST", pickStr(r)}[r.Intn(3)])}, s.KV{"uri", s.Str("/" + pickStr(r))})
			req.M = append(req.M, s.KV{"headers", strMap(r, 3)}) // a plain HCL attribute: cannot be left out in HCL
			opt(r, req, "tag", func() *s.V { return s.Str(pickStr(r)) })
			opt(r, req, "body", func() *s.V { return s.Str(pickStr(r)) })
			opt(r, req, "preprocessor", func() *s.V { return s.Map(s.KV{"mapping", strMap(r, 2)}) })
			if r.Intn(3) != 0 {
				pl := s.List()
				for j, m := 0, r.Intn(4); j < m; j++ {
					if r.Intn(40) == 0 {
						// a processor nobody registered: refused by both front-ends
						pl.L = append(pl.L, s.Map(s.KV{"type", s.Str("var/nosuch")}, s.KV{"mapping", strMap(r, 2)}))
						continue
					}
					switch r.Intn(4) {
					case 0:
						pl.L = append(pl.L, s.Map(s.KV{"type", s.Str("var/header")}, s.KV{"mapping", strMap(r, 2)}))
					case 1:
						pl.L = append(pl.L, s.Map(s.KV{"type", s.Str("var/jsonpath")}, s.KV{"mapping", strMap(r, 2)}))
					case 2:
						pl.L = append(pl.L, s.Map(s.KV{"type", s.Str("var/xpath")}, s.KV{"mapping", strMap(r, 2)}))
					default:
						p := s.Map(s.KV{"type", s.Str("assert/response")})
						opt(r, p, "headers", func() *s.V { return strMap(r, 2) })
						opt(r, p, "body", func() *s.V { return strList(r, 2) })
						opt(r, p, "status_code", func() *s.V { return s.Int(int64(r.PickInt([]int{0, 200, 404, 599}))) })
						opt(r, p, "size", func() *s.V {
							sz := s.Map()
							opt(r, sz, "val", func() *s.V {
								if r.Intn(12) == 0 {
									return s.Int(-1) // refused by the constructor of assert/response, in both syntaxes
								}
								return s.Int(int64(r.PickInt([]int{0, 1, 40, 100000})))
							})
							switch r.Intn(12) {
							case 0: // not an operator: refused by the constructor, in both syntaxes
								sz.M = append(sz.M, s.KV{"op", s.Str([]string{"!=", "EQ", "", "<=", pickStr(r)}[r.Intn(5)])})
							case 1: // no operator at all
							default:
								sz.M = append(sz.M, s.KV{"op", s.Str([]string{"eq", "=", "lt", "<", "gt", ">"}[r.Intn(6)])})
							}
							return sz
						})
						pl.L = append(pl.L, p)
					}
				}
				req.M = append(req.M, s.KV{"postprocessors", pl})
			}
			opt(r, req, "templater", func() *s.V { return s.Map(s.KV{"type", s.Str([]string{"text", "html"}[r.Intn(2)])}) })
			l.L = append(l.L, req)
		}
		d.M = append(d.M, s.KV{"requests", l})
	}
	if n := r.Intn(size); n > 0 {
		l := s.List()
		for i := 0; i < n; i++ {
			nm := name("call", i)
			stepNames = append(stepNames, nm)
			call := s.Map(s.KV{"name", s.Str(nm)})
			opt(r, call, "tag", func() *s.V { return s.Str(pickStr(r)) })
			call.M = append(call.M, s.KV{"call", s.Str("pkg.Service." + pickStr(r))})
			opt(r, call, "metadata", func() *s.V { return strMap(r, 2) })
			call.M = append(call.M, s.KV{"payload", s.Str(`{"k":` + strconv.Quote(pickStr(r)) + `}`)})
			if r.Intn(2) == 0 {
				pl := s.List()
				for j, m := 0, r.Intn(3); j < m; j++ {
					pl.L = append(pl.L, s.Map(s.KV{"type", s.Str("prepare")}, s.KV{"mapping", strMap(r, 2)}))
				}
				call.M = append(call.M, s.KV{"preprocessors", pl})
			}
			if r.Intn(2) == 0 {
				pl := s.List()
				for j, m := 0, r.Intn(3); j < m; j++ {
					p := s.Map(s.KV{"type", s.Str("assert/response")})
					opt(r, p, "payload", func() *s.V { return strList(r, 2) })
					opt(r, p, "status_code", func() *s.V { return s.Int(int64(r.PickInt([]int{0, 5, 16}))) })
					pl.L = append(pl.L, p)
				}
				call.M = append(call.M, s.KV{"postprocessors", pl})
			}
			l.L = append(l.L, call)
		}
		d.M = append(d.M, s.KV{"calls", l})
	}
	{
		l := s.List()
		for i, n := 0, 1+r.Intn(size); i < n; i++ {
			sc := s.Map(s.KV{"name", s.Str(name("scn", i))})
			opt(r, sc, "weight", func() *s.V {
				if r.Intn(10) == 0 {
					// not a description at all: both front-ends have to refuse it
					return s.Int([]int64{-1, -2, -50, -9223372036854775808}[r.Intn(4)])
				}
				return s.Int(int64(r.PickInt([]int{0, 1, 2, 7, 50})))
			})
			opt(r, sc, "min_waiting_time", func() *s.V { return s.Int(int64(r.PickInt([]int{0, 10, 1500}))) })
			steps := s.List()
			for j, m := 0, r.Intn(4); j < m && len(stepNames) > 0; j++ {
				st := stepNames[r.Intn(len(stepNames))]
				switch r.Intn(4) {
				case 0:
					st += "(2)"
				case 1:
					st += "(1, 100)"
				}
				steps.L = append(steps.L, s.Str(st))
				if r.Intn(4) == 0 {
					steps.L = append(steps.L, s.Str("sleep(50)"))
				}
			}
			sc.M = append(sc.M, s.KV{"requests", steps})
			l.L = append(l.L, sc)
		}
		d.M = append(d.M, s.KV{"scenarios", l})
	}
	return d
}

func gen(r *vh.Rand, tier string) []string {
	n := 300
	if tier == "thorough" {
		n = 6000
	}
	var out []string
	// every optional field absent / the smallest descriptions first
	out = append(out, "scn "+s.Map(s.KV{"scenarios", s.List(s.Map(s.KV{"name", s.Str("only")}, s.KV{"requests", s.List()}))}).Token())
	for i := 0; i < n; i++ {
		out = append(out, "scn "+genDesc(r, 1+i%4).Token())
	}
	// the ammo of the providers (prv.go)
	for i := 0; i < n/3; i++ {
		out = append(out, genPrv(r))
	}
	// the layout of the file as a generated dimension (layout.go)
	for i := 0; i < n/2; i++ {
		out = append(out, genLay(r))
	}
	// format selection by the file name
	for i := 0; i < n/5; i++ {
		out = append(out, genExt(r))
	}
	// the locals stage: programs over 1..6 locals blocks (locals.go)
	for i := 0; i < n*2/3; i++ {
		out = append(out, genLoc(r))
	}
	return out
}

// Case kind `ext`: ext <file name, hex> <m|x|a> <tree>  -- ReadAmmoConfig chooses the front-end by the file name.
// m: the file holds the description in the syntax the name selects (YAML when it selects none); x: in the other
// syntax; a: the file does not exist.  Observation: r=<dump|err>
var extNames = []string{"scenario.hcl", "SCENARIO.HCL", "s.Hcl", "scenario.yaml", "S.YAML", "s.Yaml", "scenario.yml", "S.YML", "s.yMl",
	"x.yaml.hcl", "x.hcl.yaml", "x.hcl.yml", "x.yml.hcl", ".hcl", ".yaml", ".yml", "dir.hcl/s.yaml", "dir.yaml/s.hcl", "dir.yml/S.HCL",
	"s.hcl.txt", "s.yaml.bak", "hcl", "yaml", "s.json", "s.yamlx", "s.hcl2", "s.yml ", "s.hcl.", "s.tf", "shcl", "s_yaml", "s.ya ml", "scenario"}

func genExt(r *vh.Rand) string {
	name := extNames[r.Intn(len(extNames))]
	how := "m"
	switch r.Intn(8) {
	case 0:
		how = "x"
	case 1:
		how = "a"
	}
	if r.Intn(30) == 0 {
		name = ""
	}
	return "ext " + vh.Hex([]byte(name)) + " " + how + " " + genDesc(r, 1+r.Intn(2)).Token()
}

func isHCLName(name string) bool {
	base := name[strings.LastIndex(name, "/")+1:]
	return strings.HasSuffix(strings.ToLower(base), ".hcl")
}

func (rn *runner) runExt(f []string) (res string) {
	defer func() {
		if r := recover(); r != nil {
			res = "r=panic"
		}
	}()
	if len(f) != 4 {
		return "badcase"
	}
	nameBytes := vh.UnHex(f[1])
	tree, err2 := s.ParseToken(f[3])
	if err2 != nil {
		return "badcase"
	}
	name := string(nameBytes)
	path := ""
	if name != "" {
		path = "/a16ext/" + name
	}
	hcl := isHCLName(name)
	if f[2] == "x" {
		hcl = !hcl
	}
	text := toYAML(tree)
	if hcl {
		text = toHCL(tree, false, vh.NewRand(1))
	}
	s.Fs.RemoveAll("/a16ext")
	if f[2] != "a" && path != "" {
		afero.WriteFile(s.Fs, path, []byte(text), 0o644)
	}
	cfg, rerr := scnconfig.ReadAmmoConfig(s.Fs, path)
	if rerr != nil {
		if os.Getenv("A16_DEBUG") != "" {
			fmt.Fprintln(os.Stderr, name, "ERR:", rerr)
		}
		return "r=err"
	}
	return "r=" + rn.lab.DumpDetailed(rn.node, reflect.ValueOf(cfg).Elem())
}

// ---------------------------------------------------------------------------------------------
// run

type runner struct {
	reg   *s.Reg
	lab   *s.Labeler
	node  *s.Node
	count int
}

// Every rendering is written under ONE file name per extension: the files are re-written between reads, as a user
// editing his scenario would do, so nothing may be remembered per file name.
func (rn *runner) read(text, ext string) string { return rn.readOpt(text, ext, false) }

// dropLocals: the `locals:` key of a YAML scenario only holds anchors; it is not part of the ammo
func (rn *runner) readOpt(text, ext string, dropLocals bool) (res string) {
	defer func() {
		if r := recover(); r != nil {
			res = "panic"
		}
	}()
	name := "/a16scn/scenario" + ext
	afero.WriteFile(s.Fs, name, []byte(text), 0o644)
	cfg, err := scnconfig.ReadAmmoConfig(s.Fs, name)
	if err != nil {
		if os.Getenv("A16_DEBUG") != "" {
			fmt.Fprintln(os.Stderr, ext, "ERR:", err)
		}
		return "err"
	}
	if dropLocals {
		cfg.Locals = nil
	}
	return rn.lab.DumpDetailed(rn.node, reflect.ValueOf(cfg).Elem())
}

// the description after an edit: one more scenario at the end
func edited(tree *s.V) *s.V {
	c := tree.Clone()
	extra := s.Map(s.KV{"name", s.Str("added by the edit")}, s.KV{"requests", s.List()})
	for i, kv := range c.M {
		if kv.Key == "scenarios" && kv.Val.K == 'l' {
			c.M[i].Val.L = append(c.M[i].Val.L, extra)
			return c
		}
	}
	c.M = append(c.M, s.KV{"scenarios", s.List(extra)})
	return c
}

func same(a, ref string) string {
	if a == ref {
		return "="
	}
	return a
}

func run(cases []string) []string {
	s.Import()
	reg := s.NewReg()
	node := s.NodeOf(reflect.TypeOf(scnconfig.AmmoConfig{}), map[reflect.Type]bool{})
	set := map[string]bool{}
	pluginIfaces(node, set)
	var ifaces []string
	for k := range set {
		ifaces = append(ifaces, k)
	}
	sort.Strings(ifaces)
	rn := &runner{reg: reg, lab: s.NewLabeler(reg, ifaces...), node: node}
	out := make([]string, 0, len(cases))
	defer func() {
		if os.Getenv("A16_DEBUG") != "" {
			fmt.Fprintln(os.Stderr, "HCL functions used:", fnUse)
		}
	}()
	for i, c := range cases {
		f := strings.Split(c, " ")
		if f[0] == "loc" {
			out = append(out, rn.runLoc(f))
			continue
		}
		if f[0] == "ext" {
			out = append(out, rn.runExt(f))
			continue
		}
		if f[0] == "lay" {
			out = append(out, rn.runLay(f))
			continue
		}
		if f[0] == "prv" {
			out = append(out, rn.runPrv(f, i))
			continue
		}
		if len(f) != 2 || f[0] != "scn" {
			out = append(out, "badcase")
			continue
		}
		tree, err := s.ParseToken(f[1])
		if err != nil {
			out = append(out, "badcase")
			continue
		}
		y := toYAML(tree)
		r := vh.NewRand(uint64(i)*7919 + 13)
		ry := rn.read(y, ".yaml")
		ryml := rn.read(y, ".yml")
		rh := rn.read(toHCL(tree, false, r), ".hcl")
		hlText := toHCL(tree, true, r)
		rhl := rn.read(hlText, ".hcl")
		if rhl != ry && os.Getenv("A16_DEBUG") != "" {
			fmt.Fprintln(os.Stderr, "---- locals variant differs:\n"+hlText)
		}
		// the edited description, under the same file names, right after the original
		ed := edited(tree)
		rey := rn.read(toYAML(ed), ".yaml")
		reh := rn.read(toHCL(ed, false, r), ".hcl")
		yaText := toYAMLAlt(tree, r)
		rya := rn.readOpt(yaText, ".yaml", true)
		if rya != ry && os.Getenv("A16_DEBUG") != "" {
			fmt.Fprintln(os.Stderr, "---- yaml with anchors differs:\n"+yaText)
		}
		out = append(out, fmt.Sprintf("y=%s yml=%s h=%s hl=%s e=%s ya=%s", ry, same(ryml, ry), same(rh, ry), same(rhl, ry), same(reh, rey), same(rya, ry)))
	}
	return out
}

func show(tok string) {
	tree, err := s.ParseToken(tok)
	if err != nil {
		fmt.Println(err)
		return
	}
	fmt.Println("---- yaml\n" + toYAML(tree))
	fmt.Println("---- hcl\n" + toHCL(tree, false, vh.NewRand(1)))
	fmt.Println("---- hcl with locals\n" + toHCL(tree, true, vh.NewRand(1)))
}

// the plugin interfaces that occur in the scenario config (only their components are constructed for labelling)
func pluginIfaces(n *s.Node, out map[string]bool) {
	switch n.Kind {
	case "plugin":
		out[n.Iface] = true
	case "struct":
		for _, f := range n.Fields {
			pluginIfaces(f.Node, out)
		}
	case "ptr", "slice", "map":
		pluginIfaces(n.Elem, out)
	}
}
