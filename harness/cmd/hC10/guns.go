// Gun-level cases of hC10: the real HTTP / CONNECT / HTTP-scenario / gRPC / gRPC-scenario guns
// against in-process targets (harness/internal/a18).
//
//	http  <gun h|c> <fault> <status> <enabled> <depth> <notagonly> <tag> <path> [<opts: letters t d a>]
//	      fault: ok refuse reset stall trunc truncrst badconnect connreset invalid hookok hookfail0 hookfail1
//	      -> own=<samples reported by Shoot> hook=<samples reported by the Connect hook> [tags proto net id] late=<k> shape=<timeout>:<shape> reqs=<requests the target saw>
//	      (every gun-level observation prints the samples AS THEY ARE AT THE MOMENT OF Report - the
//	      aggregator owns them from then on - and late=<number of samples written to after Report>)
//	hscen <name> <step>,<step>... [<opts>]   step = <name>:<kind>[:<tag>], kind: s<status> q<status> (succeeding pre/postprocessors) reset trunc pp<status> tmpl pre;
//	      <tag> = the tag the request declares (gun.Request.Tag; the sample is labelled with the NAME)
//	      -> n=<samples> tags:proto:net ...
//	gshoot <tag> <kind> [<opts>]        kind: st<code> unknown badpayload
//	      -> n=<samples> tags:proto:net
//	gscen <name> <step>,<step>... [<opts>]   step = <tag>:<kind>[:<call name>], kind: st<code> qt<code> (succeeding pre/postprocessors) badcall badpayload tmpl pre post<code>
//	      (the sample is labelled with the call's TAG; the name defaults to step<i>)
//	      -> n=<samples> tags:proto:net ...
package main

import (
	"context"
	"errors"
	"fmt"
	"io"
	"net"
	"net/http"
	"net/url"
	"os"
	"strconv"
	"strings"
	"sync"
	"syscall"
	"time"

	"github.com/golang/protobuf/proto"
	"github.com/spf13/afero"
	grpcgun "github.com/yandex/pandora/components/guns/grpc"
	grpcscen "github.com/yandex/pandora/components/guns/grpc/scenario"
	phttp "github.com/yandex/pandora/components/guns/http"
	httpscen "github.com/yandex/pandora/components/guns/http_scenario"
	grpcammo "github.com/yandex/pandora/components/providers/grpc"
	"github.com/yandex/pandora/core"
	"github.com/yandex/pandora/core/aggregator/netsample"
	"github.com/yandex/pandora/core/warmup"
	"go.uber.org/zap"
	"go.uber.org/zap/zapcore"

	"verifharness/internal/a18"
	"verifharness/internal/vh"
)

var (
	targetOnce sync.Once
	target     *a18.Target
	grpcOnce   sync.Once
	grpcTarget *a18.GrpcTarget
)

func theTarget() *a18.Target {
	targetOnce.Do(func() {
		t, err := a18.NewTarget()
		if err != nil {
			panic(err)
		}
		target = t
	})
	return target
}

func theGrpcTarget() *a18.GrpcTarget {
	grpcOnce.Do(func() {
		t, err := a18.StartGrpc()
		if err != nil {
			panic(err)
		}
		grpcTarget = t
	})
	return grpcTarget
}

// recClient remembers the error values the gun gets from Do and from reading the body.
type recClient struct {
	inner   phttp.Client
	doErr   error
	bodyErr error
}

func (r *recClient) Do(req *http.Request) (*http.Response, error) {
	res, err := r.inner.Do(req)
	r.doErr = err
	if res != nil && res.Body != nil {
		res.Body = &recBody{res.Body, r}
	}
	return res, err
}
func (r *recClient) CloseIdleConnections() { r.inner.CloseIdleConnections() }

type recBody struct {
	io.ReadCloser
	r *recClient
}

func (b *recBody) Read(p []byte) (int, error) {
	n, err := b.ReadCloser.Read(p)
	if err != nil && err != io.EOF {
		b.r.bodyErr = err
	}
	return n, err
}

// shapeOf describes an error value the way Model/Sample.v's nerr does: wrappers outermost
// first (O *net.OpError, S *os.SyscallError, U *url.Error, W pkg/errors wrapper, N a value with Underlying()), then E<n>
// for a syscall.Errno or X for anything else; the flag says whether the value itself
// implements net.Error with Timeout() true.
func shapeOf(err error) string {
	if err == nil {
		return "-"
	}
	timeout := false
	if ne, ok := err.(net.Error); ok && ne.Timeout() {
		timeout = true
	}
	var toks []string
	for i := 0; i < 32; i++ {
		switch e := err.(type) {
		case *net.OpError:
			toks = append(toks, "O")
			err = e.Err
			continue
		case *os.SyscallError:
			toks = append(toks, "S")
			err = e.Err
			continue
		case *url.Error:
			toks = append(toks, "U")
			err = e.Err
			continue
		case syscall.Errno:
			toks = append(toks, fmt.Sprintf("E%d", int(e)))
			return vh.B(timeout) + ":" + strings.Join(toks, ".")
		}
		if u, ok := err.(interface{ Underlying() error }); ok && u.Underlying() != nil {
			toks = append(toks, "N")
			err = u.Underlying()
			continue
		}
		if c, ok := err.(interface{ Cause() error }); ok && c.Cause() != nil && c.Cause() != err {
			toks = append(toks, "W")
			err = c.Cause()
			continue
		}
		break
	}
	toks = append(toks, "X")
	return vh.B(timeout) + ":" + strings.Join(toks, ".")
}

type invalidAmmo struct {
	req *http.Request
	tag string
	id  uint64
}

func (a invalidAmmo) Request() (*http.Request, *netsample.Sample) {
	s := netsample.Acquire(a.tag)
	s.SetID(a.id)
	return a.req, s
}
func (a invalidAmmo) ID() uint64      { return a.id }
func (a invalidAmmo) IsInvalid() bool { return true }

type plainAmmo struct{ invalidAmmo }

func (a plainAmmo) IsInvalid() bool { return false }

// gunLog: the logger an instance hands to its gun; with "v" in the options it accepts debug messages (log level
// debug: the guns switch their verbose logging on) and writes them nowhere.
func gunLog(opts string) *zap.Logger {
	if !strings.Contains(opts, "v") {
		return zap.NewNop()
	}
	return zap.New(zapcore.NewCore(zapcore.NewJSONEncoder(zap.NewProductionEncoderConfig()), zapcore.AddSync(io.Discard), zap.DebugLevel))
}

// answer log: a = filter all, w = warning, e = error (written to /dev/null)
func answFilter(opts string) (bool, string) {
	switch {
	case strings.Contains(opts, "a"):
		return true, "all"
	case strings.Contains(opts, "w"):
		return true, "warning"
	case strings.Contains(opts, "e"):
		return true, "error"
	}
	return false, ""
}

func sampleNet(s *netsample.Sample) string { return phoutField(s, 8) }

func httpGunConfig(addr string) phttp.GunConfig {
	cfg := phttp.DefaultHTTPGunConfig()
	cfg.Target = addr
	cfg.TargetResolved = addr
	cfg.Client.Dialer.DNSCache = false
	cfg.Client.Dialer.Timeout = time.Second
	cfg.Client.Transport.ResponseHeaderTimeout = 150 * time.Millisecond
	cfg.Client.Transport.DisableKeepAlives = true
	return cfg
}

func runHTTP(f []string) string {
	if len(f) != 9 && len(f) != 10 {
		return "unknown-case"
	}
	opts := ""
	if len(f) == 10 {
		opts = f[9] // t: httptrace timings, d: request/response dumps, a/w/e: answer log (filter all/warning/error), v: log level debug, b: request with a body, s: shared client pool (only with fault ok: the pool's client is not the recording one)
	}
	gunKind, fault, status := f[1], f[2], f[3]
	depth, _ := strconv.Atoi(f[5])
	tag := string(vh.UnHex(f[7]))
	path := string(vh.UnHex(f[8]))
	t := theTarget()
	t.Counts()
	addr := t.Addr()
	t.SetConnectMode("ok")
	switch fault {
	case "refuse":
		addr = a18.ClosedAddr()
	case "badconnect":
		t.SetConnectMode("403")
	case "connreset":
		t.SetConnectMode("reset")
	}
	cfg := httpGunConfig(addr)
	if gunKind == "c" {
		d := phttp.DefaultConnectGunConfig()
		d.Target, d.TargetResolved = cfg.Target, cfg.TargetResolved
		d.Client = cfg.Client
		cfg = d
	}
	cfg.AutoTag.Enabled = f[4] == "1"
	cfg.AutoTag.URIElements = depth
	cfg.AutoTag.NoTagOnly = f[6] == "1"
	cfg.HTTPTrace.TraceEnabled = strings.Contains(opts, "t")
	cfg.HTTPTrace.DumpEnabled = strings.Contains(opts, "d")
	if on, filter := answFilter(opts); on {
		cfg.AnswLog.Enabled, cfg.AnswLog.Filter, cfg.AnswLog.Path = true, filter, os.DevNull
	}
	var g *phttp.BaseGun
	if gunKind == "c" {
		g = phttp.NewConnectGun(cfg, zap.NewNop())
	} else {
		g = phttp.NewHTTP1Gun(cfg, zap.NewNop())
	}
	rc := &recClient{inner: g.Client}
	g.Client = rc
	ag := &recAggr{}
	hookReported := 0
	switch fault {
	case "hookok":
		g.Connect = func(context.Context) error { return nil }
	case "hookfail0":
		g.Connect = func(context.Context) error { return errors.New("connect hook failed") }
	case "hookfail1":
		// the hook's contract (base_test.go: "Connect should report fail in sample itself")
		g.Connect = func(context.Context) error {
			e := errors.New("connect hook failed")
			s := netsample.Acquire("HOOK")
			s.SetErr(e)
			ag.Report(s)
			hookReported++
			return e
		}
	}
	deps := core.GunDeps{Ctx: context.Background(), Log: gunLog(opts)}
	if strings.ContainsAny(opts, "sS") { // shared-client: the instance takes its client from the pool WarmUp builds
		g.Config.SharedClient.Enabled, g.Config.SharedClient.ClientNumber = true, 2
		if strings.Contains(opts, "S") {
			g.Config.SharedClient.ClientNumber = 0 // enabled without a number: one client
		}
		shared, err := g.WarmUp(&warmup.Options{Log: zap.NewNop(), Ctx: context.Background()})
		if err != nil {
			return "warmuperr"
		}
		deps.Shared = shared
	}
	if err := g.Bind(ag, deps); err != nil {
		return "binderr"
	}
	defer g.Close()
	xv := fault + ":" + status
	switch fault {
	case "ok", "hookok", "hookfail0", "hookfail1", "invalid", "refuse", "badconnect", "connreset":
		xv = "ok:" + status
	}
	req := &http.Request{Method: "GET", URL: &url.URL{Path: path}, Header: http.Header{"X-Verif": []string{xv}},
		Proto: "HTTP/1.1", ProtoMajor: 1, ProtoMinor: 1}
	if strings.Contains(opts, "b") { // a request with a body
		req.Method, req.Body, req.ContentLength = "POST", io.NopCloser(strings.NewReader("payload")), 7
	}
	am := invalidAmmo{req: req, tag: tag, id: 7}
	done := make(chan struct{})
	go func() {
		defer close(done)
		if fault == "invalid" {
			g.Shoot(am)
		} else {
			g.Shoot(plainAmmo{am})
		}
	}()
	select {
	case <-done:
	case <-time.After(5 * time.Second):
		return "hang"
	}
	own := 0
	var mine *snap
	for i := range ag.snaps {
		if ag.snaps[i].tags == "HOOK" {
			continue
		}
		own++
		mine = &ag.snaps[i]
	}
	reqs, _ := t.Counts()
	desc := "-"
	if mine != nil {
		desc = fmt.Sprintf("%s %d %s %d", vh.HexS(mine.tags), mine.proto, mine.net, mine.id)
	}
	desc += fmt.Sprintf(" late=%d", lateWrites(ag.samples, ag.snaps))
	errSeen := rc.doErr
	if errSeen == nil {
		errSeen = rc.bodyErr
	}
	return fmt.Sprintf("own=%d hook=%d %s shape=%s reqs=%d", own, hookReported, desc, shapeOf(errSeen), reqs)
}

// ---- the HTTP gun with the real phout aggregator ----

// phout <phase>,<phase>...   phase = <fault><status>*<count>, fault: ok reset trunc refuse
//
// One run of the standard HTTP gun(s) reporting into the standard phout aggregator
// (netsample.NewPhout on an in-memory file system): written samples go back to the sample pool
// and are handed out again by Acquire.  The phases are shot one after another (a short pause in
// between lets the aggregator write and recycle); every line of the phout file is read back.
// -> n=<lines> <proto>:<net> ...   in request order (requests are tagged r<i> with id i).
func runPhout(f []string) string {
	if len(f) != 2 {
		return "unknown-case"
	}
	t := theTarget()
	t.SetConnectMode("ok")
	fs := afero.NewMemMapFs()
	pc := netsample.DefaultPhoutConfig()
	pc.Destination = "phout.log"
	pc.ID = true
	aggr, err := netsample.NewPhout(fs, pc)
	if err != nil {
		return "phouterr"
	}
	ctx, cancel := context.WithCancel(context.Background())
	defer cancel()
	done := make(chan error, 1)
	go func() { done <- aggr.Run(ctx, core.AggregatorDeps{Log: zap.NewNop()}) }()
	mk := func(addr string) *phttp.BaseGun {
		g := phttp.NewHTTP1Gun(httpGunConfig(addr), zap.NewNop())
		_ = g.Bind(aggr, core.GunDeps{Ctx: ctx, Log: zap.NewNop()})
		return g
	}
	gUp, gDown := mk(t.Addr()), mk(a18.ClosedAddr())
	defer gUp.Close()
	defer gDown.Close()
	total := 0
	for _, ph := range strings.Split(f[1], ",") {
		what, cnt, _ := strings.Cut(ph, "*")
		n, _ := strconv.Atoi(cnt)
		fault := strings.TrimRight(what, "0123456789")
		status := what[len(fault):]
		if status == "" {
			status = "200"
		}
		for i := 0; i < n; i++ {
			total++
			req := &http.Request{Method: "GET", URL: &url.URL{Path: "/p"}, Header: http.Header{"X-Verif": []string{fault + ":" + status}},
				Proto: "HTTP/1.1", ProtoMajor: 1, ProtoMinor: 1}
			am := plainAmmo{invalidAmmo{req: req, tag: fmt.Sprintf("r%d", total), id: uint64(total)}}
			if fault == "refuse" {
				gDown.Shoot(am)
			} else {
				gUp.Shoot(am)
			}
		}
		time.Sleep(15 * time.Millisecond)
	}
	cancel()
	select {
	case <-done:
	case <-time.After(5 * time.Second):
		return "hang"
	}
	data, err := afero.ReadFile(fs, "phout.log")
	if err != nil {
		return "readerr"
	}
	byID := map[int]string{}
	lines := 0
	for _, line := range strings.Split(strings.TrimSpace(string(data)), "\n") {
		if line == "" {
			continue
		}
		lines++
		fl := strings.Split(line, "\t")
		if len(fl) != 12 {
			return "badline"
		}
		tag, idS, _ := strings.Cut(fl[1], "#")
		id, _ := strconv.Atoi(idS)
		if tag != fmt.Sprintf("r%d", id) {
			return "badtag:" + fl[1]
		}
		if _, dup := byID[id]; dup {
			return fmt.Sprintf("dup:%d", id)
		}
		byID[id] = fl[11] + ":" + fl[10]
	}
	parts := []string{fmt.Sprintf("n=%d", lines)}
	for i := 1; i <= total; i++ {
		v, ok := byID[i]
		if !ok {
			v = "missing"
		}
		parts = append(parts, v)
	}
	return strings.Join(parts, " ")
}

// ---- HTTP scenario gun ----

type nopTemplater struct{ fail bool }

func (t nopTemplater) Apply(*httpscen.RequestParts, map[string]any, string, string) error {
	if t.fail {
		return errors.New("template failed")
	}
	return nil
}

type failPre struct{}

func (failPre) Process(map[string]any) (map[string]any, error) {
	return nil, errors.New("preprocessor failed")
}

type failPost struct{}

func (failPost) Process(*http.Response, io.Reader) (map[string]any, error) {
	return nil, errors.New("assert failed")
}

type okPre struct{}

func (okPre) Process(map[string]any) (map[string]any, error) { return map[string]any{"k": "v"}, nil }

type okPost struct{}

func (okPost) Process(*http.Response, io.Reader) (map[string]any, error) {
	return map[string]any{"seen": true}, nil
}

type emptyStorage struct{}

func (emptyStorage) Variables() map[string]any { return map[string]any{} }

// samplesLine prints the samples as they were at the moment of Report, then how many of them
// were written to afterwards.
func samplesLine(ss []*netsample.Sample, snaps []snap) string {
	parts := []string{fmt.Sprintf("n=%d", len(snaps))}
	for _, s := range snaps {
		parts = append(parts, fmt.Sprintf("%s:%d:%s", vh.HexS(s.tags), s.proto, s.net))
	}
	parts = append(parts, fmt.Sprintf("late=%d", lateWrites(ss, snaps)))
	return strings.Join(parts, " ")
}

func runHScen(f []string) string {
	if len(f) != 3 && len(f) != 4 {
		return "unknown-case"
	}
	// options: t d a w e v as for the http cases, b: requests with a body, m: min_waiting_time, z: a sleep after every step
	opts := ""
	if len(f) == 4 {
		opts = f[3]
	}
	name := string(vh.UnHex(f[1]))
	t := theTarget()
	cfg := httpGunConfig(t.Addr())
	cfg.HTTPTrace.TraceEnabled = strings.Contains(opts, "t")
	cfg.HTTPTrace.DumpEnabled = strings.Contains(opts, "d")
	if on, filter := answFilter(opts); on {
		cfg.AnswLog.Enabled, cfg.AnswLog.Filter, cfg.AnswLog.Path = true, filter, os.DevNull
	}
	g := httpscen.NewHTTPGun(cfg, zap.NewNop())
	ag := &recAggr{}
	if err := g.Bind(ag, core.GunDeps{Ctx: context.Background(), Log: gunLog(opts)}); err != nil {
		return "binderr"
	}
	defer g.Close()
	sc := &httpscen.Scenario{Name: name, ID: 3, VariableStorage: emptyStorage{}}
	if strings.Contains(opts, "m") {
		sc.MinWaitingTime = 25 * time.Millisecond
	}
	if f[2] != "-" {
		for _, st := range strings.Split(f[2], ",") {
			nm, kind, _ := strings.Cut(st, ":")
			kind, declTag, _ := strings.Cut(kind, ":")
			r := httpscen.Request{Method: "GET", Name: string(vh.UnHex(nm)), URI: "/x", Templater: nopTemplater{}}
			if declTag != "" {
				r.Tag = string(vh.UnHex(declTag))
			}
			if strings.Contains(opts, "b") {
				body := "payload"
				r.Method, r.Body = "POST", &body
			}
			if strings.Contains(opts, "z") {
				r.Sleep = time.Millisecond
			}
			switch {
			case kind == "reset" || kind == "trunc":
				r.Headers = map[string]string{"X-Verif": kind + ":200"}
			case kind == "tmpl":
				r.Templater = nopTemplater{fail: true}
			case kind == "badreq": // http.NewRequest refuses the method: prepareRequest fails, no request is fired
				r.Method = "B AD"
			case kind == "pre":
				r.Preprocessor = failPre{}
			case strings.HasPrefix(kind, "pp"):
				r.Headers = map[string]string{"X-Verif": "ok:" + kind[2:]}
				r.Postprocessors = []httpscen.Postprocessor{failPost{}}
			case strings.HasPrefix(kind, "q"): // a preprocessor and two postprocessors, all succeeding
				r.Headers = map[string]string{"X-Verif": "ok:" + kind[1:]}
				r.Preprocessor = okPre{}
				r.Postprocessors = []httpscen.Postprocessor{okPost{}, okPost{}}
			default: // s<status>
				r.Headers = map[string]string{"X-Verif": "ok:" + kind[1:]}
			}
			sc.Requests = append(sc.Requests, r)
		}
	}
	done := make(chan struct{})
	go func() { defer close(done); g.Shoot(sc) }()
	select {
	case <-done:
	case <-time.After(5 * time.Second):
		return "hang"
	}
	return samplesLine(ag.samples, ag.snaps)
}

// ---- gRPC guns ----

type coreAggr struct {
	samples []*netsample.Sample
	snaps   []snap
}

func (r *coreAggr) Run(context.Context, core.AggregatorDeps) error { return nil }
func (r *coreAggr) Report(s core.Sample) {
	if ns, ok := s.(*netsample.Sample); ok {
		r.samples = append(r.samples, ns)
		r.snaps = append(r.snaps, takeSnap(ns))
	}
}

const helloMethod = "target.TargetService.Hello"

// grpcOpts applies the option letters of a gRPC case to the gun config: a/w/e answer log filter, s: shared client
// pool (two clients), o: dial options (authority, dial timeout), p: reflect_port (the target's own port, given explicitly)
func grpcOpts(conf *grpcgun.GunConfig, opts string) {
	if on, filter := answFilter(opts); on {
		conf.AnswLog.Enabled, conf.AnswLog.Filter, conf.AnswLog.Path = true, filter, os.DevNull
	}
	if strings.Contains(opts, "s") {
		conf.SharedClient.Enabled, conf.SharedClient.ClientNumber = true, 2
	}
	if strings.Contains(opts, "S") { // enabled without a number: one client
		conf.SharedClient.Enabled, conf.SharedClient.ClientNumber = true, 0
	}
	if strings.Contains(opts, "o") {
		conf.DialOptions.Authority, conf.DialOptions.Timeout = "verif.authority", 2*time.Second
	}
	if strings.Contains(opts, "p") {
		if _, port, err := net.SplitHostPort(conf.Target); err == nil {
			conf.ReflectPort, _ = strconv.ParseInt(port, 10, 64)
		}
	}
}

func runGShoot(f []string) string {
	if len(f) != 3 && len(f) != 4 {
		return "unknown-case"
	}
	opts := ""
	if len(f) == 4 {
		opts = f[3]
	}
	tag := string(vh.UnHex(f[1]))
	kind := f[2]
	gt := theGrpcTarget()
	conf := grpcgun.DefaultGunConfig()
	conf.Target = gt.Addr
	conf.Timeout = 2 * time.Second
	grpcOpts(&conf, opts)
	g := grpcgun.NewGun(conf)
	shared, err := g.WarmUp(&warmup.Options{Log: zap.NewNop(), Ctx: context.Background()})
	if err != nil {
		return "warmuperr"
	}
	ag := &coreAggr{}
	if err := g.Bind(ag, core.GunDeps{Ctx: context.Background(), Log: gunLog(opts), Shared: shared}); err != nil {
		return "binderr"
	}
	am := &grpcammo.Ammo{}
	switch {
	case kind == "unknown":
		am.Reset(tag, "target.TargetService.NoSuchMethod", nil, map[string]interface{}{"name": "x"})
	case kind == "badpayload":
		am.Reset(tag, helloMethod, nil, map[string]interface{}{"nosuchfield": 1})
	default: // st<code>
		am.Reset(tag, helloMethod, map[string]string{"x-status": kind[2:]}, map[string]interface{}{"name": "x"})
	}
	g.Shoot(am)
	return samplesLine(ag.samples, ag.snaps)
}

type gFailPre struct{}

func (gFailPre) Process(*grpcscen.Call, map[string]any) (map[string]any, error) {
	return nil, errors.New("preprocessor failed")
}

type gOkPre struct{}

func (gOkPre) Process(*grpcscen.Call, map[string]any) (map[string]any, error) {
	return map[string]any{"k": "v"}, nil
}

type gOkPost struct{}

func (gOkPost) Process(proto.Message, int) (map[string]any, error) {
	return map[string]any{"seen": true}, nil
}

type gFailPost struct{}

func (gFailPost) Process(proto.Message, int) (map[string]any, error) {
	return nil, errors.New("assert failed")
}

func runGScen(f []string) string {
	if len(f) != 3 && len(f) != 4 {
		return "unknown-case"
	}
	opts := "" // as for gshoot, and m: min_waiting_time, z: a sleep after every step
	if len(f) == 4 {
		opts = f[3]
	}
	name := string(vh.UnHex(f[1]))
	gt := theGrpcTarget()
	conf := grpcscen.DefaultGunConfig()
	conf.Target = gt.Addr
	conf.Timeout = 2 * time.Second
	if on, filter := answFilter(opts); on {
		conf.AnswLog.Enabled, conf.AnswLog.Filter, conf.AnswLog.Path = true, filter, os.DevNull
	}
	if strings.Contains(opts, "o") {
		conf.DialOptions.Authority, conf.DialOptions.Timeout = "verif.authority", 2*time.Second
	}
	if strings.Contains(opts, "p") {
		if _, port, err := net.SplitHostPort(conf.Target); err == nil {
			conf.ReflectPort, _ = strconv.ParseInt(port, 10, 64)
		}
	}
	g := grpcscen.NewGun(conf)
	shared, err := g.WarmUp(&warmup.Options{Log: zap.NewNop(), Ctx: context.Background()})
	if err != nil {
		return "warmuperr"
	}
	ag := &coreAggr{}
	if err := g.Bind(ag, core.GunDeps{Ctx: context.Background(), Log: gunLog(opts), Shared: shared}); err != nil {
		return "binderr"
	}
	sc := &grpcscen.Scenario{Name: name}
	if strings.Contains(opts, "m") {
		sc.MinWaitingTime = 25 * time.Millisecond
	}
	if f[2] != "-" {
		for i, st := range strings.Split(f[2], ",") {
			tg, kind, _ := strings.Cut(st, ":")
			kind, callName, _ := strings.Cut(kind, ":")
			c := grpcscen.Call{Name: fmt.Sprintf("step%d", i), Tag: string(vh.UnHex(tg)), Call: helloMethod,
				Payload: []byte(`{"name":"x"}`), Metadata: map[string]string{}}
			if callName != "" {
				c.Name = string(vh.UnHex(callName))
			}
			if strings.Contains(opts, "z") {
				c.Sleep = time.Millisecond
			}
			switch {
			case kind == "badcall":
				c.Call = "target.TargetService.NoSuchMethod"
			case kind == "badpayload":
				c.Payload = []byte(`{"nosuchfield":1}`)
			case kind == "tmpl":
				c.Payload = []byte(`{"name":"{{"}`)
			case kind == "pre":
				c.Preprocessors = []grpcscen.Preprocessor{gFailPre{}}
			case strings.HasPrefix(kind, "post"):
				c.Metadata["x-status"] = kind[4:]
				c.Postprocessors = []grpcscen.Postprocessor{gFailPost{}}
			case strings.HasPrefix(kind, "qt"): // preprocessors and postprocessors, all succeeding
				c.Metadata["x-status"] = kind[2:]
				c.Preprocessors = []grpcscen.Preprocessor{gOkPre{}, gOkPre{}}
				c.Postprocessors = []grpcscen.Postprocessor{gOkPost{}}
			default: // st<code>
				c.Metadata["x-status"] = kind[2:]
			}
			sc.Calls = append(sc.Calls, c)
		}
	}
	g.Shoot(sc)
	return samplesLine(ag.samples, ag.snaps)
}

// ---- generator ----

func genGuns(r *vh.Rand, tier string) []string {
	var out []string
	segs := []string{"a", "bb", "my", "very", "deep", "page.html"}
	rndPath := func() string {
		p := "/"
		k := r.Intn(4)
		for j := 0; j < k; j++ {
			p += r.Pick(segs)
			if j < k-1 || r.Chance(1, 3) {
				p += "/"
			}
		}
		return p
	}
	rndTagging := func() string {
		tag := ""
		if r.Chance(1, 2) {
			tag = r.Pick([]string{"t", "tag with space", "a|b"})
		}
		opts := ""
		if r.Chance(1, 3) {
			opts = " " + r.Pick([]string{"t", "d", "a", "td", "tda", "w", "e", "v", "b", "vb", "dab", "tvw", "be"})
		}
		return fmt.Sprintf("%s %d %s %s %s%s", vh.B(r.Chance(1, 2)), r.Intn(4), vh.B(r.Bool()), vh.HexS(tag), vh.HexS(rndPath()), opts)
	}
	// every status a response can carry, through the real HTTP gun (exhaustively) ...
	lo, hi := 200, 599
	if tier == "thorough" {
		hi = 999
	}
	for st := lo; st <= hi; st++ {
		c := fmt.Sprintf("http h ok %d %s", st, rndTagging())
		if st%16 == 5 { // the client taken from the shared pool
			o := "s"
			if st%32 == 5 {
				o = "S"
			}
			if strings.Count(c, " ") == 8 {
				c += " " + o
			} else {
				c += o
			}
		}
		out = append(out, c)
	}
	out = append(out, "http h ok 101 0 2 0 - 2f", "http h ok 600 0 2 0 - 2f", "http h ok 999 0 2 0 - 2f")
	// ... and a sample of them through the connect gun (tunnel through the in-process proxy)
	step := 13
	if tier == "thorough" {
		step = 1
	}
	for st := 200; st <= 599; st += step {
		out = append(out, fmt.Sprintf("http c ok %d %s", st, rndTagging()))
	}
	// every failure kind, both guns
	for _, gun := range []string{"h", "c"} {
		for _, fault := range []string{"refuse", "reset", "stall", "trunc", "truncrst", "invalid", "hookok", "hookfail0", "hookfail1"} {
			reps := 3
			if fault == "stall" {
				reps = 1
			}
			for i := 0; i < reps; i++ {
				out = append(out, fmt.Sprintf("http %s %s %d %s", gun, fault, r.PickInt([]int{200, 201, 301, 404, 500, 503}), rndTagging()))
			}
		}
	}
	for i := 0; i < 3; i++ {
		out = append(out, fmt.Sprintf("http c badconnect 200 %s", rndTagging()))
		out = append(out, fmt.Sprintf("http c connreset 200 %s", rndTagging()))
	}
	// the real phout aggregator (samples are recycled through the pool): phases of failed and
	// answered exchanges in every order
	kinds := []string{"reset", "refuse", "trunc500", "ok200", "ok404", "ok503"}
	for i, a := range kinds {
		for j, bb := range kinds {
			if i != j {
				out = append(out, fmt.Sprintf("phout %s*12,%s*12,%s*12", a, bb, a))
			}
		}
	}
	np := 3
	if tier == "thorough" {
		np = 60
	}
	for i := 0; i < np; i++ {
		var ph []string
		for j := r.Range(3, 7); j > 0; j-- {
			ph = append(ph, fmt.Sprintf("%s*%d", r.Pick(kinds), r.Range(1, 15)))
		}
		out = append(out, "phout "+strings.Join(ph, ","))
	}
	// HTTP scenarios: every failing kind at every position of a 3-step scenario, then random ones
	hkinds := []string{"reset", "trunc", "pp200", "pp500", "tmpl", "pre", "badreq"}
	names := []string{"a", "b2", "step three", "x.y"}
	// what the step declares besides the field its sample is labelled with (HTTP: the request's tag,
	// gRPC: the call's name): absent, equal to the label, shared by several steps, something else
	other := func(label string) string {
		switch r.Intn(5) {
		case 0:
			return ""
		case 1:
			return ":" + vh.HexS(label)
		case 2:
			return ":" + vh.HexS("shared")
		case 3:
			return ":" + vh.HexS(r.Pick([]string{"t", "tag with space", "a|b", "order"}))
		}
		return ":" + vh.HexS(r.Pick(names))
	}
	for pos := 0; pos < 3; pos++ {
		for _, k := range hkinds {
			st := []string{"s200", "s404", "s500"}
			st[pos] = k
			var parts []string
			for i, x := range st {
				parts = append(parts, vh.HexS(names[i])+":"+x+other(names[i]))
			}
			out = append(out, "hscen "+vh.HexS("sc")+" "+strings.Join(parts, ","))
		}
	}
	out = append(out, "hscen "+vh.HexS("empty")+" -")
	// every gun option that must not change the samples, on a scenario with a completed plain step, a completed step
	// with processors, and a failing step
	for _, o := range []string{"t", "d", "a", "w", "e", "v", "b", "m", "z", "tdavb", "wvmz", "evb"} {
		out = append(out, fmt.Sprintf("hscen %s %s:s200%s,%s:q503%s,%s:%s%s %s", vh.HexS("sc"), vh.HexS("a"), other("a"), vh.HexS("b2"), other("b2"),
			vh.HexS("x.y"), r.Pick([]string{"pp200", "pp500", "reset", "trunc", "s404"}), other("x.y"), o))
	}
	nsc := 40
	if tier == "thorough" {
		nsc = 1500
	}
	for i := 0; i < nsc; i++ {
		k := r.Range(1, 5)
		var parts []string
		for j := 0; j < k; j++ {
			kind := fmt.Sprintf("s%d", r.Range(200, 599))
			if r.Chance(1, 6) {
				kind = r.Pick(hkinds)
			} else if r.Chance(1, 5) {
				kind = "q" + kind[1:]
			}
			nm := r.Pick(names)
			parts = append(parts, vh.HexS(nm)+":"+kind+other(nm))
		}
		o := ""
		if r.Chance(1, 2) {
			o = " " + r.Pick([]string{"t", "d", "a", "w", "e", "v", "b", "m", "z", "tdab", "vb", "va", "mz", "wb", "ez"})
		}
		out = append(out, "hscen "+vh.HexS(r.Pick([]string{"sc", "my scenario", "s|t"}))+" "+strings.Join(parts, ",")+o)
	}
	// a call's name identifies the call in the scenario file (the provider's registry is keyed by it, the gun's
	// template cache too): two DIFFERENT calls never share a name; the same call may be repeated
	callName := func(used map[string]string, tag, kind string) string {
		o := other(tag)
		if o == "" {
			return ""
		}
		if c, ok := used[o]; ok && c != tag+":"+kind {
			return ""
		}
		used[o] = tag + ":" + kind
		return o
	}
	// gRPC gun: every status code 0..20 and beyond, unknown method, payload that does not fit
	for c := 0; c <= 20; c++ {
		out = append(out, fmt.Sprintf("gshoot %s st%d", vh.HexS(r.Pick([]string{"t", "", "grpc tag"})), c))
	}
	out = append(out, "gshoot 74 st99", "gshoot 74 st4294967295", "gshoot 74 unknown", "gshoot - unknown", "gshoot 74 badpayload")
	// gun options that must not change the sample: answer log filters, log level debug, shared client pool,
	// dial options, explicit reflection port
	for _, o := range []string{"a", "w", "e", "v", "s", "S", "o", "p", "vaso", "wsp"} {
		for _, k := range []string{"st0", "st5", "st13", "unknown", "badpayload"} {
			out = append(out, fmt.Sprintf("gshoot %s %s %s", vh.HexS(r.Pick([]string{"t", "", "grpc tag"})), k, o))
		}
	}
	gkinds := []string{"badcall", "badpayload", "tmpl", "pre", "post0", "post5", "post14"}
	for pos := 0; pos < 3; pos++ {
		for _, k := range gkinds {
			st := []string{"st0", "st5", "st13"}
			st[pos] = k
			var parts []string
			used := map[string]string{}
			for i, x := range st {
				parts = append(parts, vh.HexS(names[i])+":"+x+callName(used, names[i], x))
			}
			out = append(out, "gscen "+vh.HexS("gs")+" "+strings.Join(parts, ","))
		}
	}
	out = append(out, "gscen "+vh.HexS("empty")+" -")
	for _, o := range []string{"a", "w", "e", "v", "o", "p", "m", "z", "vaop", "wvmz"} {
		out = append(out, fmt.Sprintf("gscen %s %s:st0,%s:qt5,%s:%s %s", vh.HexS("gs"), vh.HexS("a"), vh.HexS("b2"),
			vh.HexS("x.y"), r.Pick([]string{"post0", "post14", "badpayload", "st13"}), o))
	}
	// a scenario that runs to its end (min_waiting_time is honoured only then)
	for _, o := range []string{"m", "mz"} {
		out = append(out, fmt.Sprintf("gscen %s %s:st0,%s:qt5,%s:st13 %s", vh.HexS("gs"), vh.HexS("a"), vh.HexS("b2"), vh.HexS("x.y"), o))
	}
	ng := 20
	if tier == "thorough" {
		ng = 600
	}
	for i := 0; i < ng; i++ {
		k := r.Range(1, 4)
		var parts []string
		used := map[string]string{}
		for j := 0; j < k; j++ {
			kind := fmt.Sprintf("st%d", r.Range(0, 17))
			if r.Chance(1, 6) {
				kind = r.Pick(gkinds)
			} else if r.Chance(1, 5) {
				kind = "q" + kind[1:]
			}
			tg := r.Pick(names)
			parts = append(parts, vh.HexS(tg)+":"+kind+callName(used, tg, kind))
		}
		o := ""
		if r.Chance(1, 2) {
			o = " " + r.Pick([]string{"a", "w", "e", "v", "o", "p", "m", "z", "va", "mz", "wop"})
		}
		out = append(out, "gscen "+vh.HexS(r.Pick([]string{"gs", "my scenario"}))+" "+strings.Join(parts, ",")+o)
	}
	return out
}
