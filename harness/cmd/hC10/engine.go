// Cases of hC10 that run a whole pool through the real engine (round 7): "each fired request
// produces exactly one sample" is a statement about what ends up in the results, and between
// Aggregator.Report and the results file stands the life time of the aggregator, which the engine
// decides (core/engine/engine.go: the aggregator and the provider run under runCtx; awaitRun cancels
// it when every started instance has been awaited).
//
//	engine <gun> <startup> <rps> <ammo-bound> <delay-ms> <queue> <entry>,<entry>...
//	       gun      grpc (ammo: grpc/json file, entries <hex tag>:st<status code>, phout without ids: the gRPC gun attaches none) |
//	                http | connect, optionally followed by @localhost (the target written with a host name: the gun
//	                factory pre-resolves it, base.go PreResolveTargetAddr) or @nodns (host name and dial: {dns-cache: false})
//	       startup  once:<n> | const:<ops>:<ms> | line:<from>:<to>:<ms> | step:<from>:<to>:<step>:<ms> |
//	                istep:<from>:<to>:<step>:<ms>, several joined by '+' (composite)
//	       rps      shared-unl | own-unl | shared-const:<ops>:<ms> | own-once:<k> | own-const:<ops>:<ms>
//	       bound    L<k> (limit) | P<k> (passes)
//	       entry    <hex tag>:<status> | <hex tag>:trunc     (entry i is the request of path /e<i>; trunc: status 500 and
//	                a body shorter than announced - not a reset: net/http itself re-sends a request whose reused connection
//	                was reset before the first response byte, which would blur "requests received")
//	-> err=<nil|fail|hang|crash> served=<i>*<times>,... n=<lines> <hex tag>#<id>:<proto>:<net> ... (sorted)
//
// The whole pool is the YAML section a user writes (gun, ammo: uri file with a limit / passes,
// result: phout with ids, rps, startup), decoded by the real config decoder into engine.Config;
// the target answers every request after <delay-ms> and keeps the paths it has received.
package main

import (
	"context"
	"encoding/json"
	"fmt"
	"os"
	"os/exec"
	"sort"
	"strconv"
	"strings"
	"sync"
	"time"

	"github.com/spf13/afero"
	"github.com/yandex/pandora/core/config"
	"github.com/yandex/pandora/core/engine"
	"github.com/yandex/pandora/lib/monitoring"
	"go.uber.org/zap"

	"verifharness/internal/a18"
	"verifharness/internal/vh"
)

var (
	engMetricsOnce sync.Once
	engMetrics     engine.Metrics
	engSeq         int
)

func theEngineMetrics() engine.Metrics {
	engMetricsOnce.Do(func() {
		engMetrics = engine.Metrics{
			Request:        monitoring.NewCounter("hC10_Requests"),
			Response:       monitoring.NewCounter("hC10_Responses"),
			InstanceStart:  monitoring.NewCounter("hC10_UsersStarted"),
			InstanceFinish: monitoring.NewCounter("hC10_UsersFinished"),
		}
	})
	return engMetrics
}

func msDur(s string) string { return s + "ms" }

func scheduleYAML(tok string) (string, bool) {
	p := strings.Split(tok, ":")
	switch {
	case p[0] == "once" && len(p) == 2:
		return fmt.Sprintf("{type: once, times: %s}", p[1]), true
	case p[0] == "const" && len(p) == 3:
		return fmt.Sprintf("{type: const, ops: %s, duration: %s}", p[1], msDur(p[2])), true
	case p[0] == "line" && len(p) == 4:
		return fmt.Sprintf("{type: line, from: %s, to: %s, duration: %s}", p[1], p[2], msDur(p[3])), true
	case p[0] == "step" && len(p) == 5:
		return fmt.Sprintf("{type: step, from: %s, to: %s, step: %s, duration: %s}", p[1], p[2], p[3], msDur(p[4])), true
	case p[0] == "istep" && len(p) == 5:
		return fmt.Sprintf("{type: instance_step, from: %s, to: %s, step: %s, stepduration: %s}", p[1], p[2], p[3], msDur(p[4])), true
	case p[0] == "unl" && len(p) == 1:
		return "{type: unlimited, duration: 1m}", true
	}
	return "", false
}

func schedulesYAML(tok string) (string, bool) {
	parts := strings.Split(tok, "+")
	var ys []string
	for _, p := range parts {
		y, ok := scheduleYAML(p)
		if !ok {
			return "", false
		}
		ys = append(ys, y)
	}
	if len(ys) == 1 {
		return ys[0], true
	}
	return "[" + strings.Join(ys, ", ") + "]", true
}

// runEngine runs the case in a child process of the same binary: a panic on one of the engine's own
// goroutines (its await loop asserts with log.Panic) cannot be recovered here and would take the whole
// harness run down; in a child it is the observation err=crash of this one case.
func runEngine(f []string) string {
	exe, err := os.Executable()
	if err != nil {
		return runEngineHere(f)
	}
	ctx, cancel := context.WithTimeout(context.Background(), 60*time.Second)
	defer cancel()
	cmd := exec.CommandContext(ctx, exe)
	cmd.Env = append(os.Environ(), engineChildEnv+"="+strings.Join(f, " "))
	out, err := cmd.Output()
	if err != nil {
		if ctx.Err() != nil {
			return "err=hang"
		}
		return "err=crash"
	}
	return strings.TrimSpace(string(out))
}

const engineChildEnv = "HC10_ENGINE_CASE"

func runEngineHere(f []string) string {
	if len(f) != 8 {
		return "unknown-case"
	}
	importAll()
	gun, startup, rps, bound, delay, queue := f[1], f[2], f[3], f[4], f[5], f[6]
	gun, how, _ := strings.Cut(gun, "@")
	isGrpc := gun == "grpc"
	if (gun != "http" && gun != "connect" && !isGrpc) || (how != "" && (isGrpc || (how != "localhost" && how != "nodns"))) {
		return "unknown-case"
	}
	startY, ok := schedulesYAML(startup)
	if !ok {
		return "unknown-case"
	}
	own := strings.HasPrefix(rps, "own-")
	rpsTok := strings.TrimPrefix(strings.TrimPrefix(rps, "own-"), "shared-")
	rpsY, ok := schedulesYAML(rpsTok)
	if !ok {
		return "unknown-case"
	}
	if len(bound) < 2 || (bound[0] != 'L' && bound[0] != 'P') {
		return "unknown-case"
	}
	boundKey := map[byte]string{'L': "limit", 'P': "passes"}[bound[0]]
	if _, err := strconv.Atoi(bound[1:]); err != nil {
		return "unknown-case"
	}
	if _, err := strconv.Atoi(delay); err != nil {
		return "unknown-case"
	}
	var t *a18.Target
	var gt *a18.GrpcTarget
	var err error
	if isGrpc {
		if gt, err = a18.StartGrpc(); err != nil {
			return "targeterr"
		}
		defer gt.Stop()
	} else {
		if t, err = a18.NewTarget(); err != nil {
			return "targeterr"
		}
		defer t.Close()
		t.SetConnectMode("ok")
	}

	engSeq++
	ammoFile := fmt.Sprintf("engine-%d.uri", engSeq)
	outFile := fmt.Sprintf("engine-%d.phout", engSeq)
	var ammo strings.Builder
	for i, e := range strings.Split(f[7], ",") {
		_, st, ok := strings.Cut(e, ":")
		if !ok {
			return "unknown-case"
		}
		xv := "ok:" + st
		if st == "trunc" {
			xv = "trunc:500"
		}
		tag, _, _ := strings.Cut(e, ":")
		if isGrpc {
			line, _ := json.Marshal(map[string]interface{}{"tag": string(vh.UnHex(tag)), "call": helloMethod, "payload": map[string]interface{}{"name": "x"},
				"metadata": map[string]string{"x-status": strings.TrimPrefix(st, "st"), "x-delay": delay, "x-entry": fmt.Sprintf("/e%d", i)}})
			ammo.Write(append(line, '\n'))
			continue
		}
		fmt.Fprintf(&ammo, "[X-Verif: %s]\n[X-Delay: %s]\n/e%d %s\n", xv, delay, i, string(vh.UnHex(tag)))
	}
	if err := afero.WriteFile(cfgFs, ammoFile, []byte(ammo.String()), 0o644); err != nil {
		return "fserr"
	}
	defer func() { _ = cfgFs.Remove(ammoFile); _ = cfgFs.Remove(outFile) }()
	gunTarget, gunExtra, ammoType, ids := "", "", "uri", true
	if isGrpc {
		gunTarget, ammoType, ids = gt.Addr, "grpc/json", false
	} else {
		gunTarget = t.Addr()
	}
	if how != "" {
		gunTarget = strings.Replace(gunTarget, "127.0.0.1", "localhost", 1)
	}
	if how == "nodns" {
		gunExtra = ", dial: {dns-cache: false}"
	}
	text := fmt.Sprintf(`pools:
  - id: engine-%d
    gun: {type: %s, target: "%s"%s}
    ammo: {type: %s, file: %s, %s: %s}
    result: {type: phout, destination: %s, id: %v, sample-queue-size: %s}
    rps-per-instance: %v
    rps: %s
    startup: %s
`, engSeq, gun, gunTarget, gunExtra, ammoType, ammoFile, boundKey, bound[1:], outFile, ids, queue, own, rpsY, startY)
	tree, err := yamlTree(text)
	if err != nil {
		return "yamlerr"
	}
	var ec engine.Config
	if err := config.DecodeAndValidate(tree, &ec); err != nil {
		return "decodeerr"
	}
	eng := engine.New(zap.NewNop(), theEngineMetrics(), ec)
	ctx, cancel := context.WithCancel(context.Background())
	defer cancel()
	res := make(chan error, 1)
	go func() {
		err := eng.Run(ctx)
		eng.Wait()
		res <- err
	}()
	errS := "nil"
	select {
	case err := <-res:
		if err != nil {
			errS = "fail"
		}
	case <-time.After(20 * time.Second):
		cancel()
		return "err=hang"
	}
	counts := map[int]int{}
	var servedPaths []string
	if isGrpc {
		servedPaths = gt.TakeServed()
	} else {
		servedPaths = t.TakeServed()
	}
	for _, p := range servedPaths {
		if i, err := strconv.Atoi(strings.TrimPrefix(p, "/e")); err == nil && strings.HasPrefix(p, "/e") {
			counts[i]++
		} else {
			counts[-1]++
		}
	}
	var idx []int
	for i := range counts {
		idx = append(idx, i)
	}
	sort.Ints(idx)
	var served []string
	for _, i := range idx {
		served = append(served, fmt.Sprintf("%d*%d", i, counts[i]))
	}
	if len(served) == 0 {
		served = []string{"-"}
	}
	data, err := afero.ReadFile(cfgFs, outFile)
	if err != nil {
		return "readerr"
	}
	var lines []string
	for _, line := range strings.Split(strings.TrimSpace(string(data)), "\n") {
		if line == "" {
			continue
		}
		fl := strings.Split(line, "\t")
		if len(fl) != 12 {
			return "badline"
		}
		tag, id := fl[1], "0"
		if ids {
			tag, id, _ = strings.Cut(fl[1], "#")
		}
		lines = append(lines, fmt.Sprintf("%s#%s:%s:%s", vh.HexS(tag), id, fl[11], fl[10]))
	}
	sort.Strings(lines)
	return strings.Join(append([]string{"err=" + errS, "served=" + strings.Join(served, ","), fmt.Sprintf("n=%d", len(lines))}, lines...), " ")
}

func genEngine(r *vh.Rand, tier string) []string {
	// fixed ones: every startup schedule kind outliving a small ammo bound with a target slower than
	// the interval between two instance starts; a ramp that ends before the ammo does; startup at once
	out := []string{
		"engine http const:50:3000 shared-unl L4 150 1000 " + vh.HexS("case1") + ":200",
		"engine http line:20:80:3000 shared-unl L5 120 1000 " + vh.HexS("a") + ":200," + vh.HexS("b") + ":404",
		"engine http step:40:80:20:1000 own-unl P2 120 8 " + vh.HexS("a") + ":200," + vh.HexS("") + ":503," + vh.HexS("c d") + ":301",
		"engine connect istep:1:8:1:25 shared-unl L6 150 1000 " + vh.HexS("t") + ":200," + vh.HexS("u") + ":trunc",
		"engine http@localhost once:1+const:40:3000 shared-unl L3 200 0 " + vh.HexS("x") + ":201",
		"engine http@nodns once:4 shared-unl L9 40 2 " + vh.HexS("a") + ":200," + vh.HexS("b") + ":500",
		"engine http const:100:60 own-once:3 L100 30 1000 " + vh.HexS("a") + ":200," + vh.HexS("b") + ":404",
		"engine http const:50:3000 shared-const:100:100 L100 60 1000 " + vh.HexS("a") + ":200",
		"engine grpc const:50:3000 shared-unl L5 150 1000 " + vh.HexS("g") + ":st0," + vh.HexS("") + ":st14," + vh.HexS("grpc tag") + ":st5",
		"engine grpc istep:1:6:1:25 own-unl P2 120 1 " + vh.HexS("a") + ":st4," + vh.HexS("b") + ":st99",
	}
	n := 10
	if tier == "thorough" {
		n = 120
	}
	tags := []string{"", "a", "b", "case1", "tag with space", "a|b", "ü"}
	for i := 0; i < n; i++ {
		gun := r.Pick([]string{"http", "http", "http", "connect"}) + r.Pick([]string{"", "", "", "@localhost", "@nodns"})
		delay := r.PickInt([]int{60, 100, 150, 200})
		var startup string
		switch r.Intn(7) {
		case 0:
			startup = fmt.Sprintf("once:%d", r.Range(1, 6))
		case 1:
			startup = fmt.Sprintf("line:%d:%d:3000", r.Range(10, 40), r.Range(40, 100))
		case 2:
			startup = fmt.Sprintf("step:%d:%d:%d:1000", r.Range(20, 40), r.Range(60, 100), r.Range(10, 30))
		case 3:
			startup = fmt.Sprintf("istep:1:%d:%d:%d", r.Range(4, 10), r.Range(1, 2), r.Range(10, 40))
		case 4:
			startup = fmt.Sprintf("once:%d+const:%d:3000", r.Range(1, 2), r.Range(20, 80))
		default:
			startup = fmt.Sprintf("const:%d:3000", r.Range(20, 100))
		}
		rps := r.Pick([]string{"shared-unl", "shared-unl", "own-unl", "own-unl", fmt.Sprintf("own-once:%d", r.Range(1, 3)),
			fmt.Sprintf("shared-const:%d:%d", r.Range(50, 200), r.Range(100, 300)), fmt.Sprintf("own-const:%d:200", r.Range(20, 60))})
		ne := r.Range(1, 4)
		var es []string
		for j := 0; j < ne; j++ {
			st := strconv.Itoa(r.PickInt([]int{200, 200, 201, 301, 404, 500, 503}))
			if r.Chance(1, 8) {
				st = "trunc"
			}
			es = append(es, vh.HexS(r.Pick(tags))+":"+st)
		}
		if r.Chance(1, 5) {
			gun = "grpc"
			for j := range es {
				tg, _, _ := strings.Cut(es[j], ":")
				es[j] = tg + ":st" + strconv.Itoa(r.PickInt([]int{0, 0, 1, 4, 5, 8, 13, 14, 16, 99}))
			}
		}
		bound := fmt.Sprintf("L%d", r.Range(1, 8))
		if r.Chance(1, 4) {
			bound = fmt.Sprintf("P%d", r.Range(1, 3))
		}
		out = append(out, fmt.Sprintf("engine %s %s %s %s %d %d %s", gun, startup, rps, bound, delay,
			r.PickInt([]int{0, 1, 8, 1000, 262144}), strings.Join(es, ",")))
	}
	return out
}
