// Cases of hC10 that follow a sample beyond the single shot (round 6):
//
//	scfile <yaml|hcl|gyaml|ghcl> <k> <decl>,<decl>... <scen>;<scen>...
//	       decl = <name>:<tag|->:<kind>   a request of the scenario FILE (kind: s<status> reset trunc pp<status>); g...: a call of a gRPC
//	              scenario file (kind: st<code> post<code> badcall badpayload), read by the grpc/scenario provider, shot by the grpc/scenario gun
//	       scen = <name>=<item>,<item>...   item = <request name> | <request name>*<cnt> | <request name>*<cnt>+ (with a sleep
//	              argument) | sl (a "sleep(1)" entry)
//	       The file is written in YAML or HCL, read by the REAL http/scenario provider (decoded from an `ammo:` section by
//	       the registry), k ammo are acquired and each is shot by the REAL http/scenario gun (decoded from a `gun:` section).
//	       -> n=<samples> tags:proto:net ... late=<k>   |   providererr (the provider refuses the file)
//	phoutq <cap> <instances> <per>
//	       instances = one letter per instance: h (HTTP gun), s (HTTP scenario gun, two-step scenarios), g (gRPC gun).
//	       Every instance shoots <per> ammo; all report into ONE real phout aggregator whose sample-queue-size is <cap>
//	       and whose Run is started late (when every instance has finished or none has made progress for 100 ms: the writer is
//	       behind by as much as the Report implementation lets it be).  Every line of the results file is read back.
//	       -> n=<lines> <tag>#<id>:<proto>:<net> ...   (sorted)
package main

import (
	"context"
	"fmt"
	"net/http"
	"net/url"
	"sort"
	"strconv"
	"strings"
	"sync"
	"sync/atomic"
	"time"

	"github.com/spf13/afero"
	grpcgun "github.com/yandex/pandora/components/guns/grpc"
	phttp "github.com/yandex/pandora/components/guns/http"
	httpscen "github.com/yandex/pandora/components/guns/http_scenario"
	grpcammo "github.com/yandex/pandora/components/providers/grpc"
	"github.com/yandex/pandora/core"
	"github.com/yandex/pandora/core/aggregator/netsample"
	"github.com/yandex/pandora/core/config"
	"github.com/yandex/pandora/core/warmup"
	"go.uber.org/zap"

	"verifharness/internal/vh"
)

// ---- scenario file -> real provider -> real gun ----

type scDecl struct{ name, tag, kind string }

func scHeaders(kind string) (xv string, pp bool) {
	switch {
	case kind == "reset" || kind == "trunc":
		return kind + ":200", false
	case strings.HasPrefix(kind, "pp"):
		return "ok:" + kind[2:], true
	}
	return "ok:" + kind[1:], false
}

func scItemText(it string) string {
	if it == "sl" {
		return "sleep(1)"
	}
	nm, cnt, has := strings.Cut(it, "*")
	name := string(vh.UnHex(nm))
	if !has {
		return name
	}
	if strings.HasSuffix(cnt, "+") {
		return fmt.Sprintf("%s(%s, 1)", name, strings.TrimSuffix(cnt, "+"))
	}
	return fmt.Sprintf("%s(%s)", name, cnt)
}

// the calls of a gRPC scenario file: kind st<code> | post<code> (a failing assert after the call) | badcall | badpayload
func scCallParts(kind string) (call, payload, status string, pp bool) {
	call, payload = helloMethod, `{"name":"x"}`
	switch {
	case kind == "badcall":
		call = "target.TargetService.NoSuchMethod"
	case kind == "badpayload":
		payload = `{"nosuchfield":1}`
	case strings.HasPrefix(kind, "post"):
		status, pp = kind[4:], true
	default:
		status = kind[2:]
	}
	return
}

func scGrpcFileText(format string, decls []scDecl, scens []string) string {
	var sb strings.Builder
	if format == "ghcl" {
		for _, d := range decls {
			call, payload, status, pp := scCallParts(d.kind)
			fmt.Fprintf(&sb, "call %q {\n  call = %q\n  payload = %q\n", d.name, call, payload)
			if d.tag != "" {
				fmt.Fprintf(&sb, "  tag = %q\n", d.tag)
			}
			if status != "" {
				fmt.Fprintf(&sb, "  metadata = {\n    \"x-status\" = %q\n  }\n", status)
			}
			if pp {
				sb.WriteString("  postprocessor \"assert/response\" {\n    status_code = 1\n  }\n")
			}
			sb.WriteString("}\n")
		}
		sb.WriteString(scScenariosText("hcl", scens))
		return sb.String()
	}
	sb.WriteString("calls:\n")
	for _, d := range decls {
		call, payload, status, pp := scCallParts(d.kind)
		fmt.Fprintf(&sb, "  - name: %q\n    call: %q\n    payload: %q\n", d.name, call, payload)
		if d.tag != "" {
			fmt.Fprintf(&sb, "    tag: %q\n", d.tag)
		}
		if status != "" {
			fmt.Fprintf(&sb, "    metadata:\n      x-status: %q\n", status)
		}
		if pp {
			sb.WriteString("    postprocessors:\n      - type: assert/response\n        status_code: 1\n")
		}
	}
	sb.WriteString(scScenariosText("yaml", scens))
	return sb.String()
}

func scScenariosText(format string, scens []string) string {
	var sb strings.Builder
	if format == "hcl" {
		for _, sc := range scens {
			nm, items, _ := strings.Cut(sc, "=")
			fmt.Fprintf(&sb, "scenario %q {\n  min_waiting_time = 0\n  requests = [", string(vh.UnHex(nm)))
			for i, it := range strings.Split(items, ",") {
				if i > 0 {
					sb.WriteString(", ")
				}
				fmt.Fprintf(&sb, "%q", scItemText(it))
			}
			sb.WriteString("]\n}\n")
		}
		return sb.String()
	}
	sb.WriteString("scenarios:\n")
	for _, sc := range scens {
		nm, items, _ := strings.Cut(sc, "=")
		fmt.Fprintf(&sb, "  - name: %q\n    min_waiting_time: 0\n    requests:\n", string(vh.UnHex(nm)))
		for _, it := range strings.Split(items, ",") {
			fmt.Fprintf(&sb, "      - %q\n", scItemText(it))
		}
	}
	return sb.String()
}

func scFileText(format string, decls []scDecl, scens []string) string {
	if strings.HasPrefix(format, "g") {
		return scGrpcFileText(format, decls, scens)
	}
	var sb strings.Builder
	if format == "hcl" {
		for _, d := range decls {
			xv, pp := scHeaders(d.kind)
			fmt.Fprintf(&sb, "request %q {\n  method = \"GET\"\n  uri = \"/x\"\n  headers = {\n    X-Verif = %q\n  }\n", d.name, xv)
			if d.tag != "" {
				fmt.Fprintf(&sb, "  tag = %q\n", d.tag)
			}
			if pp {
				sb.WriteString("  postprocessor \"assert/response\" {\n    status_code = 1\n  }\n")
			}
			sb.WriteString("}\n")
		}
		sb.WriteString(scScenariosText("hcl", scens))
		return sb.String()
	}
	sb.WriteString("requests:\n")
	for _, d := range decls {
		xv, pp := scHeaders(d.kind)
		fmt.Fprintf(&sb, "  - name: %q\n    method: GET\n    uri: /x\n    headers:\n      X-Verif: %q\n", d.name, xv)
		if d.tag != "" {
			fmt.Fprintf(&sb, "    tag: %q\n", d.tag)
		}
		if pp {
			sb.WriteString("    postprocessors:\n      - type: assert/response\n        status_code: 1\n")
		}
	}
	sb.WriteString(scScenariosText("yaml", scens))
	return sb.String()
}

func runScFile(f []string) string {
	if len(f) != 5 {
		return "unknown-case"
	}
	importAll()
	format := f[1]
	k, _ := strconv.Atoi(f[2])
	var decls []scDecl
	for _, d := range strings.Split(f[3], ",") {
		p := strings.Split(d, ":")
		if len(p) != 3 {
			return "unknown-case"
		}
		decls = append(decls, scDecl{name: string(vh.UnHex(p[0])), tag: string(vh.UnHex(p[1])), kind: p[2]})
	}
	grpcFile := strings.HasPrefix(format, "g")
	kind, ext := "http/scenario", format
	if grpcFile {
		kind, ext = "grpc/scenario", format[1:]
	}
	ammoSeq++
	file := fmt.Sprintf("/scenario-%d.%s", ammoSeq, ext)
	if err := afero.WriteFile(cfgFs, file, []byte(scFileText(format, decls, strings.Split(f[4], ";"))), 0o644); err != nil {
		return "writeerr"
	}
	tree, err := yamlTree(fmt.Sprintf("ammo:\n  type: %s\n  file: %q\n  limit: %d\n", kind, file, k))
	if err != nil {
		return "yamlerr"
	}
	var h struct {
		Ammo core.Provider `config:"ammo"`
	}
	if err := config.DecodeAndValidate(tree, &h); err != nil {
		return "providererr"
	}
	t := theTarget()
	t.SetConnectMode("ok")
	addr := t.Addr()
	if grpcFile {
		addr = theGrpcTarget().Addr
	}
	ag := &coreAggr{}
	g, what := gunFromYAML(fmt.Sprintf("gun:\n  type: %s\n  target: %q\n", kind, addr), ag)
	if g == nil {
		return what
	}
	if c, ok := g.(interface{ Close() error }); ok {
		defer c.Close()
	}
	ctx, cancel := context.WithCancel(context.Background())
	defer cancel()
	runErr := make(chan error, 1)
	go func() { runErr <- h.Ammo.Run(ctx, core.ProviderDeps{Log: zap.NewNop()}) }()
	done := make(chan struct{})
	go func() {
		defer close(done)
		for {
			am, ok := h.Ammo.Acquire()
			if !ok {
				return
			}
			g.Shoot(am)
			h.Ammo.Release(am)
		}
	}()
	select {
	case <-done:
	case <-time.After(20 * time.Second):
		return "hang"
	}
	select {
	case <-runErr:
	case <-time.After(5 * time.Second):
		return "hang"
	}
	return samplesLine(ag.samples, ag.snaps)
}

// ---- several instances -> one real phout aggregator with a small queue and a writer that is behind ----

var qStatuses = []int{200, 404, 503, 301}

// the request j of instance i (shared with the OCaml driver: ocaml/C10/main.ml q_status)
func qStatus(i, j int) int { return qStatuses[(i+j)%len(qStatuses)] }

func runPhoutQ(f []string) string {
	if len(f) != 4 {
		return "unknown-case"
	}
	qcap, _ := strconv.Atoi(f[1])
	kinds := f[2]
	per, _ := strconv.Atoi(f[3])
	t := theTarget()
	t.SetConnectMode("ok")
	fs := afero.NewMemMapFs()
	pc := netsample.DefaultPhoutConfig()
	pc.Destination = "phout.log"
	pc.ID = true
	pc.SampleQueueSize = qcap
	aggr, err := netsample.NewPhout(fs, pc)
	if err != nil {
		return "phouterr"
	}
	ctx, cancel := context.WithCancel(context.Background())
	defer cancel()
	hcfg := httpGunConfig(t.Addr())
	hcfg.Client.Dialer.Timeout = 10 * time.Second // no timeout is played here
	hcfg.Client.Transport.ResponseHeaderTimeout = 10 * time.Second
	deps := core.GunDeps{Ctx: ctx, Log: zap.NewNop()}
	type inst struct{ shoot func(j int) }
	var insts []inst
	for i, k := range kinds {
		i := i
		name := func(j int) string { return fmt.Sprintf("i%dn%d", i, j) }
		switch k {
		case 'h':
			g := phttp.NewHTTP1Gun(hcfg, zap.NewNop())
			if err := g.Bind(aggr, deps); err != nil {
				return "binderr"
			}
			defer g.Close()
			insts = append(insts, inst{func(j int) {
				xv := fmt.Sprintf("ok:%d", qStatus(i, j))
				if j%5 == 4 {
					xv = "reset:200"
				}
				req := &http.Request{Method: "GET", URL: &url.URL{Path: "/p"}, Header: http.Header{"X-Verif": []string{xv}},
					Proto: "HTTP/1.1", ProtoMajor: 1, ProtoMinor: 1}
				g.Shoot(plainAmmo{invalidAmmo{req: req, tag: name(j), id: uint64(i*1000 + j + 1)}})
			}})
		case 's':
			g := httpscen.NewHTTPGun(hcfg, zap.NewNop())
			if err := g.Bind(aggr, deps); err != nil {
				return "binderr"
			}
			defer g.Close()
			insts = append(insts, inst{func(j int) {
				sc := &httpscen.Scenario{Name: name(j), ID: uint64(i*1000 + j + 1), VariableStorage: emptyStorage{}}
				for n, st := range []string{"a", "b"} {
					sc.Requests = append(sc.Requests, httpscen.Request{Method: "GET", Name: st, Tag: "t", URI: "/x", Templater: nopTemplater{},
						Headers: map[string]string{"X-Verif": fmt.Sprintf("ok:%d", qStatus(i, j+n))}})
				}
				g.Shoot(sc)
			}})
		case 'g':
			conf := grpcgun.DefaultGunConfig()
			conf.Target = theGrpcTarget().Addr
			conf.Timeout = 10 * time.Second
			g := grpcgun.NewGun(conf)
			shared, err := g.WarmUp(&warmup.Options{Log: zap.NewNop(), Ctx: ctx})
			if err != nil {
				return "warmuperr"
			}
			if err := g.Bind(netsample.WrapAggregator(aggr), core.GunDeps{Ctx: ctx, Log: zap.NewNop(), Shared: shared}); err != nil {
				return "binderr"
			}
			insts = append(insts, inst{func(j int) {
				am := &grpcammo.Ammo{}
				am.Reset(name(j), helloMethod, map[string]string{"x-status": strconv.Itoa((i + j) % 17)}, map[string]interface{}{"name": "x"})
				g.Shoot(am)
			}})
		default:
			return "unknown-case"
		}
	}
	var finished atomic.Int64
	var wg sync.WaitGroup
	for _, in := range insts {
		in := in
		wg.Add(1)
		go func() {
			defer wg.Done()
			for j := 0; j < per; j++ {
				in.shoot(j)
				finished.Add(1)
			}
		}()
	}
	allDone := make(chan struct{})
	go func() { wg.Wait(); close(allDone) }()
	// the writer is behind: it starts when the instances are through or stuck
	last, lastChange := int64(-1), time.Now()
wait:
	for start := time.Now(); time.Since(start) < 3*time.Second; {
		select {
		case <-allDone:
			break wait
		case <-time.After(5 * time.Millisecond):
		}
		if n := finished.Load(); n != last {
			last, lastChange = n, time.Now()
		} else if time.Since(lastChange) > 100*time.Millisecond {
			break
		}
	}
	runDone := make(chan error, 1)
	go func() { runDone <- aggr.Run(ctx, core.AggregatorDeps{Log: zap.NewNop()}) }()
	select {
	case <-allDone:
	case <-time.After(20 * time.Second):
		return "hang"
	}
	cancel()
	select {
	case <-runDone:
	case <-time.After(5 * time.Second):
		return "hang"
	}
	data, err := afero.ReadFile(fs, "phout.log")
	if err != nil {
		return "readerr"
	}
	var lines []string
	for _, line := range strings.Split(strings.TrimSpace(string(data)), "\n") {
		if line == "" {
			continue
		}
		fl := strings.Split(line, "\t")
		if len(fl) != 12 {
			return "badline"
		}
		tag, id, _ := strings.Cut(fl[1], "#")
		lines = append(lines, fmt.Sprintf("%s#%s:%s:%s", vh.HexS(tag), id, fl[11], fl[10]))
	}
	sort.Strings(lines)
	return strings.Join(append([]string{fmt.Sprintf("n=%d", len(lines))}, lines...), " ")
}

// ---- generator ----

func genRun(r *vh.Rand, tier string) []string {
	var out []string
	// scenario files
	names := []string{"auth_req", "list", "order2", "a", "b-c", "x.y"}
	tagFor := func(nm string) string {
		switch r.Intn(5) {
		case 0:
			return ""
		case 1:
			return nm
		case 2:
			return "shared"
		case 3:
			return r.Pick([]string{"auth", "order", "tag with space", "a|b"})
		}
		return r.Pick(names)
	}
	nf := 90
	if tier == "thorough" {
		nf = 1500
	}
	for i := 0; i < nf; i++ {
		format := r.Pick([]string{"yaml", "yaml", "hcl", "gyaml", "ghcl"})
		grpcFile := strings.HasPrefix(format, "g")
		nd := r.Range(2, 5)
		var decls, declared []string
		for j := 0; j < nd; j++ {
			nm := r.Pick(names)
			if j > 0 && r.Chance(1, 6) {
				nm = declared[r.Intn(len(declared))] // a second declaration of a name
			}
			declared = append(declared, nm)
			kind := fmt.Sprintf("s%d", r.Range(200, 599))
			if r.Chance(1, 7) {
				kind = r.Pick([]string{"reset", "trunc", "pp200", "pp500"})
			}
			if grpcFile {
				kind = fmt.Sprintf("st%d", r.Range(0, 17))
				if r.Chance(1, 7) {
					kind = r.Pick([]string{"badcall", "badpayload", "post0", "post5"})
				}
			}
			decls = append(decls, fmt.Sprintf("%s:%s:%s", vh.HexS(nm), vh.HexS(tagFor(nm)), kind))
		}
		ns := r.Range(1, 2)
		var scens []string
		for j := 0; j < ns; j++ {
			var items []string
			for m := r.Range(1, 4); m > 0; m-- {
				nm := vh.HexS(declared[r.Intn(len(declared))])
				switch r.Intn(6) {
				case 0:
					items = append(items, nm+"*"+strconv.Itoa(r.Range(1, 3)))
				case 1:
					items = append(items, nm+"*"+strconv.Itoa(r.Range(1, 2))+"+")
				case 2:
					items = append(items, nm, "sl")
				default:
					items = append(items, nm)
				}
			}
			if r.Chance(1, 15) {
				items = append([]string{"sl"}, items...) // refused: sleep() must follow a request
			}
			if r.Chance(1, 15) {
				items = append(items, vh.HexS("nosuch")) // refused: request not found
			}
			if items[0] != "sl" && r.Chance(1, 15) {
				items[0] = strings.SplitN(items[0], "*", 2)[0] + "*0" // fired zero times
			}
			scens = append(scens, vh.HexS(r.Pick([]string{"sc", "shop", "my scenario"})+strconv.Itoa(j))+"="+strings.Join(items, ","))
		}
		out = append(out, fmt.Sprintf("scfile %s %d %s %s", format, r.Range(1, 2*ns+1), strings.Join(decls, ","), strings.Join(scens, ";")))
	}
	// bursts into a small phout queue
	out = append(out, "phoutq 1 hh 10", "phoutq 8 hhh 40", "phoutq 0 hs 8", "phoutq 2 hsg 12", "phoutq 64 hhhhhh 30")
	nq := 5
	if tier == "thorough" {
		nq = 60
	}
	for i := 0; i < nq; i++ {
		var k strings.Builder
		for j := r.Range(1, 6); j > 0; j-- {
			k.WriteString(r.Pick([]string{"h", "h", "h", "s", "g"}))
		}
		out = append(out, fmt.Sprintf("phoutq %d %s %d", r.PickInt([]int{0, 1, 2, 3, 8, 16, 64, 1000}), k.String(), r.Range(3, 30)))
	}
	return out
}
