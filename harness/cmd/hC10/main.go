// hC10: correspondence harness for property C10 (sample result coding).
//
// Case kinds (fields separated by one blank):
//
//	grpc <code>                                   -> ConvertGrpcStatus(status.Error(code))
//	shoot <enabled> <depth> <notagonly> <tag> <path> -> tags of the sample reported by BaseGun.Shoot (as it is at the moment of Report), proto code, id, late=<samples written to after Report>
//	errno <timeout> <shape>                       -> errno field set by Sample.SetErr on a real error value
//	ids <start-ignored> <goroutines> <per>        -> are the ids of NextID pairwise distinct / contiguous
package main

import (
	"context"
	"errors"
	"fmt"
	"io"
	"net"
	"net/http"
	"net/url"
	"os"
	"sort"
	"strconv"
	"strings"
	"sync"
	"syscall"

	pkgerrors "github.com/pkg/errors"
	grpcgun "github.com/yandex/pandora/components/guns/grpc"
	phttp "github.com/yandex/pandora/components/guns/http"
	"github.com/yandex/pandora/components/providers/base"
	httpammo "github.com/yandex/pandora/components/providers/http/ammo"
	"github.com/yandex/pandora/core"
	"github.com/yandex/pandora/core/aggregator/netsample"
	"go.uber.org/zap"
	"google.golang.org/grpc/codes"
	"google.golang.org/grpc/status"

	"verifharness/internal/vh"
)

// snap is what an aggregator that looks at a sample INSIDE Report sees: Report hands the sample
// over (the standard phout aggregator renders it on its own goroutine and recycles it), so the
// value the property speaks of is the value at that moment.
type snap struct {
	tags   string
	proto  int
	net    string
	id     uint64
	hasErr bool
}

func takeSnap(s *netsample.Sample) snap {
	return snap{tags: s.Tags(), proto: s.ProtoCode(), net: sampleNet(s), id: s.ID(), hasErr: s.Err() != nil}
}

// lateWrites: how many of the reported samples were written to after they had been handed over
// (their value when the shot has returned differs from their value at Report time).
func lateWrites(ss []*netsample.Sample, snaps []snap) int {
	n := 0
	for i, s := range ss {
		if takeSnap(s) != snaps[i] {
			n++
		}
	}
	return n
}

type recAggr struct {
	samples []*netsample.Sample
	snaps   []snap
}

func (r *recAggr) Run(ctx context.Context, deps core.AggregatorDeps) error { return nil }
func (r *recAggr) Report(s *netsample.Sample) {
	r.samples = append(r.samples, s)
	r.snaps = append(r.snaps, takeSnap(s))
}

type fixedClient struct{ status int }

func (c *fixedClient) Do(req *http.Request) (*http.Response, error) {
	return &http.Response{StatusCode: c.status, Body: io.NopCloser(strings.NewReader("")), Request: req}, nil
}
func (c *fixedClient) CloseIdleConnections() {}

// underErr: an error value with an Underlying() method (what getErrno follows first)
type underErr struct{ err error }

func (u underErr) Error() string     { return "under: " + u.err.Error() }
func (u underErr) Underlying() error { return u.err }

type timeoutErr struct{}

func (timeoutErr) Error() string   { return "timeout" }
func (timeoutErr) Timeout() bool   { return true }
func (timeoutErr) Temporary() bool { return true }

func buildErr(shape string) error {
	// shape: sequence of letters applied outermost first, ending in E<n> or X
	toks := strings.Split(shape, ".")
	var err error
	last := toks[len(toks)-1]
	if strings.HasPrefix(last, "E") {
		n, _ := strconv.Atoi(last[1:])
		err = syscall.Errno(n)
	} else {
		err = errors.New("other")
	}
	for i := len(toks) - 2; i >= 0; i-- {
		switch toks[i] {
		case "O":
			err = &net.OpError{Op: "dial", Net: "tcp", Err: err}
		case "S":
			err = os.NewSyscallError("connect", err)
		case "U":
			err = &url.Error{Op: "Get", URL: "http://x/", Err: err}
		case "W":
			err = pkgerrors.WithStack(err)
		case "N":
			err = underErr{err}
		}
	}
	return err
}

func phoutField(s *netsample.Sample, idx int) string {
	line := strings.TrimRight(s.String(), "\n")
	f := strings.Split(line, "\t")
	// time, tag, then the ten fields
	return f[2+idx]
}

func runCase(c string) string {
	f := strings.Split(c, " ")
	switch f[0] {
	case "http":
		return runHTTP(f)
	case "phout":
		return runPhout(f)
	case "cfggun":
		return runCfgGun(f)
	case "gjson":
		return runGJSON(f)
	case "ammo":
		return runAmmo(f)
	case "scfile":
		return runScFile(f)
	case "phoutq":
		return runPhoutQ(f)
	case "engine":
		return runEngine(f)
	case "hscen":
		return runHScen(f)
	case "gshoot":
		return runGShoot(f)
	case "gscen":
		return runGScen(f)
	case "grpc":
		code, _ := strconv.ParseUint(f[1], 10, 32)
		var err error
		if code != 0 {
			err = status.Error(codes.Code(code), "x")
		}
		return strconv.Itoa(grpcgun.ConvertGrpcStatus(err))
	case "shoot":
		depth, _ := strconv.Atoi(f[2])
		tag := string(vh.UnHex(f[4]))
		path := string(vh.UnHex(f[5]))
		cfg := phttp.DefaultHTTPGunConfig()
		cfg.Target = "localhost:80"
		cfg.TargetResolved = "127.0.0.1:80"
		cfg.AutoTag.Enabled = f[1] == "1"
		cfg.AutoTag.URIElements = depth
		cfg.AutoTag.NoTagOnly = f[3] == "1"
		ag := &recAggr{}
		g := &phttp.BaseGun{Config: cfg, Client: &fixedClient{status: 204}}
		if err := g.Bind(ag, core.GunDeps{Ctx: context.Background(), Log: zap.NewNop()}); err != nil {
			return "binderr"
		}
		req := &http.Request{Method: "GET", URL: &url.URL{Path: path}, Header: http.Header{}, Proto: "HTTP/1.1", ProtoMajor: 1, ProtoMinor: 1}
		g.Shoot(httpammo.NewGunAmmo(req, tag, 7))
		if len(ag.samples) != 1 {
			return fmt.Sprintf("samples=%d", len(ag.samples))
		}
		s := ag.snaps[0]
		return fmt.Sprintf("%s %d %d late=%d", vh.HexS(s.tags), s.proto, s.id, lateWrites(ag.samples, ag.snaps))
	case "errno":
		var err error
		if f[1] == "1" {
			err = &url.Error{Op: "Get", URL: "http://x/", Err: timeoutErr{}}
		} else {
			err = buildErr(f[2])
		}
		s := netsample.Acquire("t")
		s.SetErr(err)
		return phoutField(s, 8)
	case "ids":
		g, _ := strconv.Atoi(f[2])
		per, _ := strconv.Atoi(f[3])
		p := &base.ProviderBase{}
		var mu sync.Mutex
		var all []uint64
		var wg sync.WaitGroup
		for i := 0; i < g; i++ {
			wg.Add(1)
			go func() {
				defer wg.Done()
				loc := make([]uint64, 0, per)
				for j := 0; j < per; j++ {
					loc = append(loc, p.NextID())
				}
				mu.Lock()
				all = append(all, loc...)
				mu.Unlock()
			}()
		}
		wg.Wait()
		sort.Slice(all, func(i, j int) bool { return all[i] < all[j] })
		distinct := true
		for i := 1; i < len(all); i++ {
			if all[i] == all[i-1] {
				distinct = false
			}
		}
		// canonical observation: count, distinct?, min, max
		if len(all) == 0 {
			return "0 1 0 0"
		}
		return fmt.Sprintf("%d %s %d %d", len(all), vh.B(distinct), all[0], all[len(all)-1])
	}
	return "unknown-case"
}

func gen(r *vh.Rand, tier string) []string {
	var out []string
	for c := 0; c <= 40; c++ {
		out = append(out, fmt.Sprintf("grpc %d", c))
	}
	for _, c := range []uint64{255, 256, 1000, 65535, 1 << 31, 1<<32 - 1} {
		out = append(out, fmt.Sprintf("grpc %d", c))
	}
	n := 300
	if tier == "thorough" {
		n = 20000
	}
	segs := []string{"", "a", "bb", "my", "very", "deep", "page.html", "%20", "x y", "..", "ü"}
	for i := 0; i < n; i++ {
		var p strings.Builder
		if r.Chance(5, 6) {
			p.WriteString("/")
		}
		k := r.Intn(6)
		for j := 0; j < k; j++ {
			p.WriteString(r.Pick(segs))
			if j < k-1 || r.Chance(1, 3) {
				p.WriteString("/")
			}
		}
		tag := ""
		if r.Chance(1, 2) {
			tag = r.Pick([]string{"t", "tag with space", "a|b", "ü"})
		}
		out = append(out, fmt.Sprintf("shoot %s %d %s %s %s", vh.B(r.Chance(3, 4)), r.Intn(5), vh.B(r.Bool()), vh.HexS(tag), vh.HexS(p.String())))
	}
	wr := []string{"O", "S", "U", "W", "N", "O", "S", "U", "W"}
	for i := 0; i < n; i++ {
		k := r.Intn(5)
		var t []string
		for j := r.Intn(4) - 1; j > 0; j-- { // an Underlying() chain on top, as stackerr builds it
			t = append(t, "N")
		}
		for j := 0; j < k; j++ {
			t = append(t, r.Pick(wr))
		}
		if r.Chance(2, 3) {
			t = append(t, fmt.Sprintf("E%d", r.PickInt([]int{1, 32, 104, 110, 111, 113})))
		} else {
			t = append(t, "X")
		}
		out = append(out, fmt.Sprintf("errno %s %s", vh.B(r.Chance(1, 10)), strings.Join(t, ".")))
	}
	for i := 0; i < n/30+1; i++ {
		out = append(out, fmt.Sprintf("ids 0 %d %d", r.Range(1, 16), r.Range(0, 400)))
	}
	out = append(out, genGuns(r, tier)...)
	out = append(out, genCfgGuns(r, tier)...)
	out = append(out, genAmmo(r, tier)...)
	out = append(out, genRun(r, tier)...)
	out = append(out, genEngine(r, tier)...)
	return out
}

func main() {
	if c := os.Getenv(engineChildEnv); c != "" { // child of an engine case (engine.go)
		fmt.Println(runEngineHere(strings.Split(c, " ")))
		return
	}
	vh.Main(gen, func(cases []string) []string {
		out := make([]string, len(cases))
		for i, c := range cases {
			out[i] = runCase(c)
		}
		return out
	})
}
