// Cases of hC10 in which guns and providers are built the way pandora builds them: components
// imported into the default registry (core/import, components/phttp/import, components/grpc/import),
// a minimal YAML section decoded by the real config decoder + plugin hooks into a gun factory /
// a provider - so the default-config plumbing of every gun kind is part of the case.
//
//	cfggun <kind> <auto-tag variant> <tag> <path>
//	       kind: http http2 connect http/scenario http2/scenario grpc grpc/scenario
//	       variant: none | en | en-nto0 | en-nto1 | en-d1 | dis   (the auto-tag section of the gun config)
//	       -> n=<samples> tags:proto:net ...
//	gjson <phase>,<phase>...   phase = t*<n> (lines with a "tag" key) | u*<n> (lines without)
//	       one pass of the real grpc/json provider over that file, every ammo shot by the real grpc
//	       gun and released back to the provider's pool
//	       -> n=<samples> <tag of sample 1> <tag of sample 2> ...
package main

import (
	"context"
	"crypto/tls"
	"fmt"
	"net/http"
	"net/http/httptest"
	"net/url"
	"strconv"
	"strings"
	"sync"
	"time"

	"github.com/spf13/afero"
	grpcimport "github.com/yandex/pandora/components/grpc/import"
	grpcscen "github.com/yandex/pandora/components/guns/grpc/scenario"
	httpscen "github.com/yandex/pandora/components/guns/http_scenario"
	phttpimport "github.com/yandex/pandora/components/phttp/import"
	grpcammo "github.com/yandex/pandora/components/providers/grpc"
	"github.com/yandex/pandora/core"
	"github.com/yandex/pandora/core/config"
	coreimport "github.com/yandex/pandora/core/import"
	"github.com/yandex/pandora/core/warmup"
	"go.uber.org/zap"
	yaml "gopkg.in/yaml.v2"

	"verifharness/internal/vh"
)

var (
	importOnce sync.Once
	cfgFs      afero.Fs
	h2Once     sync.Once
	h2Srv      *httptest.Server
	ammoSeq    int
)

func importAll() {
	importOnce.Do(func() {
		cfgFs = afero.NewMemMapFs()
		coreimport.Import(cfgFs)
		phttpimport.Import(cfgFs)
		grpcimport.Import(cfgFs)
	})
}

// an in-process HTTPS target that speaks HTTP/2 and answers the status X-Verif asks for
func theH2Target() *httptest.Server {
	h2Once.Do(func() {
		s := httptest.NewUnstartedServer(http.HandlerFunc(func(w http.ResponseWriter, r *http.Request) {
			_, arg, _ := strings.Cut(r.Header.Get("X-Verif"), ":")
			st, _ := strconv.Atoi(arg)
			if st == 0 {
				st = 200
			}
			w.WriteHeader(st)
		}))
		s.EnableHTTP2 = true
		s.TLS = &tls.Config{NextProtos: []string{"h2"}}
		s.StartTLS()
		h2Srv = s
	})
	return h2Srv
}

// YAML text -> the map[string]interface{} tree the config decoder is given by the CLI
func yamlTree(text string) (map[string]interface{}, error) {
	var raw map[interface{}]interface{}
	if err := yaml.Unmarshal([]byte(text), &raw); err != nil {
		return nil, err
	}
	return strKeys(raw).(map[string]interface{}), nil
}

func strKeys(v interface{}) interface{} {
	switch t := v.(type) {
	case map[interface{}]interface{}:
		m := make(map[string]interface{}, len(t))
		for k, x := range t {
			m[fmt.Sprint(k)] = strKeys(x)
		}
		return m
	case []interface{}:
		for i := range t {
			t[i] = strKeys(t[i])
		}
	}
	return v
}

func autoTagYAML(variant string) string {
	switch variant {
	case "en":
		return "  auto-tag:\n    enabled: true\n"
	case "en-nto0":
		return "  auto-tag:\n    enabled: true\n    no-tag-only: false\n"
	case "en-nto1":
		return "  auto-tag:\n    enabled: true\n    no-tag-only: true\n"
	case "en-d1":
		return "  auto-tag:\n    enabled: true\n    uri-elements: 1\n"
	case "dis":
		return "  auto-tag:\n    enabled: false\n"
	}
	return ""
}

// gunFromYAML decodes "gun: {type: kind, target: ..., ...}" into a gun factory and makes one gun,
// warmed up and bound like an engine instance does it.
func gunFromYAML(text string, ag core.Aggregator) (core.Gun, string) {
	importAll()
	tree, err := yamlTree(text)
	if err != nil {
		return nil, "yamlerr"
	}
	var h struct {
		Gun func() (core.Gun, error) `config:"gun"`
	}
	if err := config.DecodeAndValidate(tree, &h); err != nil {
		return nil, "configerr:" + strings.ReplaceAll(err.Error(), "\n", " ")
	}
	g, err := h.Gun()
	if err != nil {
		return nil, "gunerr"
	}
	deps := core.GunDeps{Ctx: context.Background(), Log: zap.NewNop()}
	if w, ok := g.(warmup.WarmedUp); ok {
		shared, err := w.WarmUp(&warmup.Options{Log: zap.NewNop(), Ctx: context.Background()})
		if err != nil {
			return nil, "warmuperr"
		}
		deps.Shared = shared
	}
	if err := g.Bind(ag, deps); err != nil {
		return nil, "binderr"
	}
	return g, ""
}

func runCfgGun(f []string) string {
	if len(f) != 5 {
		return "unknown-case"
	}
	kind, variant := f[1], f[2]
	tag := string(vh.UnHex(f[3]))
	path := string(vh.UnHex(f[4]))
	var addr string
	switch kind {
	case "http", "connect", "http/scenario":
		t := theTarget()
		t.SetConnectMode("ok")
		addr = t.Addr()
	case "http2", "http2/scenario":
		addr = theH2Target().Listener.Addr().String()
	default:
		addr = theGrpcTarget().Addr
	}
	text := fmt.Sprintf("gun:\n  type: %s\n  target: %q\n", kind, addr)
	if !strings.HasPrefix(kind, "grpc") {
		text += autoTagYAML(variant)
	}
	ag := &coreAggr{}
	g, what := gunFromYAML(text, ag)
	if g == nil {
		return what
	}
	if c, ok := g.(interface{ Close() error }); ok {
		defer c.Close()
	}
	done := make(chan struct{})
	go func() {
		defer close(done)
		switch kind {
		case "http", "http2", "connect":
			req := &http.Request{Method: "GET", URL: &url.URL{Path: path}, Header: http.Header{"X-Verif": []string{"ok:200"}},
				Proto: "HTTP/1.1", ProtoMajor: 1, ProtoMinor: 1}
			g.Shoot(plainAmmo{invalidAmmo{req: req, tag: tag, id: 7}})
		case "http/scenario", "http2/scenario":
			sc := &httpscen.Scenario{Name: tag, ID: 3, VariableStorage: emptyStorage{}}
			for _, st := range []struct{ name, status string }{{"first", "200"}, {"second", "404"}} {
				sc.Requests = append(sc.Requests, httpscen.Request{Method: "GET", Name: st.name, URI: path, Templater: nopTemplater{},
					Headers: map[string]string{"X-Verif": "ok:" + st.status}})
			}
			g.Shoot(sc)
		case "grpc":
			am := &grpcammo.Ammo{}
			am.Reset(tag, helloMethod, nil, map[string]interface{}{"name": "x"})
			g.Shoot(am)
		case "grpc/scenario":
			sc := &grpcscen.Scenario{Name: tag}
			for i, md := range []string{"0", "5"} {
				sc.Calls = append(sc.Calls, grpcscen.Call{Name: fmt.Sprintf("step%d", i), Tag: fmt.Sprintf("call%d", i), Call: helloMethod,
					Payload: []byte(`{"name":"x"}`), Metadata: map[string]string{"x-status": md}})
			}
			g.Shoot(sc)
		}
	}()
	select {
	case <-done:
	case <-time.After(5 * time.Second):
		return "hang"
	}
	return samplesLine(ag.samples, ag.snaps)
}

func runGJSON(f []string) string {
	if len(f) != 2 {
		return "unknown-case"
	}
	importAll()
	ammoSeq++
	file := fmt.Sprintf("/ammo-%d.jsonl", ammoSeq)
	var sb strings.Builder
	i := 0
	for _, ph := range strings.Split(f[1], ",") {
		what, cnt, _ := strings.Cut(ph, "*")
		n, _ := strconv.Atoi(cnt)
		for j := 0; j < n; j++ {
			i++
			if what == "t" {
				fmt.Fprintf(&sb, `{"tag":"tg%d","call":%q,"payload":{"name":"x"}}`+"\n", i%7, helloMethod)
			} else {
				fmt.Fprintf(&sb, `{"call":%q,"payload":{"name":"x"}}`+"\n", helloMethod)
			}
		}
	}
	if err := afero.WriteFile(cfgFs, file, []byte(sb.String()), 0o644); err != nil {
		return "writeerr"
	}
	tree, err := yamlTree(fmt.Sprintf("ammo:\n  type: grpc/json\n  file: %q\n  passes: 1\n", file))
	if err != nil {
		return "yamlerr"
	}
	var h struct {
		Ammo core.Provider `config:"ammo"`
	}
	if err := config.DecodeAndValidate(tree, &h); err != nil {
		return "configerr:" + strings.ReplaceAll(err.Error(), "\n", " ")
	}
	ag := &coreAggr{}
	g, what := gunFromYAML(fmt.Sprintf("gun:\n  type: grpc\n  target: %q\n", theGrpcTarget().Addr), ag)
	if g == nil {
		return what
	}
	ctx, cancel := context.WithCancel(context.Background())
	defer cancel()
	runErr := make(chan error, 1)
	go func() { runErr <- h.Ammo.Run(ctx, core.ProviderDeps{Log: zap.NewNop()}) }()
	for {
		am, ok := h.Ammo.Acquire()
		if !ok {
			break
		}
		g.Shoot(am)
		h.Ammo.Release(am)
	}
	select {
	case <-runErr:
	case <-time.After(5 * time.Second):
		return "hang"
	}
	parts := []string{fmt.Sprintf("n=%d", len(ag.samples))}
	for _, s := range ag.snaps {
		parts = append(parts, vh.HexS(s.tags))
	}
	return strings.Join(parts, " ")
}

func genCfgGuns(r *vh.Rand, tier string) []string {
	var out []string
	variants := []string{"none", "en", "en-nto0", "en-nto1", "en-d1", "dis"}
	for _, kind := range []string{"http", "http2", "connect"} {
		for _, v := range variants {
			for _, tag := range []string{"", "mytag"} {
				for _, path := range []string{"/a/b/c", "/", "/x"} {
					out = append(out, fmt.Sprintf("cfggun %s %s %s %s", kind, v, vh.HexS(tag), vh.HexS(path)))
				}
			}
		}
	}
	for _, kind := range []string{"http/scenario", "http2/scenario", "grpc", "grpc/scenario"} {
		for _, tag := range []string{"sc", "my scenario"} {
			out = append(out, fmt.Sprintf("cfggun %s none %s %s", kind, vh.HexS(tag), vh.HexS("/a/b")))
		}
	}
	out = append(out, "cfggun grpc none - 2f")
	// long heterogeneous grpc/json files (the provider recycles ammo structs once its queue of 128 has turned over)
	out = append(out, "gjson t*150,u*150", "gjson u*140,t*140,u*20", "gjson t*1,u*300")
	n := 2
	if tier == "thorough" {
		n = 25
	}
	for i := 0; i < n; i++ {
		var ph []string
		for j := r.Range(3, 8); j > 0; j-- {
			ph = append(ph, fmt.Sprintf("%s*%d", r.Pick([]string{"t", "u"}), r.Range(1, 120)))
		}
		out = append(out, "gjson "+strings.Join(ph, ","))
	}
	return out
}
