// Ammo-file cases of hC10: from the bytes of an ammo file to the reported samples.
//
//	ammo <format uri|uripost|raw|json|jsona> <enabled> <depth> <notagonly> <k>[x<g>] <finalNL> <file hex> <tokens...>
//
// The file (rendered from the tokens; line tokens in the syntax of a07ammo.Line.Token, json
// entities in that of a07ammo.EntityToken) is given to the real provider
// (components/providers/http NewProvider, decoder = format) on an in-memory fs; k ammo are
// acquired one after another, each is shot by the real HTTP gun (NewHTTP1Gun, auto-tag settings
// of the case) at the in-process target and released.  The status the target answers is chosen
// by the X-Verif header the FILE sets (header lines / request bytes / entity headers).
// With x<g> (g > 1) the k acquisitions are made by g concurrently shooting instances (each its own
// gun, one provider, one aggregator): the samples are then printed sorted, the ids in increasing order.
// -> n=<samples> tags:proto:net ... late=<k> ids=<id,id,...> end=<more|closed|invalid|newerr|hang>
package main

import (
	"context"
	"encoding/json"
	"fmt"
	"sort"
	"strings"
	"sync"
	"time"

	"github.com/spf13/afero"
	phttp "github.com/yandex/pandora/components/guns/http"
	provhttp "github.com/yandex/pandora/components/providers/http"
	provcfg "github.com/yandex/pandora/components/providers/http/config"
	"github.com/yandex/pandora/core"
	"github.com/yandex/pandora/core/aggregator/netsample"
	"go.uber.org/zap"

	"verifharness/internal/a07ammo"
	"verifharness/internal/vh"
)

func runAmmo(f []string) string {
	if len(f) < 9 {
		return "unknown-case"
	}
	format := f[1]
	k := 0
	file := vh.UnHex(f[7])
	fs := afero.NewMemMapFs()
	if err := afero.WriteFile(fs, "ammo", file, 0o644); err != nil {
		return "harness-error"
	}
	dec := format
	if format == "json" || format == "jsona" {
		dec = "jsonline" // jsona: the same lines as the elements of ONE JSON array (readArray / scanAmmos)
	}
	prov, err := provhttp.NewProvider(fs, provcfg.Config{Decoder: provcfg.DecoderType(dec), File: "ammo"})
	if err != nil {
		return "n=0 late=0 ids=- end=newerr"
	}
	t := theTarget()
	t.SetConnectMode("ok")
	cfg := httpGunConfig(t.Addr())
	// no fault is played in these cases: generous client timeouts, so that a busy machine cannot
	// turn an answered exchange into a timeout
	cfg.Client.Dialer.Timeout = 10 * time.Second
	cfg.Client.Transport.ResponseHeaderTimeout = 10 * time.Second
	cfg.AutoTag.Enabled = f[2] == "1"
	fmt.Sscanf(f[3], "%d", &cfg.AutoTag.URIElements)
	cfg.AutoTag.NoTagOnly = f[4] == "1"
	kf, gf, _ := strings.Cut(f[5], "x")
	fmt.Sscanf(kf, "%d", &k)
	inst := 1
	if gf != "" {
		fmt.Sscanf(gf, "%d", &inst)
	}
	ag := &lockedAggr{}
	ctx, cancel := context.WithCancel(context.Background())
	defer cancel()
	go func() { _ = prov.Run(ctx, core.ProviderDeps{Log: zap.NewNop()}) }()
	tokens := make(chan struct{}, k)
	for i := 0; i < k; i++ {
		tokens <- struct{}{}
	}
	close(tokens)
	var mu sync.Mutex
	end := "more"
	setEnd := func(e string) {
		mu.Lock()
		if end == "more" {
			end = e
		}
		mu.Unlock()
	}
	getEnd := func() string { mu.Lock(); defer mu.Unlock(); return end }
	type acq struct {
		a  core.Ammo
		ok bool
	}
	instance := func() {
		g := phttp.NewHTTP1Gun(cfg, zap.NewNop())
		if err := g.Bind(ag, core.GunDeps{Ctx: ctx, Log: zap.NewNop()}); err != nil {
			setEnd("binderr")
			return
		}
		defer g.Close()
		for range tokens {
			if getEnd() != "more" {
				return
			}
			ch := make(chan acq, 1)
			go func() {
				defer func() {
					if recover() != nil {
						ch <- acq{}
					}
				}()
				a, ok := prov.Acquire()
				ch <- acq{a, ok}
			}()
			select {
			case r := <-ch:
				switch {
				case !r.ok && r.a != nil:
					setEnd("invalid")
				case !r.ok:
					setEnd("closed")
				default:
					am, isHTTP := r.a.(phttp.Ammo)
					if !isHTTP {
						setEnd("not-http-ammo")
						return
					}
					done := make(chan struct{})
					go func() { defer close(done); g.Shoot(am) }()
					select {
					case <-done:
					case <-time.After(25 * time.Second):
						setEnd("hang")
						return
					}
					prov.Release(r.a)
				}
			case <-time.After(15 * time.Second):
				setEnd("hang")
			}
		}
	}
	var wg sync.WaitGroup
	for i := 0; i < inst; i++ {
		wg.Add(1)
		go func() { defer wg.Done(); instance() }()
	}
	wg.Wait()
	ag.mu.Lock()
	defer ag.mu.Unlock()
	if inst > 1 {
		// canonical order: by printed sample, ids numerically
		idx := make([]int, len(ag.snaps))
		for i := range idx {
			idx[i] = i
		}
		pr := func(s snap) string { return fmt.Sprintf("%s:%d:%s", vh.HexS(s.tags), s.proto, s.net) }
		sort.SliceStable(idx, func(a, b int) bool { return pr(ag.snaps[idx[a]]) < pr(ag.snaps[idx[b]]) })
		ss := make([]*netsample.Sample, len(idx))
		sn := make([]snap, len(idx))
		for i, j := range idx {
			ss[i], sn[i] = ag.samples[j], ag.snaps[j]
		}
		ag.samples, ag.snaps = ss, sn
	}
	idn := make([]uint64, 0, len(ag.snaps))
	for _, s := range ag.snaps {
		idn = append(idn, s.id)
	}
	if inst > 1 {
		sort.Slice(idn, func(a, b int) bool { return idn[a] < idn[b] })
	}
	var ids []string
	for _, v := range idn {
		ids = append(ids, fmt.Sprint(v))
	}
	idl := "-"
	if len(ids) > 0 {
		idl = strings.Join(ids, ",")
	}
	return fmt.Sprintf("%s ids=%s end=%s", samplesLine(ag.samples, ag.snaps), idl, getEnd())
}

// lockedAggr: recAggr shared by concurrently shooting instances.
type lockedAggr struct {
	mu sync.Mutex
	recAggr
}

func (l *lockedAggr) Report(s *netsample.Sample) {
	l.mu.Lock()
	l.recAggr.Report(s)
	l.mu.Unlock()
}

// ---- generator: structured files; what varies is what the tag clause of the property is about ----

var (
	ammoTags    = []string{"", "", "t", "tag1", "cancel order", "list all orders", "list my orders", "a|b", "ü-tag", "x  y", "__EMPTY__", "5", "a b c d e"}
	ammoPaths   = []string{"/", "/a", "/orders/cancel", "/orders/list", "/my/very/deep/page.html", "/a/b/", "/index.php"}
	ammoQueries = []string{"", "", "?sleep=1", "?a=b&c=d"}
	ammoBodies  = []string{"", "abc", "a\nb", "{\"a\":1}", "5 /z t\n", "x\r\ny"}
	ammoStatus  = []string{"200", "201", "404", "500", "503"}
)

func ammoLayout(r *vh.Rand, l *a07ammo.Line) {
	if r.Chance(1, 5) {
		l.Lead = r.Pick([]string{" ", "\t", "  "})
	}
	if r.Chance(1, 5) {
		l.Trail = r.Pick([]string{" ", "\t", "  "})
	}
	l.CR = r.Chance(1, 5)
}

func genAmmoCase(r *vh.Rand, format string) string {
	n := r.Range(1, 6)
	passes := r.Range(1, 2)
	fin := r.Chance(2, 3)
	var toks []string
	var file []byte
	switch format {
	case "json", "jsona":
		// line by line (jsonline), each line an object whose MEMBERS are chosen one by one: the
		// optional ones (tag, headers, body) may be absent, null, written twice, or stand beside
		// members that name no field; tokens J:<member>,... say what is written on the line
		var sb strings.Builder
		for i := 0; i < n; i++ {
			text, tok := genJSONLine(r)
			if format == "jsona" {
				// array form: [ obj , obj ... ] over one or several lines
				if i == 0 {
					sb.WriteString(r.Pick([]string{"[", "[\n", " [ "}))
				}
				sb.WriteString(text)
				if i < n-1 {
					sb.WriteString(r.Pick([]string{",", ",\n", " ,\n  "}))
				} else {
					sb.WriteString(r.Pick([]string{"]", "\n]"}))
					if fin {
						sb.WriteByte('\n')
					}
				}
			} else {
				sb.WriteString(text)
				if i < n-1 || fin {
					sb.WriteByte('\n')
				}
			}
			toks = append(toks, tok)
		}
		file = []byte(sb.String())
	default:
		var ls []a07ammo.Line
		for i := 0; i < n; i++ {
			if format != "raw" && r.Chance(1, 3) {
				h := a07ammo.Line{Kind: 'H', A: "X-Verif", B: "ok:" + r.Pick(ammoStatus)}
				if r.Chance(1, 4) {
					h.VL = " "
				}
				ammoLayout(r, &h)
				ls = append(ls, h)
			}
			if r.Chance(1, 8) {
				b := a07ammo.Line{Kind: 'B'}
				ammoLayout(r, &b)
				ls = append(ls, b)
			}
			l := a07ammo.Line{Kind: 'R', B: r.Pick(ammoTags)}
			switch format {
			case "uri":
				l.A = r.Pick(ammoPaths) + r.Pick(ammoQueries)
			case "uripost":
				l.A = r.Pick(ammoPaths) + r.Pick(ammoQueries)
				l.Body = r.Pick(ammoBodies)
			case "raw":
				body := r.Pick(ammoBodies)
				l.Body = fmt.Sprintf("POST %s HTTP/1.1\r\nHost: h\r\nX-Verif: ok:%s\r\nContent-Length: %d\r\n\r\n%s",
					r.Pick(ammoPaths)+r.Pick(ammoQueries), r.Pick(ammoStatus), len(body), body)
			}
			ammoLayout(r, &l)
			ls = append(ls, l)
		}
		if format == "uri" {
			file = a07ammo.RenderURI(ls, fin)
		} else {
			file = a07ammo.RenderSized(ls, fin, format == "uripost")
		}
		for _, l := range ls {
			toks = append(toks, l.Token())
		}
	}
	kf := fmt.Sprint(passes*n + 1)
	if r.Chance(1, 3) {
		// concurrently shooting instances; more passes so that they overlap
		kf = fmt.Sprintf("%dx%d", r.Range(2, 6)*n+1, r.Range(2, 8))
	}
	return fmt.Sprintf("ammo %s %s %d %s %s %s %s %s", format, vh.B(r.Chance(1, 2)), r.Intn(3), vh.B(r.Bool()),
		kf, vh.B(fin), vh.Hex(file), strings.Join(toks, " "))
}

// genJSONLine: one line of an http/json file as a list of object members.
// token members: h.<host> m.<method> u.<uri> t.<tag> b.<body> H.<k>=<v>;... (H.- = empty object)
// o.<key> (a member that stores nothing: unknown key or null value); all values hex.
func genJSONLine(r *vh.Rand) (string, string) {
	type member struct{ text, tok string }
	js := func(v string) string { b, _ := json.Marshal(v); return string(b) }
	key := func(k string) string {
		// encoding/json matches field names case-insensitively
		switch r.Intn(8) {
		case 0:
			return strings.ToUpper(k[:1]) + k[1:]
		case 1:
			return strings.ToUpper(k)
		}
		return k
	}
	str := func(k, letter, v string) member { return member{js(key(k)) + ":" + js(v), letter + "." + vh.HexS(v)} }
	ignoredKeys := []string{"tags", "comment", "ta", "tag_", "id", "header"}
	method := r.Pick([]string{"GET", "POST"})
	ms := []member{
		str("host", "h", r.Pick([]string{"ya.net", "h", "example.com:8080"})),
		str("method", "m", method),
		str("uri", "u", r.Pick(ammoPaths)+r.Pick(ammoQueries)),
	}
	// tag: written (2/3 of them non-empty), absent, null, or only a near-miss key
	switch r.Intn(6) {
	case 0, 1, 2:
		ms = append(ms, str("tag", "t", r.Pick(ammoTags[2:])))
		if r.Chance(1, 6) {
			// written twice: the last one counts
			ms = append(ms, str("tag", "t", r.Pick(ammoTags)))
		}
	case 3:
		if r.Chance(1, 3) {
			ms = append(ms, str("tag", "t", ""))
		}
	case 4:
		ms = append(ms, member{js(key("tag")) + ":null", "o." + vh.HexS("tag")})
	case 5:
		k := r.Pick(ignoredKeys)
		ms = append(ms, member{js(k) + ":" + js(r.Pick(ammoTags[2:])), "o." + vh.HexS(k)})
	}
	// headers: choose the answered status, or empty object / null / absent
	switch r.Intn(6) {
	case 0, 1, 2:
		v := "ok:" + r.Pick(ammoStatus)
		ms = append(ms, member{js(key("headers")) + ":{" + js("X-Verif") + ":" + js(v) + "}", "H." + vh.HexS("X-Verif") + "=" + vh.HexS(v)})
	case 3:
		ms = append(ms, member{js(key("headers")) + ":{}", "H.-"})
	case 4:
		ms = append(ms, member{js(key("headers")) + ":null", "o." + vh.HexS("headers")})
	}
	if method == "POST" {
		if r.Chance(3, 4) {
			ms = append(ms, str("body", "b", r.Pick(ammoBodies)))
		}
	} else if r.Chance(1, 5) {
		ms = append(ms, str("body", "b", ""))
	}
	if r.Chance(1, 6) {
		k := r.Pick(ignoredKeys)
		ms = append(ms, member{js(k) + ":" + r.Pick([]string{"1", "\"x\"", "[1,2]", "{\"tag\":\"in\"}", "true"}), "o." + vh.HexS(k)})
	}
	if r.Chance(1, 2) {
		// any order of the members (the relative order of the two tag members is part of the token)
		for i := len(ms) - 1; i > 0; i-- {
			j := r.Intn(i + 1)
			ms[i], ms[j] = ms[j], ms[i]
		}
	}
	var texts, toks []string
	for _, m := range ms {
		texts = append(texts, m.text)
		toks = append(toks, m.tok)
	}
	sep := r.Pick([]string{",", ",", ", ", " , "})
	return "{" + strings.Join(texts, sep) + "}", "J:" + strings.Join(toks, ",")
}

func genAmmo(r *vh.Rand, tier string) []string {
	n := 30
	if tier == "thorough" {
		n = 1200
	}
	var out []string
	for i := 0; i < n; i++ {
		// json twice: the members of a line are a dimension of their own
		for _, format := range []string{"uri", "uripost", "raw", "json", "json", "jsona"} {
			out = append(out, genAmmoCase(r, format))
		}
	}
	return out
}
