// Content cells of hC14: the same two providers (preload off / on), observed at the level of
// the CONTENT of every acquired ammo — tag as a byte string, Host and header set in force at
// the entry's own line — on files whose tags are arbitrary byte strings (embedded blanks, tabs,
// UTF-8, brackets, confusable prefixes) and that carry header lines between the entries.
//
// Case line:
//
//	cpair <kind> <limit> <passes> <cfg> <items> <chosen> <cancel> <eof>
//
//	<cfg>    "-" or comma separated K.V (hex key . hex value): the provider's `headers:` option
//	<items>  comma separated, in file order: h<K>.<V> = a header line (hex key, hex value) in force
//	         for the entries after it until the end of the pass; e<tag> = an entry with that tag
//	         (hex; bare "e" = untagged). Entry i is the i-th e item (URI /e<i>).
//	<chosen> "-" (no filter) or comma separated t<tag> (hex; bare "t" = the empty tag)
//
// How a header item reaches the file: uri/uripost `[K: v]` lines (the decoder's running header
// map); raw: header lines of the request bytes of the entries below it; jsonline: the "headers"
// object of the entities below it.
//
// Observation: S <count> <seq> <closed|blocked> <run> P <count> <seq> <closed|blocked> <run>,
// seq item = <idx>/<tag>/<host>/<k=v;k=v…> (hex, "-" = empty; headers sorted by key; raw: without
// Content-Length), prefixed by x when method or body differ from what the file says.
package main

import (
	"encoding/json"
	"fmt"
	"io"
	"sort"
	"strconv"
	"strings"
	"sync"

	"github.com/spf13/afero"
	phttp "github.com/yandex/pandora/components/providers/http"
	httpammo "github.com/yandex/pandora/components/providers/http/ammo"
	"github.com/yandex/pandora/components/providers/http/config"
	"github.com/yandex/pandora/core"

	"verifharness/internal/a08"
	"verifharness/internal/vh"
)

type kv struct{ k, v string }

type citem struct {
	hdr  bool
	k, v string // header item
	tag  string // entry item
}

func parseKV(s string) kv {
	i := strings.IndexByte(s, '.')
	if i < 0 {
		return kv{string(vh.UnHex(s)), ""}
	}
	return kv{string(vh.UnHex(s[:i])), string(vh.UnHex(s[i+1:]))}
}

func parseItems(s string) []citem {
	if s == "-" || s == "" {
		return nil
	}
	var out []citem
	for _, f := range strings.Split(s, ",") {
		if f == "" {
			continue
		}
		switch f[0] {
		case 'h':
			p := parseKV(f[1:])
			out = append(out, citem{hdr: true, k: p.k, v: p.v})
		case 'e':
			out = append(out, citem{tag: string(vh.UnHex(f[1:]))})
		}
	}
	return out
}

// hset: the running header state as the file writer sees it (last value of a key wins, keys
// compared as written — the vocabulary never spells one canonical key in two ways)
func hset(h []kv, k, v string) []kv {
	out := append([]kv(nil), h...)
	for i := range out {
		if out[i].k == k {
			out[i].v = v
			return out
		}
	}
	return append(out, kv{k, v})
}

func cfile(kind string, items []citem, eof int) (name, content string, nEntries int) {
	var b strings.Builder
	var cur []kv
	idx := 0
	jsonEnt := func(tag string) string {
		m := map[string]any{"host": "h", "method": "POST", "uri": "/e" + strconv.Itoa(idx), "tag": tag, "body": "jb" + strconv.Itoa(idx)}
		if len(cur) > 0 {
			hm := map[string]string{}
			for _, p := range cur {
				hm[p.k] = p.v
			}
			m["headers"] = hm
		}
		bs, _ := json.Marshal(m)
		return string(bs)
	}
	first := true
	for _, it := range items {
		if it.hdr {
			cur = hset(cur, it.k, it.v)
			if kind == "uri" || kind == "uripost" {
				fmt.Fprintf(&b, "[%s: %s]\n", it.k, it.v)
			}
			continue
		}
		switch kind {
		case "uri":
			if it.tag == "" {
				fmt.Fprintf(&b, "/e%d\n", idx)
			} else {
				fmt.Fprintf(&b, "/e%d %s\n", idx, it.tag)
			}
		case "uripost":
			body := "body" + strconv.Itoa(idx)
			if it.tag == "" {
				fmt.Fprintf(&b, "%d /e%d\n%s\n", len(body), idx, body)
			} else {
				fmt.Fprintf(&b, "%d /e%d %s\n%s\n", len(body), idx, it.tag, body)
			}
		case "raw":
			body := "rb" + strconv.Itoa(idx)
			var hl strings.Builder
			for _, p := range cur {
				fmt.Fprintf(&hl, "%s: %s\r\n", p.k, p.v)
			}
			req := fmt.Sprintf("POST /e%d HTTP/1.1\r\nHost: h\r\n%sContent-Length: %d\r\n\r\n%s", idx, hl.String(), len(body), body)
			hdr := strconv.Itoa(len(req))
			if it.tag != "" {
				hdr += " " + it.tag
			}
			fmt.Fprintf(&b, "%s\n%s\n", hdr, req)
		case "jsonl":
			b.WriteString(jsonEnt(it.tag) + "\n")
		case "jsona":
			if first {
				b.WriteString("[")
			} else {
				b.WriteString(",\n")
			}
			b.WriteString(jsonEnt(it.tag))
		}
		first = false
		idx++
	}
	if kind == "jsona" {
		if first {
			b.WriteString("[")
		}
		b.WriteString("]\n")
	}
	content = b.String()
	switch eof % a08.EOFLayouts {
	case 1:
		content = strings.TrimSuffix(content, "\n")
	case 2:
		content = strings.TrimSuffix(content, "\n") + " \t \r"
	case 3:
		content = content + "\n  \n\t\n"
	}
	return "/ammo." + kind, content, idx
}

func hexOrDash(s string) string { return vh.HexS(s) }

// contentOf renders what a gun would see of one acquired ammo.
func contentOf(kind string, a core.Ammo) string {
	ga, ok := a.(httpammo.GunAmmo)
	if !ok {
		return "x?/-/-/-"
	}
	req, sample := ga.Request()
	if req == nil || req.URL == nil {
		return "x?/-/-/-"
	}
	idx := -1
	if strings.HasPrefix(req.URL.Path, "/e") {
		if v, err := strconv.Atoi(req.URL.Path[2:]); err == nil {
			idx = v
		}
	}
	var body []byte
	if req.Body != nil {
		body, _ = io.ReadAll(req.Body)
		_ = req.Body.Close()
	}
	method, wantBody := a08.ExpectedHTTP(kind, a08.Entry{Idx: idx})
	pre := ""
	if idx < 0 || req.Method != method || string(body) != wantBody {
		pre = "x"
	}
	keys := make([]string, 0, len(req.Header))
	for k := range req.Header {
		if kind == "raw" && k == "Content-Length" {
			continue
		}
		keys = append(keys, k)
	}
	sort.Strings(keys)
	hs := "-"
	if len(keys) > 0 {
		parts := make([]string, len(keys))
		for i, k := range keys {
			parts[i] = hexOrDash(k) + "=" + hexOrDash(strings.Join(stampless(req.Header[k]), "\x00"))
		}
		hs = strings.Join(parts, ";")
	}
	return fmt.Sprintf("%s%d/%s/%s/%s", pre, idx, hexOrDash(sample.Tags()), hexOrDash(req.Host), hs)
}

func runContentOne(kind string, preload bool, limit, passes int, cfg []kv, items []citem, chosen []string, cancel, eof int, mws []mwSpec, deadline bool) (out string) {
	defer func() {
		if r := recover(); r != nil {
			out = "0 - blocked panic"
		}
	}()
	var fs afero.Fs = afero.NewMemMapFs()
	name, content, n := cfile(kind, items, eof)
	if err := afero.WriteFile(fs, name, []byte(content), 0644); err != nil {
		return "0 - closed construct"
	}
	if hasOpt(mws, 'C') {
		fs = closeFailFs{fs}
	}
	dec := map[string]config.DecoderType{"uri": config.DecoderURI, "uripost": config.DecoderURIPost,
		"raw": config.DecoderRaw, "jsonl": config.DecoderJSONLine, "jsona": config.DecoderJSONLine}[kind]
	var hdrs []string
	for _, p := range cfg {
		hdrs = append(hdrs, "["+p.k+": "+p.v+"]")
	}
	conf := config.Config{Decoder: dec, File: name, Limit: uint(limit), Passes: uint(passes),
		Preload: preload, ChosenCases: chosen, Headers: hdrs, Middlewares: buildMiddlewares(mws)}
	if hasOpt(mws, 'U') && kind == "uri" {
		// the `uris:` option: the lines of the uri file given inline instead of `file:`
		conf.File = ""
		conf.Uris = strings.Split(strings.TrimSuffix(content, "\n"), "\n")
	}
	p, err := phttp.NewProvider(fs, conf)
	if err != nil {
		return "0 - closed construct"
	}
	var mu sync.Mutex
	var seen []string
	b := &a08.Built{P: p}
	b.Ident = func(a core.Ammo) int {
		c := contentOf(kind, a)
		p.Release(a) // what an instance does with every ammo after the shot (core/engine/instance.go)
		mu.Lock()
		defer mu.Unlock()
		seen = append(seen, c)
		return len(seen) - 1
	}
	o := a08.ObserveOpt(b, 1, cancel, limit+passes*n+1000, a08.ObsOpts{Deadline: deadline})
	mu.Lock()
	defer mu.Unlock()
	s := "-"
	if len(o.Seq) > 0 {
		parts := make([]string, len(o.Seq))
		for i, v := range o.Seq {
			if v >= 0 && v < len(seen) {
				parts[i] = seen[v]
			} else {
				parts[i] = "x?/-/-/-"
			}
		}
		s = strings.Join(parts, ",")
	}
	return fmt.Sprintf("%d %s %s %s", len(o.Seq), s, o.After, o.Run)
}

func runContentCase(f []string) string {
	if !(len(f) == 9 && f[0] == "cpair") && !(len(f) == 10 && f[0] == "mpair") {
		return "unknown-case"
	}
	var mws []mwSpec
	if f[0] == "mpair" {
		mws = parseMws(f[9])
	}
	kind := f[1]
	limit, _ := strconv.Atoi(f[2])
	passes, _ := strconv.Atoi(f[3])
	var cfg []kv
	if f[4] != "-" {
		for _, s := range strings.Split(f[4], ",") {
			cfg = append(cfg, parseKV(s))
		}
	}
	items := parseItems(f[5])
	var chosen []string
	if f[6] != "-" {
		for _, s := range strings.Split(f[6], ",") {
			chosen = append(chosen, string(vh.UnHex(strings.TrimPrefix(s, "t"))))
		}
	}
	cancel := -1
	deadline := false
	if f[7] != "-" {
		// D<n>: the context ends after n items the way a context with a deadline does
		deadline = strings.HasPrefix(f[7], "D")
		cancel, _ = strconv.Atoi(strings.TrimPrefix(f[7], "D"))
	}
	eof, _ := strconv.Atoi(f[8])
	var s, p string
	var wg sync.WaitGroup
	wg.Add(2)
	go func() { defer wg.Done(); s = runContentOne(kind, false, limit, passes, cfg, items, chosen, cancel, eof, mws, deadline) }()
	go func() { defer wg.Done(); p = runContentOne(kind, true, limit, passes, cfg, items, chosen, cancel, eof, mws, deadline) }()
	wg.Wait()
	return "S " + s + " P " + p
}

// ---- generator

// tag vocabulary: byte strings a tag may be in every format (no LF, no blank at either end).
// Several are chosen so that a sloppy treatment confuses them: first word / last word / prefix /
// case / a different blank inside.
var tagVocab = []string{
	"", "t1", "T1", "t11", "t1 x", "x t1", "t1  x", "t1\tx", "t1 x y", "case two", "täg", "[t]", "a:b", "2", "t1,x",
}

var hdrKeys = []string{"X-Stage", "Cookie", "x-lower", "Host"}
var hdrVals = []string{"one", "two", "three", "two words", "session=2; a=b", "h2.example.org"}

func citemsString(items []citem) string {
	if len(items) == 0 {
		return "-"
	}
	parts := make([]string, len(items))
	for i, it := range items {
		if it.hdr {
			parts[i] = "h" + vh.HexS(it.k) + "." + vh.HexS(it.v)
		} else if it.tag == "" {
			parts[i] = "e"
		} else {
			parts[i] = "e" + vh.HexS(it.tag)
		}
	}
	return strings.Join(parts, ",")
}

func chosenString(ch []string, filter bool) string {
	if !filter {
		return "-"
	}
	parts := make([]string, len(ch))
	for i, t := range ch {
		if t == "" {
			parts[i] = "t"
		} else {
			parts[i] = "t" + vh.HexS(t)
		}
	}
	return strings.Join(parts, ",")
}

func cfgString(cfg []kv) string {
	if len(cfg) == 0 {
		return "-"
	}
	parts := make([]string, len(cfg))
	for i, p := range cfg {
		parts[i] = vh.HexS(p.k) + "." + vh.HexS(p.v)
	}
	return strings.Join(parts, ",")
}

func cmatches(items []citem, ch []string, filter bool) int {
	n := 0
	for _, it := range items {
		if it.hdr {
			continue
		}
		if !filter {
			n++
			continue
		}
		for _, c := range ch {
			if c == it.tag {
				n++
				break
			}
		}
	}
	return n
}

func genContent(r *vh.Rand, tier string) []string {
	var out []string
	add := func(kind string, limit, passes int, cfg []kv, items []citem, ch []string, filter bool) {
		cancel := "-"
		if limit == 0 && passes == 0 {
			cancel = strconv.Itoa(2*cmatches(items, ch, filter) + 1)
		}
		out = append(out, fmt.Sprintf("cpair %s %d %d %s %s %s %s %d", kind, limit, passes, cfgString(cfg),
			citemsString(items), chosenString(ch, filter), cancel, len(out)%a08.EOFLayouts))
	}
	uriLike := func(kind string) bool { return kind == "uri" || kind == "uripost" }
	E := func(t string) citem { return citem{tag: t} }
	H := func(k, v string) citem { return citem{hdr: true, k: k, v: v} }
	// enumerated part: every kind x a few structured files x filters naming a whole tag, its first
	// word, its last word, a prefix x bounds
	files := [][]citem{
		// header lines after entries: every entry must keep the state of its own line
		{H("X-Stage", "one"), E("t1"), H("X-Stage", "two"), H("Cookie", "session=2; a=b"), E("t1 x"), E("t1"), H("X-Stage", "three"), E("x t1")},
		// tags that share words
		{E("t1 x"), E("t1"), E("t1  x"), E("x t1"), E("t1 x y"), E("t1\tx")},
		// no header before the first entry, untagged entries, a header overwritten twice
		{E(""), H("x-lower", "one"), E("case two"), H("x-lower", "two words"), E(""), H("x-lower", "three"), E("case two")},
	}
	filters := [][]string{nil, {"t1"}, {"t1 x"}, {"x t1", "t1  x"}, {"case two"}, {"x"}, {"case"}, {"t1\tx", ""}}
	bounds := [][2]int{{0, 1}, {0, 2}, {3, 0}, {5, 2}, {0, 0}}
	cfgs := [][]kv{nil, {{"X-Cfg", "c"}, {"X-Stage", "cfg"}}}
	for _, kind := range a08.HTTPKinds {
		for fi, items := range files {
			for ci, ch := range filters {
				for bi, lp := range bounds {
					if tier != "thorough" && (fi+ci+bi)%2 == 1 {
						continue
					}
					cfg := cfgs[(fi+ci+bi)%len(cfgs)]
					if !uriLike(kind) {
						cfg = nil
					}
					add(kind, lp[0], lp[1], cfg, items, ch, ch != nil)
				}
			}
		}
	}
	extra := 150
	if tier == "thorough" {
		extra = 3000
	}
	for i := 0; i < extra; i++ {
		kind := a08.HTTPKinds[r.Intn(len(a08.HTTPKinds))]
		// a small pool of tags for this file so that the filter often matches some and not others
		pool := make([]string, r.Range(1, 4))
		for j := range pool {
			pool[j] = tagVocab[r.Intn(len(tagVocab))]
		}
		nEnt := r.Range(1, 7)
		var items []citem
		for e := 0; e < nEnt; {
			if r.Chance(2, 5) {
				k := hdrKeys[r.Intn(len(hdrKeys))]
				if k == "Host" && !uriLike(kind) {
					k = "X-Stage"
				}
				items = append(items, H(k, hdrVals[r.Intn(len(hdrVals))]))
				continue
			}
			items = append(items, E(pool[r.Intn(len(pool))]))
			e++
		}
		if r.Chance(1, 4) { // a header line after the last entry
			items = append(items, H("X-Stage", hdrVals[r.Intn(len(hdrVals))]))
		}
		filter := r.Chance(3, 4)
		var ch []string
		if filter {
			for j := r.Range(1, 3); j > 0; j-- {
				if r.Chance(2, 3) {
					ch = append(ch, pool[r.Intn(len(pool))])
				} else {
					ch = append(ch, tagVocab[r.Intn(len(tagVocab))])
				}
			}
		}
		var cfg []kv
		if uriLike(kind) && r.Chance(1, 3) {
			cfg = append(cfg, kv{"X-Cfg", "c"})
			if r.Bool() {
				cfg = append(cfg, kv{hdrKeys[r.Intn(3)], "cfg"})
			}
		}
		add(kind, r.PickInt([]int{0, 0, 1, 2, 3, 5, 9}), r.PickInt([]int{0, 0, 1, 2, 3}), cfg, items, ch, filter)
	}
	return out
}
