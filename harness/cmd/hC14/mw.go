// Middleware cells of hC14: the content cells of content.go with the provider's `middlewares:`
// option set. Provider.Acquire builds a request from the ammo object and lets every configured
// middleware update it; with preload (and in the jsonline array form) the SAME ammo object is
// handed out again on every later pass, so whatever a middleware does to the request must stay
// in the request.
//
// Case line:
//
//	mpair <kind> <limit> <passes> <cfg> <items> <chosen> <cancel> <eof> <mws>
//
//	<mws>  "-" or comma separated, applied in this order to every acquired request:
//	       d<name>    the REAL built-in header/date middleware with HeaderName <name> (hex; bare d =
//	                  its default, "Date"): req.Header.Add(name, now)
//	       a<K>.<V>   a middleware doing req.Header.Add(K, V)      (hex key . hex value)
//	       s<K>.<V>   a middleware doing req.Header.Set(K, V)
//	       x<K>       a middleware doing req.Header.Del(K)
//	       I          a middleware whose InitMiddleware fails (Run must end with that error on both paths)
//	       C          not a middleware: Close of the ammo file fails (Run must report it on both paths)
//	       U          not a middleware, kind uri only: the lines of the file are given by the `uris:` option
//	                  instead of `file:` (there is no file to close: C has no effect then)
//
//	<cancel> may be D<n>: after n items the context ends the way a context with a deadline does
//	(Err() = context.DeadlineExceeded); Run must return that error ("deadline") on both paths.
//
// Observation as for cpair; a header value that is a time stamp in http.TimeFormat is rendered as
// the single byte "D" (no wall-clock values in observations), several values of one key are joined
// by a NUL byte.
package main

import (
	"context"
	"errors"
	"fmt"
	"net/http"
	"strconv"
	"strings"

	"github.com/spf13/afero"
	"github.com/yandex/pandora/components/providers/http/middleware"
	"github.com/yandex/pandora/components/providers/http/middleware/headerdate"
	"go.uber.org/zap"

	"verifharness/internal/a08"
	"verifharness/internal/vh"
)

type mwSpec struct {
	op   byte // d a s x I
	k, v string
}

func parseMws(s string) []mwSpec {
	if s == "-" || s == "" {
		return nil
	}
	var out []mwSpec
	for _, f := range strings.Split(s, ",") {
		if f == "" {
			continue
		}
		switch f[0] {
		case 'd':
			out = append(out, mwSpec{op: 'd', k: string(vh.UnHex(orDash(f[1:])))})
		case 'a', 's':
			p := parseKV(f[1:])
			out = append(out, mwSpec{op: f[0], k: p.k, v: p.v})
		case 'x':
			out = append(out, mwSpec{op: 'x', k: string(vh.UnHex(orDash(f[1:])))})
		case 'I', 'C', 'U':
			out = append(out, mwSpec{op: f[0]})
		}
	}
	return out
}

func orDash(s string) string {
	if s == "" {
		return "-"
	}
	return s
}

func mwsString(mws []mwSpec) string {
	if len(mws) == 0 {
		return "-"
	}
	parts := make([]string, len(mws))
	for i, m := range mws {
		switch m.op {
		case 'd':
			parts[i] = "d"
			if m.k != "" {
				parts[i] += vh.HexS(m.k)
			}
		case 'a', 's':
			parts[i] = string(m.op) + vh.HexS(m.k) + "." + vh.HexS(m.v)
		case 'x':
			parts[i] = "x" + vh.HexS(m.k)
		default:
			parts[i] = string(m.op)
		}
	}
	return strings.Join(parts, ",")
}

// opMiddleware: a user middleware (the interface is public) that edits the headers of the request it is given.
type opMiddleware struct{ m mwSpec }

func (o *opMiddleware) InitMiddleware(ctx context.Context, log *zap.Logger) error {
	if o.m.op == 'I' {
		return errors.New("verif: middleware refuses to start")
	}
	return nil
}

func (o *opMiddleware) UpdateRequest(req *http.Request) error {
	switch o.m.op {
	case 'a':
		req.Header.Add(o.m.k, o.m.v)
	case 's':
		req.Header.Set(o.m.k, o.m.v)
	case 'x':
		req.Header.Del(o.m.k)
	}
	return nil
}

func buildMiddlewares(mws []mwSpec) []middleware.Middleware {
	var out []middleware.Middleware
	for _, m := range mws {
		if m.op == 'C' || m.op == 'U' {
			continue // not middlewares: the ammo file's Close fails / the uri lines are given inline
		}
		if m.op == 'd' {
			d, err := headerdate.NewMiddleware(headerdate.Config{HeaderName: m.k})
			if err != nil {
				panic(err)
			}
			out = append(out, d)
			continue
		}
		out = append(out, &opMiddleware{m: m})
	}
	return out
}

func hasOpt(mws []mwSpec, op byte) bool {
	for _, m := range mws {
		if m.op == op {
			return true
		}
	}
	return false
}

// closeFailFs: files opened through it read like the underlying ones; their Close reports an error.
type closeFailFs struct{ afero.Fs }

type closeFailFile struct{ afero.File }

var errCloseFails = errors.New("verif: close fails")

func (f closeFailFs) Open(name string) (afero.File, error) {
	fl, err := f.Fs.Open(name)
	if err != nil {
		return nil, err
	}
	return closeFailFile{fl}, nil
}

func (f closeFailFile) Close() error {
	_ = f.File.Close()
	return errCloseFails
}

// stampless replaces every value that is a time stamp in http.TimeFormat by "D".
func stampless(vs []string) []string {
	out := make([]string, len(vs))
	for i, v := range vs {
		if _, err := http.ParseTime(v); err == nil {
			out[i] = "D"
		} else {
			out[i] = v
		}
	}
	return out
}

func genMw(r *vh.Rand, tier string) []string {
	var out []string
	unbounded := 0
	add := func(kind string, limit, passes int, cfg []kv, items []citem, ch []string, filter bool, mws []mwSpec) {
		cancel := "-"
		if limit == 0 && passes == 0 {
			cancel = strconv.Itoa(2*cmatches(items, ch, filter) + 1)
			if unbounded++; unbounded%2 == 1 {
				cancel = "D" + cancel
			}
		}
		if kind == "uri" && len(out)%5 == 2 && !hasOpt(mws, 'U') {
			mws = append(append([]mwSpec(nil), mws...), mwSpec{op: 'U'})
		} else if len(out)%7 == 3 && !hasOpt(mws, 'C') {
			mws = append(append([]mwSpec(nil), mws...), mwSpec{op: 'C'})
		}
		out = append(out, fmt.Sprintf("mpair %s %d %d %s %s %s %s %d %s", kind, limit, passes, cfgString(cfg),
			citemsString(items), chosenString(ch, filter), cancel, len(out)%a08.EOFLayouts, mwsString(mws)))
	}
	uriLike := func(kind string) bool { return kind == "uri" || kind == "uripost" }
	E := func(t string) citem { return citem{tag: t} }
	H := func(k, v string) citem { return citem{hdr: true, k: k, v: v} }
	D := func(name string) mwSpec { return mwSpec{op: 'd', k: name} }
	A := func(k, v string) mwSpec { return mwSpec{op: 'a', k: k, v: v} }
	S := func(k, v string) mwSpec { return mwSpec{op: 's', k: k, v: v} }
	X := func(k string) mwSpec { return mwSpec{op: 'x', k: k} }
	files := [][]citem{
		// header lines, no Host
		{H("X-Stage", "one"), E("t1"), H("Cookie", "session=2; a=b"), E("t2"), E("t1"), H("X-Stage", "three"), E("t1")},
		// no header line at all
		{E("t1"), E(""), E("t1")},
		// a Host line and one more header
		{H("Host", "h2.example.org"), H("x-lower", "one"), E("t1"), E("t2"), H("x-lower", "two words"), E("t1")},
	}
	mwLists := [][]mwSpec{
		{D("X-Stamp")},
		{D("")},
		{A("X-Mw", "m1"), D("X-Stamp")},
		{A("X-Stage", "mw")},
		{S("X-Stage", "mw"), A("X-Stage", "again")},
		{X("Cookie"), A("cookie", "k=v")},
		{D("X-Stamp"), D("X-Stamp")},
		{A("x-lower", "v"), X("X-Stage")},
		{{op: 'I'}},
		{D("X-Stamp"), {op: 'I'}},
	}
	filters := [][]string{nil, {"t1"}, {"t2", ""}, {"nowhere"}}
	bounds := [][2]int{{0, 2}, {0, 3}, {5, 0}, {4, 2}, {0, 0}, {0, 1}}
	cfgs := [][]kv{nil, {{"X-Cfg", "c"}}, {{"X-Cfg", "c"}, {"X-Stage", "cfg"}}}
	n := 0
	for _, kind := range a08.HTTPKinds {
		for fi, items := range files {
			if fi == 2 && !uriLike(kind) {
				items = items[1:] // a Host header item is for the uri-like kinds only
			}
			for mi, mws := range mwLists {
				for bi, lp := range bounds {
					n++
					if tier != "thorough" && (fi+mi+bi)%3 != 0 {
						continue
					}
					ch := filters[(n/3)%len(filters)]
					var cfg []kv
					if uriLike(kind) {
						cfg = cfgs[(n/7)%len(cfgs)]
					}
					add(kind, lp[0], lp[1], cfg, items, ch, ch != nil, mws)
				}
			}
		}
	}
	extra := 150
	if tier == "thorough" {
		extra = 3000
	}
	mwKeys := []string{"X-Stamp", "X-Stage", "Cookie", "x-lower", "X-Mw", "X-Cfg"}
	for i := 0; i < extra; i++ {
		kind := a08.HTTPKinds[r.Intn(len(a08.HTTPKinds))]
		pool := []string{"t1", tagVocab[r.Intn(len(tagVocab))]}
		nEnt := r.Range(1, 5)
		var items []citem
		hostOK := uriLike(kind) && r.Chance(1, 4)
		for e := 0; e < nEnt; {
			if r.Chance(2, 5) {
				k := hdrKeys[r.Intn(len(hdrKeys))]
				if k == "Host" && !hostOK {
					k = "X-Stage"
				}
				items = append(items, H(k, hdrVals[r.Intn(len(hdrVals))]))
				continue
			}
			items = append(items, E(pool[r.Intn(len(pool))]))
			e++
		}
		filter := r.Chance(1, 2)
		var ch []string
		if filter {
			ch = append(ch, pool[r.Intn(len(pool))])
			if r.Chance(1, 3) {
				ch = append(ch, tagVocab[r.Intn(len(tagVocab))])
			}
		}
		var cfg []kv
		if uriLike(kind) && r.Chance(1, 3) {
			cfg = append(cfg, kv{"X-Cfg", "c"})
			if r.Bool() {
				cfg = append(cfg, kv{hdrKeys[r.Intn(3)], "cfg"})
			}
		}
		var mws []mwSpec
		for j := r.Range(1, 3); j > 0; j-- {
			k := mwKeys[r.Intn(len(mwKeys))]
			switch r.Intn(8) {
			case 0, 1, 2:
				if r.Chance(1, 4) {
					k = ""
				}
				mws = append(mws, D(k))
			case 3, 4:
				mws = append(mws, A(k, hdrVals[r.Intn(3)]))
			case 5:
				mws = append(mws, S(k, hdrVals[r.Intn(3)]))
			case 6:
				mws = append(mws, X(k))
			default:
				if r.Chance(1, 3) {
					mws = append(mws, mwSpec{op: 'I'})
				} else {
					mws = append(mws, D("X-Stamp"))
				}
			}
		}
		// mostly bounds under which an entry is delivered more than once
		add(kind, r.PickInt([]int{0, 0, 0, 3, 7, 12}), r.PickInt([]int{0, 2, 2, 3, 1}), cfg, items, ch, filter, mws)
	}
	return out
}
