// hC14: correspondence harness for property C14 (preload is behaviour-preserving; chosencases
// selects exactly the listed tags).
//
// Case line:
//
//	pair <kind> <limit> <passes> <tags> <chosen> <cancel> [<eof layout 0..3>]
//
// kind: uri uripost raw jsonl jsona. <tags>: comma separated tag id of every entry of the file
// (0 = untagged, t => "t<t>"; "-" = a file without entries). <chosen>: "-" (no filter) or comma
// separated tag ids (may repeat, may name tags that do not occur, may contain 0 = the empty tag,
// which selects the untagged entries). <cancel>: "-" or the number of items after which the context
// is cancelled (always set when limit=passes=0 and something matches).
//
// Both providers (preload off and on) are built from the same file by the public constructor
// and observed by one consumer that reads every request body like a gun does. Observation:
//
//	S <count> <seq> <closed|blocked> <run> P <count> <seq> <closed|blocked> <run>
//
// seq item: entry index, or x<idx> when method/path/body/tag differ from what the file says.
package main

import (
	"fmt"
	"os"
	"strconv"
	"strings"
	"sync"

	"verifharness/internal/a08"
	"verifharness/internal/vh"
)

// tagName: distinct ids are distinct tags; some are chosen so that a sloppy comparison (prefix,
// case-insensitive) would confuse them: 4 = "T1" (vs 1 = "t1"), 11 = "t11" (vs 1 = "t1").
func tagName(id int) string {
	switch id {
	case 0:
		return ""
	case 4:
		return "T1"
	}
	return "t" + strconv.Itoa(id)
}

func ints(s string) []int {
	if s == "-" || s == "" {
		return nil
	}
	var out []int
	for _, f := range strings.Split(s, ",") {
		v, _ := strconv.Atoi(f)
		out = append(out, v)
	}
	return out
}

func obsString(o a08.Obs) string {
	s := "-"
	if len(o.Seq) > 0 {
		parts := make([]string, len(o.Seq))
		for i, v := range o.Seq {
			switch {
			case v <= -1000:
				parts[i] = "x" + strconv.Itoa(-1000-v)
			case v < 0:
				parts[i] = "x"
			default:
				parts[i] = strconv.Itoa(v)
			}
		}
		s = strings.Join(parts, ",")
	}
	return fmt.Sprintf("%d %s %s %s", len(o.Seq), s, o.After, o.Run)
}

func runOne(kind string, preload bool, limit, passes int, es []a08.Entry, chosen []string, cancel int, eof int) (out string) {
	defer func() {
		if r := recover(); r != nil {
			out = "0 - blocked panic"
		}
	}()
	b, err := a08.BuildEOF(kind, preload, limit, passes, es, chosen, eof)
	if err != nil {
		return "0 - closed construct" // the constructor refused the file
	}
	b.Ident = b.Full
	return obsString(a08.Observe(b, 1, cancel, limit+passes*len(es)+1000))
}

func runCase(c string) string {
	f := strings.Split(c, " ")
	if f[0] == "cpair" || f[0] == "mpair" {
		return runContentCase(f)
	}
	if (len(f) != 7 && len(f) != 8) || f[0] != "pair" {
		return "unknown-case"
	}
	eof := 0
	if len(f) == 8 {
		eof, _ = strconv.Atoi(f[7])
	}
	kind := f[1]
	limit, _ := strconv.Atoi(f[2])
	passes, _ := strconv.Atoi(f[3])
	var es []a08.Entry
	for i, t := range ints(f[4]) {
		es = append(es, a08.Entry{Idx: i, Tag: tagName(t)})
	}
	var chosen []string
	for _, t := range ints(f[5]) {
		chosen = append(chosen, tagName(t))
	}
	cancel := -1
	if f[6] != "-" {
		cancel, _ = strconv.Atoi(f[6])
	}
	var s, p string
	var wg sync.WaitGroup
	wg.Add(2)
	go func() { defer wg.Done(); s = runOne(kind, false, limit, passes, es, chosen, cancel, eof) }()
	go func() { defer wg.Done(); p = runOne(kind, true, limit, passes, es, chosen, cancel, eof) }()
	wg.Wait()
	return "S " + s + " P " + p
}

func joinInts(xs []int) string {
	if len(xs) == 0 {
		return "-"
	}
	p := make([]string, len(xs))
	for i, v := range xs {
		p[i] = strconv.Itoa(v)
	}
	return strings.Join(p, ",")
}

func matches(tags, chosen []int) int {
	if len(chosen) == 0 {
		return len(tags)
	}
	n := 0
	for _, t := range tags {
		for _, c := range chosen {
			if c == t {
				n++
				break
			}
		}
	}
	return n
}

func gen(r *vh.Rand, tier string) []string {
	var out []string
	add := func(kind string, limit, passes int, tags, chosen []int) {
		cancel := "-"
		if limit == 0 && passes == 0 {
			// unbounded: read a few items and cancel (also when nothing matches: then nothing can be read)
			cancel = strconv.Itoa(2*matches(tags, chosen) + 1)
		}
		// the end-of-file layout (a08.EOFLayouts) rotates over the cells; the entries do not change
		out = append(out, fmt.Sprintf("pair %s %d %d %s %s %s %d", kind, limit, passes, joinInts(tags), joinInts(chosen), cancel, len(out)%a08.EOFLayouts))
	}
	files := [][]int{{1}, {2, 1, 1}, {1, 2, 1, 2}, {1, 0, 2, 1, 3}, {11, 1, 4, 1}, {3, 1, 2, 2, 1, 3}}
	filters := [][]int{nil, {1}, {2}, {2, 1}, {1, 2, 1}, {9}, {3, 9, 1}, {11}, {4, 2}, {0}, {0, 2}}
	limits := []int{0, 1, 2, 3, 5}
	passesL := []int{0, 1, 2}
	if tier != "thorough" {
		files = files[:5]
	}
	for _, kind := range a08.HTTPKinds {
		for _, tags := range files {
			for _, ch := range filters {
				for _, l := range limits {
					for _, p := range passesL {
						if tier != "thorough" && (l == 5 || (l == 3 && p == 2) || (l == 2 && p == 1)) && len(tags) != 4 {
							continue
						}
						add(kind, l, p, tags, ch)
					}
				}
			}
		}
	}
	// files without entries (empty / header-only / blank-only by the end-of-file layout): both paths
	// must end the same way
	for _, kind := range a08.HTTPKinds {
		for _, ch := range [][]int{nil, {1}, {0}} {
			for _, lp := range [][2]int{{0, 0}, {0, 1}, {0, 2}, {3, 0}, {2, 2}} {
				for eof := 0; eof < a08.EOFLayouts; eof++ {
					cancel := "-"
					if lp[0] == 0 && lp[1] == 0 {
						cancel = "1"
					}
					out = append(out, fmt.Sprintf("pair %s %d %d - %s %s %d", kind, lp[0], lp[1], joinInts(ch), cancel, eof))
				}
			}
		}
	}
	extra := 100
	if tier == "thorough" {
		extra = 3000
	}
	for i := 0; i < extra; i++ {
		kind := a08.HTTPKinds[r.Intn(len(a08.HTTPKinds))]
		n := r.Range(1, 8)
		tags := make([]int, n)
		for j := range tags {
			tags[j] = r.PickInt([]int{0, 1, 1, 2, 2, 3, 4, 11})
		}
		var ch []int
		for j := r.Intn(4); j > 0; j-- {
			ch = append(ch, r.PickInt([]int{0, 1, 2, 3, 4, 5, 11}))
		}
		add(kind, r.PickInt([]int{0, 0, 1, 2, 3, 5, 9, 17}), r.PickInt([]int{0, 0, 1, 2, 3, 4}), tags, ch)
	}
	out = append(out, genContent(r, tier)...)
	return append(out, genMw(r, tier)...)
}

// cells run in worker subprocesses like hC08 (a spinning provider must not disturb later cells)
func main() {
	if len(os.Args) > 1 && os.Args[1] == "worker" {
		a08.WorkerMain(runCase)
		return
	}
	vh.Main(gen, a08.RunAll)
}
